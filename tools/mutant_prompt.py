#!/usr/bin/env python3
"""Print the brief given to a fresh sub-agent asked to seed breakages of one property (it sees the property text only)."""
import json, sys
pid = sys.argv[1]
props = {json.loads(l)["id"]: json.loads(l) for l in open("/verif/properties.jsonl")}
p = props[pid]
wt = "/tmp/mut_%s" % pid
print(f"""You are given your own scratch copy of a C++ library source tree (the Parma Polyhedra Library, PPL) at {wt} (a git worktree with a complete in-tree build already present: `make -C {wt}/src -j4` rebuilds libppl incrementally after an edit (minutes); the unit tests live in {wt}/tests/<Dir>/ and are run with `make -C {wt}/tests/<Dir> check -j4`; the C interface is in {wt}/interfaces/C and its tests in {wt}/interfaces/C/tests). Work ONLY inside {wt} and your output directory /tmp/mut_out/{pid}. Do NOT read or write /verif or /repo (anything outside {wt}, /tmp/mut_out/{pid} and ordinary system headers/tools is off limits).

Here is a semantic property that the library is supposed to satisfy:

  id: {pid}
  title: {p['title']}
  statement: {p['statement']}
  quantifier: {p['quantifier']['text']}
  code anchors: {', '.join(p['anchors']['files'])}

Your task: produce TWO different realistic source changes (mutations) of the LIBRARY (files under {wt}/src or, for the C interface property, {wt}/interfaces/C/*.m4 / *.cc / *.hh; never the tests), each of which
  (a) compiles,
  (b) still passes the existing unit tests: run at least every test directory related to the code you changed (e.g. tests/Polyhedron, tests/Grid, tests/Box, tests/BD_Shape, tests/Octagonal_Shape, tests/Powerset, tests/Partially_Reduced_Product, tests/MIP_Problem, tests/PIP_Problem, tests/Concrete_Expression, tests/CO_Tree, tests/Sparse_Matrix, tests/Watchdog, tests/Ask_Tell, interfaces/C/tests) and record which ones you ran; if one of them fails because of your change, pick another change,
  (c) BREAKS the property above, but only under some specific condition (a particular lazy internal state, operand shape, history of calls, rounding case, dimension, boundary value...) - the kind of bug a maintainer could plausibly introduce by accident: an off-by-one, a missing flag reset or cache invalidation, a wrong rounding direction, a dropped check or early return, swapped operands, a wrong comparison, a missed case. NOT sabotage that fails on every input (the unit tests would catch that) and not a change of documented behaviour the tests encode.
The two mutations should touch different functions / mechanisms.

For each mutation k = 1, 2 save into /tmp/mut_out/{pid}/m<k>/ :
  - patch.diff   : `git -C {wt} diff` (must apply with `git apply` to a clean tree),
  - demo.cc      : a small standalone C++ (or C, for the C interface) program using the public API that shows the property violated: it must print PROPERTY-VIOLATED (and what was wrong) when run against the mutated library and PROPERTY-HOLDS when run against the original library; say in a comment at its top how to compile and run it against the worktree build (e.g. g++ -std=gnu++17 -I{wt}/src demo.cc {wt}/src/.libs/libppl.so -lgmpxx -lgmp, run with LD_LIBRARY_PATH={wt}/src/.libs),
  - demo.out     : its output on the original and on the mutated library,
  - meta.json    : {{"property": "{pid}", "files": [...], "summary": "...", "trigger": "what is needed for the violation to show", "tests_run": [...], "tests_passed": true}}.
After saving one mutation, restore the tree (`git -C {wt} checkout -- .`) and rebuild before starting the next. Leave the worktree clean (no diff) at the end, and finish with a short report: for each mutation the file/function changed, the trigger, the demo output lines, and the test directories run.""")
