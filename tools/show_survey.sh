#!/bin/bash
# usage: tools/show_survey.sh <work dir> [check-id substring]   -- smallest tape per check id
d=$1; pat=${2:-.}
for f in $d/*.tape.*; do id=$(grep -m1 "^# --- outcome" $f | sed 's/.*check=//'); echo "$(grep -v '^#' $f | wc -w) $f $id"; done | sort -n | awk '!seen[$3]++' | grep -- "$pat" | while read n f id; do
  echo "=== $f [$id] ($n choices)"; grep "^# [|!]" $f | cut -c1-${COLS:-400}; done
