#!/bin/bash
# usage: tools/run_mutant.sh Cnn mK [extra check ids...]
# applies seeded/Cnn/mK/patch.diff to /repo, runs ./check Cnn (and the extra checks), undoes the patch; prints a verdict line
p=$1; m=$2; shift 2
d=/verif/seeded/$p/$m
git -C /repo diff --quiet || { echo "/repo not clean"; exit 2; }
git -C /repo apply $d/patch.diff || { echo "MUTANT $p/$m: patch does not apply"; exit 2; }
res=""
for c in $p "$@"; do
  out=$(cd /verif && ./check $c 2>&1); rc=$?
  v=$(echo "$out" | grep -m1 "^VIOLATION" | cut -c1-120)
  id=$(echo "$out" | grep -m1 "check=" | sed 's/ *check=\([^ ]*\).*/\1/' | cut -c1-80)
  res="$res $c:rc=$rc:${id:-none}"
  echo "$out" | grep -v "^KNOWN-FINDING" | tail -3 | cut -c1-300 > $d/check_$c.out
  # found-* tapes written for a seeded change are not findings on the tree: move them next to the mutant
  for f in /verif/replays/$c/found-*.tape; do [ -e "$f" ] && mv "$f" $d/ ; done
done
git -C /repo checkout -- .
echo "MUTANT $p/$m:$res"
