// Scratch probe: C08 - do H79/BHRZ03 on C polyhedra (and BHMZ05/CC76 on shapes) depend only on values?
#include "ppl-config.h"
#include "ppl_include_files.hh"
#include "pplhook.hh"
#include <rapidcheck.h>
#include <iostream>
#include <map>
using namespace Parma_Polyhedra_Library;
using namespace Parma_Polyhedra_Library::IO_Operators;
static int rnd(int lo, int hi) { return *rc::gen::resize(100, rc::gen::inRange(lo, hi + 1)); }
static std::map<std::string, long> stats;
static C_Polyhedron genp(int n) {
  // bounded-ish random polytope from points, plus optional ray
  C_Polyhedron p(n, EMPTY); int k = rnd(1, 5);
  for (int i = 0; i < k; ++i) { Linear_Expression e; for (int j = 0; j < n; ++j) e += rnd(-4, 4) * Variable(j); p.add_generator(point(e, rnd(1, 2))); }
  if (rnd(0, 3) == 0) { Linear_Expression e; bool nz = false; for (int j = 0; j < n; ++j) { int c = rnd(-2, 2); if (c) nz = true; e += c * Variable(j); } if (nz) p.add_generator(ray(e)); }
  return p;
}
static C_Polyhedron rebuild(const C_Polyhedron& p, int how) {
  if (how == 0) return C_Polyhedron(p.minimized_generators());
  if (how == 1) { C_Polyhedron q(p.minimized_constraints()); return q; }
  if (how == 2) { // redundant constraints + shuffled order
    C_Polyhedron q(p.space_dimension()); std::vector<Constraint> cs; for (Constraint_System::const_iterator i = p.constraints().begin(); i != p.constraints().end(); ++i) cs.push_back(*i);
    for (size_t i = cs.size(); i-- > 0; ) q.add_constraint(cs[i]);
    for (size_t i = 0; i + 1 < cs.size(); ++i) if (cs[i].is_inequality() && cs[i+1].is_inequality()) q.add_constraint(Linear_Expression(cs[i].expression()) + Linear_Expression(cs[i+1].expression()) >= 0);
    return q; }
  C_Polyhedron q(p); (void) q.minimized_generators(); (void) q.minimized_constraints(); return q;
}
static void one() {
  int n = rnd(1, 3);
  C_Polyhedron y = genp(n), x = genp(n); x.poly_hull_assign(y);
  int h1 = rnd(0, 3), h2 = rnd(0, 3), h3 = rnd(0, 3), h4 = rnd(0, 3);
  int which = rnd(0, 1);
  C_Polyhedron xa = rebuild(x, h1), ya = rebuild(y, h2), xb = rebuild(x, h3), yb = rebuild(y, h4);
  RC_ASSERT(xa == xb && ya == yb && xa.contains(ya));
  C_Polyhedron before(xa);
  if (which == 0) { xa.H79_widening_assign(ya); xb.H79_widening_assign(yb); } else { xa.BHRZ03_widening_assign(ya); xb.BHRZ03_widening_assign(yb); }
  stats[which == 0 ? "H79" : "BHRZ03"]++; if (xa != before) stats[which == 0 ? "H79.enlarged" : "BHRZ03.enlarged"]++;
  RC_ASSERT(xa.contains(before));
  if (!(xa == xb)) { std::cerr << (which == 0 ? "H79" : "BHRZ03") << " depends on representation: x=" << x << " y=" << y << " how=" << h1 << h2 << h3 << h4 << "\n  A: " << xa << "\n  B: " << xb << "\n"; RC_FAIL("repr"); }
}
int main() {
  bool ok = rc::check("C poly widenings", [](){ one(); });
  for (auto& kv : stats) std::cerr << kv.first << "=" << kv.second << " "; std::cerr << "\n";
  return ok ? 0 : 1;
}
