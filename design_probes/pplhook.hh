#include <stdexcept>
#include <string>
namespace Parma_Polyhedra_Library {
void ppl_assertion_failed(const char* t, const char* f, unsigned l, const char*) {
  throw std::logic_error(std::string("PPL assertion failed: ") + t + " at " + f + ":" + std::to_string(l)); }
void ppl_unreachable_msg(const char* t, const char* f, unsigned l, const char*) {
  throw std::logic_error(std::string("PPL unreachable: ") + t + " at " + f + ":" + std::to_string(l)); }
void ppl_unreachable() { throw std::logic_error("PPL unreachable"); }
}
