// Scratch probe: C16 - CO_Tree / Sparse_Row as an ordered map (model: std::map)
#include "ppl-config.h"
#include "ppl_include_files.hh"
#include "pplhook.hh"
#include <rapidcheck.h>
#include <iostream>
#include <map>
using namespace Parma_Polyhedra_Library;
static int rnd(int lo, int hi) { return *rc::gen::resize(100, rc::gen::inRange(lo, hi + 1)); }
static std::map<std::string, long> stats;
static void compare(const Sparse_Row& r, const std::map<dimension_type, Coefficient>& m, dimension_type size, const char* after) {
  if (!r.OK()) { std::cerr << "OK() false after " << after << "\n"; RC_FAIL("OK"); }
  RC_ASSERT(r.size() == size);
  std::map<dimension_type, Coefficient>::const_iterator j = m.begin(); dimension_type n = 0;
  for (Sparse_Row::const_iterator i = r.begin(); i != r.end(); ++i, ++j, ++n) {
    if (j == m.end() || i.index() != j->first || *i != j->second) { std::cerr << "iteration mismatch after " << after << " at stored element " << n << "\n"; RC_FAIL("iter"); } }
  if (j != m.end()) { std::cerr << "row lost elements after " << after << "\n"; RC_FAIL("lost"); }
  for (int t = 0; t < 5 && size > 0; ++t) { dimension_type k = rnd(0, (int) size - 1); Coefficient e = m.count(k) ? m.find(k)->second : Coefficient(0); if (r.get(k) != e) { std::cerr << "get(" << k << ") wrong after " << after << "\n"; RC_FAIL("get"); } }
}
static void one() {
  dimension_type size = rnd(1, 3) == 1 ? rnd(1, 20) : rnd(20, 2000);
  Sparse_Row r(size); std::map<dimension_type, Coefficient> m; // model keeps explicit zeros too (stored elements)
  int steps = rnd(1, 120); size_t maxstored = 0; 
  for (int s = 0; s < steps; ++s) {
    int op = rnd(0, 11); const char* name = "";
    dimension_type k = rnd(0, (int) size - 1);
    switch (op) {
    case 0: case 1: case 2: { name = "insert(k,v)"; Coefficient v = rnd(-5, 5); r.insert(k, v); m[k] = v; break; }
    case 3: { name = "insert(hint,k,v)"; dimension_type h = rnd(0, (int) size - 1); Sparse_Row::iterator it = r.lower_bound(h); Coefficient v = rnd(-5, 5); Sparse_Row::iterator res = r.insert(it, k, v); m[k] = v; RC_ASSERT(res.index() == k && *res == v); break; }
    case 4: { name = "reset(k)"; r.reset(k); m.erase(k); break; }
    case 5: { name = "reset(range)"; dimension_type a = rnd(0, (int) size - 1), b = rnd(0, (int) size - 1); if (a > b) std::swap(a, b); Sparse_Row::iterator i1 = r.lower_bound(a), i2 = r.lower_bound(b); r.reset(i1, i2); m.erase(m.lower_bound(a), m.lower_bound(b)); break; }
    case 6: { name = "operator[]"; Coefficient v = rnd(-5, 5); r[k] = v; m[k] = v; break; }
    case 7: { name = "delete_element_and_shift"; if (size < 2) break; r.delete_element_and_shift(k); std::map<dimension_type, Coefficient> m2; for (auto& kv : m) { if (kv.first < k) m2[kv.first] = kv.second; else if (kv.first > k) m2[kv.first - 1] = kv.second; } m.swap(m2); --size; break; }
    case 8: { name = "add_zeroes_and_shift"; dimension_type n = rnd(1, 5); r.add_zeroes_and_shift(n, k); std::map<dimension_type, Coefficient> m2; for (auto& kv : m) m2[kv.first < k ? kv.first : kv.first + n] = kv.second; m.swap(m2); size += n; break; }
    case 9: { name = "swap_coefficients"; dimension_type k2 = rnd(0, (int) size - 1); r.swap_coefficients(k, k2); bool h1 = m.count(k), h2 = m.count(k2); Coefficient v1 = h1 ? m[k] : Coefficient(0), v2 = h2 ? m[k2] : Coefficient(0);
              if (k != k2) { if (h2) m[k] = v2; else m.erase(k); if (h1) m[k2] = v1; else m.erase(k2); } break; }
    case 10: { name = "copy+swap"; Sparse_Row c(r); Sparse_Row d(size); d.m_swap(c); r.m_swap(d); break; }
    default: { name = "linear_combine"; Sparse_Row y(size); std::map<dimension_type, Coefficient> my; int cnt = rnd(0, 8); for (int t = 0; t < cnt; ++t) { dimension_type kk = rnd(0, (int) size - 1); Coefficient v = rnd(-3, 3); if (v == 0) v = 1; y.insert(kk, v); my[kk] = v; }
               Coefficient c1 = rnd(1, 3), c2 = rnd(-3, 3); if (c2 == 0) c2 = 1; r.linear_combine(y, c1, c2);
               std::map<dimension_type, Coefficient> m2; for (auto& kv : m) m2[kv.first] = kv.second * c1; for (auto& kv : my) m2[kv.first] += kv.second * c2;
               // stored zeros are dropped by linear_combine only where it touched them: compare modulo explicit zeros
               m.swap(m2); for (auto it = m.begin(); it != m.end(); ) if (it->second == 0) it = m.erase(it); else ++it;
               Sparse_Row rr(r); for (Sparse_Row::iterator i = rr.begin(); i != rr.end(); ) { if (*i == 0) i = rr.reset(i); else ++i; } r.m_swap(rr); break; }
    }
    stats[name]++; maxstored = std::max(maxstored, m.size());
    compare(r, m, size, name);
  }
  if (maxstored > 64) stats["rows with >64 stored elements"]++;
}
int main() {
  bool ok = rc::check("sparse row", [](){ one(); });
  for (auto& kv : stats) std::cerr << kv.first << "=" << kv.second << " "; std::cerr << "\n";
  return ok ? 0 : 1;
}
