// Scratch probe: C05 oracle feasibility (Grid vs. exact lattice model)
#include "ppl-config.h"
#include "ppl_include_files.hh"
#include "reflattice.hh"
#include "pplhook.hh"
#include <rapidcheck.h>
#include <iostream>
#include <map>
using namespace Parma_Polyhedra_Library;
using namespace Parma_Polyhedra_Library::IO_Operators;
using rl::Q; using rl::Vec;

static int rnd(int lo, int hi) { return *rc::gen::resize(100, rc::gen::inRange(lo, hi + 1)); }
static std::map<std::string, long> stats;

struct Cg { std::vector<int> a; int b; int f; };   // a.x + b = 0 (mod f)
static Cg gen_cg(int n) { Cg c; c.a.resize(n); for (int j = 0; j < n; ++j) c.a[j] = rnd(0, 2) == 0 ? 0 : rnd(-3, 3); c.b = rnd(-4, 4);
  static const int mods[] = {0, 1, 2, 3, 4, 6}; c.f = mods[rnd(0, 5)]; return c; }
static Congruence to_ppl(const Cg& c) { Linear_Expression e; for (size_t j = 0; j < c.a.size(); ++j) e += c.a[j] * Variable(j); e += c.b; return (e %= 0) / c.f; }
static void fold(rl::Grid& g, const Cg& c) { Vec a(c.a.size()); for (size_t j = 0; j < c.a.size(); ++j) a[j] = c.a[j]; g.add_congruence(a, Q(-c.b), Q(c.f)); }
static bool sat(const Cg& c, const Vec& x) { Q v = c.b; for (size_t j = 0; j < c.a.size(); ++j) v += c.a[j] * x[j]; if (c.f == 0) return v == 0; Q r = v / c.f; return r.get_den() == 1; }

static rl::Grid model_of_congruences(const Congruence_System& cgs, size_t n) {
  rl::Grid g(n);
  for (Congruence_System::const_iterator i = cgs.begin(); i != cgs.end(); ++i) {
    Vec a(n, Q(0)); for (size_t j = 0; j < i->space_dimension(); ++j) a[j] = Q(i->coefficient(Variable(j)));
    g.add_congruence(a, Q(-i->inhomogeneous_term()), Q(i->modulus()));
  }
  return g;
}
static rl::Grid model_of_generators(const Grid_Generator_System& gs, size_t n) {
  rl::Grid g = rl::Grid::make_empty(n);
  // points first
  for (Grid_Generator_System::const_iterator i = gs.begin(); i != gs.end(); ++i) if (i->is_point()) {
    Vec v(n, Q(0)); for (size_t j = 0; j < i->space_dimension(); ++j) v[j] = Q(i->coefficient(Variable(j))) / Q(i->divisor()); g.add_point(v); }
  for (Grid_Generator_System::const_iterator i = gs.begin(); i != gs.end(); ++i) if (!i->is_point()) {
    Vec v(n, Q(0)); for (size_t j = 0; j < i->space_dimension(); ++j) v[j] = Q(i->coefficient(Variable(j)));
    if (i->is_parameter()) { for (size_t j = 0; j < n; ++j) v[j] /= Q(i->divisor()); g.add_param(v); } else g.add_line(v); }
  return g;
}

static void window_check(const std::vector<Cg>& cs, const rl::Grid& m, int n) {
  // all points of (1/2)Z^n in [-2,2]^n
  std::vector<int> idx(n, -4);
  for (;;) {
    Vec x(n); for (int j = 0; j < n; ++j) { x[j] = Q(idx[j], 2); x[j].canonicalize(); }
    bool s = true; for (size_t i = 0; i < cs.size() && s; ++i) s = sat(cs[i], x);
    if (s != m.contains_point(x)) { std::cerr << "ORACLE SELF-CHECK FAILED model=" << m.show() << " cgs:"; for (size_t q = 0; q < cs.size(); ++q) std::cerr << " [" << to_ppl(cs[q]) << "]"; std::cerr << " at x="; for (int j = 0; j < n; ++j) std::cerr << x[j] << ","; std::cerr << " sat=" << s << "\n"; RC_FAIL("reflattice self-check"); }
    int j = 0; while (j < n && ++idx[j] > 4) { idx[j] = -4; ++j; }
    if (j == n) break;
  }
}

static void check_descriptions(const Grid& gr, const rl::Grid& m, const char* what) {
  size_t n = gr.space_dimension();
  rl::Grid mc = model_of_congruences(gr.congruences(), n);
  rl::Grid mg = model_of_generators(gr.grid_generators(), n);
  rl::Grid mmc = model_of_congruences(gr.minimized_congruences(), n);
  rl::Grid mmg = model_of_generators(gr.minimized_grid_generators(), n);
  if (!(mc.equals(m) && mg.equals(m) && mmc.equals(m) && mmg.equals(m)) || gr.is_empty() != m.empty) {
    std::cerr << what << " MISMATCH\n model=" << m.show() << "\n cgs  =" << mc.show() << "  [" << gr.congruences() << "]\n gens =" << mg.show() << "  [" << gr.grid_generators() << "]\n is_empty=" << gr.is_empty() << "\n";
    RC_FAIL("grid descriptions disagree with model");
  }
}

static void one() {
  const int n = rnd(1, 3);
  // grid A from congruences, grid B from generators
  std::vector<Cg> ca; int m = rnd(0, 4); for (int i = 0; i < m; ++i) ca.push_back(gen_cg(n));
  Grid A(n); rl::Grid MA(n);
  for (size_t i = 0; i < ca.size(); ++i) { A.add_congruence(to_ppl(ca[i])); fold(MA, ca[i]); }
  window_check(ca, MA, n);
  int st = rnd(0, 3); if (st == 1) (void) A.minimized_grid_generators(); else if (st == 2) (void) A.is_empty(); else if (st == 3) (void) A.minimized_congruences();
  check_descriptions(A, MA, "from_congruences"); stats["from_congruences"]++; if (MA.empty) stats["from_congruences.empty"]++;

  Grid B(n, EMPTY); rl::Grid MB = rl::Grid::make_empty(n);
  int k = rnd(1, 4);
  for (int i = 0; i < k; ++i) {
    Linear_Expression e; Vec v(n); int d = rnd(1, 3);
    for (int j = 0; j < n; ++j) { int c = rnd(-3, 3); e += c * Variable(j); v[j] = c; }
    int kind = (i == 0) ? 0 : rnd(0, 3);
    if (kind <= 1) { B.add_grid_generator(grid_point(e, d)); for (int j = 0; j < n; ++j) v[j] /= d; MB.add_point(v); }
    else if (kind == 2) { if (rl::is_zero(v)) continue; B.add_grid_generator(parameter(e, d)); for (int j = 0; j < n; ++j) v[j] /= d; MB.add_param(v); }
    else { if (rl::is_zero(v)) continue; B.add_grid_generator(grid_line(e)); MB.add_line(v); }
  }
  check_descriptions(B, MB, "from_generators"); stats["from_generators"]++;

  int op = rnd(0, 4);
  if (op == 0) { Grid C(A); C.upper_bound_assign(B); rl::Grid MC = MA; MC.join(MB); check_descriptions(C, MC, "upper_bound"); stats["upper_bound"]++; }
  else if (op == 1) { Grid C(B); rl::Grid MC = MB; for (size_t i = 0; i < ca.size(); ++i) fold(MC, ca[i]); C.intersection_assign(A); check_descriptions(C, MC, "intersection"); stats["intersection"]++; if (MC.empty) stats["intersection.empty"]++; }
  else if (op == 2) { int kk = rnd(0, n - 1); Vec e(n); Linear_Expression le; for (int j = 0; j < n; ++j) { int c = rnd(-2, 2); e[j] = c; le += c * Variable(j); } int e0 = rnd(-3, 3); le += e0; int d = rnd(0, 1) ? rnd(1, 3) : -rnd(1, 3);
    Grid C(B); C.affine_image(Variable(kk), le, d); rl::Grid MC = MB; MC.affine_image(kk, e, Q(e0), Q(d)); check_descriptions(C, MC, "affine_image"); stats["affine_image"]++; }
  else if (op == 3) { Cg c = gen_cg(n); bool nonunit = false; for (Grid_Generator_System::const_iterator gi = B.grid_generators().begin(); gi != B.grid_generators().end(); ++gi) if (!gi->is_line() && gi->divisor() != 1) nonunit = true; if (nonunit) { stats["excluded.relcg.nonunit_divisor"]++; return; } Poly_Con_Relation r = B.relation_with(to_ppl(c)); rl::Grid MI = MB; fold(MI, c);
    Poly_Con_Relation expect = MB.empty ? (Poly_Con_Relation::saturates() && Poly_Con_Relation::is_included() && Poly_Con_Relation::is_disjoint())
      : MI.empty ? Poly_Con_Relation::is_disjoint() : MI.equals(MB) ? (c.f == 0 ? (Poly_Con_Relation::is_included() && Poly_Con_Relation::saturates()) : Poly_Con_Relation::is_included()) : Poly_Con_Relation::strictly_intersects();
    stats["relation_with_cg"]++;
    if (!(r == expect)) { std::cerr << "relation_with(cg) MISMATCH grid=" << MB.show() << " cg: " << to_ppl(c) << " got " << r << " expected " << expect << "\n"; RC_FAIL("relation_with(cg)"); } }
  else { bool c1 = A.contains(B), c2 = B.contains(A), dj = A.is_disjoint_from(B); rl::Grid MI = MB; for (size_t i = 0; i < ca.size(); ++i) fold(MI, ca[i]);
    stats["contains/disjoint"]++;
    if (c1 != MA.contains(MB) || c2 != MB.contains(MA) || dj != MI.empty) { std::cerr << "contains/disjoint MISMATCH A=" << MA.show() << " B=" << MB.show() << " got " << c1 << c2 << dj << "\n"; RC_FAIL("contains/disjoint"); } }
}
int main() {
  bool ok = rc::check("grids", [](){ one(); });
  for (auto& kv : stats) std::cerr << kv.first << "=" << kv.second << " ";
  std::cerr << "\n";
  return ok ? 0 : 1;
}
