// Scratch probe: C15 dump/load round trip in lazy states
#include "ppl-config.h"
#include "ppl_include_files.hh"
#include "pplhook.hh"
#include <rapidcheck.h>
#include <iostream>
#include <sstream>
#include <map>
using namespace Parma_Polyhedra_Library;
static int rnd(int lo, int hi) { return *rc::gen::resize(100, rc::gen::inRange(lo, hi + 1)); }
static std::map<std::string, long> stats;
static Linear_Expression le(int n) { Linear_Expression e; for (int j = 0; j < n; ++j) e += rnd(-3, 3) * Variable(j); e += rnd(-3, 3); return e; }
template <typename D> void mutate(D& d, int n) {
  int k = rnd(0, 9);
  switch (k) {
  case 0: d.refine_with_constraint(le(n) >= 0); break;
  case 1: d.refine_with_constraint(le(n) == 0); break;
  case 2: d.affine_image(Variable(rnd(0, n-1)), le(n), rnd(1, 3)); break;
  case 3: d.affine_preimage(Variable(rnd(0, n-1)), le(n), rnd(1, 3)); break;
  case 4: { D e(n); e.refine_with_constraint(le(n) >= 0); d.upper_bound_assign(e); break; }
  case 5: d.unconstrain(Variable(rnd(0, n-1))); break;
  case 6: (void) d.is_empty(); break;
  case 7: (void) d.minimized_constraints(); break;
  case 8: (void) d.is_universe(); break;
  default: (void) d.contains(d); break;
  }
}
template <typename D> void one(const char* name) {
  int n = rnd(1, 3); D d(n); int steps = rnd(0, 6);
  for (int i = 0; i < steps; ++i) mutate(d, n);
  std::stringstream s1; d.ascii_dump(s1);
  std::string header = s1.str().substr(0, s1.str().find('\n', s1.str().find('\n') + 1));
  stats[std::string(name) + " states: " + header]++;
  D e(rnd(0, 3)); std::stringstream in(s1.str());
  if (!e.ascii_load(in)) { std::cerr << name << ": ascii_load failed on\n" << s1.str(); RC_FAIL("load"); }
  RC_ASSERT(e.OK());
  std::stringstream s2; e.ascii_dump(s2);
  if (s1.str() != s2.str()) { std::cerr << name << ": dump differs after load\n--- original\n" << s1.str() << "--- reloaded\n" << s2.str(); RC_FAIL("text"); }
  if (!(e == d)) { RC_FAIL("value"); }
  // same behaviour afterwards
  D d2(d), e2(e);
  int more = rnd(1, 3); for (int i = 0; i < more; ++i) { /* same ops on both: regenerate deterministically */ Linear_Expression x = le(n); int v = rnd(0, n-1); int den = rnd(1,3); int k = rnd(0, 2);
    if (k == 0) { d2.refine_with_constraint(x >= 0); e2.refine_with_constraint(x >= 0); } else if (k == 1) { d2.affine_image(Variable(v), x, den); e2.affine_image(Variable(v), x, den); } else { (void) d2.minimized_constraints(); (void) e2.minimized_constraints(); } }
  std::stringstream s3, s4; d2.ascii_dump(s3); e2.ascii_dump(s4);
  if (s3.str() != s4.str()) { std::cerr << name << ": behaviour differs after load\n--- original\n" << s3.str() << "--- reloaded\n" << s4.str(); RC_FAIL("behaviour"); }
}
int main() {
  bool ok = true;
  ok = rc::check("C_Polyhedron", [](){ one<C_Polyhedron>("C_Polyhedron"); }) && ok;
  ok = rc::check("NNC_Polyhedron", [](){ one<NNC_Polyhedron>("NNC_Polyhedron"); }) && ok;
  ok = rc::check("Grid", [](){ one<Grid>("Grid"); }) && ok;
  ok = rc::check("BDS", [](){ one<BD_Shape<mpq_class> >("BD_Shape<mpq>"); }) && ok;
  ok = rc::check("BDSd", [](){ one<BD_Shape<double> >("BD_Shape<double>"); }) && ok;
  ok = rc::check("OS", [](){ one<Octagonal_Shape<mpz_class> >("Octagonal_Shape<mpz>"); }) && ok;
  ok = rc::check("Box", [](){ one<Rational_Box>("Rational_Box"); }) && ok;
  std::map<std::string, int> per; for (auto& kv : stats) per[kv.first.substr(0, kv.first.find(' '))]++;
  for (auto& kv : per) std::cerr << kv.first << ": distinct dump headers reached = " << kv.second << "\n";
  return ok ? 0 : 1;
}
