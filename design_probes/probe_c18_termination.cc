// Scratch probe: C18 - validity of returned ranking functions and MS/PR agreement on random closed relations
#include "ppl-config.h"
#include "ppl_include_files.hh"
#include "refgeom.hh"
#include "pplhook.hh"
#include <rapidcheck.h>
#include <iostream>
#include <map>
using namespace Parma_Polyhedra_Library;
using namespace Parma_Polyhedra_Library::IO_Operators;
using ref::Q; using ref::Vec; using ref::Con; using ref::Sys;
static int rnd(int lo, int hi) { return *rc::gen::resize(100, rc::gen::inRange(lo, hi + 1)); }
static std::map<std::string, long> stats;
static Sys to_ref(const Constraint_System& cs, size_t n) {
  Sys s(n);
  for (Constraint_System::const_iterator i = cs.begin(); i != cs.end(); ++i) { Con c; c.a.assign(n, Q(0)); for (size_t j = 0; j < i->space_dimension(); ++j) c.a[j] = Q(i->coefficient(Variable(j))); c.b = Q(i->inhomogeneous_term()); c.r = i->is_equality() ? ref::EQ : (i->is_strict_inequality() ? ref::GT : ref::GE); s.add(c); }
  return s;
}
static void one() {
  int n = rnd(1, 2);
  // relation over x' (dims 0..n-1) and x (dims n..2n-1)
  C_Polyhedron R(2*n);
  bool planted = rnd(0, 1);
  std::vector<int> f(n); int f0 = rnd(-2, 2);
  if (planted) { // f(x) >= 0 and f(x) - f(x') >= 1
    Linear_Expression fx, fxp; bool nz = false; for (int j = 0; j < n; ++j) { f[j] = rnd(-2, 2); if (f[j]) nz = true; fx += f[j] * Variable(n + j); fxp += f[j] * Variable(j); }
    if (!nz) { f[0] = 1; fx += Variable(n); fxp += Variable(0); }
    R.add_constraint(fx + f0 >= 0); R.add_constraint(fx - fxp >= 1);
  }
  int m = rnd(0, 4);
  for (int i = 0; i < m; ++i) { Linear_Expression e; for (int j = 0; j < 2*n; ++j) e += (rnd(0, 1) ? rnd(-2, 2) : 0) * Variable(j); e += rnd(-3, 3); if (rnd(0, 4) == 0) R.add_constraint(e == 0); else R.add_constraint(e >= 0); }
  bool ms = termination_test_MS(R), pr = termination_test_PR(R);
  Generator mu_ms(point()), mu_pr(point());
  bool oms = one_affine_ranking_function_MS(R, mu_ms), opr = one_affine_ranking_function_PR(R, mu_pr);
  Sys rs = to_ref(R.constraints(), 2*n); bool empty = ref::is_empty(rs);
  stats["relations"]++; if (empty) stats["empty"]++; if (planted) stats["planted"]++; if (ms) stats["terminating"]++;
  if (ms != pr || oms != ms || opr != pr) { std::cerr << "verdicts differ ms=" << ms << " pr=" << pr << " one_ms=" << oms << " one_pr=" << opr << " R=" << R << "\n"; RC_FAIL("verdict"); }
  if (planted && !empty && !ms) { std::cerr << "planted terminating loop not recognised R=" << R << "\n"; RC_FAIL("planted"); }
  for (int which = 0; which < 2; ++which) if (ms && !empty) {
    const Generator& mu = which ? mu_pr : mu_ms;
    RC_ASSERT(mu.space_dimension() <= (dimension_type)(n + 1));
    // f(x) = mu_n/d + sum mu_j/d x_j ; decrease d(x,x') = f(x) - f(x')
    Vec dec(2*n, Q(0)), low(2*n, Q(0)); Q d = Q(mu.divisor());
    for (int j = 0; j < n; ++j) { Q c = (j < (int) mu.space_dimension()) ? Q(mu.coefficient(Variable(j))) / d : Q(0); dec[n + j] = -c; dec[j] = c; low[n + j] = -c; }
    // sup of -(f(x)-f(x')) must be < 0 ; sup of -f(x) must be finite
    Q v; bool att;
    bool b1 = ref::sup(rs, dec, Q(0), v, att);
    if (!b1 || !(v < 0)) { std::cerr << (which ? "PR" : "MS") << " ranking function does not decrease: mu=" << mu << " R=" << R << " sup(-(f(x)-f(x')))=" << (b1 ? v : Q(999999)) << "\n"; RC_FAIL("decrease"); }
    bool b2 = ref::sup(rs, low, Q(0), v, att);
    if (!b2) { std::cerr << (which ? "PR" : "MS") << " ranking function unbounded below: mu=" << mu << " R=" << R << "\n"; RC_FAIL("bounded"); }
    stats["witness_checked"]++;
  }
}
int main() {
  bool ok = rc::check("termination", [](){ one(); });
  for (auto& kv : stats) std::cerr << kv.first << "=" << kv.second << " "; std::cerr << "\n";
  return ok ? 0 : 1;
}
