// Scratch probe: C14 part A - rejected calls throw the documented exception and change nothing
#include "ppl-config.h"
#include "ppl_include_files.hh"
#include "pplhook.hh"
#include <rapidcheck.h>
#include <iostream>
#include <sstream>
#include <map>
using namespace Parma_Polyhedra_Library;
using namespace Parma_Polyhedra_Library::IO_Operators;
static int rnd(int lo, int hi) { return *rc::gen::resize(100, rc::gen::inRange(lo, hi + 1)); }
static std::map<std::string, long> stats;
static Linear_Expression le(int n) { Linear_Expression e; for (int j = 0; j < n; ++j) e += rnd(-3, 3) * Variable(j); e += rnd(-3, 3); return e; }
template <typename D> D gen(int n) { D d(n); int m = rnd(0, 3); for (int i = 0; i < m; ++i) d.refine_with_constraint(le(n) >= 0); int st = rnd(0, 2); if (st == 1) (void) d.minimized_constraints(); else if (st == 2) (void) d.is_empty(); return d; }
template <typename D> std::string dump(const D& d) { std::stringstream s; d.ascii_dump(s); return s.str(); }
template <typename D> void one(const char* name, bool is_poly, bool is_c_poly) {
  int n = rnd(1, 3); D x = gen<D>(n), y = gen<D>(n + 1);
  D x0(x), y0(y);
  std::string dx = dump(x), dy = dump(y);
  int op = rnd(0, 13); const char* opn = ""; bool threw = false; std::string what;
  Linear_Expression big = le(n + 1) + Variable(n);   // dimension too large (coefficient 1 on the extra dimension)
  try {
    switch (op) {
    case 0: opn = "affine_image(den=0)"; x.affine_image(Variable(0), le(n), 0); break;
    case 1: opn = "affine_image(var too big)"; x.affine_image(Variable(n), le(n), 1); break;
    case 2: opn = "affine_image(expr too big)"; x.affine_image(Variable(0), big, 1); break;
    case 3: opn = "intersection_assign(dim mismatch)"; x.intersection_assign(y); break;
    case 4: opn = "upper_bound_assign(dim mismatch)"; x.upper_bound_assign(y); break;
    case 5: opn = "add_constraint(dim too big)"; x.add_constraint(big >= 0); break;
    case 6: opn = "generalized_affine_image(NOT_EQUAL)"; x.generalized_affine_image(Variable(0), NOT_EQUAL, le(n), 1); break;
    case 7: opn = "bounded_affine_image(den=0)"; x.bounded_affine_image(Variable(0), le(n), le(n), 0); break;
    case 8: opn = "unconstrain(var too big)"; x.unconstrain(Variable(n)); break;
    case 9: opn = "remove_higher_space_dimensions(too big)"; x.remove_higher_space_dimensions(n + 1); break;
    case 10: opn = "fold(dest in vars)"; { Variables_Set vs; vs.insert(Variable(0)); x.fold_space_dimensions(vs, Variable(0)); } break;
    case 11: opn = "contains(dim mismatch)"; (void) x.contains(y); break;
    case 12: opn = "relation_with(constraint too big)"; (void) x.relation_with(big >= 0); break;
    default: opn = "generalized_affine_preimage(lhs too big)"; x.generalized_affine_preimage(big, LESS_OR_EQUAL, le(n)); break;
    }
  } catch (const std::invalid_argument& e) { threw = true; what = "invalid_argument"; }
    catch (const std::logic_error& e) { std::cerr << name << "." << opn << ": internal assertion instead of rejection: " << e.what() << "\n"; RC_FAIL("assert"); }
    catch (const std::exception& e) { threw = true; what = e.what(); }
  stats[std::string(name) + "." + opn]++;
  if (!threw) { std::cerr << name << "." << opn << ": no exception\n"; RC_FAIL("no exception"); }
  if (what != "invalid_argument") { std::cerr << name << "." << opn << ": wrong exception " << what << "\n"; RC_FAIL("wrong type"); }
  RC_ASSERT(x.OK() && y.OK());
  if (!(x == x0) || !(y == y0)) { std::cerr << name << "." << opn << ": VALUE changed by a rejected call\n before: " << x0 << "\n after:  " << x << "\n"; RC_FAIL("value"); }
  if (dump(x) != dx || dump(y) != dy) stats[std::string(name) + ".representation_changed(ok)"]++;
}
int main() {
  bool ok = true;
  ok = rc::check("C_Polyhedron", [](){ one<C_Polyhedron>("C_Polyhedron", true, true); }) && ok;
  ok = rc::check("NNC_Polyhedron", [](){ one<NNC_Polyhedron>("NNC_Polyhedron", true, false); }) && ok;
  ok = rc::check("BDS", [](){ one<BD_Shape<mpq_class> >("BD_Shape<mpq>", false, false); }) && ok;
  ok = rc::check("OS", [](){ one<Octagonal_Shape<mpz_class> >("Octagonal_Shape<mpz>", false, false); }) && ok;
  ok = rc::check("Box", [](){ one<Rational_Box>("Rational_Box", false, false); }) && ok;
  ok = rc::check("Grid", [](){ one<Grid>("Grid", false, false); }) && ok;
  long tot = 0; for (auto& kv : stats) tot += kv.second; std::cerr << "total rejected calls checked: " << tot << "\n";
  for (auto& kv : stats) if (kv.first.find("representation") != std::string::npos) std::cerr << kv.first << "=" << kv.second << "\n";
  return ok ? 0 : 1;
}
