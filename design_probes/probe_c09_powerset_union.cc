// Scratch probe: C09 - powerset of C polyhedra denotes the union of its disjuncts (exact union oracle)
#include "ppl-config.h"
#include "ppl_include_files.hh"
#include "refgeom.hh"
#include "pplhook.hh"
#include <rapidcheck.h>
#include <iostream>
#include <map>
using namespace Parma_Polyhedra_Library;
using namespace Parma_Polyhedra_Library::IO_Operators;
using ref::Q; using ref::Vec; using ref::Con; using ref::Sys;
typedef Pointset_Powerset<C_Polyhedron> PS;
typedef std::vector<Sys> Union;
static int rnd(int lo, int hi) { return *rc::gen::resize(100, rc::gen::inRange(lo, hi + 1)); }
static std::map<std::string, long> stats;
static Sys to_ref(const Constraint_System& cs, size_t n) {
  Sys s(n);
  for (Constraint_System::const_iterator i = cs.begin(); i != cs.end(); ++i) { Con c; c.a.assign(n, Q(0)); for (size_t j = 0; j < i->space_dimension(); ++j) c.a[j] = Q(i->coefficient(Variable(j))); c.b = Q(i->inhomogeneous_term()); c.r = i->is_equality() ? ref::EQ : (i->is_strict_inequality() ? ref::GT : ref::GE); s.add(c); }
  return s;
}
// is p \ (q[from] u ... u q[k-1]) non-empty ?
static bool diff_nonempty(const Sys& p, const Union& q, size_t from) {
  if (ref::is_empty(p)) return false;
  if (from == q.size()) return true;
  const Sys& y = q[from]; Sys acc(p);
  for (size_t i = 0; i < y.cs.size(); ++i) {
    int parts = y.cs[i].r == ref::EQ ? 2 : 1;
    for (int w = 0; w < parts; ++w) { Sys t(acc); t.add(ref::negate_part(y.cs[i], w)); if (diff_nonempty(t, q, from + 1)) return true; }
    acc.add(y.cs[i]);
  }
  return false;
}
static bool covers(const Union& a, const Union& b) { for (size_t i = 0; i < b.size(); ++i) if (diff_nonempty(b[i], a, 0)) return false; return true; }
static bool same(const Union& a, const Union& b) { return covers(a, b) && covers(b, a); }
static Union model_of(const PS& ps) { Union u; size_t n = ps.space_dimension(); for (PS::const_iterator i = ps.begin(); i != ps.end(); ++i) u.push_back(to_ref(i->pointset().constraints(), n)); return u; }
static C_Polyhedron boxish(int n) { // axis-aligned boxes and a few slanted cuts so that unions are often exactly convex / adjacent
  C_Polyhedron p(n); for (int j = 0; j < n; ++j) { int lo = rnd(-3, 2), len = rnd(0, 3); p.add_constraint(Variable(j) >= lo); p.add_constraint(Variable(j) <= lo + len); }
  if (rnd(0, 3) == 0) { Linear_Expression e; for (int j = 0; j < n; ++j) e += rnd(-1, 1) * Variable(j); p.add_constraint(e <= rnd(-1, 3)); }
  return p; }
static void one() {
  int n = rnd(1, 2); PS a(n, EMPTY), b(n, EMPTY); Union ma, mb;
  int ka = rnd(0, 4), kb = rnd(0, 3);
  for (int i = 0; i < ka; ++i) { C_Polyhedron p = boxish(n); a.add_disjunct(p); ma.push_back(to_ref(p.constraints(), n)); }
  for (int i = 0; i < kb; ++i) { C_Polyhedron p = boxish(n); b.add_disjunct(p); mb.push_back(to_ref(p.constraints(), n)); }
  if (!same(model_of(a), ma)) { std::cerr << "add_disjunct changed the union\n"; RC_FAIL("add_disjunct"); }
  PS copy(a);
  int op = rnd(0, 7); const char* opn = ""; Union expect; PS r(a);
  switch (op) {
  case 0: opn = "omega_reduce"; r.omega_reduce(); expect = ma; break;
  case 1: opn = "pairwise_reduce"; r.pairwise_reduce(); expect = ma; RC_ASSERT(r.size() <= a.size() || true); break;
  case 2: opn = "upper_bound_assign"; r.upper_bound_assign(b); expect = ma; expect.insert(expect.end(), mb.begin(), mb.end()); break;
  case 3: opn = "intersection_assign"; r.intersection_assign(b); for (size_t i = 0; i < ma.size(); ++i) for (size_t j = 0; j < mb.size(); ++j) { Sys t(ma[i]); for (size_t k = 0; k < mb[j].cs.size(); ++k) t.add(mb[j].cs[k]); expect.push_back(t); } break;
  case 4: { opn = "difference_assign"; r.difference_assign(b); Union got = model_of(r);
    // exact set difference: got must cover (a \ b) and be covered by closure-ish... check both inclusions point-set-wise:
    // (1) got u b covers a ; (2) got is within a ; (3) got \ closure... C polyhedra: result is the union of closed pieces, may overlap b's boundary only
    Union gb = got; gb.insert(gb.end(), mb.begin(), mb.end());
    if (!covers(gb, ma) || !covers(ma, got)) { std::cerr << "difference_assign wrong: a=" << a << " b=" << b << " r=" << r << "\n"; RC_FAIL("difference"); }
    stats[opn]++; RC_ASSERT(r.OK()); if (!same(model_of(copy), ma)) RC_FAIL("copy changed"); return; }
  case 5: { opn = "geometrically_covers/equals"; bool c1 = a.geometrically_covers(b), c2 = a.geometrically_equals(b); stats[opn]++; if (c1) stats["covers.true"]++;
    if (c1 != covers(ma, mb) || c2 != same(ma, mb)) { std::cerr << "geometric comparison wrong: a=" << a << " b=" << b << " covers=" << c1 << " equals=" << c2 << "\n"; RC_FAIL("geom"); } return; }
  case 6: { opn = "affine_image"; Linear_Expression e; for (int j = 0; j < n; ++j) e += rnd(-2, 2) * Variable(j); e += rnd(-2, 2); int k = rnd(0, n - 1); r.affine_image(Variable(k), e, 1);
    for (PS::const_iterator i = a.begin(); i != a.end(); ++i) { C_Polyhedron p(i->pointset()); p.affine_image(Variable(k), e, 1); expect.push_back(to_ref(p.constraints(), n)); } break; }
  default: { opn = "mutate original after copy"; r.add_disjunct(boxish(n)); r.pairwise_reduce(); stats[opn]++; if (!same(model_of(copy), ma) || !same(model_of(a), ma)) { std::cerr << "copy affected by mutation of the original\n"; RC_FAIL("cow"); } return; }
  }
  stats[opn]++; RC_ASSERT(r.OK());
  if (!same(model_of(r), expect)) { std::cerr << opn << " changed the union: a=" << a << " b=" << b << " result=" << r << "\n"; RC_FAIL("union"); }
  if (op <= 1 && r.size() > a.size()) RC_FAIL("reduction increased the number of disjuncts");
  if (!same(model_of(copy), ma)) RC_FAIL("copy changed");
}
int main() {
  bool ok = rc::check("powerset", [](){ one(); });
  for (auto& kv : stats) std::cerr << kv.first << "=" << kv.second << " "; std::cerr << "\n";
  return ok ? 0 : 1;
}
