// Scratch probe: C01 core oracle feasibility (con-description == gen-description)
#include "ppl-config.h"
#include "ppl_include_files.hh"
#include "refgeom.hh"
#include <rapidcheck.h>
#include <iostream>
#include <chrono>
using namespace Parma_Polyhedra_Library;
namespace PPL = Parma_Polyhedra_Library;
namespace Parma_Polyhedra_Library {
void ppl_assertion_failed(const char* t, const char* f, unsigned l, const char*) {
  throw std::logic_error(std::string("PPL assertion failed: ") + t + " at " + f + ":" + std::to_string(l)); }
void ppl_unreachable_msg(const char* t, const char* f, unsigned l, const char*) {
  throw std::logic_error(std::string("PPL unreachable: ") + t + " at " + f + ":" + std::to_string(l)); }
void ppl_unreachable() { throw std::logic_error("PPL unreachable"); }
}

static ref::Sys to_ref(const Constraint_System& cs, size_t n) {
  ref::Sys s(n);
  for (Constraint_System::const_iterator i = cs.begin(); i != cs.end(); ++i) {
    ref::Con c; c.a.assign(n, ref::Q(0));
    for (size_t j = 0; j < i->space_dimension(); ++j) c.a[j] = ref::Q(i->coefficient(Variable(j)));
    c.b = ref::Q(i->inhomogeneous_term());
    c.r = i->is_equality() ? ref::EQ : (i->is_strict_inequality() ? ref::GT : ref::GE);
    s.add(c);
  }
  return s;
}
static ref::Gens to_ref(const Generator_System& gs, size_t n) {
  ref::Gens g(n);
  for (Generator_System::const_iterator i = gs.begin(); i != gs.end(); ++i) {
    ref::Vec v(n, ref::Q(0));
    for (size_t j = 0; j < i->space_dimension(); ++j) v[j] = ref::Q(i->coefficient(Variable(j)));
    if (i->is_point() || i->is_closure_point()) { for (size_t j = 0; j < n; ++j) { v[j] /= ref::Q(i->divisor()); } }
    if (i->is_line()) g.lines.push_back(v); else if (i->is_ray()) g.rays.push_back(v);
    else if (i->is_point()) g.points.push_back(v); else g.cpoints.push_back(v);
  }
  return g;
}

static long n_cases = 0, n_empty = 0, n_unb = 0, n_lowdim = 0, n_nnc_strict = 0;
static double t_ref = 0, t_ppl = 0;

template <typename PH>
void one(bool nnc) {
  const int n = *rc::gen::resize(100, rc::gen::inRange(0, 4));
  auto coef = rc::gen::resize(100, rc::gen::inRange(-4, 5));
  const int m = *rc::gen::resize(100, rc::gen::inRange(0, 7));
  Constraint_System cs; ref::Sys in(n);
  cs.set_space_dimension(n);
  for (int i = 0; i < m; ++i) {
    Linear_Expression e; ref::Con rc_; rc_.a.assign(n, ref::Q(0));
    for (int j = 0; j < n; ++j) { int a = *coef; e += a * Variable(j); rc_.a[j] = a; }
    int b = *coef; e += b; rc_.b = b;
    int k = *rc::gen::resize(100, rc::gen::inRange(0, nnc ? 4 : 3));
    if (k == 0) { cs.insert(e == 0); rc_.r = ref::EQ; }
    else if (k == 3) { cs.insert(e > 0); rc_.r = ref::GT; }
    else { cs.insert(e >= 0); rc_.r = ref::GE; }
    in.add(rc_);
  }
  auto t0 = std::chrono::steady_clock::now();
  PH ph(cs);
  int st = *rc::gen::resize(100, rc::gen::inRange(0, 4));
  if (st == 1) (void) ph.minimized_generators();
  if (st == 2) (void) ph.minimized_constraints();
  const Constraint_System& pcs = (st == 3) ? ph.minimized_constraints() : ph.constraints();
  ref::Sys sc = to_ref(pcs, n);
  const Generator_System& pgs = ph.generators();
  ref::Gens g = to_ref(pgs, n);
  bool ppl_empty = ph.is_empty();
  auto t1 = std::chrono::steady_clock::now();
  ref::Sys sg = ref::from_gens(g);
  bool e_in = ref::is_empty(in);
  RC_ASSERT(e_in == ppl_empty);
  RC_ASSERT(ref::equal(in, sc));
  if (!ref::equal(sc, sg)) {
    std::cerr << "MISMATCH in=" << ref::show(in) << "\n sc=" << ref::show(sc) << "\n sg=" << ref::show(sg) << "\n";
    RC_FAIL("constraints and generators denote different sets");
  }
  auto t2 = std::chrono::steady_clock::now();
  t_ppl += std::chrono::duration<double>(t1 - t0).count();
  t_ref += std::chrono::duration<double>(t2 - t1).count();
  ++n_cases; if (e_in) ++n_empty; if (!g.rays.empty() || !g.lines.empty()) ++n_unb;
  if (!e_in && (int) ph.affine_dimension() < n) ++n_lowdim;
  if (!g.cpoints.empty()) ++n_nnc_strict;
}

int main() {
  bool ok = rc::check("C poly: cons == gens", [](){ one<C_Polyhedron>(false); });
  ok = rc::check("NNC poly: cons == gens", [](){ one<NNC_Polyhedron>(true); }) && ok;
  std::cerr << "cases=" << n_cases << " empty=" << n_empty << " unbounded=" << n_unb << " lowdim=" << n_lowdim
            << " with_closure_points=" << n_nnc_strict << " t_ppl=" << t_ppl << " t_ref=" << t_ref
            << " pivots=" << ref::LP::pivots() << "\n";
  return ok ? 0 : 1;
}
