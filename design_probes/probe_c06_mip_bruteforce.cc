// Scratch probe: C06 oracle feasibility (MIP_Problem vs. exact LP + integer enumeration)
#include "ppl-config.h"
#include "ppl_include_files.hh"
#include "refgeom.hh"
#include "pplhook.hh"
#include <rapidcheck.h>
#include <iostream>
#include <map>
using namespace Parma_Polyhedra_Library;
using namespace Parma_Polyhedra_Library::IO_Operators;
using ref::Q; using ref::Vec; using ref::Con; using ref::Sys;
static int rnd(int lo, int hi) { return *rc::gen::resize(100, rc::gen::inRange(lo, hi + 1)); }
static std::map<std::string, long> stats;

struct Row { std::vector<int> a; int b; int k; };  // a.x + b {=,>=} 0
// reference: status 0 unfeasible, 1 unbounded, 2 optimized(value)
static int ref_solve(const std::vector<Row>& rows, int n, const std::vector<int>& obj, int obj0, bool maximize, const std::vector<bool>& is_int, int W, Q& opt) {
  std::vector<int> iv; for (int j = 0; j < n; ++j) if (is_int[j]) iv.push_back(j);
  std::vector<int> val(iv.size(), -W);
  bool feasible = false, unbounded = false; bool have = false;
  for (;;) {
    Sys s(n);
    for (size_t i = 0; i < rows.size(); ++i) { Con c; c.a.assign(n, Q(0)); for (int j = 0; j < n; ++j) c.a[j] = rows[i].a[j]; c.b = rows[i].b; c.r = rows[i].k == 0 ? ref::EQ : ref::GE; s.add(c); }
    for (size_t t = 0; t < iv.size(); ++t) { Con c; c.a.assign(n, Q(0)); c.a[iv[t]] = 1; c.b = -val[t]; c.r = ref::EQ; s.add(c); }
    if (!ref::is_empty(s)) {
      feasible = true;
      Vec o(n); for (int j = 0; j < n; ++j) o[j] = maximize ? obj[j] : -obj[j];
      Q v; bool att;
      if (!ref::sup(s, o, Q(0), v, att)) unbounded = true;
      else { if (!maximize) v = -v; v += obj0; if (!have || (maximize ? v > opt : v < opt)) { opt = v; have = true; } }
    }
    size_t t = 0; while (t < iv.size() && ++val[t] > W) { val[t] = -W; ++t; }
    if (t == iv.size()) break;
  }
  if (!feasible) return 0; if (unbounded) return 1; return 2;
}

static void one() {
  const int n = rnd(1, 3);
  const int W = 3;
  std::vector<bool> is_int(n); for (int j = 0; j < n; ++j) is_int[j] = rnd(0, 2) == 0;
  std::vector<Row> rows; int m = rnd(0, 5);
  for (int i = 0; i < m; ++i) { Row r; r.a.resize(n); for (int j = 0; j < n; ++j) r.a[j] = rnd(0, 2) == 0 ? 0 : rnd(-4, 4); r.b = rnd(-6, 6); r.k = rnd(0, 4) == 0 ? 0 : 1; rows.push_back(r); }
  // box the integer variables so that enumeration is complete
  for (int j = 0; j < n; ++j) if (is_int[j]) { Row r; r.a.assign(n, 0); r.a[j] = 1; r.b = W; r.k = 1; rows.push_back(r); Row r2; r2.a.assign(n, 0); r2.a[j] = -1; r2.b = W; r2.k = 1; rows.push_back(r2); }
  std::vector<int> obj(n); for (int j = 0; j < n; ++j) obj[j] = rnd(-3, 3); int obj0 = rnd(-2, 2);
  bool maxim = rnd(0, 1);
  MIP_Problem mip(n);
  int pricing = rnd(0, 2);
  mip.set_control_parameter(pricing == 0 ? MIP_Problem::PRICING_TEXTBOOK : pricing == 1 ? MIP_Problem::PRICING_STEEPEST_EDGE_EXACT : MIP_Problem::PRICING_STEEPEST_EDGE_FLOAT);
  Linear_Expression lo; for (int j = 0; j < n; ++j) lo += obj[j] * Variable(j); lo += obj0;
  int split = rnd(0, (int) rows.size());        // constraints [0,split) before first solve, rest added incrementally
  bool incremental = rnd(0, 1);
  Variables_Set ivs; for (int j = 0; j < n; ++j) if (is_int[j]) ivs.insert(Variable(j));
  auto add_row = [&](const Row& r) { Linear_Expression e; for (int j = 0; j < n; ++j) e += r.a[j] * Variable(j); e += r.b; if (r.k == 0) mip.add_constraint(e == 0); else mip.add_constraint(e >= 0); };
  if (incremental) {
    for (int i = 0; i < split; ++i) add_row(rows[i]);
    mip.set_objective_function(lo); mip.set_optimization_mode(maxim ? MAXIMIZATION : MINIMIZATION);
    (void) mip.solve();
    if (rnd(0, 1)) (void) mip.is_satisfiable();
    for (size_t i = split; i < rows.size(); ++i) add_row(rows[i]);
    mip.add_to_integer_space_dimensions(ivs);
  } else {
    mip.add_to_integer_space_dimensions(ivs);
    for (size_t i = 0; i < rows.size(); ++i) add_row(rows[i]);
    mip.set_objective_function(lo); mip.set_optimization_mode(maxim ? MAXIMIZATION : MINIMIZATION);
  }
  MIP_Problem_Status st = mip.solve();
  RC_ASSERT(mip.OK());
  Q opt; int rs = ref_solve(rows, n, obj, obj0, maxim, is_int, W, opt);
  stats[incremental ? "incremental" : "fresh"]++; stats[rs == 0 ? "ref.unfeasible" : rs == 1 ? "ref.unbounded" : "ref.optimized"]++;
  bool anyint = false; for (int j = 0; j < n; ++j) anyint = anyint || is_int[j];
  if (rs == 1 && anyint) { stats["excluded.unbounded_relaxation_with_int"]++; return; }
  int ps = st == UNFEASIBLE_MIP_PROBLEM ? 0 : st == UNBOUNDED_MIP_PROBLEM ? 1 : 2;
  bool bad = ps != rs;
  Q pv;
  if (!bad && ps == 2) {
    Coefficient nu, de; mip.optimal_value(nu, de); pv = Q(nu) / Q(de);
    const Generator& g = mip.optimizing_point();
    Vec x(n); for (int j = 0; j < n; ++j) x[j] = Q(g.coefficient(Variable(j))) / Q(g.divisor());
    Q at = obj0; for (int j = 0; j < n; ++j) at += obj[j] * x[j];
    bool feas = true; for (size_t i = 0; i < rows.size(); ++i) { Q v = rows[i].b; for (int j = 0; j < n; ++j) v += rows[i].a[j] * x[j]; if (rows[i].k == 0 ? v != 0 : v < 0) feas = false; }
    for (int j = 0; j < n; ++j) if (is_int[j] && x[j].get_den() != 1) feas = false;
    if (pv != opt || at != pv || !feas) bad = true;
  }
  if (bad) {
    std::cerr << "MIP MISMATCH ppl_status=" << ps << " ref_status=" << rs << " ppl_val=" << pv << " ref_val=" << opt << " incremental=" << incremental << " pricing=" << pricing << " max=" << maxim << "\n obj: " << lo << "\n";
    for (size_t i = 0; i < rows.size(); ++i) { std::cerr << "  "; for (int j = 0; j < n; ++j) std::cerr << rows[i].a[j] << "*x" << j << " + "; std::cerr << rows[i].b << (rows[i].k == 0 ? " = 0" : " >= 0") << (i == (size_t) split ? "   <-- first incremental" : "") << "\n"; }
    std::cerr << " int:"; for (int j = 0; j < n; ++j) std::cerr << is_int[j]; std::cerr << "\n";
    RC_FAIL("mip");
  }
}
int main() {
  bool ok = rc::check("mip", [](){ one(); });
  for (auto& kv : stats) std::cerr << kv.first << "=" << kv.second << " ";
  std::cerr << "\n";
  return ok ? 0 : 1;
}
