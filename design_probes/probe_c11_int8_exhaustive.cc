// Scratch probe: C11 part A feasibility - exhaustive 8-bit checked arithmetic vs. exact integers
#include "ppl-config.h"
#include "ppl_include_files.hh"
#include "pplhook.hh"
#include <iostream>
#include <map>
using namespace Parma_Polyhedra_Library;
typedef mpz_class Z; typedef mpq_class Q;
static std::map<std::string, long> stats;
static long failures = 0;

template <typename N> struct Val { bool nan, pinf, minf; Q v; };
template <typename N> Val<N> value_of(const N& x) {
  Val<N> r; r.nan = is_not_a_number(x); r.pinf = is_plus_infinity(x); r.minf = is_minus_infinity(x);
  if (!r.nan && !r.pinf && !r.minf) { mpq_class q; assign_r(q, x, ROUND_NOT_NEEDED); r.v = q; }
  return r;
}
// check that result code `res' is true of (exact E, stored S)
template <typename N, typename T>
bool truthful(Result res, bool exact_defined, const Q& E, const N& stored, Rounding_Dir dir, std::string& why) {
  Val<N> s = value_of(stored);
  Result_Class cls = result_class(res); Result_Relation rel = result_relation(res);
  if (!exact_defined) { if (cls != VC_NAN) { why = "undefined result not classified NaN"; return false; } return true; }
  if (cls == VC_NAN) { why = "defined result classified NaN"; return false; }
  // relation of exact to stored
  int cmp;  // sign(E - S)
  if (s.nan) { why = "stored NaN with non-NaN class"; return false; }
  if (s.pinf) cmp = -1; else if (s.minf) cmp = 1; else cmp = (E < s.v) ? -1 : (E > s.v) ? 1 : 0;
  if (res & V_OVERFLOW) {
    // overflow without storing infinity: exact is beyond the bounds in the stated direction
    if (rel == VR_GT) { if (!(E > Q(std::numeric_limits<T>::max()))) { why = "V_GT_SUP but exact not above max"; return false; } return true; }
    if (rel == VR_LT) { if (!(E < Q(std::numeric_limits<T>::min()))) { why = "V_LT_INF but exact not below min"; return false; } return true; }
    why = "overflow with odd relation"; return false;
  }
  bool ok = (cmp < 0 && (rel & VR_LT)) || (cmp == 0 && (rel & VR_EQ)) || (cmp > 0 && (rel & VR_GT));
  if (!ok) { why = "relation bits do not contain the actual relation"; return false; }
  if (round_up(dir) && cmp > 0) { why = "ROUND_UP but stored below exact"; return false; }
  if (round_down(dir) && cmp < 0) { why = "ROUND_DOWN but stored above exact"; return false; }
  if ((cls == VC_PLUS_INFINITY) != s.pinf || (cls == VC_MINUS_INFINITY) != s.minf) { why = "class does not match stored infinity"; return false; }
  return true;
}


template <typename T>
void run(const char* name) {
  typedef Checked_Number<T, WRD_Extended_Number_Policy> N;
  static const Rounding_Dir dirs[] = { ROUND_UP, ROUND_DOWN, ROUND_IGNORE };
  const int lo = std::numeric_limits<T>::min(), hi = std::numeric_limits<T>::max();
  for (int di = 0; di < 3; ++di) for (int a = lo; a <= hi; ++a) for (int b = lo; b <= hi; ++b) {
    // WRD policy reserves extreme raw values for infinities/NaN: skip raw values that are special
    N x, y; raw_value(x) = (T) a; raw_value(y) = (T) b;
    if (is_not_a_number(x) || is_plus_infinity(x) || is_minus_infinity(x) || is_not_a_number(y) || is_plus_infinity(y) || is_minus_infinity(y)) { stats["special_operand"]++; continue; }
    for (int op = 0; op < 5; ++op) {
      N z; Result r = V_EQ; bool def = true; Q E; if ((op == 3 || op == 4) && b == 0) continue;
      switch (op) {
      case 0: r = add_assign_r(z, x, y, dirs[di]); E = Q(a) + Q(b); break;
      case 1: r = sub_assign_r(z, x, y, dirs[di]); E = Q(a) - Q(b); break;
      case 2: r = mul_assign_r(z, x, y, dirs[di]); E = Q(a) * Q(b); break;
      case 3: r = div_assign_r(z, x, y, dirs[di]); if (b == 0) continue; E = Q(a) / Q(b); break;
      default: r = rem_assign_r(z, x, y, dirs[di]); if (b == 0) continue; { Z q = Z(a) / Z(b); E = Q(Z(a) - q * Z(b)); } break;
      }
      std::string why; ++stats[std::string(name) + ".evals"];
      bool inexact = def && (E.get_den() != 1 || E < lo || E > hi); if (inexact) ++stats[std::string(name) + ".nontrivial"];
      if (!truthful<N, T>(r, def, E, z, dirs[di], why)) { ++stats[std::string(name) + ".fail.op" + std::to_string(op) + (b < 0 ? ".negdiv" : ".posdiv")]; ++failures; if (op != 3 && stats[std::string("printed") + name + std::to_string(op) + std::to_string(di)]++ < 2) std::cerr << name << " op" << op << " dir" << di << " a=" << a << " b=" << b << " result=" << (unsigned) r << " stored=" << raw_value(z) + 0 << " : " << why << "\n"; }
    }
  }
}
int main() {
  run<int8_t>("int8"); run<uint8_t>("uint8");
  for (auto& kv : stats) std::cerr << kv.first << "=" << kv.second << " ";
  std::cerr << "\nfailures=" << failures << "\n";
  return failures ? 1 : 0;
}
