// Scratch probe: C13 aliasing x.op(x) vs x.op(copy) on several domains
#include "ppl-config.h"
#include "ppl_include_files.hh"
#include "pplhook.hh"
#include <rapidcheck.h>
#include <iostream>
#include <map>
using namespace Parma_Polyhedra_Library;
static int rnd(int lo, int hi) { return *rc::gen::resize(100, rc::gen::inRange(lo, hi + 1)); }
static std::map<std::string, long> stats;
template <typename D> D gen(int n, bool strict_ok) {
  D d(n); int m = rnd(0, 4); std::vector<int> w(n); for (int j = 0; j < n; ++j) w[j] = rnd(-2, 2);
  for (int i = 0; i < m; ++i) { Linear_Expression e; int v = 0; for (int j = 0; j < n; ++j) { int a = rnd(-2, 2); e += a * Variable(j); v += a * w[j]; } int b = rnd(-3, 3); v += b; e += b;
    if (v < 0) e = -e; d.refine_with_constraint(e >= 0); }
  int st = rnd(0, 2); if (st == 1) (void) d.minimized_constraints(); else if (st == 2) (void) d.is_empty();
  return d;
}
template <typename D> void one(const char* name) {
  int n = rnd(1, 3); D x = gen<D>(n, false);
  int op = rnd(0, 7); D a(x), b(x), c(x);
  const char* opn = "";
  try {
  switch (op) {
  case 0: opn = "intersection"; a.intersection_assign(a); b.intersection_assign(c); break;
  case 1: opn = "upper_bound"; a.upper_bound_assign(a); b.upper_bound_assign(c); break;
  case 2: opn = "difference"; a.difference_assign(a); b.difference_assign(c); break;
  case 3: opn = "time_elapse"; a.time_elapse_assign(a); b.time_elapse_assign(c); break;
  case 4: opn = "concatenate"; a.concatenate_assign(a); b.concatenate_assign(c); break;
  case 5: opn = "widening"; a.widening_assign(a); b.widening_assign(c); break;
  case 6: opn = "assign/swap"; a = a; swap(a, a); b = c; break;
  default: opn = "contains"; RC_ASSERT(a.contains(a) == b.contains(c)); RC_ASSERT(a.is_disjoint_from(a) == b.is_disjoint_from(c)); RC_ASSERT(a.strictly_contains(a) == b.strictly_contains(c)); break;
  } } catch (const std::logic_error& e) { std::cerr << name << "." << opn << " threw: " << e.what() << "\n"; throw; }
  stats[std::string(name) + "." + opn]++;
  RC_ASSERT(a.OK() && b.OK() && c.OK());
  if (!(a == b)) { std::cerr << name << "." << opn << ": aliased result differs from copy result\n"; RC_FAIL("alias"); }
  if (!(c == x)) { std::cerr << name << "." << opn << ": const argument changed\n"; RC_FAIL("const arg"); }
}
int main() {
  bool ok = true;
  ok = rc::check("C_Polyhedron", [](){ one<C_Polyhedron>("C_Polyhedron"); }) && ok;
  ok = rc::check("NNC_Polyhedron", [](){ one<NNC_Polyhedron>("NNC_Polyhedron"); }) && ok;
  ok = rc::check("BDS", [](){ one<BD_Shape<mpq_class> >("BD_Shape<mpq>"); }) && ok;
  ok = rc::check("OS", [](){ one<Octagonal_Shape<mpz_class> >("Octagonal_Shape<mpz>"); }) && ok;
  ok = rc::check("Box", [](){ one<Rational_Box>("Rational_Box"); }) && ok;
  ok = rc::check("Grid", [](){ one<Grid>("Grid"); }) && ok;
  for (auto& kv : stats) std::cerr << kv.first << "=" << kv.second << " "; std::cerr << "\n";
  return ok ? 0 : 1;
}
