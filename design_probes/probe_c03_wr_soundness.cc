// Scratch probe: C02 oracle feasibility for (generalized/bounded) affine images and preimages.
#include "ppl-config.h"
#include "ppl_include_files.hh"
#include "refgeom.hh"
#include <rapidcheck.h>
#include <iostream>
#include <map>
using namespace Parma_Polyhedra_Library;
namespace Parma_Polyhedra_Library {
void ppl_assertion_failed(const char* t, const char* f, unsigned l, const char*) {
  throw std::logic_error(std::string("PPL assertion failed: ") + t + " at " + f + ":" + std::to_string(l)); }
void ppl_unreachable_msg(const char* t, const char* f, unsigned l, const char*) {
  throw std::logic_error(std::string("PPL unreachable: ") + t + " at " + f + ":" + std::to_string(l)); }
void ppl_unreachable() { throw std::logic_error("PPL unreachable"); }
}
using ref::Q; using ref::Vec; using ref::Con; using ref::Sys;

static Sys to_ref(const Constraint_System& cs, size_t n) {
  Sys s(n);
  for (Constraint_System::const_iterator i = cs.begin(); i != cs.end(); ++i) {
    Con c; c.a.assign(n, Q(0));
    for (size_t j = 0; j < i->space_dimension(); ++j) c.a[j] = Q(i->coefficient(Variable(j)));
    c.b = Q(i->inhomogeneous_term());
    c.r = i->is_equality() ? ref::EQ : (i->is_strict_inequality() ? ref::GT : ref::GE);
    s.add(c);
  }
  return s;
}
template <typename G> int pick(G g) { return *rc::gen::resize(100, g); }
static int rnd(int lo, int hi) { return *rc::gen::resize(100, rc::gen::inRange(lo, hi + 1)); }

struct LE { std::vector<int> a; int b; };
static LE gen_le(int n) { LE e; e.a.resize(n); for (int j = 0; j < n; ++j) e.a[j] = rnd(0, 2) == 0 ? 0 : rnd(-3, 3); e.b = rnd(-3, 3); return e; }
static Linear_Expression to_ppl(const LE& e) { Linear_Expression r; for (size_t j = 0; j < e.a.size(); ++j) r += e.a[j] * Variable(j); r += e.b; return r; }

static std::map<std::string, long> stats;
static Relation_Symbol RS(int s) { static const Relation_Symbol t[5] = { LESS_THAN, LESS_OR_EQUAL, EQUAL, GREATER_OR_EQUAL, GREATER_THAN }; return t[s]; }

// Build reference relation image/preimage.  Space: old vars 0..n-1, new vars n..2n-1.
// rel: sum_j lhs.a[j]*w_j + lhs.b  (sym)  (sum_j rhs.a[j]*v_j + rhs.b)/den ; frame: w_i = v_i for i with lhs.a[i]==0.
// sym: 0 '<', 1 '<=', 2 '=', 3 '>=', 4 '>'
static void add_rel(Sys& s, int n, const LE& lhs, int sym, const LE& rhs, int den, bool frame_all_but = true) {
  // den*(lhs(w)) sym' rhs(v), with sym flipped if den < 0
  Con c; c.a.assign(2*n, Q(0));
  // expression E = den*lhs(w) - rhs(v)   ; relation E sym' 0
  for (int j = 0; j < n; ++j) { c.a[n + j] += Q(den) * lhs.a[j]; c.a[j] -= rhs.a[j]; }
  c.b = Q(den) * lhs.b - rhs.b;
  int sy = sym; if (den < 0) sy = 4 - sym;
  // E sy 0 ->  for '<','<=': -E > / >= 0
  if (sy == 2) c.r = ref::EQ;
  else if (sy == 3) c.r = ref::GE; else if (sy == 4) c.r = ref::GT;
  else { for (size_t t = 0; t < c.a.size(); ++t) c.a[t] = -c.a[t]; c.b = -c.b; c.r = (sy == 1) ? ref::GE : ref::GT; }
  s.add(c);
  for (int i = 0; i < n; ++i) if (lhs.a[i] == 0) { Con f; f.a.assign(2*n, Q(0)); f.a[i] = 1; f.a[n+i] = -1; f.b = 0; f.r = ref::EQ; s.add(f); }
}
// image: { w | exists v in P, (v,w) in rel } ; preimage: { v | exists w in P, (v,w) in rel }
static Sys rel_apply(const Sys& p, int n, const std::vector<Con>& rel, bool image) {
  Sys s(2*n);
  for (size_t i = 0; i < p.cs.size(); ++i) { Con c; c.a.assign(2*n, Q(0)); for (int j = 0; j < n; ++j) c.a[(image ? 0 : n) + j] = p.cs[i].a[j]; c.b = p.cs[i].b; c.r = p.cs[i].r; s.add(c); }
  for (size_t i = 0; i < rel.size(); ++i) s.add(rel[i]);
  if (image) { // reorder so that old vars are last: swap halves
    for (size_t i = 0; i < s.cs.size(); ++i) { Vec a(2*n); for (int j = 0; j < n; ++j) { a[j] = s.cs[i].a[n+j]; a[n+j] = s.cs[i].a[j]; } s.cs[i].a = a; }
  }
  return ref::project_last(s, n);
}

template <typename PH>
void one(bool nnc, bool exact = true) {
  const int n = rnd(1, 3);
  // witness point keeps most polyhedra non-empty
  std::vector<int> wit(n); for (int j = 0; j < n; ++j) wit[j] = rnd(-2, 2);
  const int m = rnd(0, 5);
  PH ph(n);
  C_Polyhedron shadow(n);
  bool force_empty = rnd(0, 9) == 0;
  for (int i = 0; i < m; ++i) {
    LE e = gen_le(n); int v = e.b; for (int j = 0; j < n; ++j) v += e.a[j] * wit[j];
    int k = rnd(0, nnc ? 5 : 4);
    if (!force_empty) { if (k == 0) e.b -= v; else if (v < 0 || (k == 5 && v == 0)) { for (int j = 0; j < n; ++j) e.a[j] = -e.a[j]; e.b = -e.b; v = -v; if (k == 5 && v == 0) e.b += 1; } }
    Linear_Expression le = to_ppl(e);
    if (k == 0) ph.refine_with_constraint(le == 0); else if (k == 5) ph.refine_with_constraint(le > 0); else ph.refine_with_constraint(le >= 0);
  }
  int st = rnd(0, 3);
  if (st == 1) (void) ph.minimized_constraints(); else if (st == 2) (void) ph.is_universe(); else if (st == 3) (void) ph.is_empty();
  Sys before = to_ref(PH(ph).constraints(), n);   // value snapshot through a copy
  bool emp = ref::is_empty(before);
  int op = rnd(0, 7);
  if (emp && op >= 2) { stats["excluded.empty_receiver"]++; return; }
  int k = rnd(0, n - 1);
  LE rhs = gen_le(n), rhs2 = gen_le(n);
  int den = pick(rc::gen::elementOf(std::vector<int>{-3, -2, -1, 1, 2, 3}));
  int sym = rnd(nnc ? 0 : 1, nnc ? 4 : 3);
  LE var; var.a.assign(n, 0); var.a[k] = 1; var.b = 0;
  std::vector<Con> rel; Sys tmp(2*n); bool image = true; std::string name;
  switch (op) {
  case 0: name = "affine_image"; ph.affine_image(Variable(k), to_ppl(rhs), den); add_rel(tmp, n, var, 2, rhs, den); break;
  case 1: name = "affine_preimage"; ph.affine_preimage(Variable(k), to_ppl(rhs), den); add_rel(tmp, n, var, 2, rhs, den); image = false; break;
  case 2: name = "gen_affine_image"; ph.generalized_affine_image(Variable(k), RS(sym), to_ppl(rhs), den); add_rel(tmp, n, var, sym, rhs, den); break;
  case 3: name = "gen_affine_preimage"; ph.generalized_affine_preimage(Variable(k), RS(sym), to_ppl(rhs), den); add_rel(tmp, n, var, sym, rhs, den); image = false; break;
  case 4: { name = "gen_affine_image_lhs"; LE lhs = gen_le(n); ph.generalized_affine_image(to_ppl(lhs), RS(sym), to_ppl(rhs)); add_rel(tmp, n, lhs, sym, rhs, 1); break; }
  case 5: { name = "gen_affine_preimage_lhs"; LE lhs = gen_le(n); ph.generalized_affine_preimage(to_ppl(lhs), RS(sym), to_ppl(rhs)); add_rel(tmp, n, lhs, sym, rhs, 1); image = false; break; }
  case 6: name = "bounded_affine_image"; ph.bounded_affine_image(Variable(k), to_ppl(rhs), to_ppl(rhs2), den);
          add_rel(tmp, n, var, 3, rhs, den); { Sys t2(2*n); add_rel(t2, n, var, 1, rhs2, den); tmp.cs.push_back(t2.cs[0]); } break;
  case 7: name = "bounded_affine_preimage"; ph.bounded_affine_preimage(Variable(k), to_ppl(rhs), to_ppl(rhs2), den);
          add_rel(tmp, n, var, 3, rhs, den); { Sys t2(2*n); add_rel(t2, n, var, 1, rhs2, den); tmp.cs.push_back(t2.cs[0]); } image = false; break;
  }
  rel = tmp.cs;
  Sys expect = rel_apply(before, n, rel, image);
  RC_ASSERT(ph.OK());
  Sys got = to_ref(ph.constraints(), n);
  stats[name]++; if (emp) stats[name + ".empty_arg"]++;
  if (exact ? !ref::equal(expect, got) : !ref::included(expect, got)) {
    std::cerr << name << " MISMATCH\n before=" << ref::show(before) << "\n expect=" << ref::show(expect) << "\n got=" << ref::show(got)
              << "\n k=" << k << " den=" << den << " sym=" << sym << "\n";
    RC_FAIL("wrong result");
  }
}
int main(int argc, char**) {
  bool ok = true;
  ok = rc::check("BDS mpq", [](){ one<BD_Shape<mpq_class> >(false, false); }) && ok;
  ok = rc::check("OS mpq", [](){ one<Octagonal_Shape<mpq_class> >(false, false); }) && ok;
  ok = rc::check("Rational_Box", [](){ one<Rational_Box>(true, false); }) && ok;
  ok = rc::check("BDS int8", [](){ one<BD_Shape<int8_t> >(false, false); }) && ok;
  ok = rc::check("OS double", [](){ one<Octagonal_Shape<double> >(false, false); }) && ok;
  for (auto& kv : stats) std::cerr << kv.first << "=" << kv.second << " ";
  std::cerr << "\n";
  return ok ? 0 : 1;
}
