// Scratch probe: C07 oracle feasibility (PIP solution tree evaluated through the public
// interface vs. brute-force lexicographic minimum)
#include "ppl-config.h"
#include "ppl_include_files.hh"
#include "pplhook.hh"
#include <rapidcheck.h>
#include <iostream>
#include <map>
using namespace Parma_Polyhedra_Library;
using namespace Parma_Polyhedra_Library::IO_Operators;
typedef mpz_class Z;
static int rnd(int lo, int hi) { return *rc::gen::resize(100, rc::gen::inRange(lo, hi + 1)); }
static std::map<std::string, long> stats;

static Z eval_le(const Linear_Expression& e, const std::vector<Z>& val) {
  Z s = e.inhomogeneous_term();
  for (dimension_type j = 0; j < e.space_dimension(); ++j) { Z c = e.coefficient(Variable(j)); if (c != 0) { if (j >= val.size()) throw std::runtime_error("tree uses an undeclared dimension"); s += c * val[j]; } }
  return s;
}
static bool sat(const Constraint& c, const std::vector<Z>& val) {
  Linear_Expression e(c.expression()); Z v = eval_le(e, val);
  return c.is_equality() ? v == 0 : c.is_strict_inequality() ? v > 0 : v >= 0;
}
// returns true and fills sol if a solution node is reached; false for bottom
static bool eval_tree(const PIP_Tree_Node* node, std::vector<Z> val, const std::vector<int>& vars, std::vector<Z>& sol, int& depth) {
  for (;;) {
    if (node == 0) return false;
    for (PIP_Tree_Node::Artificial_Parameter_Sequence::const_iterator i = node->art_parameter_begin(); i != node->art_parameter_end(); ++i) {
      Z num = eval_le(*i, val); Z q; mpz_fdiv_q(q.get_mpz_t(), num.get_mpz_t(), i->denominator().get_mpz_t()); val.push_back(q); stats["art_params"]++;
    }
    bool all = true; const Constraint_System& cs = node->constraints();
    for (Constraint_System::const_iterator i = cs.begin(); i != cs.end(); ++i) if (!sat(*i, val)) { all = false; break; }
    if (const PIP_Decision_Node* d = node->as_decision()) { ++depth; node = d->child_node(all); continue; }
    const PIP_Solution_Node* s = node->as_solution();
    if (!all) return false;
    sol.clear();
    for (size_t t = 0; t < vars.size(); ++t) sol.push_back(eval_le(s->parametric_values(Variable(vars[t])), val));
    return true;
  }
}

struct Row { std::vector<int> a; int b; int k; };   // over all dims: a.x + b {=,>=,>} 0
static bool row_sat(const Row& r, const std::vector<int>& x) { long v = r.b; for (size_t j = 0; j < x.size(); ++j) v += (long) r.a[j] * x[j]; return r.k == 0 ? v == 0 : r.k == 1 ? v >= 0 : v > 0; }

static void one() {
  const int nv = rnd(1, 2), np = rnd(0, 2), n = nv + np, U = 4, P = 5;
  // dims: random assignment of which dims are parameters
  std::vector<int> vars, pars; { std::vector<int> d; for (int j = 0; j < n; ++j) d.push_back(j); for (int t = 0; t < np; ++t) { int k = rnd(0, (int) d.size() - 1); pars.push_back(d[k]); d.erase(d.begin() + k); } vars = d; std::sort(pars.begin(), pars.end()); }
  std::vector<Row> rows; int m = rnd(0, 4);
  for (int i = 0; i < m; ++i) { Row r; r.a.resize(n); for (int j = 0; j < n; ++j) r.a[j] = rnd(0, 2) == 0 ? 0 : rnd(-3, 3); r.b = rnd(-4, 4); r.k = rnd(0, 5) == 0 ? 0 : rnd(0, 5) == 0 ? 2 : 1; rows.push_back(r); }
  for (size_t t = 0; t < vars.size(); ++t) { Row r; r.a.assign(n, 0); r.a[vars[t]] = -1; r.b = U; r.k = 1; rows.push_back(r); }   // x <= U
  Constraint_System cs; cs.set_space_dimension(n);
  for (size_t i = 0; i < rows.size(); ++i) { Linear_Expression e; for (int j = 0; j < n; ++j) e += rows[i].a[j] * Variable(j); e += rows[i].b; if (rows[i].k == 0) cs.insert(e == 0); else if (rows[i].k == 1) cs.insert(e >= 0); else cs.insert(e > 0); }
  Variables_Set ps; for (size_t t = 0; t < pars.size(); ++t) ps.insert(Variable(pars[t]));
  PIP_Problem pip(n, cs.begin(), cs.end(), ps);
  int cut = rnd(0, 2), piv = rnd(0, 1);
  pip.set_control_parameter(cut == 0 ? PIP_Problem::CUTTING_STRATEGY_FIRST : cut == 1 ? PIP_Problem::CUTTING_STRATEGY_DEEPEST : PIP_Problem::CUTTING_STRATEGY_ALL);
  pip.set_control_parameter(piv == 0 ? PIP_Problem::PIVOT_ROW_STRATEGY_FIRST : PIP_Problem::PIVOT_ROW_STRATEGY_MAX_COLUMN);
  PIP_Problem_Status st = pip.solve();
  RC_ASSERT(pip.OK());
  const PIP_Tree_Node* root = pip.solution();
  stats["problems"]++; if (st == UNFEASIBLE_PIP_PROBLEM) stats["status.unfeasible"]++;
  bool any_feasible = false;
  std::vector<int> pv(pars.size(), 0);
  for (;;) {
    { std::vector<int> x0(n, 0); for (size_t t = 0; t < pars.size(); ++t) x0[pars[t]] = pv[t]; bool ctx_ok = true;
      for (size_t i = 0; i < rows.size(); ++i) { bool only_par = true; for (size_t t = 0; t < vars.size(); ++t) if (rows[i].a[vars[t]] != 0) only_par = false; if (only_par && !row_sat(rows[i], x0)) ctx_ok = false; }
      if (!ctx_ok) { stats["skipped.context"]++; size_t t = 0; while (t < pv.size() && ++pv[t] > P) { pv[t] = 0; ++t; } if (t == pv.size()) break; continue; } }
    // brute-force lexmin
    std::vector<int> x(n, 0); for (size_t t = 0; t < pars.size(); ++t) x[pars[t]] = pv[t];
    std::vector<int> xv(vars.size(), 0); bool found = false; std::vector<int> best;
    for (;;) {
      for (size_t t = 0; t < vars.size(); ++t) x[vars[t]] = xv[t];
      bool ok = true; for (size_t i = 0; i < rows.size() && ok; ++i) ok = row_sat(rows[i], x);
      if (ok) { found = true; best = xv; break; }    // enumeration is in lexicographic order (last index fastest)
      int t = (int) vars.size() - 1; while (t >= 0 && ++xv[t] > U) { xv[t] = 0; --t; }
      if (t < 0) break;
    }
    if (found) any_feasible = true;
    std::vector<Z> val(n, Z(0)); for (size_t t = 0; t < pars.size(); ++t) val[pars[t]] = pv[t];
    std::vector<Z> sol; int depth = 0; bool got = false; std::string err;
    try { got = eval_tree(root, val, vars, sol, depth); } catch (const std::runtime_error& e) { err = e.what(); }
    bool bad = !err.empty() || got != found;
    if (!bad && got) for (size_t t = 0; t < vars.size(); ++t) if (sol[t] != best[t]) bad = true;
    if (depth > 0) stats["evaluations.through_decision"]++; stats["evaluations"]++;
    if (bad) {
      std::cerr << "PIP MISMATCH " << err << " params:"; for (size_t t = 0; t < pars.size(); ++t) std::cerr << " " << Variable(pars[t]) << "=" << pv[t];
      std::cerr << " brute=" << (found ? "" : "bottom"); if (found) for (size_t t = 0; t < best.size(); ++t) std::cerr << best[t] << ",";
      std::cerr << " tree=" << (got ? "" : "bottom"); if (got) for (size_t t = 0; t < sol.size(); ++t) std::cerr << sol[t] << ",";
      std::cerr << " status=" << (st == UNFEASIBLE_PIP_PROBLEM ? "UNFEASIBLE" : "OPTIMIZED") << " cut=" << cut << " piv=" << piv << "\n cs: " << cs << "\n params: " << ps << "\n tree:\n"; pip.print_solution(std::cerr);
      RC_FAIL("pip");
    }
    size_t t = 0; while (t < pv.size() && ++pv[t] > P) { pv[t] = 0; ++t; }
    if (t == pv.size()) break;
  }
  if (st == UNFEASIBLE_PIP_PROBLEM && any_feasible) RC_FAIL("status unfeasible but feasible in window");
}
int main() {
  bool ok = rc::check("pip", [](){ one(); });
  for (auto& kv : stats) std::cerr << kv.first << "=" << kv.second << " ";
  std::cerr << "\n";
  return ok ? 0 : 1;
}
