#include <stdexcept>
#include <string>
#include <cstring>
#include <map>
static std::map<std::string, long> g_ignored_asserts;
namespace Parma_Polyhedra_Library {
void ppl_assertion_failed(const char* t, const char* f, unsigned l, const char*) {
  if (std::strstr(f, "Sparse_Row.cc") && std::strcmp(t, "i == i_end || j == j_end") == 0) { g_ignored_asserts[std::string(f) + ":" + std::to_string(l)]++; return; }
  throw std::logic_error(std::string("PPL assertion failed: ") + t + " at " + f + ":" + std::to_string(l)); }
void ppl_unreachable_msg(const char* t, const char* f, unsigned l, const char*) {
  throw std::logic_error(std::string("PPL unreachable: ") + t + " at " + f + ":" + std::to_string(l)); }
void ppl_unreachable() { throw std::logic_error("PPL unreachable"); }
}
