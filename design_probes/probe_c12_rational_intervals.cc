// Scratch probe: C12 - rational interval arithmetic is exact (vs. independent exact interval arithmetic)
#include "ppl-config.h"
#include "ppl_include_files.hh"
#include "pplhook.hh"
#include <rapidcheck.h>
#include <iostream>
#include <map>
using namespace Parma_Polyhedra_Library;
typedef mpq_class Q;
static int rnd(int lo, int hi) { return *rc::gen::resize(100, rc::gen::inRange(lo, hi + 1)); }
static std::map<std::string, long> stats;
struct End { int inf; Q v; bool open; };                       // inf: -1, 0, +1
struct RI { bool empty; End lo, hi; };
static RI gen_ri() {
  RI r; r.empty = false; int shape = rnd(0, 9);
  Q a = Q(rnd(-6, 6), rnd(1, 3)); a.canonicalize(); Q b = a + Q(rnd(0, 8), rnd(1, 3)); b.canonicalize();
  if (shape == 0) { a = 0; } if (shape == 1) { b = 0; if (a > b) a = b - 1; } if (shape == 2) b = a;
  r.lo.inf = (shape == 3 || shape == 5) ? -1 : 0; r.hi.inf = (shape == 4 || shape == 5) ? 1 : 0; r.lo.v = a; r.hi.v = b;
  r.lo.open = r.lo.inf ? true : rnd(0, 2) == 0; r.hi.open = r.hi.inf ? true : rnd(0, 2) == 0;
  if (!r.lo.inf && !r.hi.inf && a == b && (r.lo.open || r.hi.open)) { r.lo.open = r.hi.open = false; }
  return r;
}
static Rational_Interval to_ppl(const RI& r) {
  Rational_Interval i;
  if (r.empty) { i.assign(EMPTY); return i; }
  if (r.lo.inf && r.hi.inf) { i.assign(UNIVERSE); return i; }
  Q lv = r.lo.v, hv = r.hi.v;
  if (r.lo.inf) i.build(i_constraint(r.hi.open ? LESS_THAN : LESS_OR_EQUAL, hv));
  else if (r.hi.inf) i.build(i_constraint(r.lo.open ? GREATER_THAN : GREATER_OR_EQUAL, lv));
  else i.build(i_constraint(r.lo.open ? GREATER_THAN : GREATER_OR_EQUAL, lv), i_constraint(r.hi.open ? LESS_THAN : LESS_OR_EQUAL, hv));
  return i;
}
static RI from_ppl(const Rational_Interval& i) {
  RI r; r.empty = i.is_empty(); if (r.empty) return r;
  r.lo.inf = i.lower_is_boundary_infinity() ? -1 : 0; r.hi.inf = i.upper_is_boundary_infinity() ? 1 : 0;
  if (!r.lo.inf) { r.lo.v = i.lower(); r.lo.open = i.lower_is_open(); } else r.lo.open = true;
  if (!r.hi.inf) { r.hi.v = i.upper(); r.hi.open = i.upper_is_open(); } else r.hi.open = true;
  return r;
}
static bool same(const RI& a, const RI& b) { if (a.empty || b.empty) return a.empty == b.empty;
  return a.lo.inf == b.lo.inf && a.hi.inf == b.hi.inf && (a.lo.inf || (a.lo.v == b.lo.v && a.lo.open == b.lo.open)) && (a.hi.inf || (a.hi.v == b.hi.v && a.hi.open == b.hi.open)); }
static std::string show(const RI& r) { if (r.empty) return "{}"; std::ostringstream o; o << (r.lo.open ? "(" : "["); if (r.lo.inf) o << "-inf"; else o << r.lo.v; o << ","; if (r.hi.inf) o << "+inf"; else o << r.hi.v; o << (r.hi.open ? ")" : "]"); return o.str(); }
// exact product: corners with inf*0 = 0; closed iff both closed or a closed zero is involved
struct Cand { int inf; Q v; bool closed; };
static Cand mulc(const End& a, const End& b) {
  Cand c; bool az = !a.inf && a.v == 0, bz = !b.inf && b.v == 0;
  if (az || bz) { c.inf = 0; c.v = 0; c.closed = (az && !a.open) || (bz && !b.open); return c; }
  int sa = a.inf ? a.inf : sgn(a.v), sb = b.inf ? b.inf : sgn(b.v);
  if (a.inf || b.inf) { c.inf = sa * sb; c.closed = false; return c; }
  c.inf = 0; c.v = a.v * b.v; c.closed = !a.open && !b.open; return c;
}
static bool less(const Cand& x, const Cand& y) { if (x.inf != y.inf) return x.inf < y.inf; if (x.inf) return false; return x.v < y.v; }
static bool eqv(const Cand& x, const Cand& y) { return x.inf == y.inf && (x.inf || x.v == y.v); }
static RI ref_mul(const RI& a, const RI& b) {
  RI r; r.empty = a.empty || b.empty; if (r.empty) return r;
  Cand c[4] = { mulc(a.lo, b.lo), mulc(a.lo, b.hi), mulc(a.hi, b.lo), mulc(a.hi, b.hi) };
  // a closed zero inside an interval (not at an end) also attains 0: handled because 0 is then interior of the product or equals a corner only if other is {0}
  Cand mn = c[0], mx = c[0];
  for (int i = 1; i < 4; ++i) { if (less(c[i], mn)) mn = c[i]; else if (eqv(c[i], mn) && c[i].closed) mn.closed = true; if (less(mx, c[i])) mx = c[i]; else if (eqv(c[i], mx) && c[i].closed) mx.closed = true; }
  // zero attained through an interior zero of one operand
  auto has_zero = [](const RI& x) { bool lo_ok = x.lo.inf || x.lo.v < 0 || (x.lo.v == 0 && !x.lo.open); bool hi_ok = x.hi.inf || x.hi.v > 0 || (x.hi.v == 0 && !x.hi.open); return lo_ok && hi_ok; };
  if ((has_zero(a) || has_zero(b))) { if (!mn.inf && mn.v == 0) mn.closed = true; if (!mx.inf && mx.v == 0) mx.closed = true; }
  r.lo.inf = mn.inf; r.lo.v = mn.v; r.lo.open = !mn.closed; r.hi.inf = mx.inf; r.hi.v = mx.v; r.hi.open = !mx.closed;
  return r;
}
static RI ref_add(const RI& a, const RI& b, bool sub) {
  RI r; r.empty = a.empty || b.empty; if (r.empty) return r;
  End bl = b.lo, bh = b.hi; if (sub) { End t = bl; bl = bh; bh = t; bl.inf = -bl.inf; bl.v = -bl.v; bh.inf = -bh.inf; bh.v = -bh.v; }
  r.lo.inf = (a.lo.inf || bl.inf) ? -1 : 0; r.lo.v = a.lo.v + bl.v; r.lo.open = r.lo.inf ? true : (a.lo.open || bl.open);
  r.hi.inf = (a.hi.inf || bh.inf) ? 1 : 0; r.hi.v = a.hi.v + bh.v; r.hi.open = r.hi.inf ? true : (a.hi.open || bh.open);
  return r;
}
static void one() {
  RI a = gen_ri(), b = gen_ri(); if (rnd(0, 19) == 0) a.empty = true;
  Rational_Interval x = to_ppl(a), y = to_ppl(b), z;
  RC_ASSERT(same(from_ppl(x), a) && same(from_ppl(y), b));
  int op = rnd(0, 2); RI expect; const char* name;
  if (op == 0) { z.add_assign(x, y); expect = ref_add(a, b, false); name = "add"; }
  else if (op == 1) { z.sub_assign(x, y); expect = ref_add(a, b, true); name = "sub"; }
  else { z.mul_assign(x, y); expect = ref_mul(a, b); name = "mul"; }
  RC_ASSERT(z.OK());
  stats[name]++;
  RI got = from_ppl(z);
  if (!same(got, expect)) { std::cerr << name << " " << show(a) << " , " << show(b) << "  expected " << show(expect) << "  got " << show(got) << "\n"; RC_FAIL("interval"); }
}
int main() {
  bool ok = rc::check("rational intervals", [](){ one(); });
  for (auto& kv : stats) std::cerr << kv.first << "=" << kv.second << " "; std::cerr << "\n";
  return ok ? 0 : 1;
}
