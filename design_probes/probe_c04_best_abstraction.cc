// Scratch probe: C04 - best abstraction (alpha via LP) for rational BDS / octagon / box:
// constructor from polyhedron at ANY_COMPLEXITY, upper_bound_assign, difference_assign, is_disjoint_from, contains
#include "ppl-config.h"
#include "ppl_include_files.hh"
#include "refgeom.hh"
#include "pplhook.hh"
#include <rapidcheck.h>
#include <iostream>
#include <map>
using namespace Parma_Polyhedra_Library;
using namespace Parma_Polyhedra_Library::IO_Operators;
using ref::Q; using ref::Vec; using ref::Con; using ref::Sys;
static int rnd(int lo, int hi) { return *rc::gen::resize(100, rc::gen::inRange(lo, hi + 1)); }
static std::map<std::string, long> stats;
static Sys to_ref(const Constraint_System& cs, size_t n) {
  Sys s(n);
  for (Constraint_System::const_iterator i = cs.begin(); i != cs.end(); ++i) { Con c; c.a.assign(n, Q(0)); for (size_t j = 0; j < i->space_dimension(); ++j) c.a[j] = Q(i->coefficient(Variable(j))); c.b = Q(i->inhomogeneous_term()); c.r = i->is_equality() ? ref::EQ : (i->is_strict_inequality() ? ref::GT : ref::GE); s.add(c); }
  return s;
}
// templates: kind 0 box (+-xi), 1 BDS (+-xi, xi-xj), 2 octagon (+-xi, +-xi+-xj)
static std::vector<Vec> directions(int n, int kind) {
  std::vector<Vec> d;
  for (int i = 0; i < n; ++i) for (int s = -1; s <= 1; s += 2) { Vec v(n, Q(0)); v[i] = s; d.push_back(v); }
  if (kind >= 1) for (int i = 0; i < n; ++i) for (int j = 0; j < n; ++j) if (i != j) { Vec v(n, Q(0)); v[i] = 1; v[j] = -1; d.push_back(v); }
  if (kind == 2) for (int i = 0; i < n; ++i) for (int j = i + 1; j < n; ++j) for (int s = -1; s <= 1; s += 2) { Vec v(n, Q(0)); v[i] = s; v[j] = s; d.push_back(v); }
  return d;
}
// alpha of a union of (closed) sets
static Sys alpha(const std::vector<Sys>& pieces, int n, int kind) {
  std::vector<Sys> ne; for (size_t i = 0; i < pieces.size(); ++i) if (!ref::is_empty(pieces[i])) ne.push_back(pieces[i]);
  Sys r(n); if (ne.empty()) { r.add(Con(Vec(n, Q(0)), Q(-1), ref::GE)); return r; }
  std::vector<Vec> ds = directions(n, kind);
  for (size_t t = 0; t < ds.size(); ++t) { bool bounded = true; Q best; bool have = false;
    for (size_t i = 0; i < ne.size() && bounded; ++i) { Q v; bool att; if (!ref::sup(ne[i], ds[t], Q(0), v, att)) bounded = false; else if (!have || v > best) { best = v; have = true; } }
    if (bounded) { Vec a(n); for (int j = 0; j < n; ++j) a[j] = -ds[t][j]; r.add(Con(a, best, ref::GE)); } }   // d.x <= best
  return r;
}
static C_Polyhedron genp(int n) {
  C_Polyhedron p(n); std::vector<int> w(n); for (int j = 0; j < n; ++j) w[j] = rnd(-2, 2); int m = rnd(0, 5);
  for (int i = 0; i < m; ++i) { Linear_Expression e; int v = 0; for (int j = 0; j < n; ++j) { int a = rnd(0, 2) ? rnd(-3, 3) : 0; e += a * Variable(j); v += a * w[j]; } int b = rnd(-4, 4); e += b; v += b; if (rnd(0, 9) == 0) { e -= v; p.add_constraint(e == 0); } else { if (v < 0) e = -e; p.add_constraint(e >= 0); } }
  return p;
}
template <typename D> void one(const char* name, int kind) {
  int n = rnd(1, 3); C_Polyhedron P = genp(n), Qp = genp(n);
  Sys sp = to_ref(P.constraints(), n), sq = to_ref(Qp.constraints(), n);
  D a(P, ANY_COMPLEXITY), b(Qp, ANY_COMPLEXITY);
  int st = rnd(0, 2); if (st == 1) (void) a.minimized_constraints(); if (st == 2) (void) b.is_empty();
  Sys ea = alpha(std::vector<Sys>(1, sp), n, kind), eb = alpha(std::vector<Sys>(1, sq), n, kind);
  Sys ga = to_ref(a.constraints(), n), gb = to_ref(b.constraints(), n);
  stats[std::string(name) + ".from_polyhedron"] += 2;
  if (!ref::equal(ga, ea) || !ref::equal(gb, eb)) { std::cerr << name << "(C_Polyhedron) is not the best abstraction: P=" << P << " got " << ref::show(ga) << " expected " << ref::show(ea) << "\n"; RC_FAIL("alpha"); }
  int op = rnd(0, 2);
  if (op == 0) { D c(a); c.upper_bound_assign(b); std::vector<Sys> u; u.push_back(ea); u.push_back(eb); Sys e = alpha(u, n, kind); Sys g = to_ref(c.constraints(), n); stats[std::string(name) + ".upper_bound"]++;
    if (!ref::equal(g, e)) { std::cerr << name << " upper_bound not the smallest: a=" << ref::show(ea) << " b=" << ref::show(eb) << " got " << ref::show(g) << " expected " << ref::show(e) << "\n"; RC_FAIL("join"); } }
  else if (op == 1) { Sys meet(ea); for (size_t i = 0; i < eb.cs.size(); ++i) meet.add(eb.cs[i]); bool dj = ref::is_empty(meet); stats[std::string(name) + (dj ? ".disjoint" : ".intersecting")]++;
    if (a.is_disjoint_from(b) != dj) { std::cerr << name << " is_disjoint_from=" << a.is_disjoint_from(b) << " but meet empty=" << dj << " a=" << ref::show(ea) << " b=" << ref::show(eb) << "\n"; RC_FAIL("disjoint"); }
    if (a.contains(b) != ref::included(eb, ea)) { std::cerr << name << " contains wrong\n"; RC_FAIL("contains"); } }
  else { D c(a); c.difference_assign(b); // pieces: ea and not(c_i) for c_i in eb ; closed shapes -> closure of pieces
    std::vector<Sys> pieces; for (size_t i = 0; i < eb.cs.size(); ++i) { int parts = eb.cs[i].r == ref::EQ ? 2 : 1; for (int w = 0; w < parts; ++w) { Sys t(ea); Con nc = ref::negate_part(eb.cs[i], w); if (ref::is_empty([&]{ Sys z(t); z.add(nc); return z; }())) continue; nc.r = ref::GE; t.add(nc); pieces.push_back(t); } }
    if (ref::is_empty(eb)) { pieces.clear(); pieces.push_back(ea); }
    Sys e = alpha(pieces, n, kind); Sys g = to_ref(c.constraints(), n); stats[std::string(name) + ".difference"]++;
    if (!ref::equal(g, e)) { std::cerr << name << " difference not the smallest: a=" << ref::show(ea) << " b=" << ref::show(eb) << " got " << ref::show(g) << " expected " << ref::show(e) << "\n"; RC_FAIL("difference"); } }
}
int main() {
  bool ok = true;
  ok = rc::check("BDS", [](){ one<BD_Shape<mpq_class> >("BD_Shape<mpq>", 1); }) && ok;
  ok = rc::check("OS", [](){ one<Octagonal_Shape<mpq_class> >("Octagonal_Shape<mpq>", 2); }) && ok;
  ok = rc::check("Box", [](){ one<Rational_Box>("Rational_Box", 0); }) && ok;
  for (auto& kv : stats) std::cerr << kv.first << "=" << kv.second << " "; std::cerr << "\n";
  return ok ? 0 : 1;
}
