// Scratch probe: C17 - wrap_assign point-wise soundness on polyhedra / boxes / BDS / grids
#include "ppl-config.h"
#include "ppl_include_files.hh"
#include "pplhook.hh"
#include <rapidcheck.h>
#include <iostream>
#include <map>
using namespace Parma_Polyhedra_Library;
using namespace Parma_Polyhedra_Library::IO_Operators;
static int rnd(int lo, int hi) { return *rc::gen::resize(100, rc::gen::inRange(lo, hi + 1)); }
static std::map<std::string, long> stats;
template <typename D> bool has_point(const D& d, long x0, long x1num, long x1den) {
  Generator g = point(x0 * x1den * Variable(0) + x1num * Variable(1), x1den);
  return d.relation_with(g) == Poly_Gen_Relation::subsumes();
}
template <> bool has_point<Grid>(const Grid& d, long x0, long x1num, long x1den) {
  Grid_Generator g = grid_point(x0 * x1den * Variable(0) + x1num * Variable(1), x1den);
  return d.relation_with(g) == Poly_Gen_Relation::subsumes();
}
static long wrapv(long v, bool sgn) { long m = ((v % 256) + 256) % 256; return (sgn && m >= 128) ? m - 256 : m; }
template <typename D> void one(const char* name, bool grid) {
  D d(2);
  int lo = rnd(-300, 300), len = rnd(0, 400);
  if (!grid) { d.refine_with_constraint(Variable(0) >= lo); if (rnd(0, 4)) d.refine_with_constraint(Variable(0) <= lo + len); 
    int k = rnd(0, 3); for (int i = 0; i < k; ++i) { int a = rnd(-2, 2), b = rnd(-2, 2), c = rnd(-300, 300); d.refine_with_constraint(a * Variable(0) + b * Variable(1) + c >= 0); } }
  else { int k = rnd(0, 2); static const int mods[] = {0, 2, 3, 7, 256, 512, 100}; for (int i = 0; i < k; ++i) { int a = rnd(-2, 2), b = rnd(-2, 2), c = rnd(-300, 300); d.refine_with_congruence((a * Variable(0) + b * Variable(1) + c %= 0) / mods[rnd(0, 6)]); } }
  bool sgn = rnd(0, 1); int ov = rnd(0, 2); bool indiv = rnd(0, 1); unsigned thr = rnd(0, 20);
  Variables_Set vs; vs.insert(Variable(0));
  D before(d);
  d.wrap_assign(vs, BITS_8, sgn ? SIGNED_2_COMPLEMENT : UNSIGNED, ov == 0 ? OVERFLOW_WRAPS : ov == 1 ? OVERFLOW_UNDEFINED : OVERFLOW_IMPOSSIBLE, 0, thr, indiv);
  RC_ASSERT(d.OK());
  stats[std::string(name) + (ov == 0 ? ".wraps" : ov == 1 ? ".undefined" : ".impossible")]++;
  long rmin = sgn ? -128 : 0, rmax = sgn ? 127 : 255; long checked = 0;
  for (long x0 = -700; x0 <= 800; ++x0) for (int t = 0; t < 5; ++t) {
    long num = -4 + 2 * t, den = (t % 2) ? 3 : 1;          // x1 in {-4, -2/3, 0, 2/3, 4}
    if (!has_point(before, x0, num, den)) continue;
    ++checked;
    bool ok = true; long bad = 0;
    if (ov == 0) { ok = has_point(d, wrapv(x0, sgn), num, den); bad = wrapv(x0, sgn); }
    else if (ov == 2) { if (x0 >= rmin && x0 <= rmax) { ok = has_point(d, x0, num, den); bad = x0; } }
    else { for (long z = rmin; z <= rmax && ok; z += 17) { ok = has_point(d, z, num, den); bad = z; } if (ok && x0 >= rmin && x0 <= rmax) { ok = has_point(d, x0, num, den); bad = x0; } }
    if (!ok) { std::cerr << name << " wrap lost a point: before=" << before << " after=" << d << " x0=" << x0 << " x1=" << num << "/" << den << " required image x0=" << bad << " signed=" << sgn << " ov=" << ov << " indiv=" << indiv << " thr=" << thr << "\n"; RC_FAIL("wrap"); }
  }
  if (checked) stats[std::string(name) + ".nonempty"]++;
}
int main() {
  bool ok = true;
  ok = rc::check("C_Polyhedron", [](){ one<C_Polyhedron>("C_Polyhedron", false); }) && ok;
  ok = rc::check("Rational_Box", [](){ one<Rational_Box>("Rational_Box", false); }) && ok;
  ok = rc::check("BDS", [](){ one<BD_Shape<mpz_class> >("BD_Shape<mpz>", false); }) && ok;
  ok = rc::check("OS", [](){ one<Octagonal_Shape<mpq_class> >("Octagonal_Shape<mpq>", false); }) && ok;
  ok = rc::check("Grid", [](){ one<Grid>("Grid", true); }) && ok;
  for (auto& kv : stats) std::cerr << kv.first << "=" << kv.second << " "; std::cerr << "\n";
  return ok ? 0 : 1;
}
