// Scratch probe: C19 - Watchdog under a harness-owned clock with expirations delivered
// between API calls and inside the system calls of the critical section.
// (Run against a scratch copy of src/ in which D5 - Time::operator== - is repaired.)
#include "ppl-config.h"
#include "ppl_include_files.hh"
#include "hook2.hh"
#include <rapidcheck.h>
#include <sys/time.h>
#include <signal.h>
#include <iostream>
#include <map>
using namespace Parma_Polyhedra_Library;
static int rnd(int lo, int hi) { return *rc::gen::resize(100, rc::gen::inRange(lo, hi + 1)); }
static std::map<std::string, long> stats;

// ---- virtual kernel ----
static std::string trace; static long long now_us = 0, timer_us = 0;         // timer_us == 0: disarmed
static void (*vhandler)(int) = nullptr;
static std::vector<long long> inject;               // time to let pass inside the next system calls
static size_t inject_pos = 0; static long in_syscall_deliveries = 0;
static void advance(long long us) {
  while (us > 0) {
    if (timer_us == 0) { now_us += us; return; }
    long long step = std::min(us, timer_us); now_us += step; timer_us -= step; us -= step;
    if (timer_us == 0) { trace += " [sig@" + std::to_string(now_us/1000) + "]"; vhandler(SIGPROF); }
  }
}
static void maybe_inject() { if (inject_pos < inject.size()) { long long d = inject[inject_pos++]; if (d == -1) d = timer_us; else if (d == -2) d = timer_us + 1; if (d > 0) { long long before = timer_us; advance(d); if (before > 0 && before <= d) ++in_syscall_deliveries; } } }
extern "C" int setitimer(__itimer_which_t, const struct itimerval* nv, struct itimerval*) __THROW { maybe_inject(); timer_us = nv->it_value.tv_sec * 1000000LL + nv->it_value.tv_usec; trace += " [set " + std::to_string(timer_us/1000) + "@" + std::to_string(now_us/1000) + "]"; return 0; }
extern "C" int getitimer(__itimer_which_t, struct itimerval* v) __THROW { maybe_inject(); v->it_interval.tv_sec = 0; v->it_interval.tv_usec = 0; v->it_value.tv_sec = timer_us / 1000000; v->it_value.tv_usec = timer_us % 1000000; return 0; }
extern "C" int sigaction(int signum, const struct sigaction* act, struct sigaction*) __THROW { if (act && signum == SIGPROF) vhandler = act->sa_handler; return 0; }

// ---- model ----
struct W { Watchdog* w; long long t_enter, t_exit, delay_us; bool alive; int fired; long long fired_at; bool fired_after_death; };
static std::vector<W> ws;
#define FN(i) static void f##i() { W& x = ws[i]; ++x.fired; x.fired_at = now_us; if (!x.alive) x.fired_after_death = true; }
FN(0) FN(1) FN(2) FN(3) FN(4) FN(5) FN(6) FN(7)
static void (*fns[8])() = { f0, f1, f2, f3, f4, f5, f6, f7 };
static long long worst_late = 0, last_cs_exit = 0;

static void check(const char* when) {
  struct P { ~P() { } };
  for (size_t i = 0; i < ws.size(); ++i) { W& x = ws[i];
    if (x.fired > 1) { std::cerr << "watchdog " << i << " fired " << x.fired << " times (" << when << ")\n"; RC_FAIL("twice"); }
    if (x.fired_after_death) { std::cerr << "watchdog " << i << " fired after destruction (" << when << ")\n"; RC_FAIL("after death"); }
    if (x.fired && x.fired_at < x.t_enter + x.delay_us) { std::cerr << "watchdog " << i << " fired EARLY: created in [" << x.t_enter << "," << x.t_exit << "] delay " << x.delay_us << " fired at " << x.fired_at << " (" << when << ")\n"; RC_FAIL("early"); }
    if (x.fired) worst_late = std::max(worst_late, x.fired_at - std::max(x.t_exit + x.delay_us, x.fired_at < last_cs_exit ? x.fired_at : 0LL));
    if (x.alive && !x.fired && std::string(when) != "create" && std::string(when) != "destroy" && now_us > std::max(x.t_exit + x.delay_us, last_cs_exit) + 10000 + 1000) { std::cerr << "watchdog " << i << " is LATE (more than reschedule_time after deadline and last critical section): created in [" << x.t_enter << "," << x.t_exit << "] delay " << x.delay_us << " now " << now_us << " timer " << timer_us << " (" << when << ")\n"; std::cerr << "TRACE: " << trace << "\n"; RC_FAIL("late"); }
  }
}
static void one() {
  for (size_t q = 0; q < ws.size(); ++q) if (ws[q].alive && ws[q].w) { inject.clear(); inject_pos = 0; delete ws[q].w; ws[q].alive = false; }
  if (timer_us != 0) { std::cerr << "state leak: timer armed at case start\n"; }
  last_cs_exit = 0; trace.clear(); now_us = rnd(0, 3) * 333333LL; timer_us = 0; ws.clear(); inject.clear(); inject_pos = 0;
  int steps = rnd(2, 14); bool use_inject = rnd(0, 1);
  for (int s = 0; s < steps; ++s) {
    int op = rnd(0, 9);
    if (use_inject) { inject.clear(); inject_pos = 0; int n = rnd(0, 3); for (int t = 0; t < n; ++t) { int c = rnd(0, 3); inject.push_back(c == 0 ? 0 : c == 1 ? -1 : c == 2 ? -2 : rnd(1, 100)); } }
    if (op <= 3 && ws.size() < 8) { W x; x.delay_us = (rnd(0, 2) == 0 ? rnd(1, 8) : rnd(1, 150)) * 10000LL; x.alive = true; x.fired = 0; x.fired_at = 0; x.fired_after_death = false; x.t_enter = now_us; x.w = 0; ws.push_back(x);
      size_t i = ws.size() - 1; ws[i].t_exit = ws[i].t_enter;   // provisional: a handler may run inside the constructor
      trace += " create(" + std::to_string(x.delay_us/1000) + "ms,inj="; for (size_t q = 0; q < inject.size(); ++q) trace += std::to_string(inject[q]/1000) + "/"; trace += ")@" + std::to_string(now_us/1000); Watchdog* w = new Watchdog(x.delay_us / 10000, fns[i]); ws[i].w = w; ws[i].t_exit = now_us; last_cs_exit = now_us; stats["create"]++; check("create"); }
    else if (op <= 5) { std::vector<size_t> al; for (size_t i = 0; i < ws.size(); ++i) if (ws[i].alive) al.push_back(i); if (al.empty()) continue; size_t i = al[rnd(0, (int) al.size() - 1)];
      trace += " destroy(" + std::to_string(i) + ",inj="; for (size_t q = 0; q < inject.size(); ++q) trace += std::to_string(inject[q]/1000) + "/"; trace += ")@" + std::to_string(now_us/1000); delete ws[i].w; ws[i].alive = false; last_cs_exit = now_us; stats["destroy"]++; check("destroy"); }
    else { inject.clear(); inject_pos = 0; trace += " advance@" + std::to_string(now_us/1000); advance((rnd(0, 1) ? rnd(1, 40) : rnd(1, 400)) * 5000LL + rnd(0, 1)); stats["advance"]++; check("advance"); }
  }
  inject.clear(); inject_pos = 0;
  advance(3000000); check("final");
  for (size_t i = 0; i < ws.size(); ++i) { if (ws[i].alive && !ws[i].fired) { std::cerr << "alive watchdog " << i << " never fired\n"; RC_FAIL("never"); } if (ws[i].alive) { delete ws[i].w; ws[i].alive = false; } }
  if (timer_us != 0) { std::cerr << "timer still armed with nothing pending\n"; RC_FAIL("armed"); }
  stats["histories"]++;
}
int main() {
  bool ok = rc::check("watchdog", [](){ one(); });
  for (auto& kv : stats) std::cerr << kv.first << "=" << kv.second << " ";
  std::cerr << " in_syscall_deliveries=" << in_syscall_deliveries << " worst_lateness_us=" << worst_late << "\n";
  return ok ? 0 : 1;
}
