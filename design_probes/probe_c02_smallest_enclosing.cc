// Scratch probe: C02 - "smallest polyhedron of this topology containing S" oracles
// (poly_hull, poly_difference, time_elapse) for C and NNC polyhedra:
//   (i) soundness, (ii) closure-minimality by lifted LPs on R's generators, (iii) NNC face cuts.
#include "ppl-config.h"
#include "ppl_include_files.hh"
#include "refgeom.hh"
#include "pplhook.hh"
#include <rapidcheck.h>
#include <iostream>
#include <map>
using namespace Parma_Polyhedra_Library;
using namespace Parma_Polyhedra_Library::IO_Operators;
using ref::Q; using ref::Vec; using ref::Con; using ref::Sys;
static int rnd(int lo, int hi) { return *rc::gen::resize(100, rc::gen::inRange(lo, hi + 1)); }
static std::map<std::string, long> stats;
static Sys to_ref(const Constraint_System& cs, size_t n) {
  Sys s(n);
  for (Constraint_System::const_iterator i = cs.begin(); i != cs.end(); ++i) { Con c; c.a.assign(n, Q(0)); for (size_t j = 0; j < i->space_dimension(); ++j) c.a[j] = Q(i->coefficient(Variable(j))); c.b = Q(i->inhomogeneous_term()); c.r = i->is_equality() ? ref::EQ : (i->is_strict_inequality() ? ref::GT : ref::GE); s.add(c); }
  return s;
}
static Sys closure(const Sys& s) { Sys r(s); for (size_t i = 0; i < r.cs.size(); ++i) if (r.cs[i].r == ref::GT) r.cs[i].r = ref::GE; return r; }
// lifted closed convex hull of the union of the closures of non-empty pieces: membership of point g (homog=false) or direction g (homog=true)
static bool in_clconv(const std::vector<Sys>& pieces, const Vec& g, bool homog, size_t n) {
  std::vector<Sys> ne; for (size_t i = 0; i < pieces.size(); ++i) if (!ref::is_empty(pieces[i])) ne.push_back(closure(pieces[i]));
  if (ne.empty()) return false;
  size_t k = ne.size(), N = k * (n + 1);      // variables: y_i (n each), lambda_i
  Sys L(N);
  for (size_t i = 0; i < k; ++i) { size_t off = i * (n + 1);
    for (size_t c = 0; c < ne[i].cs.size(); ++c) { Con r; r.a.assign(N, Q(0)); for (size_t j = 0; j < n; ++j) r.a[off + j] = ne[i].cs[c].a[j]; r.a[off + n] = ne[i].cs[c].b; r.b = 0; r.r = ne[i].cs[c].r; L.add(r); }
    Con lam; lam.a.assign(N, Q(0)); lam.a[off + n] = 1; lam.b = 0; lam.r = ref::GE; L.add(lam); }
  { Con sum; sum.a.assign(N, Q(0)); for (size_t i = 0; i < k; ++i) sum.a[i * (n + 1) + n] = 1; sum.b = homog ? Q(0) : Q(-1); sum.r = ref::EQ; L.add(sum); }
  for (size_t j = 0; j < n; ++j) { Con e; e.a.assign(N, Q(0)); for (size_t i = 0; i < k; ++i) e.a[i * (n + 1) + j] = 1; e.b = -g[j]; e.r = ref::EQ; L.add(e); }
  return !ref::is_empty(L);
}
// time elapse: cl(P) + closed homogenisation cone of Q
static bool in_elapse(const Sys& P, const Sys& Qs, const Vec& g, bool homog, size_t n) {
  Sys cp = closure(P), cq = closure(Qs); size_t N = 2 * n + 1; Sys L(N);   // p (n), y (n), t
  for (size_t c = 0; c < cp.cs.size(); ++c) { Con r; r.a.assign(N, Q(0)); for (size_t j = 0; j < n; ++j) r.a[j] = cp.cs[c].a[j]; r.b = homog ? Q(0) : cp.cs[c].b; r.r = cp.cs[c].r; L.add(r); }
  for (size_t c = 0; c < cq.cs.size(); ++c) { Con r; r.a.assign(N, Q(0)); for (size_t j = 0; j < n; ++j) r.a[n + j] = cq.cs[c].a[j]; r.a[2 * n] = cq.cs[c].b; r.b = 0; r.r = cq.cs[c].r; L.add(r); }
  { Con t; t.a.assign(N, Q(0)); t.a[2 * n] = 1; t.b = 0; t.r = ref::GE; L.add(t); }
  for (size_t j = 0; j < n; ++j) { Con e; e.a.assign(N, Q(0)); e.a[j] = 1; e.a[n + j] = 1; e.b = -g[j]; e.r = ref::EQ; L.add(e); }
  return !ref::is_empty(L);
}
template <typename PH> PH genp(int n, bool nnc) {
  PH p(n); std::vector<int> w(n); for (int j = 0; j < n; ++j) w[j] = rnd(-2, 2); int m = rnd(0, 4);
  for (int i = 0; i < m; ++i) { Linear_Expression e; int v = 0; for (int j = 0; j < n; ++j) { int a = rnd(0, 2) ? rnd(-2, 2) : 0; e += a * Variable(j); v += a * w[j]; } int b = rnd(-3, 3); e += b; v += b;
    int k = rnd(0, 9); if (k == 0) { e -= v; p.add_constraint(e == 0); } else { if (v < 0) { e = -e; v = -v; } if (nnc && k <= 3) { if (v == 0) e += 1; p.add_constraint(e > 0); } else p.add_constraint(e >= 0); } }
  if (rnd(0, 11) == 0) p.add_constraint(Linear_Expression(0) >= 1);
  return p;
}
template <typename PH> void one(const char* name, bool nnc) {
  int n = rnd(1, 3); PH P = genp<PH>(n, nnc), Qp = genp<PH>(n, nnc);
  Sys sp = to_ref(P.constraints(), n), sq = to_ref(Qp.constraints(), n);
  bool pe = ref::is_empty(sp), qe = ref::is_empty(sq);
  int op = rnd(0, 2); PH R(P); const char* opn; std::vector<Sys> pieces;
  if (op == 0) { opn = "poly_hull"; R.poly_hull_assign(Qp); pieces.push_back(sp); pieces.push_back(sq); }
  else if (op == 1) { opn = "poly_difference"; R.poly_difference_assign(Qp);
    if (qe) pieces.push_back(sp); else { Sys acc(sp); for (size_t i = 0; i < sq.cs.size(); ++i) { int parts = sq.cs[i].r == ref::EQ ? 2 : 1; for (int w = 0; w < parts; ++w) { Sys t(acc); t.add(ref::negate_part(sq.cs[i], w)); pieces.push_back(t); } acc.add(sq.cs[i]); } } }
  else { opn = "time_elapse"; R.time_elapse_assign(Qp); }
  RC_ASSERT(R.OK());
  std::string key = std::string(name) + "." + opn; stats[key]++;
  Sys sr = to_ref(R.minimized_constraints(), n); bool re = ref::is_empty(sr);
  // ---- (i) soundness
  bool sound = true;
  if (op != 2) { for (size_t i = 0; i < pieces.size(); ++i) if (!ref::included(pieces[i], sr)) sound = false; }
  else if (!pe && !qe) { if (!ref::included(sp, sr)) sound = false; for (size_t c = 0; c < sr.cs.size() && sound; ++c) { Vec neg(n); for (int j = 0; j < n; ++j) neg[j] = -sr.cs[c].a[j]; Q v; bool att; if (!ref::sup(closure(sq), neg, Q(0), v, att) || v > 0) sound = false; if (sr.cs[c].r == ref::EQ) { Vec pos = sr.cs[c].a; if (!ref::sup(closure(sq), pos, Q(0), v, att) || v > 0) sound = false; } } }
  if (!sound) { std::cerr << key << " UNSOUND P=" << P << " Q=" << Qp << " R=" << R << "\n"; RC_FAIL("sound"); }
  bool s_empty = (op == 2) ? (pe || qe) : [&]{ for (size_t i = 0; i < pieces.size(); ++i) if (!ref::is_empty(pieces[i])) return false; return true; }();
  if (s_empty) { if (!re) { std::cerr << key << " result not empty though S is: P=" << P << " Q=" << Qp << " R=" << R << "\n"; RC_FAIL("empty"); } stats[key + ".S_empty"]++; return; }
  // ---- (ii) closure minimality on R's generators
  const Generator_System& gs = R.minimized_generators();
  for (Generator_System::const_iterator g = gs.begin(); g != gs.end(); ++g) {
    Vec v(n, Q(0)); for (size_t j = 0; j < g->space_dimension(); ++j) v[j] = Q(g->coefficient(Variable(j)));
    bool pt = g->is_point() || g->is_closure_point(); if (pt) for (int j = 0; j < n; ++j) v[j] /= Q(g->divisor());
    int reps = g->is_line() ? 2 : 1;
    for (int rep = 0; rep < reps; ++rep) { if (rep == 1) for (int j = 0; j < n; ++j) v[j] = -v[j];
      bool in = (op == 2) ? in_elapse(sp, sq, v, !pt, n) : in_clconv(pieces, v, !pt, n);
      if (!in) { std::cerr << key << " NOT MINIMAL (closure): generator " << *g << " of R is outside cl conv(S). P=" << P << " Q=" << Qp << " R=" << R << "\n"; RC_FAIL("closure-minimal"); } }
  }
  // ---- (iii) NNC: face cuts
  if (nnc) {
    std::vector<size_t> ns; for (size_t c = 0; c < sr.cs.size(); ++c) if (sr.cs[c].r == ref::GE) ns.push_back(c);
    size_t m = ns.size(); if (m > 6) m = 6;
    for (unsigned mask = 1; mask < (1u << m); ++mask) {
      Sys face(sr); Con sum; sum.a.assign(n, Q(0)); sum.b = 0; sum.r = ref::GT;
      for (size_t t = 0; t < m; ++t) if (mask & (1u << t)) { Con e = sr.cs[ns[t]]; e.r = ref::EQ; face.add(e); for (int j = 0; j < n; ++j) sum.a[j] += sr.cs[ns[t]].a[j]; sum.b += sr.cs[ns[t]].b; }
      if (ref::is_empty(face)) continue;
      stats[key + ".faces_tested"]++;
      bool S_in_T;
      if (op != 2) { S_in_T = true; for (size_t i = 0; i < pieces.size() && S_in_T; ++i) S_in_T = ref::included_in_con(pieces[i], sum); }
      else { S_in_T = ref::included_in_con(sp, sum); if (S_in_T) { Vec neg(n); for (int j = 0; j < n; ++j) neg[j] = -sum.a[j]; Q v; bool att; if (!ref::sup(closure(sq), neg, Q(0), v, att) || v > 0) S_in_T = false; } }
      if (S_in_T) { std::cerr << key << " NOT MINIMAL (strictness): the face of R given by " << ref::show(sum) << " = 0 contains no point of S. P=" << P << " Q=" << Qp << " R=" << R << "\n"; RC_FAIL("strict-minimal"); }
    }
  }
}
int main() {
  bool ok = true;
  ok = rc::check("C", [](){ one<C_Polyhedron>("C", false); }) && ok;
  ok = rc::check("NNC", [](){ one<NNC_Polyhedron>("NNC", true); }) && ok;
  for (auto& kv : stats) std::cerr << kv.first << "=" << kv.second << " "; std::cerr << "\n";
  return ok ? 0 : 1;
}
