# Builds PPL library flavours from /repo's *current working tree* and the
# harness binaries.  Everything lands under /verif/build (git-ignored).
#
#   make FLV=dbg lib            -> build/dbg/libppl.a
#   make FLV=dbg bin/c01_poly   -> build/dbg/bin/c01_poly
#
# Flavours (DESIGN.md 3.2):
#   dbg   g++ -O1 -g, assertions ON, -DBUGSENG_PPL_VERIF
#   rel   g++ -O2,    shipped configuration (PPL_NDEBUG), no hook
#   san   dbg + ASan + UBSan
#   i8/i16/i32/i64  dbg with checked-intN coefficients
#   fuzz  clang++ -fsanitize=fuzzer-no-link,address,undefined, assertions ON

MAKEFLAGS += -r
.SUFFIXES:

REPO    ?= /repo
VERIF   := $(abspath $(dir $(lastword $(MAKEFILE_LIST))))
FLV     ?= dbg
BUILDROOT ?= $(VERIF)/build
B       := $(BUILDROOT)/$(FLV)

CXX_dbg  := g++
CXX_rel  := g++
CXX_san  := g++
CXX_i8   := g++
CXX_i16  := g++
CXX_i32  := g++
CXX_i64  := g++
CXX_fuzz := clang++
CXX      := $(CXX_$(FLV))

COMMON   := -std=gnu++17 -Wno-deprecated-declarations -g -frounding-math
FL_dbg   := -O1 -DBUGSENG_PPL_VERIF
FL_rel   := -O2
FL_san   := -O1 -DBUGSENG_PPL_VERIF -fsanitize=address,undefined -fno-sanitize-recover=undefined -fno-omit-frame-pointer
FL_i8    := -O1 -DBUGSENG_PPL_VERIF
FL_i16   := -O1 -DBUGSENG_PPL_VERIF
FL_i32   := -O1 -DBUGSENG_PPL_VERIF
FL_i64   := -O1 -DBUGSENG_PPL_VERIF
FL_fuzz  := -O1 -DBUGSENG_PPL_VERIF -fsanitize=fuzzer-no-link,address,undefined -fno-sanitize=pointer-overflow,enum -fno-sanitize-recover=undefined -Wno-unknown-warning-option -Wno-ignored-optimization-argument
FLAGS    := $(COMMON) $(FL_$(FLV))

LDX_dbg  :=
LDX_rel  :=
LDX_san  := -fsanitize=address,undefined
LDX_fuzz := -fsanitize=address,undefined
LDX      := $(LDX_$(FLV))

EXCL  := ppl-config.cc BUGS.cc COPYING.cc CREDITS.cc Affine_Space.cc Pointset_Ask_Tell.cc
SRCS  := $(filter-out $(addprefix $(REPO)/src/,$(EXCL)),$(wildcard $(REPO)/src/*.cc))
OBJS  := $(patsubst $(REPO)/src/%.cc,$(B)/obj/%.o,$(SRCS))
INC   := -I$(B)/cfg -I$(REPO) -I$(REPO)/src
HINC  := $(INC) -I$(VERIF)/ref -I$(VERIF)/harness

.PHONY: lib cfg
lib: $(B)/libppl.a

# --- private configuration header -------------------------------------
# assertions: drop PPL_NDEBUG for every flavour except rel
# coefficients: rewrite the three coefficient lines for iN flavours
$(B)/cfg/ppl-config.h: $(REPO)/ppl-config.h $(VERIF)/Makefile
	@mkdir -p $(B)/cfg
	@case "$(FLV)" in \
	  rel) cp $(REPO)/ppl-config.h $@.tmp ;; \
	  i8|i16|i32|i64) bits=`echo $(FLV) | tr -d i`; \
	     sed -e '/^#define PPL_NDEBUG 1/d' \
	         -e "s/^#define PPL_COEFFICIENT_BITS 0/#define PPL_COEFFICIENT_BITS $$bits/" \
	         -e "s/^#define PPL_COEFFICIENT_TYPE mpz_class/#define PPL_COEFFICIENT_TYPE int$${bits}_t/" \
	         -e 's/^#define PPL_GMP_INTEGERS 1/#define PPL_NATIVE_INTEGERS 1/' \
	         $(REPO)/ppl-config.h > $@.tmp ;; \
	  *) sed -e '/^#define PPL_NDEBUG 1/d' $(REPO)/ppl-config.h > $@.tmp ;; \
	esac
	@if cmp -s $@.tmp $@; then rm $@.tmp; else mv $@.tmp $@; fi

$(B)/obj/%.o: $(REPO)/src/%.cc $(B)/cfg/ppl-config.h
	@mkdir -p $(B)/obj
	$(CXX) $(FLAGS) $(INC) -MMD -MP -c $< -o $@

$(B)/libppl.a: $(OBJS)
	@rm -f $@
	ar rcs $@ $(OBJS)

# --- harness binaries -----------------------------------------------------
# bin/<name>            from harness/<name>.cc
# bin/<name>@<DEF>      from harness/<name>.cc compiled with -DVF_<DEF>
HLIBS := -lrapidcheck -lgmpxx -lgmp -lpthread

$(B)/hobj/%.o: $(VERIF)/harness/%.cc $(B)/cfg/ppl-config.h
	@mkdir -p $(B)/hobj
	$(CXX) $(FLAGS) $(HINC) -MMD -MP -c $< -o $@

.SECONDEXPANSION:
$(B)/hobj/%.o: $(VERIF)/harness/$$(word 1,$$(subst @, ,$$*)).cc $(B)/cfg/ppl-config.h
	@mkdir -p $(B)/hobj
	$(CXX) $(FLAGS) $(HINC) $(addprefix -DVF_,$(wordlist 2,9,$(subst @, ,$*))) -MMD -MP -c $< -o $@

$(B)/bin/%: $(B)/hobj/%.o $(B)/libppl.a
	@mkdir -p $(B)/bin
	$(CXX) $(FLAGS) $(LDX) $< $(B)/libppl.a $(HLIBS) -o $@

# libFuzzer targets (FLV=fuzz only): bin/fz_<name> from harness/<name>.cc with the libFuzzer entry point of common.hh
$(B)/hobj/fz_%.o: $(VERIF)/harness/%.cc $(B)/cfg/ppl-config.h
	@mkdir -p $(B)/hobj
	$(CXX) $(FLAGS) $(HINC) -DVF_LIBFUZZER -MMD -MP -c $< -o $@

$(B)/bin/fz_%: $(B)/hobj/fz_%.o $(B)/libppl.a
	@mkdir -p $(B)/bin
	$(CXX) $(FLAGS) -fsanitize=fuzzer,address,undefined $< $(B)/libppl.a $(HLIBS) -o $@

bin/%: $(B)/bin/% ;

.PRECIOUS: $(B)/hobj/%.o $(B)/obj/%.o $(B)/bin/% $(B)/bin/fz_% $(B)/hobj/fz_%.o

-include $(wildcard $(B)/obj/*.d) $(wildcard $(B)/hobj/*.d)

# --- C20: the C language interface and its harness (explicit rules win over the patterns above) ---
include $(VERIF)/harness/c20_build.mk
