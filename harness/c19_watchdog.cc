// C19: Watchdog (time) and Threshold_Watcher<Weightwatch_Traits> (weight) histories.
//
// Part 1.  The executable DEFINES setitimer/getitimer/sigaction itself (link-time interposition:
// libppl.a is linked statically, so Watchdog.cc binds to these definitions).  The harness therefore
// owns a virtual one-shot timer in microseconds and the SIGPROF handler installed by
// Watchdog::initialize(); when virtual time passes the armed value the captured handler is called
// synchronously, either between two API calls or INSIDE the getitimer/setitimer call performed by a
// constructor/destructor while Watchdog::in_critical_section is set (before or after the call's
// own effect).  A history is a generated list of create/destroy/advance events over up to 5
// simultaneously existing Watchdog objects; the oracle is a list of
// (ctor entry, ctor return, delay, alive, fired count, fired time) in virtual time.
//
// Part 2.  Threshold_Watcher<Weightwatch_Traits> with create/destroy/add-weight/check events.
//
// Check ids and the known findings guarding them
//   fire.at_most_once, fire.never_after_destruction, fire.eventually, timer.armed_when_pending, timer.disarmed_when_idle,
//   timer.disarmed_at_end, clock.fresh_start_iff_nothing_pending, syscall.args, ctor.zero_delay_rejected   (unguarded)
//   fire.not_early                   KF-C19-1 (no expiry was deferred before the firing)
//   fire.not_early_after_deferral    KF-C19-1 or KF-C19-2 (an expiry had been deferred in a critical section before the firing)
//   fire.prompt, pending.prompt, fire.deadline_order                                          KF-C19-2
//     KF-C19-1 applies when the early watchdog is fired after the head of the same delivery and its internal deadline shares the
//     second of the internal clock (handle_timeout), or after a head was removed while the next deadline lay in the same second
//     (remove_watchdog_event, no re-arming); KF-C19-2 applies after a deferral: lateness up to the lost intervals (+ reschedule_time
//     per deferral), earliness of watchdogs constructed after it, earliness up to reschedule_time per deferral of older ones.
//   race.stop_timer_clobbered_by_handler, race.set_timer_clobbered_by_handler    candidate finding without KF id: a SIGPROF between
//     the filling of the static `signal_once' and the setitimer() call lets reschedule() rewrite the buffer (the history stops there)
//   ww.ctor_rejects_reached_threshold, ww.fires_when_weight_equals_threshold     candidate finding without KF id:
//     Weightwatch_Traits::less_than(a, a) is true
//   ww.* (other), leak.* (state left behind by a case that ran to completion)
#include "ppl-config.h"
// The watchdog sources use the plain assert() of <cassert>, not the PPL assertion hook.  Policy of the harness:
// an internal assertion is a lead, never a verdict, and execution continues as in the shipped (NDEBUG) build.
// For the code instantiated in this translation unit (Pending_List<Weightwatch_Traits>, Threshold_Watcher, EList,
// Time, the Watchdog inlines) the failure routine of glibc's assert macro is therefore redirected to a recorder.
#include <cassert>
static void c19_assert_lead(const char* expr, const char* file, unsigned line, const char* func);
#define __assert_fail(e, f, l, fn) c19_assert_lead(e, f, l, fn)
#include "ppl_include_files.hh"
#include "common.hh"
static void c19_assert_lead(const char* expr, const char* file, unsigned line, const char*) {
  const char* base = std::strrchr(file, '/'); base = base ? base + 1 : file;
  if (vf::fired_asserts().size() < 50) vf::fired_asserts().push_back(std::string(base) + ":" + std::to_string(line) + " (" + expr + ")");
}
#include <sys/time.h>
#include <signal.h>
#include <dlfcn.h>

using namespace Parma_Polyhedra_Library;
typedef Parma_Polyhedra_Library::Implementation::Watchdog::Time WTime;
typedef Parma_Polyhedra_Library::Watchdog PWatchdog;

const vf::Info vf_info = { "C19", "c19_watchdog", 2.5 };

// ------------------------------------------------------------------ read-only peek at private statics
// (explicit instantiation may name private members; used for diagnostics, for classifying where a
// signal landed and for un-sticking the flags between cases - never for the verdicts themselves)
volatile bool* rob_ics();
volatile bool* rob_acr();
WTime* rob_tsf();
WTime* rob_ltr();
template <volatile bool* P> struct RobIcs { friend volatile bool* rob_ics() { return P; } };
template <volatile bool* P> struct RobAcr { friend volatile bool* rob_acr() { return P; } };
template <WTime* P> struct RobTsf { friend WTime* rob_tsf() { return P; } };
template <WTime* P> struct RobLtr { friend WTime* rob_ltr() { return P; } };
template struct RobIcs<&PWatchdog::in_critical_section>;
template struct RobAcr<&PWatchdog::alarm_clock_running>;
template struct RobTsf<&PWatchdog::time_so_far>;
template struct RobLtr<&PWatchdog::last_time_requested>;

typedef long long us_t;
static std::string us(us_t x) { std::ostringstream o; o << x << "us"; return o.str(); }

// ------------------------------------------------------------------ virtual kernel
namespace vk {
static us_t now = 0, timer = 0, armed = 0;       // timer == 0: disarmed; armed: value of the last arming
static void (*handler)(int) = 0;                 // the SIGPROF handler installed by Watchdog::initialize()
static int depth = 0;                            // > 0 while the captured handler runs
static us_t stall_total = 0, lost_total = 0, handler_stall = 0;
static long deliveries = 0, deferred = 0, in_syscall = 0; static us_t first_deferral = -1;
struct Stall { int pre, post; };                 // 0 none, 1..100 us, -1 exactly up to the expiry, -2 one us past it
static std::vector<Stall> plan; static size_t plan_pos = 0;
static us_t get_effect = -1, set_effect = -1;    // instant of the last top-level getitimer / setitimer effect
static int n_get = 0, n_set = 0;
static std::string bad;                          // first malformed system call
static bool clobbered_stop = false;               // ... and that call was stop_timer() (asked for 0)
static std::string clobbered;                    // first system call whose argument buffer was rewritten by the handler while the call was in progress
static std::ostringstream* log = 0;
static void (*after_delivery)() = 0;

static void deliver(bool syscall) {
  timer = 0; ++deliveries;
  bool ics = *rob_ics();
  if (ics) { ++deferred; lost_total += armed; if (first_deferral < 0) first_deferral = now; }
  if (syscall) ++in_syscall;
  if (log) *log << "      SIGPROF @" << now << (ics ? " (inside critical section)" : "") << "\n";
  ++depth; if (handler) handler(SIGPROF); --depth;
  if (after_delivery) after_delivery();
}
static void advance(us_t d, bool syscall) {
  while (d > 0) {
    if (timer == 0) { now += d; return; }
    us_t step = std::min(d, timer); now += step; timer -= step; d -= step;
    if (timer == 0) deliver(syscall);
  }
}
static void stall(int code) {
  us_t d = 0;
  if (code > 0) d = code;
  else if (code == -1) d = (timer > 0 && timer <= 100) ? timer : 0;
  else if (code == -2) d = (timer > 0 && timer <= 99) ? timer + 1 : 0;
  if (d > 0) { stall_total += d; if (log) *log << "      stall " << d << "us inside the system call\n"; advance(d, true); }
}
static void reset() { timer = 0; armed = 0; depth = 0; stall_total = lost_total = handler_stall = 0; deliveries = deferred = in_syscall = 0; first_deferral = -1;
  plan.clear(); plan_pos = 0; get_effect = set_effect = -1; n_get = n_set = 0; bad.clear(); clobbered.clear(); }
} // namespace vk

extern "C" int setitimer(__itimer_which_t which, const struct itimerval* nv, struct itimerval* ov) __THROW {
  vk::Stall s = { 0, 0 };
  us_t requested = nv ? nv->it_value.tv_sec * 1000000LL + nv->it_value.tv_usec : 0;
  if (vk::depth == 0) {
    if (vk::plan_pos < vk::plan.size()) s = vk::plan[vk::plan_pos++]; vk::stall(s.pre);
    // the signal arrived after the caller had filled its (static) itimerval but before the kernel read it
    us_t effective = nv ? nv->it_value.tv_sec * 1000000LL + nv->it_value.tv_usec : 0;
    if (effective != requested) {
      if (vk::clobbered.empty()) vk::clobbered_stop = requested == 0;
      if (vk::clobbered.empty()) vk::clobbered = "the interrupted call asked for " + std::to_string(requested) + "us, the handler's reschedule() rewrote the shared buffer and the timer is armed with " + std::to_string(effective) + "us (@" + std::to_string(vk::now) + ")";
      if (vk::log) *vk::log << "      !! argument buffer rewritten by the handler: " << requested << "us -> " << effective << "us\n";
    }
  }
  else if (vk::handler_stall > 0) { vk::stall_total += vk::handler_stall; vk::advance(vk::handler_stall, true); }
  if (vk::bad.empty()) {
    if (which != ITIMER_PROF) vk::bad = "setitimer on timer " + std::to_string((int) which);
    else if (!nv) vk::bad = "setitimer(null)";
    else if (nv->it_value.tv_sec < 0 || nv->it_value.tv_usec < 0 || nv->it_value.tv_usec >= 1000000)
      vk::bad = "setitimer value " + std::to_string(nv->it_value.tv_sec) + "s " + std::to_string(nv->it_value.tv_usec) + "us (EINVAL in the kernel)";
    else if (nv->it_interval.tv_sec != 0 || nv->it_interval.tv_usec != 0) vk::bad = "setitimer with a periodic interval";
  }
  if (ov) { ov->it_interval.tv_sec = 0; ov->it_interval.tv_usec = 0; ov->it_value.tv_sec = vk::timer / 1000000; ov->it_value.tv_usec = vk::timer % 1000000; }
  if (nv) { us_t v = nv->it_value.tv_sec * 1000000LL + nv->it_value.tv_usec; if (v < 0) v = 0; vk::timer = vk::armed = v; }
  ++vk::n_set;
  if (vk::depth == 0) vk::set_effect = vk::now;
  if (vk::log) *vk::log << "      setitimer(" << vk::timer << "us) @" << vk::now << (vk::depth ? " [from the handler]" : "") << "\n";
  if (vk::depth == 0) vk::stall(s.post);
  return 0;
}
extern "C" int getitimer(__itimer_which_t which, struct itimerval* v) __THROW {
  vk::Stall s = { 0, 0 };
  if (vk::depth == 0) { if (vk::plan_pos < vk::plan.size()) s = vk::plan[vk::plan_pos++]; vk::stall(s.pre); }
  if (vk::bad.empty() && which != ITIMER_PROF) vk::bad = "getitimer on timer " + std::to_string((int) which);
  v->it_interval.tv_sec = 0; v->it_interval.tv_usec = 0; v->it_value.tv_sec = vk::timer / 1000000; v->it_value.tv_usec = vk::timer % 1000000;
  ++vk::n_get;
  if (vk::depth == 0) vk::get_effect = vk::now;
  if (vk::log) *vk::log << "      getitimer -> " << vk::timer << "us @" << vk::now << "\n";
  if (vk::depth == 0) vk::stall(s.post);
  return 0;
}
extern "C" int sigaction(int signum, const struct sigaction* act, struct sigaction* old) __THROW {
  if (signum == SIGPROF) { if (old) { std::memset(old, 0, sizeof *old); old->sa_handler = vk::handler; } if (act) vk::handler = act->sa_handler; return 0; }
  typedef int (*real_t)(int, const struct sigaction*, struct sigaction*);
  static real_t real = (real_t) dlsym(RTLD_NEXT, "sigaction");
  return real ? real(signum, act, old) : 0;
}

// ------------------------------------------------------------------ part 1: model of the watchdogs
namespace wd {
const int MAXC = 12, MAXALIVE = 5;
const us_t RESCHEDULE = 10000;                    // Watchdog::reschedule_time(1): one hundredth of a second (Watchdog.cc:236)
struct Flag { int priority() const { return 0; } };
static Flag flags[MAXC]; static const Flag* volatile holders[MAXC];
struct W {
  PWatchdog* obj; int kind; long cs; us_t t_enter, t_exit, t_read, delay;
  bool in_dtor, destroyed; us_t destroyed_at;
  int fired; us_t fired_at, fire_ref, fire_stall, fire_lost; long fire_deferred, fire_delivery; bool fired_after_death, fired_in_dtor, fire_taint;
  bool judged;
};
static std::vector<W> ws;
static std::vector<int> fire_order;
static us_t T0 = 0, last_cs_exit = 0;
static bool kf1_taint = false;   // a destructor left the timer running for a removed head (see destroy())

static void on_fire(int i) {
  if (i >= (int) ws.size()) return;
  W& x = ws[i]; ++x.fired;
  if (x.destroyed) x.fired_after_death = true;
  if (x.fired == 1) {
    x.fired_at = vk::now; x.fire_ref = std::max(x.t_exit + x.delay, last_cs_exit); x.fire_stall = vk::stall_total; x.fire_lost = vk::lost_total;
    x.fire_deferred = vk::deferred; x.fire_delivery = vk::deliveries; x.fired_in_dtor = x.in_dtor; x.fire_taint = kf1_taint; fire_order.push_back(i);
  }
  if (vk::log) *vk::log << "      -> action of #" << i << " runs @" << vk::now << "\n";
}
template <int I> static void fn() { on_fire(I); }
static void (*fns[MAXC])() = { fn<0>, fn<1>, fn<2>, fn<3>, fn<4>, fn<5>, fn<6>, fn<7>, fn<8>, fn<9>, fn<10>, fn<11> };
static bool polled[MAXC];
static void poll_flags() { for (size_t i = 0; i < ws.size(); ++i) if (ws[i].kind == 1 && holders[i] != 0 && !polled[i]) { polled[i] = true; on_fire((int) i); } }

static bool pending(const W& x) { return x.obj != 0 && x.fired == 0; }
static int n_pending() { int n = 0; for (const W& x : ws) if (pending(x)) ++n; return n; }
static int n_objects() { int n = 0; for (const W& x : ws) if (x.obj) ++n; return n; }
static std::string lib_state() {
  std::ostringstream o; WTime* a = rob_tsf(); WTime* b = rob_ltr();
  o << " [library: time_so_far=" << a->seconds() << "s+" << a->microseconds() << "us last_time_requested=" << b->seconds() << "s+" << b->microseconds()
    << "us alarm_clock_running=" << *rob_acr() << "; virtual timer " << vk::timer << "us, now " << vk::now << ", T0 " << T0 << ", stalls " << vk::stall_total
    << "us, expiries deferred in a critical section " << vk::deferred << " (armed intervals " << vk::lost_total << "us)]";
  return o.str();
}
static std::string show(int i) {
  const W& x = ws[i]; std::ostringstream o;
  o << "#" << i << "(delay " << x.cs << "cs, ctor [" << x.t_enter << "," << x.t_exit << "], timer read @" << x.t_read << ", deadline in [" << x.t_enter + x.delay << "," << x.t_exit + x.delay
    << "], internal deadline " << (x.t_read - T0 + x.delay) << "us";
  if (x.fired) o << ", fired @" << x.fired_at;
  if (x.destroyed) o << ", destroyed @" << x.destroyed_at;
  o << ")"; return o.str();
}
} // namespace wd

// ------------------------------------------------------------------ part 2: model of the weight watchers
namespace ww {
typedef Threshold_Watcher<Weightwatch_Traits> Weightwatch;
typedef unsigned long long u64;
const int MAXC = 12;
struct Flag { int priority() const { return 0; } };
static Flag flags[MAXC]; static const Flag* volatile holders[MAXC]; static bool polled[MAXC];
struct T { Weightwatch* obj; int kind; u64 thr; bool destroyed; int fired; int fired_seq; u64 fired_weight; bool fired_after_death, fired_outside_check; };
static std::vector<T> ts; static int seq = 0; static bool in_check = false;
static void on_fire(int i) {
  if (i >= (int) ts.size()) return;
  T& x = ts[i]; ++x.fired; if (x.fired == 1) { x.fired_seq = seq++; x.fired_weight = Weightwatch_Traits::weight; }
  if (x.destroyed) x.fired_after_death = true; if (!in_check) x.fired_outside_check = true;
}
template <int I> static void fn() { on_fire(I); }
static void (*fns[MAXC])() = { fn<0>, fn<1>, fn<2>, fn<3>, fn<4>, fn<5>, fn<6>, fn<7>, fn<8>, fn<9>, fn<10>, fn<11> };
static void poll_flags() { for (size_t i = 0; i < ts.size(); ++i) if (ts[i].kind == 1 && holders[i] != 0 && !polled[i]) { polled[i] = true; on_fire((int) i); } }
static bool reached(u64 w, u64 thr) { return (u64) (w - thr) < (1ULL << 63); }          // w >= thr on the wrap-around circle
static bool pending(const T& x) { return x.obj != 0 && x.fired == 0; }
static int n_pending() { int n = 0; for (const T& x : ts) if (pending(x)) ++n; return n; }
// one "maybe_abandon()-style" check; flag-kind watchers are observed by polling their holders right after it
static void do_check() { in_check = true; try { maybe_abandon(); } catch (...) { in_check = false; throw; } poll_flags(); in_check = false; }
} // namespace ww

// ------------------------------------------------------------------ cleanup at the top of every case
struct StopHistory {};
struct LogGuard { LogGuard(std::ostringstream* l) { vk::log = l; } ~LogGuard() { vk::log = 0; } };

static void cleanup_previous_case(vf::Ctx& c, bool prev_completed) {
  // watchdogs of the previous case (it may have been aborted by a vf::Fail in the middle)
  vk::plan.clear(); vk::plan_pos = 0; vk::handler_stall = 0; vk::after_delivery = 0;
  std::ostringstream* keep = vk::log; vk::log = 0;
  for (wd::W& x : wd::ws) if (x.obj) { PWatchdog* p = x.obj; x.obj = 0; delete p; }
  for (ww::T& x : ww::ts) if (x.obj) { ww::Weightwatch* p = x.obj; x.obj = 0; delete p; }
  vk::log = keep;
  bool armed = vk::timer != 0, ics = *rob_ics(), acr = *rob_acr(), cf = Weightwatch_Traits::check_function != 0;
  std::string bad = vk::bad;
  vk::reset(); *rob_ics() = false; *rob_acr() = false; Weightwatch_Traits::check_function = 0;
  wd::ws.clear(); wd::fire_order.clear(); wd::last_cs_exit = 0; wd::T0 = 0; wd::kf1_taint = false;
  for (int i = 0; i < wd::MAXC; ++i) { wd::holders[i] = 0; wd::polled[i] = false; }
  ww::ts.clear(); ww::seq = 0; ww::in_check = false;
  for (int i = 0; i < ww::MAXC; ++i) { ww::holders[i] = 0; ww::polled[i] = false; }
  // A case that was aborted in the middle (failed check, timer value clobbered) has reported its reason already: whatever it leaves
  // behind is only counted; after a case that ran to completion nothing may be left (its own final checks said so).
  if (!prev_completed) { if (armed || ics || acr || cf) c.tag("state left behind by an aborted case (reset)"); return; }
  c.check("leak.timer_armed_after_all_destroyed", !armed, "the interval timer is still armed after every watchdog of the previous case has been destroyed");
  c.check("leak.in_critical_section_stuck", !ics, "Watchdog::in_critical_section is still set after every watchdog of the previous case has been destroyed");
  c.check("leak.alarm_clock_running_stuck", !acr, "Watchdog::alarm_clock_running is still set after every watchdog of the previous case has been destroyed");
  c.check("leak.check_function_installed", !cf, "Weightwatch_Traits::check_function is still installed after every watcher of the previous case has been destroyed");
  c.check("syscall.args", bad.empty(), bad);
}

// ------------------------------------------------------------------ part 1: the history
namespace wd {
struct Run {
  vf::Ctx& c; vf::Tape& t;
  bool kf1, kf2, excl1 = false, excl2 = false, use_stalls = false;
  int max_pending = 0; bool same_second = false; int force_hit = 0; long last_cs = 0;
  Run(vf::Ctx& c_) : c(c_), t(c_.t), kf1(vf::kf("KF-C19-1")), kf2(vf::kf("KF-C19-2")) {}

  void ex1() { if (!excl1) { excl1 = true; c.excluded("KF-C19-1"); } }
  void ex2() { if (!excl2) { excl2 = true; c.excluded("KF-C19-2"); } }

  int stall_code() { int k = t.weighted({ 50, 25, 10, 15 }); return k == 0 ? 0 : k == 1 ? -1 : k == 2 ? -2 : (int) t.range(1, 100); }
  void gen_plan() {
    vk::plan.clear(); vk::plan_pos = 0;
    if (force_hit) {           // the previous advance stopped a few microseconds before the expiry: let it pass inside a system call
      int where = (int) t.range(0, 3); vk::Stall none = { 0, 0 };
      vk::Stall a = none, b = none; int code = t.chance(25) ? -2 : -1;
      if (where == 0) a.pre = code; else if (where == 1) a.post = code; else if (where == 2) b.pre = code; else b.post = code;
      vk::plan.push_back(a); vk::plan.push_back(b); force_hit = 0;
    }
    else if (use_stalls) { int n = (int) t.range(0, 2); for (int k = 0; k < n; ++k) { vk::Stall s; s.pre = stall_code(); s.post = stall_code(); vk::plan.push_back(s); } }
    c.log << "   plan:"; for (const vk::Stall& s : vk::plan) c.log << " (pre " << s.pre << ", post " << s.post << ")"; c.log << "\n";
  }

  long gen_delay() {
    std::vector<int> pend; for (size_t i = 0; i < ws.size(); ++i) if (pending(ws[i])) pend.push_back((int) i);
    int mode = t.weighted({ 25, 25, 20, 25, 5 });
    long cs = 1;
    if (mode == 0) cs = t.range(1, 8);
    else if (mode == 1) cs = t.range(1, 150);
    else if (mode == 2) {      // around a second boundary of the library's internal time line
      us_t inow = pend.empty() ? 0 : vk::now - T0; long k = t.range(1, 2);
      cs = (long) ((k * 1000000LL - inow) / 10000) + t.range(-1, 1);
    }
    else if (mode == 3 && !pend.empty()) {   // collide with / straddle a pending deadline
      const W& y = ws[t.pick(pend)]; us_t d = y.t_read + y.delay - vk::now;
      cs = (long) ((d + 5000) / 10000) + t.pick(std::vector<long>{ 0, -1, 1, 0, 2, -2 });
    }
    else if (mode == 4 && !ws.empty()) cs = ws.back().cs;
    else cs = t.range(1, 40);
    if (cs < 1) cs = 1; if (cs > 250) cs = 250;
    return cs;
  }

  void create() {
    int i = (int) ws.size();
    W x; std::memset(&x, 0, sizeof x);
    x.kind = t.chance(25) ? 1 : 0;
    bool zero = t.chance(3);
    x.cs = zero ? 0 : gen_delay(); x.delay = x.cs * 10000LL; x.t_enter = x.t_exit = x.t_read = vk::now;
    bool fresh = n_pending() == 0;
    c.log << "create #" << i << " delay=" << x.cs << "cs " << (x.kind ? "flag" : "function") << " @" << vk::now << (fresh ? " (nothing pending)" : "") << "\n";
    gen_plan();
    ws.push_back(x);
    vk::get_effect = vk::set_effect = -1; int g0 = vk::n_get; long d0 = vk::deferred;
    PWatchdog* p = 0; bool threw = false;
    try { p = x.kind == 0 ? new PWatchdog(x.cs, fns[i]) : new PWatchdog(x.cs, holders[i], flags[i]); }
    catch (std::invalid_argument&) { threw = true; }
    vk::plan.clear(); vk::plan_pos = 0;
    W& y = ws[i]; y.obj = p; y.t_exit = vk::now;
    if (zero) {
      c.check("ctor.zero_delay_rejected", threw, "Watchdog(0, ...) did not throw std::invalid_argument");
      if (!p) { y.destroyed = true; y.destroyed_at = vk::now; }
      c.log << "   -> invalid_argument\n";
      if (threw) return;
    }
    else c.check("ctor.unexpected_exception", !threw, "Watchdog constructor threw std::invalid_argument for a positive delay");
    last_cs_exit = vk::now; if (vk::deferred > d0) last_cs = vk::deferred;
    bool did_get = vk::n_get > g0;
    y.t_read = did_get ? vk::get_effect : (vk::set_effect >= 0 ? vk::set_effect : y.t_enter);
    if (!did_get) { T0 = y.t_read; kf1_taint = false; }
    c.check("clock.fresh_start_iff_nothing_pending", did_get == !fresh, [&] {
      return std::string(fresh ? "no watchdog was pending, but the constructor treated the alarm clock as running (read the timer)"
                               : "watchdogs were pending, but the constructor made a fresh start (time_so_far reset, timer overwritten)") + ": " + show(i) + lib_state(); });
    for (size_t j = 0; j + 1 < ws.size(); ++j) if (pending(ws[j])) {
      us_t a = ws[j].t_read - T0 + ws[j].delay, b = y.t_read - T0 + y.delay;
      if (a / 1000000 == b / 1000000) same_second = true;
    }
    max_pending = std::max(max_pending, n_pending());
    c.log << "   -> returned @" << vk::now << "\n";
  }

  void destroy(int i) {
    W& x = ws[i];
    c.log << "destroy #" << i << (x.fired ? " (already fired)" : " (pending)") << " @" << vk::now << "\n";
    gen_plan();
    bool was_pending = x.fired == 0; long d0 = vk::deferred;
    if (was_pending) {
      // KF-C19-1, second symptom: remove_watchdog_event() re-arms the timer for the next entry only if `first_deadline != next_deadline',
      // which is false whenever the SECONDS agree; the timer then keeps running for the removed head, the next expiry fires the new head
      // unconditionally and every later re-arming is computed against the wrong target.  Early firings are attributed to KF-C19-1
      // from such a removal until the next fresh start of the alarm clock.
      us_t di = x.t_read + x.delay, lmax = vk::stall_total + (kf2 ? allowance(vk::lost_total, vk::deferred) : 0); bool head = true, company = false;
      for (size_t j = 0; j < ws.size(); ++j) if ((int) j != i && pending(ws[j])) {
        // the library's internal deadlines are the ideal ones minus a lag in [0, lmax] (stalls; with KF-C19-2 also lost intervals)
        us_t dj = ws[j].t_read + ws[j].delay, lo = std::min(di, dj), hi = std::max(di, dj);
        if (dj + lmax < di) head = false;
        if ((dj != di || lmax > 0) && (hi - T0 - lmax) / 1000000 <= (lo - T0) / 1000000) company = true;
      }
      if (head && company) { kf1_taint = true; c.log << "   (head removed while another pending deadline lies in the same second)\n"; }
    }
    x.in_dtor = true; PWatchdog* p = x.obj; delete p; x.obj = 0; x.in_dtor = false; x.destroyed = true; x.destroyed_at = vk::now;
    vk::plan.clear(); vk::plan_pos = 0;
    if (was_pending) last_cs_exit = vk::now;
    if (vk::deferred > d0) last_cs = vk::deferred;
    c.log << "   -> returned @" << vk::now << "\n";
  }

  void advance_event() {
    int mode = t.weighted({ 25, 30, 10, 10, 10, 15 });
    us_t d = 0;
    if (mode == 0) d = t.range(1, 40) * 5000LL + t.range(0, 1);
    else if (mode == 1) { if (vk::timer > 0) { us_t k = t.range(1, 60); d = vk::timer > k ? vk::timer - k : 0; force_hit = 1; } else d = t.range(1, 300); }
    else if (mode == 2) d = vk::timer > 0 ? vk::timer : 1;
    else if (mode == 3) d = (vk::timer > 0 ? vk::timer : 0) + t.range(1, 2000);
    else if (mode == 4) d = t.range(1, 400) * 5000LL;
    else d = t.range(1, 200);
    c.log << "advance " << d << "us @" << vk::now << (mode == 1 && force_hit ? " (to just before the expiry)" : "") << "\n";
    vk::advance(d, false);
  }

  us_t allowance(us_t lost, long deferred) const { return lost + RESCHEDULE * deferred; }

  void check_all(const char* when, bool time_passed) {
    c.check("syscall.args", vk::bad.empty(), [&] { return vk::bad + lib_state(); });
    if (!vk::clobbered.empty()) {
      // Candidate finding (no KF id yet): Watchdog::set_timer()/stop_timer() fill the static `signal_once' (and last_time_requested) and
      // then call setitimer(); a SIGPROF in between runs handle_timeout -> reschedule() -> set_timer(reschedule_time), which rewrites the
      // same statics, so the interrupted call arms 10 ms instead of its own value.  The history stops here: everything later
      // (timer armed with nothing pending, head fired early by an arbitrary amount) is a consequence.
      std::string id = vk::clobbered_stop ? "race.stop_timer_clobbered_by_handler" : "race.set_timer_clobbered_by_handler";
      std::string state = lib_state(), cons;
      vk::plan.clear(); vk::plan_pos = 0; vk::advance(RESCHEDULE + 1, false);          // let the wrongly armed 10 ms pass: what happens?
      for (size_t i = 0; i < ws.size(); ++i) if (ws[i].fired && ws[i].fired_at < ws[i].t_enter + ws[i].delay && !ws[i].judged)
        cons += "; consequence: the action of " + show((int) i) + " ran " + us(ws[i].t_enter + ws[i].delay - ws[i].fired_at) + " before constructor entry + delay";
      if (n_pending() == 0 && vk::deliveries > 0 && cons.empty()) cons += "; consequence: the timer stayed armed with nothing pending and a spurious SIGPROF was delivered";
      // KF-C19-3: recorded finding; with the id active the history just stops here
      if (vf::kf("KF-C19-3")) { c.excluded("KF-C19-3"); c.tag("wd stopped: timer value clobbered (KF-C19-3)"); throw StopHistory(); }
      c.check(id, false, [&] { return vk::clobbered + " (" + when + ")" + cons + state; });
      c.tag("wd stopped: timer value clobbered"); throw StopHistory();
    }
    for (size_t i = 0; i < ws.size(); ++i) {
      W& x = ws[i];
      c.check("fire.at_most_once", x.fired <= 1, [&] { return "the action of " + show((int) i) + " ran " + std::to_string(x.fired) + " times (" + when + ")" + lib_state(); });
      c.check("fire.never_after_destruction", !x.fired_after_death, [&] { return "the action of " + show((int) i) + " ran after its destructor had returned (" + when + ")" + lib_state(); });
      if (x.fired && !x.judged) {
        x.judged = true;
        // (2) never before entry + delay
        us_t due = x.t_enter + x.delay;
        if (x.fired_at < due) {
          // KF-C19-1: Time::operator== ignores the microseconds, so `deadline <= time_so_far' (handle_timeout) and
          // `first_deadline != next_deadline' (remove_watchdog_event) hold/fail whenever the SECONDS agree: a watchdog whose
          // internal deadline lies in the same second as the internal clock at the expiry is fired with it.
          us_t inow = x.fired_at - T0, idl = x.t_read - T0 + x.delay, lmax = vk::stall_total + (kf2 ? allowance(vk::lost_total, vk::deferred) : 0);
          bool same_sec = idl - lmax < (inow / 1000000 + 1) * 1000000LL;
          // KF-C19-2 (same root, other symptom): a watchdog whose constructor returned after an expiry had been deferred inside a
          // critical section gets its internal deadline from a clock that lost the deferred interval (and from last_time_requested
          // clobbered by reschedule()); it can sort before older, overdue entries and handle_timeout fires the head unconditionally.
          // It also gains up to reschedule_time per deferral: reschedule() overwrites last_time_requested, and the interrupted
          // destructor computes the elapsed time as (new last_time_requested - timer value read before the signal).
          bool after_def = x.fire_deferred > 0;
          bool built_after = vk::first_deferral >= 0 && x.t_exit >= vk::first_deferral;
          bool gained = due - x.fired_at <= RESCHEDULE * x.fire_deferred + x.fire_stall;
          // KF-C19-1 in handle_timeout fires x AFTER the legitimate head of the same delivery
          bool company = false;
          for (size_t j = 0; j < ws.size(); ++j) if (j != i && ws[j].fired && ws[j].fire_delivery == x.fire_delivery) {
            if (ws[j].kind == 1 || x.kind == 1) company = true;      // flag actions are observed after the delivery: order unknown
            else for (int k : fire_order) { if (k == (int) j) { company = true; break; } if (k == (int) i) break; }
          }
          if (kf1 && ((same_sec && company) || x.fire_taint)) ex1();
          else if (kf2 && after_def && (built_after || gained)) ex2();
          else c.check(after_def ? "fire.not_early_after_deferral" : "fire.not_early", false, [&] {
            std::ostringstream o; o << "the action of " << show((int) i) << " ran " << us(due - x.fired_at) << " BEFORE constructor entry + delay (" << when << "); internal clock at the expiry "
              << inow << "us, internal deadline " << idl << "us" << (same_sec ? " (same second)" : " (different seconds)") << (company ? ", fired after another watchdog in the same delivery" : ", first of its delivery")
              << (x.fire_taint ? "; a head was removed earlier while the next deadline lay in the same second" : "") << lib_state(); return o.str(); });
        }
        // (5) promptness at the moment of firing
        us_t late = x.fired_at - x.fire_ref, bound = RESCHEDULE + x.fire_stall;
        if (late > bound) {
          if (kf2 && late <= bound + allowance(x.fire_lost, x.fire_deferred)) ex2();
          else c.check("fire.prompt", false, [&] {
            std::ostringstream o; o << "the action of " << show((int) i) << " ran " << us(late) << " after max(constructor return + delay, end of the last critical section = " << x.fire_ref
              << "): more than reschedule_time (10000us) + injected stalls (" << x.fire_stall << "us); expiries deferred in a critical section before: " << x.fire_deferred
              << " (armed intervals " << x.fire_lost << "us) (" << when << ")" << lib_state(); return o.str(); });
        }
      }
      if (time_passed && pending(x)) {
        us_t ref = std::max(x.t_exit + x.delay, last_cs_exit), bound = RESCHEDULE + vk::stall_total;
        if (vk::now > ref + bound) {
          if (kf2 && vk::now <= ref + bound + allowance(vk::lost_total, vk::deferred)) ex2();
          else c.check("pending.prompt", false, [&] {
            std::ostringstream o; o << show((int) i) << " is alive and has not fired " << us(vk::now - ref) << " after max(constructor return + delay, end of the last critical section = " << ref
              << "): more than reschedule_time (10000us) + injected stalls (" << vk::stall_total << "us) (" << when << ")" << lib_state(); return o.str(); });
        }
      }
    }
    // (4) expirations in non-decreasing deadline order (deadline = instant of the constructor's timer read + delay)
    for (size_t a = 0; a < fire_order.size(); ++a) for (size_t b = a + 1; b < fire_order.size(); ++b) {
      const W& x = ws[fire_order[a]]; const W& y = ws[fire_order[b]];
      if (x.fired_at < x.t_enter + x.delay) continue;                                      // an early firing is judged by fire.not_early
      if (x.fire_delivery == y.fire_delivery && (x.kind == 1 || y.kind == 1)) continue;   // flag actions are observed by polling after the delivery
      us_t dx = x.t_read + x.delay, dy = y.t_read + y.delay;
      if (dx > dy + vk::stall_total) {
        if (kf2 && dx <= dy + vk::stall_total + allowance(vk::lost_total, vk::deferred)) ex2();
        else c.check("fire.deadline_order", false, [&] { return show(fire_order[a]) + " fired before " + show(fire_order[b]) + " although its deadline is later (" + when + ")" + lib_state(); });
      }
    }
    // (6) armed iff something is pending
    int np = n_pending();
    c.check(np ? "timer.armed_when_pending" : "timer.disarmed_when_idle", (vk::timer != 0) == (np != 0), [&] {
      std::ostringstream o; o << np << " watchdog(s) pending but the timer is " << (vk::timer ? "armed (" + us(vk::timer) + ")" : std::string("disarmed")) << " (" << when << ")" << lib_state(); return o.str(); });
  }

  void run() {
    vk::after_delivery = poll_flags;
    vk::now = t.pick(std::vector<long>{ 0, 333333, 666666, 999990, 1999999 });
    use_stalls = t.chance(70);
    if (t.chance(10)) vk::handler_stall = t.range(1, 50);
    c.log << "watchdog history, virtual clock starts @" << vk::now << (vk::handler_stall ? ", the handler takes " + us(vk::handler_stall) + " before re-arming" : std::string()) << "\n";
    int steps = (int) t.range(3, 18);
    for (int s = 0; s < steps && !t.exhausted(); ++s) {
      int op = force_hit ? t.weighted({ 60, 40, 0 }) : t.weighted({ 40, 20, 40 });
      std::vector<int> objs; for (size_t i = 0; i < ws.size(); ++i) if (ws[i].obj) objs.push_back((int) i);
      if (op == 0 && ((int) ws.size() >= MAXC || (int) objs.size() >= MAXALIVE)) op = 1;
      if (op == 1 && objs.empty()) op = (int) ws.size() < MAXC ? 0 : 2;
      if (op == 0) { create(); check_all("after create", false); }
      else if (op == 1) {
        std::vector<int> pend; for (int i : objs) if (pending(ws[i])) pend.push_back(i);
        int i = (!pend.empty() && t.chance(75)) ? t.pick(pend) : t.pick(objs);
        destroy(i); check_all("after destroy", false);
      }
      else { advance_event(); check_all("after advance", true); }
    }
    vk::plan.clear(); vk::plan_pos = 0; force_hit = 0;
    us_t tail = 3000000 + vk::stall_total + allowance(vk::lost_total, vk::deferred);
    c.log << "final advance " << tail << "us @" << vk::now << "\n";
    vk::advance(tail, false);
    check_all("after the final advance", true);
    for (size_t i = 0; i < ws.size(); ++i) if (ws[i].obj) c.check("fire.eventually", ws[i].fired == 1, [&] { return show((int) i) + " is alive and never fired" + lib_state(); });
    for (size_t i = 0; i < ws.size(); ++i) if (ws[i].obj) { PWatchdog* p = ws[i].obj; ws[i].obj = 0; ws[i].in_dtor = true; delete p; ws[i].in_dtor = false; ws[i].destroyed = true; ws[i].destroyed_at = vk::now; }
    check_all("after destroying everything", false);
    c.check("timer.disarmed_at_end", vk::timer == 0, [&] { return "timer still armed with every watchdog destroyed" + lib_state(); });
    vk::advance(1000000, false);
    check_all("one second after destroying everything", false);

    // Non-trivial: >= 2 watchdogs pending at the same time, and an expiry delivered inside a critical section or
    // two overlapping watchdogs with deadlines in the same second of the internal time line.
    c.tag("wd history");
    if (max_pending >= 2) c.tag("wd >=2 overlapping");
    if (vk::deferred) c.tag("wd expiry inside critical section");
    if (vk::in_syscall > vk::deferred) c.tag("wd expiry inside a system call outside a critical section");
    if (same_second) c.tag("wd deadlines in the same second");
    if (!fire_order.empty()) c.tag("wd fired " + std::to_string(std::min<size_t>(fire_order.size(), 4)) + (fire_order.size() >= 4 ? "+" : ""));
    if (max_pending >= 2 && (vk::deferred > 0 || same_second)) c.nt();
  }
};
} // namespace wd

// ------------------------------------------------------------------ part 2: the history
namespace ww {
struct Run {
  vf::Ctx& c; vf::Tape& t; int max_pending = 0; int crossed_with_company = 0;
  Run(vf::Ctx& c_) : c(c_), t(c_.t) {}

  static std::string show(int i) { const T& x = ts[i]; std::ostringstream o; o << "watcher #" << i << "(threshold " << x.thr << (x.fired ? ", fired at weight " + std::to_string(x.fired_weight) : std::string()) << (x.destroyed ? ", destroyed" : "") << ")"; return o.str(); }

  void invariants(const char* when) {
    for (size_t i = 0; i < ts.size(); ++i) {
      const T& x = ts[i];
      c.check("ww.at_most_once", x.fired <= 1, [&] { return show((int) i) + " fired " + std::to_string(x.fired) + " times (" + when + ")"; });
      c.check("ww.never_after_destruction", !x.fired_after_death, [&] { return show((int) i) + " fired after its destructor had returned (" + when + ")"; });
      c.check("ww.fires_only_in_a_check", !x.fired_outside_check, [&] { return show((int) i) + " fired outside a check (" + when + ")"; });
    }
    bool cf = Weightwatch_Traits::check_function != 0;
    c.check("ww.check_function_iff_pending", cf == (n_pending() != 0), [&] {
      return std::to_string(n_pending()) + " threshold(s) pending but Weightwatch_Traits::check_function is " + (cf ? "installed" : "null") + " (" + when + ")"; });
  }

  void run() {
    u64 w0 = t.pick(std::vector<u64>{ 0ULL, 1000ULL, ~0ULL - 40, (1ULL << 63) - 20, 123456789012345ULL });
    Weightwatch_Traits::weight = w0;
    c.log << "weight history, initial weight " << w0 << "\n";
    int steps = (int) t.range(3, 24);
    for (int s = 0; s < steps && !t.exhausted(); ++s) {
      int op = t.weighted({ 30, 12, 33, 25 });
      std::vector<int> objs, pend; for (size_t i = 0; i < ts.size(); ++i) { if (ts[i].obj) objs.push_back((int) i); if (pending(ts[i])) pend.push_back((int) i); }
      if (op == 0 && ((int) ts.size() >= MAXC || (int) objs.size() >= 5)) op = 1;
      if (op == 1 && objs.empty()) op = 2;
      u64 w = Weightwatch_Traits::weight;
      if (op == 0) {
        int i = (int) ts.size(); T x; std::memset(&x, 0, sizeof x); x.kind = t.chance(25) ? 1 : 0;
        int mode = t.weighted({ 45, 25, 15, 10, 5 });
        u64 delta = 1;
        if (mode == 0) delta = t.range(1, 30);
        else if (mode == 1 && !pend.empty()) { u64 d = ts[t.pick(pend)].thr - w; delta = (d >= 1 && d < (1ULL << 62)) ? d : 1; }
        else if (mode == 2) delta = (1ULL << 40) + t.range(0, 5);
        else if (mode == 3) delta = t.range(1, 3);
        else if (mode == 4) delta = 0;
        else delta = t.range(1, 10);
        x.thr = w + delta;
        c.log << "create #" << i << " delta=" << delta << " (threshold " << x.thr << ") " << (x.kind ? "flag" : "function") << " at weight " << w << "\n";
        ts.push_back(x);
        Weightwatch* p = 0; bool threw = false;
        try { p = x.kind == 0 ? new Weightwatch(delta, fns[i]) : new Weightwatch(delta, holders[i], flags[i]); } catch (std::invalid_argument&) { threw = true; }
        ts[i].obj = p; if (!p) ts[i].destroyed = true;
        // (delta 0: the documentation of the class speaks of thresholds being *exceeded*; whether a threshold equal to the current
        //  weight counts as already reached is not settled by the property: tagged, not judged)
        if (delta == 0) c.tag(threw ? "ww delta 0 rejected" : "ww delta 0 accepted");
        else if (false) c.check("ww.ctor_rejects_reached_threshold", threw, [&] { return "Threshold_Watcher constructed with delta 0 (threshold " + std::to_string(x.thr) + " == current weight) did not throw std::invalid_argument(\"threshold already reached\")"; });
        if (delta != 0) c.check("ww.ctor_unexpected_exception", !threw, [&] { return "Threshold_Watcher constructor threw std::invalid_argument for delta " + std::to_string(delta) + " at weight " + std::to_string(w); });
        max_pending = std::max(max_pending, n_pending());
        invariants("after create");
      }
      else if (op == 1) {
        int i = (!pend.empty() && t.chance(70)) ? t.pick(pend) : t.pick(objs);
        c.log << "destroy #" << i << (ts[i].fired ? " (already fired)" : " (pending)") << "\n";
        Weightwatch* p = ts[i].obj; ts[i].obj = 0; delete p; ts[i].destroyed = true;
        invariants("after destroy");
      }
      else if (op == 2) {
        int mode = t.weighted({ 30, 30, 15, 15, 10 });
        u64 k = 0;
        u64 nearest = 0; bool have = false; for (int i : pend) { u64 d = ts[i].thr - w; if (d < (1ULL << 63) && (!have || d < nearest)) { nearest = d; have = true; } }
        if (mode == 0) k = t.range(0, 10);
        else if (mode == 1 && have) k = nearest;                      // land exactly on the nearest threshold
        else if (mode == 2 && have && nearest >= 1) k = nearest - 1;  // one short of it
        else if (mode == 3 && have) k = nearest + 1 + t.range(0, 3);
        else k = t.range(1, 60);
        c.log << "add " << k << " -> weight " << (u64) (w + k) << "\n";
        WEIGHT_ADD(k);
        c.check("ww.weight_add", Weightwatch_Traits::weight == (u64) (w + k), "WEIGHT_ADD did not add its argument");
        invariants("after add");
      }
      else {
        std::vector<int> expect, quiet; for (int i : pend) (reached(w, ts[i].thr) ? expect : quiet).push_back(i);
        c.log << "check at weight " << w << " (" << expect.size() << " of " << pend.size() << " pending thresholds reached)\n";
        int seq0 = seq;
        do_check();
        if (expect.size() >= 2 || (expect.size() == 1 && pend.size() >= 2)) crossed_with_company += (int) expect.size();
        for (int i : expect) {
          bool exact = w == ts[i].thr;
          // weight == threshold: the class documentation says `exceeded', the property says `reaches': either behaviour accepted
          if (exact) { c.tag(ts[i].fired ? "ww fired at weight == threshold" : "ww silent at weight == threshold"); continue; }
          c.check("ww.fires_when_threshold_exceeded", ts[i].fired >= 1, [&] {
            return show(i) + " did not fire at a check with weight " + std::to_string(w) + (exact ? " == threshold" : " > threshold"); });
        }
        for (int i : quiet) c.check("ww.no_fire_below_threshold", ts[i].fired == 0, [&] { return show(i) + " fired at a check with weight " + std::to_string(w) + " below its threshold"; });
        std::vector<int> fired_now; for (size_t i = 0; i < ts.size(); ++i) if (ts[i].fired && ts[i].fired_seq >= seq0 && ts[i].kind == 0) fired_now.push_back((int) i);
        std::sort(fired_now.begin(), fired_now.end(), [&](int a, int b) { return ts[a].fired_seq < ts[b].fired_seq; });
        for (size_t a = 0; a + 1 < fired_now.size(); ++a) { u64 x = ts[fired_now[a]].thr, y = ts[fired_now[a + 1]].thr;
          c.check("ww.threshold_order", x == y || reached(y, x), [&] { return show(fired_now[a]) + " fired before " + show(fired_now[a + 1]) + " in the same check"; }); }
        invariants("after check");
      }
    }
    // tail: push the weight past everything, check, destroy
    { u64 w = Weightwatch_Traits::weight; u64 far = 0; for (const T& x : ts) if (pending(x)) { u64 d = x.thr - w; if (d < (1ULL << 63) && d > far) far = d; }
      WEIGHT_ADD(far + 1); c.log << "final add " << far + 1 << " and check\n";
      do_check();
      for (size_t i = 0; i < ts.size(); ++i) if (ts[i].obj) c.check("ww.fires_when_threshold_exceeded", ts[i].fired >= 1, [&] { return show((int) i) + " never fired although the weight passed its threshold"; });
      invariants("after the final check");
      for (size_t i = 0; i < ts.size(); ++i) if (ts[i].obj) { Weightwatch* p = ts[i].obj; ts[i].obj = 0; delete p; ts[i].destroyed = true; }
      invariants("after destroying everything");
      WEIGHT_ADD(5); do_check();
      invariants("after a check with nothing alive");
    }
    c.tag("ww history");
    if (max_pending >= 2) c.tag("ww >=2 pending");
    // Non-trivial: >= 2 thresholds crossed while at least one other threshold was alive in the same history.
    if (crossed_with_company >= 2) c.nt();
  }
};
} // namespace ww

static bool prev_completed = true;
void vf_case(vf::Ctx& c) {
  LogGuard lg(&c.log);
  bool prev_ok = prev_completed; prev_completed = false;
  cleanup_previous_case(c, prev_ok);
  c.check("setup.handler_captured", vk::handler != 0, "Watchdog::initialize() did not install a SIGPROF handler through sigaction");
  int part = c.t.weighted({ 75, 25 });
  try {
    if (part == 0) { wd::Run r(c); r.run(); }
    else { ww::Run r(c); r.run(); }
  } catch (StopHistory&) { return; }    // counts as aborted: the next case resets whatever is left behind
  prev_completed = true;
}
VF_MAIN
