// C14: exceptional exits are clean.
//
// PART A (rejected calls, ~40% of the cases).  A valid object is built by a short generated history, then ONE call violating exactly
// one documented precondition is made (about 100 kinds per polyhedral domain: dimension / topology incompatibility, variable out of
// range, zero denominator, strict or unsupported constraint, proper congruence, non-point first generator, dimension overflow, ...;
// MIP_Problem, PIP_Problem, Linear_Expression / generators / rows of systems likewise).  Oracle: the documented exception type
// arrives, receiver and arguments still compare equal to copies taken before the call (operator== and constraints() /
// minimized_congruences() compared in the reference geometry), pass OK(), and a valid follow-up computation gives the same result on
// the object and on the pre-call copy.
//   check ids  a.threw.<dom>.<op>  a.type.<dom>.<op>  a.ok.<dom>.<op>  a.unchanged.<dom>.<op>  a.model.<dom>.<op>  a.followup.<dom>.<op>
//   non-trivial: the receiver of the rejected call was neither empty nor universe (solvers / expressions: had constraints / terms).
//   known-finding classes: a_known() (KF-C14-1 .. KF-C14-6).
//
// PART B (resource exhaustion / abandonment).  A scenario is plain data decoded once from the tape; a World builds fresh library
// objects from it and executes 2-8 steps (domains: three objects of one of C_Polyhedron, NNC_Polyhedron, Grid, BD_Shape<mpq_class>,
// Octagonal_Shape<mpz_class>, Rational_Box, Pointset_Powerset<C_Polyhedron>, Constraints_Product<C_Polyhedron, Grid>; MIP_Problem;
// PIP_Problem; Linear_Expression (sparse and dense) / Constraint_, Congruence_, Generator_System / Sparse_Row).  The scenario is run
// cleanly (warm-up, then a reference run that counts the allocation events N and the weight W and keeps a snapshot of the world
// before every step; a separate run counts the maybe_abandon() checkpoints C), then re-run from scratch with one fault:
//   mode 1  the k-th allocation through operator new fails (std::bad_alloc);
//   mode 2  the k-th allocation of operator new + GMP fails.  GMP's allocation functions are replaced through the hook
//           ppl_set_GMP_memory_allocation_functions() that PPL's Init calls; the installed libgmp lets the exception through
//           (PPL_GMP_SUPPORTS_EXCEPTIONS is 1 and a probe confirmed it).  A GMP event is injected only when the GMP function asking
//           for memory keeps its operand consistent when the allocator throws (mpz_realloc, mpz_init_set*, mpz_init2, mpq_init:
//           every GMP allocation PPL made in the surveys); other callers are counted and tagged, never failed;
//   mode 3  abandon_expensive_computations points to a Throwable that throws at the k-th maybe_abandon() checkpoint;
//   mode 4  a Threshold_Watcher<Weightwatch_Traits> with a threshold of k weight units sets abandon_expensive_computations.
//   k ranges over 1..N when N <= 300 (checkpoints: <= 60, thresholds: 24 values) and over a tape-chosen stride sample above.
// After an injected failure the objects are first inspected in a forked child (a broken object may crash or hang when it is used, and
// that must not end the search), then, if the child survived, in the parent:
//   b.exception_type   only std::bad_alloc (modes 1,2) / the harness's Throwable (modes 3,4) reaches the call site
//   b.bystander        objects not involved in the failing call pass OK() and kept their value
//   b.arg_ok, b.arg_value   const arguments pass OK() / kept their value (compared with the reference run's snapshot)
//   b.retry            a failed const operation (query, minimization, solve) repeated on the same objects answers as the reference run
//   b.receiver_ok      (weaker) the receiver of the failing mutator passes OK()           [OK() crashing is reported here too]
//   b.crash_after_failure   the child crashed / hung while using objects other than the receiver
//   b.assign_destroy   the child crashed while assigning the pre-step values to the objects and destroying them
//   b.reuse            (parent) after assigning the snapshot values to all objects the rest of the scenario gives the reference results
//   b.leak             live library allocations grow on two further repetitions of the same (scenario, k) as well; the message lists
//                      the surviving blocks by requesting site (exe+offset: resolve with addr2line)
//   b.unfired_same     runs in which nothing fired (or the failure was absorbed) reproduce the reference results
//   b.final_clean, b.global_state   a last clean run reproduces the reference results; no abandon pointer / threshold left behind
//   b.clean_threw, b.clean_leak     sanity of the clean runs
//   every id is suffixed with .<family>; known-finding classes: b_known() and World::poison() (KF-C14-7 .. KF-C14-13).
//   non-trivial: a failure fired inside a LIB(...) library call of a step (not while the harness builds arguments or the world).
// Not covered: coefficient overflow (needs the checked-integer flavours); abandonment through powersets (they read the pointer
// themselves and lose precision instead of throwing: allocation faults only).
// Exploration aids (environment): C14_PART=A|B one part only; C14_SOFT=1 weak checks become tags, =2 all part-B findings become tags;
// C14_ONLY=<id prefix> keeps those findings hard in soft mode.
#include "poly_common.hh"
#include <dlfcn.h>
#include <execinfo.h>
#include <sys/wait.h>
#include <cerrno>
#include <optional>
#include <new>
using namespace vf;
const vf::Info vf_info = { "C14", "c14_faults", 3.0 };

// ------------------------------------------------------------------ allocation accounting / injection
namespace mem {
static long live = 0;          // blocks allocated inside the tracked region and still alive
static long count = 0;         // allocation events seen inside the tracked region
static long arm = 0;           // the event with this number fails (0: none)
static long fired = 0;
static int track = 0;          // > 0: tracked (library) region
static int call_depth = 0;     // > 0: inside a LIB(...) call
static bool gmp_on = false;    // GMP events are counted / injected too
static bool fired_in_call = false, fired_gmp = false;
static long n_new = 0, n_gmp = 0, n_gmp_other = 0;
struct Hdr { uint64_t magic; uint64_t tagged; void* site; uint64_t cls; void* up[2]; Hdr* prev; Hdr* next; };   // site / up: who asked for the block (leak attribution); cls 1: operator new[], 2: the operator new following it
static bool deep = false;        // record two more frames (last leak repetition only)   // site: who asked for the block (leak attribution)
static Hdr* head = 0; static Hdr* tail = 0; static uint64_t seq = 0;    // live tagged blocks in allocation order (intrusive list)
static const uint64_t MAGIC = 0xC14C14C14C14C14CULL;
static inline bool quiet() {
#ifndef NDEBUG
  return Parma_Polyhedra_Library::In_Assert::asserting();   // allocations made while evaluating an assertion do not exist in the shipped build
#else
  return false;
#endif
}
static bool prev_array = false; static long deferred = 0;
static inline bool event(bool gmp, bool array = false) {
  if (track <= 0 || quiet()) return false;
  ++count; if (gmp) ++n_gmp; else ++n_new;
  bool pa = prev_array; prev_array = array;
  if (arm != 0 && count >= arm) {
#ifndef NDEBUG
    // Assertion-enabled builds only: CO_Tree::init() evaluates PPL_ASSERT(OK()) in the handler that catches the failure of the
    // allocation following its `new dimension_type[]', on a tree whose cached iterators are not set yet: the assertion code
    // itself crashes.  That allocation (the only one that follows an operator new[] in the library) is injected in the
    // shipped (rel) configuration only; here the failure moves to the next event.
    if (pa && !gmp) { ++deferred; return false; }
#endif
    (void) pa; arm = 0; ++fired; fired_in_call = call_depth > 0; fired_gmp = gmp; return true; }
  return false;
}
static bool last_get_array = false;
static inline void* get(size_t n, void* site, int kind = 0) {   // kind 1: operator new[], 2: GMP
  Hdr* p = (Hdr*) std::malloc(n + sizeof(Hdr)); if (!p) return 0;
  p->magic = MAGIC; p->tagged = track > 0 ? ++seq : 0; p->site = site; p->prev = p->next = 0; p->up[0] = p->up[1] = 0;
  p->cls = kind == 1 ? 1 : (kind == 0 && last_get_array) ? 2 : kind == 2 ? 3 : 0; if (kind != 2) last_get_array = kind == 1;
  if (p->tagged && deep) { void* bt[6]; int d = backtrace(bt, 6); if (d > 3) p->up[0] = bt[3]; if (d > 4) p->up[1] = bt[4]; }
  if (p->tagged) { ++live; p->prev = tail; if (tail) tail->next = p; else head = p; tail = p; }
  return p + 1;
}
static inline void put(void* q) {
  if (!q) return; Hdr* p = (Hdr*) q - 1;
  if (p->magic != MAGIC) { std::free(q); return; }
  if (p->tagged) { --live; if (p->prev) p->prev->next = p->next; else head = p->next; if (p->next) p->next->prev = p->prev; else tail = p->prev; }
  p->magic = 0; std::free(p);
}
// blocks allocated in the tracked region after sequence number `since' and still alive, grouped by requesting site
static std::string site_name(void* a) {
  if (!a) return "?"; Dl_info di; char buf[64];
  if (dladdr(a, &di) && di.dli_sname) return di.dli_sname;
  std::snprintf(buf, sizeof buf, "exe+0x%lx", (unsigned long) ((char*) a - (char*) (dladdr(a, &di) ? di.dli_fbase : 0))); return buf;
}
// kind: 1 the survivors are a few limb blocks and nothing else (gmpxx mpq_class objects whose constructor threw after its first allocations,
// beside limb blocks of the library's cached temporaries that were replaced during the run), 2 every non-GMP survivor belongs to a CO_Tree::init pair
static std::string survivors(uint64_t since, int* kind) {
  std::map<std::string, int> m; bool only_q = true, only_tree = true; int n = 0, n_tree = 0;
  for (Hdr* h = tail; h && h->tagged > since; h = h->prev) {
    std::string nm = site_name(h->site);
    if (h->up[0]) nm += " < " + site_name(h->up[0]) + " < " + site_name(h->up[1]);
    if (h->cls != 3) only_q = false;
    if (h->cls == 1 || h->cls == 2) ++n_tree; else if (h->cls != 3) only_tree = false;
    ++n; m[nm]++;
  }
  if (kind) *kind = n == 0 ? 0 : (only_q && n <= 6) ? 1 : (only_tree && n_tree > 0) ? 2 : 0;
  std::string r; for (auto& kv : m) r += " [" + kv.first + "] x" + std::to_string(kv.second); return r;
}
// is the GMP function that asks for memory one that stays consistent when the allocator throws?
static bool safe_caller(void* ra) {
  struct E { void* a; int ok; }; static E tab[1024];
  size_t h = ((uintptr_t) ra >> 1) % 1024; if (tab[h].a == ra) return tab[h].ok != 0;
  static const char* const okn[] = { "__gmpz_realloc", "__gmpz_realloc2", "__gmpz_init_set", "__gmpz_init_set_si", "__gmpz_init_set_ui", "__gmpz_init2", "__gmpq_init", 0 };
  Dl_info di; int ok = 0;
  if (dladdr(ra, &di) && di.dli_sname) for (int i = 0; okn[i]; ++i) if (std::strcmp(okn[i], di.dli_sname) == 0) ok = 1;
  tab[h].a = ra; tab[h].ok = ok; return ok != 0;
}
struct Pause { int s; Pause() : s(track) { track = 0; } ~Pause() { track = s; } };
struct Call { Call() { ++call_depth; } ~Call() { --call_depth; } };
}
void* operator new(size_t n) { if (mem::event(false)) throw std::bad_alloc(); void* p = mem::get(n, __builtin_return_address(0)); if (!p) throw std::bad_alloc(); return p; }
void* operator new[](size_t n) { if (mem::event(false, true)) throw std::bad_alloc(); void* p = mem::get(n, __builtin_return_address(0), 1); if (!p) throw std::bad_alloc(); return p; }
void* operator new(size_t n, const std::nothrow_t&) noexcept { if (mem::event(false)) return 0; return mem::get(n, __builtin_return_address(0)); }
void* operator new[](size_t n, const std::nothrow_t&) noexcept { if (mem::event(false, true)) return 0; return mem::get(n, __builtin_return_address(0), 1); }
void operator delete(void* p) noexcept { mem::put(p); }
void operator delete[](void* p) noexcept { mem::put(p); }
void operator delete(void* p, size_t) noexcept { mem::put(p); }
void operator delete[](void* p, size_t) noexcept { mem::put(p); }
void operator delete(void* p, const std::nothrow_t&) noexcept { mem::put(p); }
void operator delete[](void* p, const std::nothrow_t&) noexcept { mem::put(p); }

extern "C" {
static void* c14_gmp_alloc(size_t n) {
  if (mem::gmp_on && mem::track > 0) { if (mem::safe_caller(__builtin_return_address(0))) { if (mem::event(true)) throw std::bad_alloc(); } else ++mem::n_gmp_other; }
  void* p = mem::get(n, __builtin_return_address(0), 2); if (!p) throw std::bad_alloc(); return p;
}
static void* c14_gmp_realloc(void* q, size_t old, size_t n) {
  if (mem::gmp_on && mem::track > 0) { if (mem::safe_caller(__builtin_return_address(0))) { if (mem::event(true)) throw std::bad_alloc(); } else ++mem::n_gmp_other; }
  mem::Hdr* p = (mem::Hdr*) q - 1;
  if (p->magic != mem::MAGIC) { void* r = mem::get(n, __builtin_return_address(0), 2); if (!r) throw std::bad_alloc(); std::memcpy(r, q, old < n ? old : n); std::free(q); return r; }
  p = (mem::Hdr*) std::realloc(p, n + sizeof(mem::Hdr)); if (!p) throw std::bad_alloc();
  if (p->tagged) { if (p->prev) p->prev->next = p; else mem::head = p; if (p->next) p->next->prev = p; else mem::tail = p; }
  return p + 1;
}
static void c14_gmp_free(void* q, size_t) { mem::put(q); }
// PPL's Init constructor calls this hook before anything else of the library runs (the default definition in libppl.a is empty).
void ppl_set_GMP_memory_allocation_functions(void) { mp_set_memory_functions(c14_gmp_alloc, c14_gmp_realloc, c14_gmp_free); }
}
// Sanitizer builds: blocks are deliberately abandoned (objects that cannot be destroyed after a failure, known library leaks), and the
// leak oracle of this harness is its own accounting: LeakSanitizer's report at exit is switched off.
// (sanitizer default options: common.hh)
#define LIB(stmt) do { mem::Call vf_call_guard_; stmt; } while (0)

// ------------------------------------------------------------------ abandonment
struct Abandoned { };
typedef Threshold_Watcher<Weightwatch_Traits> Weightwatch;

// ------------------------------------------------------------------ observations (made with accounting paused)
typedef std::vector<std::string> Obs;
static void note(Obs& o, const char* what, long v) { mem::Pause p; o.push_back(std::string(what) + "=" + std::to_string(v)); }
static void note_s(Obs& o, const char* what, const std::string& s) { mem::Pause p; o.push_back(std::string(what) + "=" + s); }
static void note_q(Obs& o, const char* what, const Coefficient& n, const Coefficient& d) { mem::Pause p; mpz_class a(n), b(d); o.push_back(std::string(what) + "=" + a.get_str() + "/" + b.get_str()); }
static std::string join(const Obs& o) { std::string r; for (size_t i = 0; i < o.size(); ++i) r += (i ? "; " : "") + o[i]; return r; }

template <class T> static std::string show(const T& x) { std::ostringstream o; o << x; return o.str(); }

// ------------------------------------------------------------------ domains
typedef BD_Shape<mpq_class> BDS;
typedef Octagonal_Shape<mpz_class> OS;
typedef Pointset_Powerset<C_Polyhedron> PPS;
typedef Partially_Reduced_Product<C_Polyhedron, Grid, Constraints_Reduction<C_Polyhedron, Grid> > PROD;
enum { K_C, K_NNC, K_GRID, K_BDS, K_OS, K_BOX, K_PPS, K_PROD };
template <class D> struct Tr;
template <> struct Tr<C_Polyhedron> { enum { kind = K_C }; static const char* name() { return "C_Polyhedron"; } };
template <> struct Tr<NNC_Polyhedron> { enum { kind = K_NNC }; static const char* name() { return "NNC_Polyhedron"; } };
template <> struct Tr<Grid> { enum { kind = K_GRID }; static const char* name() { return "Grid"; } };
template <> struct Tr<BDS> { enum { kind = K_BDS }; static const char* name() { return "BD_Shape_mpq"; } };
template <> struct Tr<OS> { enum { kind = K_OS }; static const char* name() { return "Octagonal_Shape_mpz"; } };
template <> struct Tr<Rational_Box> { enum { kind = K_BOX }; static const char* name() { return "Rational_Box"; } };
template <> struct Tr<PPS> { enum { kind = K_PPS }; static const char* name() { return "Pointset_Powerset_C"; } };
template <> struct Tr<PROD> { enum { kind = K_PROD }; static const char* name() { return "Constraints_Product_C_Grid"; } };

template <class D> static bool same(const D& a, const D& b) { return a.space_dimension() == b.space_dimension() && a == b; }
static bool same(const PPS& a, const PPS& b) { return a.space_dimension() == b.space_dimension() && a.geometrically_equals(b); }

// constraint kinds: 0 '=', 1 '>=', 2 '>' (NNC, Box) / congruence modulo 2 (Grid: 1 -> modulo 2, 2 -> modulo 3; product: 2 -> modulo 2)
static Congruence grid_cg(const RCon& r) { return (r.e.ppl() %= 0) / (r.kind == 0 ? 0 : r.kind == 1 ? 2 : 3); }
static int max_kind(int K) { return (K == K_NNC || K == K_BOX || K == K_GRID || K == K_PROD) ? 2 : 1; }
static std::string str_k(const RCon& c, int K) {
  if (K == K_GRID) return c.e.str() + (c.kind == 0 ? " = 0" : c.kind == 1 ? " = 0 mod 2" : " = 0 mod 3");
  if (K == K_PROD && c.kind == 2) return c.e.str() + " = 0 mod 2";
  return str(c);
}
// constraint for domain kind K, mostly satisfied by the witness, mostly of the shape the weakly relational domains represent
static RCon gen_rcon(Tape& t, size_t n, const std::vector<long>& wit, int K) {
  RCon c; c.e = LE(n);
  bool shaped = (K == K_BDS || K == K_OS || K == K_BOX) && n > 0 && t.chance(65);
  if (shaped) {
    size_t i = (size_t) t.range(0, (long) n - 1); c.e.a[i] = t.chance(50) ? 1 : -1;
    if (K != K_BOX && n > 1 && t.chance(60)) { size_t j = (i + 1 + (size_t) t.range(0, (long) n - 2)) % n; if (K == K_BDS) c.e.a[j] = -c.e.a[i]; else c.e.a[j] = t.chance(50) ? 1 : -1; }
    c.e.b = t.range(-6, 6);
  }
  else c.e = gen_le(t, n, t.chance(25));
  c.kind = (int) t.range(0, 9); c.kind = c.kind < 2 ? 0 : (c.kind < 7 || max_kind(K) < 2) ? 1 : 2;
  if (t.chance(85)) {
    mpz_class v = c.e.eval(wit);
    if (c.kind == 0 || K == K_GRID || (K == K_PROD && c.kind == 2)) c.e.b -= v;
    else { if (v < 0) { for (size_t j = 0; j < n; ++j) c.e.a[j] = -c.e.a[j]; c.e.b = -c.e.b; v = -v; } if (c.kind == 2 && v == 0) c.e.b += 1; }
  }
  return c;
}
template <class D> static void constrain(D& x, const std::vector<RCon>& v) {
  constexpr int K = Tr<D>::kind;
  if constexpr (K == K_GRID) { Congruence_System s; for (const RCon& r : v) s.insert(grid_cg(r)); LIB(x.add_congruences(s)); }
  else if constexpr (K == K_PROD) { for (const RCon& r : v) { if (r.kind == 2) LIB(x.refine_with_congruence((r.e.ppl() %= 0) / 2)); else LIB(x.refine_with_constraint(to_ppl(r))); } }
  else { Constraint_System s; for (const RCon& r : v) s.insert(to_ppl(r));
    if constexpr (K == K_C || K == K_NNC || K == K_PPS) LIB(x.add_constraints(s)); else LIB(x.refine_with_constraints(s)); }
}

// ------------------------------------------------------------------ part B: the fault driver (generic over a World)
// A World W offers: typedef Plain; W(const Plain&) [fresh objects, under injection]; copy constructor; int steps() const;
// void step(int, Obs&); bool is_const_step(int) const; void after_failure(Ctx&, int, const W& snapshot, const std::string& family,
// const std::string& where); void assign_from(const W&); bool equal(const W&) const; static std::string family(const Plain&).
struct ResetGlobals {
  Weightwatch* ww; ResetGlobals() : ww(0) {}
  ~ResetGlobals() { mem::track = 0; mem::arm = 0; abandon_expensive_computations = 0; if (ww) delete ww; }
};
static long g_abandon_in_call = 0;
// Findings of the post-failure inspection.  The inspection (OK(), comparisons, repetition of a const operation) runs in a forked
// child: an object left in a broken state may crash or hang when it is used, and that must not end the search.
struct Finding { std::string id, cls, msg; bool weak; };
struct Report {
  std::vector<Finding> v; std::string cls, how;
  void check(const std::string& id, bool ok, const std::function<std::string()>& m) { if (!ok) v.push_back(Finding{ id, cls, m(), false }); }
  void weak(const std::string& id, bool ok, const std::function<std::string()>& m) { if (!ok) v.push_back(Finding{ id, cls, m(), true }); }
};
static int soft_mode() { static int v = -1; if (v < 0) { const char* e = std::getenv("C14_SOFT"); v = e ? std::atoi(e) : 0; } return v; }   // exploration aid: weak checks become tags
// returns the number of phases completed (3: all); rep.how describes an abnormal end
template <class F> static int inspect_in_child(Report& rep, F f) {
  int fd[2]; if (::pipe(fd) != 0) throw vf::Inconclusive("pipe() failed");
  std::fflush(stdout); std::fflush(stderr);
  pid_t pid = ::fork();
  if (pid < 0) { ::close(fd[0]); ::close(fd[1]); throw vf::Inconclusive("fork() failed"); }
  if (pid == 0) {
    for (int sg : { SIGSEGV, SIGABRT, SIGFPE, SIGBUS, SIGILL }) std::signal(sg, SIG_DFL);
    ::close(fd[0]); int dn = ::open("/dev/null", O_WRONLY); if (dn >= 0) { ::dup2(dn, 2); ::dup2(dn, 1); }
    ::alarm(3);
    Report r; size_t sent = 0;
    auto flush = [&](const char* marker) {
      std::string out; for (; sent < r.v.size(); ++sent) { Finding& x = r.v[sent]; for (char& ch : x.msg) if (ch == '\n' || ch == '\t') ch = ' '; out += x.id + "\t" + x.cls + "\t" + (x.weak ? "w" : "s") + "\t" + x.msg + "\n"; }
      out += std::string("MARK\t") + marker + "\t" + r.cls + "\n";
      size_t off = 0; while (off < out.size()) { ssize_t w = ::write(fd[1], out.data() + off, out.size() - off); if (w <= 0) break; off += (size_t) w; }
    };
    try { f(r, flush); flush("END"); }
    catch (std::exception& e) { r.v.push_back(Finding{ "EXC", r.cls, std::string(typeid(e).name()) + ": " + e.what(), false }); flush("EXC"); }
    catch (...) { r.v.push_back(Finding{ "EXC", r.cls, "non-standard exception", false }); flush("EXC"); }
    ::_exit(0);
  }
  ::close(fd[1]); std::string in; char buf[4096]; for (;;) { ssize_t n = ::read(fd[0], buf, sizeof buf); if (n <= 0) break; in.append(buf, (size_t) n); } ::close(fd[0]);
  int status = 0; while (::waitpid(pid, &status, 0) < 0 && errno == EINTR) { }
  int done = 0; std::string exc; std::istringstream is(in); std::string line;
  while (std::getline(is, line)) {
    size_t a = line.find('\t'); if (a == std::string::npos) continue; std::string id = line.substr(0, a);
    size_t b = line.find('\t', a + 1);
    if (id == "MARK") { if (b == std::string::npos) continue; std::string m = line.substr(a + 1, b - a - 1); rep.cls = line.substr(b + 1); if (m == "P0") done = 1; else if (m == "P1") done = 2; else if (m == "END") done = 3; continue; }
    size_t c2 = b == std::string::npos ? b : line.find('\t', b + 1); if (c2 == std::string::npos) continue;
    if (id == "EXC") { exc = line.substr(c2 + 1); continue; }
    rep.v.push_back(Finding{ id, line.substr(a + 1, b - a - 1), line.substr(c2 + 1), line[b + 1] == 'w' });
  }
  if (done < 3)
    rep.how = !exc.empty() ? "throws " + exc : WIFSIGNALED(status) ? (WTERMSIG(status) == SIGALRM ? std::string("does not terminate (3 s)") : "crashes with signal " + std::to_string(WTERMSIG(status))) : "ends abnormally (exit status " + std::to_string(WIFEXITED(status) ? WEXITSTATUS(status) : -1) + ")";
  return done;
}
struct CountingCheckpoint : public Throwable {
  mutable long seen; long k;
  CountingCheckpoint() : seen(0), k(0) {}
  void throw_me() const { if (mem::track <= 0) return; ++seen; if (k != 0 && seen == k) { g_abandon_in_call = mem::call_depth; throw Abandoned(); } }
  int priority() const { return 0; }
};
struct ThresholdFlag : public Throwable { void throw_me() const { g_abandon_in_call = mem::call_depth; throw Abandoned(); } int priority() const { return 0; } };
static ThresholdFlag g_tflag;

static std::vector<long> sample_ks(Tape& t, long N, long all_upto, long max_pos) {
  std::vector<long> ks; if (N <= 0) return ks;
  if (N <= all_upto) { for (long k = 1; k <= N; ++k) ks.push_back(k); return ks; }
  if (max_pos < 1) max_pos = 1;
  long stride = (N + max_pos - 1) / max_pos; long off = t.range(1, stride);
  for (long k = off; k <= N; k += stride) ks.push_back(k);
  return ks;
}
static const char* mode_name(int m) { return m == 1 ? "operator new" : m == 2 ? "operator new + GMP" : m == 3 ? "k-th maybe_abandon() checkpoint" : "weight threshold"; }

static const char* b_known(const std::string& fam, const Finding& f);
template <class W> struct Driver {
  typedef typename W::Plain Plain;
  Ctx& c; const Plain& P; std::string fam; int nsteps;
  std::vector<W*> snaps; W* fin; std::vector<Obs> obs; std::vector<long> bounds;   // bounds[i]: allocation events of the clean run before step i
  long N, C; unsigned long long Wt; long n_new, n_gmp, n_gmp_other;
  long probes, poisoned_n, fired_n, nt_n, unfired_n, absorbed_n, build_n, cache_growth_n;
  Driver(Ctx& c_, const Plain& p) : c(c_), P(p), fam(W::family(p)), nsteps(W::nsteps(p)), fin(0), N(0), C(0), Wt(0), n_new(0), n_gmp(0), n_gmp_other(0),
    probes(0), poisoned_n(0), fired_n(0), nt_n(0), unfired_n(0), absorbed_n(0), build_n(0), cache_growth_n(0) {}
  ~Driver() { for (W* s : snaps) delete s; delete fin; }
  std::string id(const char* chk) const { return std::string(chk) + "." + fam; }
  std::string last_cls;      // step class of the last failing stage ("" while building)
  // one finding of part B: known-finding classes are excluded, exploration mode turns it into a tag, otherwise the check fails
  void finding(const Finding& f) {
    if (const char* kid = b_known(fam, f)) if (kf(kid)) { c.excluded(kid); return; }
    static const char* only = std::getenv("C14_ONLY");     // exploration aid: findings with this id prefix stay hard in soft mode
    bool hard = only && f.id.compare(0, std::strlen(only), only) == 0;
    if (!hard && ((f.weak && soft_mode() >= 1) || soft_mode() >= 2)) { c.tag("SOFT " + f.id + " | " + f.cls); return; }
    c.check(f.id, false, [&] { return f.msg; });
  }
  void verdict(const char* chk, bool ok, const std::function<std::string()>& m) { if (!ok) finding(Finding{ id(chk), last_cls, m(), false }); }

  // clean run; record: keep snapshots / observations / final world; compare: against the recorded ones.  Returns the live-allocation delta.
  // count_cp: run with a counting (never throwing) Throwable installed; powersets read the pointer themselves and lose precision
  // when it is set, so the reference run keeps it null and the counting run is not compared with anything
  long clean(bool record, bool compare, const char* which, bool count_cp = false) {
    long live0 = mem::live; std::string threw; bool eq = true; std::vector<Obs> o3;
    {
      ResetGlobals guard; CountingCheckpoint cp;
      mem::count = 0; mem::n_new = mem::n_gmp = mem::n_gmp_other = 0; mem::arm = 0; mem::fired = 0;
      unsigned long long w0 = Weightwatch_Traits::weight;
      if (count_cp) abandon_expensive_computations = &cp;
      try {
        mem::track = 1;
        {
          W w(P);
          if (record) { mem::Pause p; obs.assign(nsteps, Obs()); }
          { mem::Pause p; o3.assign(nsteps, Obs()); }
          for (int i = 0; i < nsteps; ++i) { if (record) { mem::Pause p; snaps.push_back(new W(w)); bounds.push_back(mem::count); } w.step(i, record ? obs[i] : o3[i]); }
          if (record) { mem::Pause p; bounds.push_back(mem::count); }
          if (record) { mem::Pause p; fin = new W(w); }
          if (compare) { mem::Pause p; eq = w.equal(*fin); }
        }
        mem::track = 0;
      }
      catch (std::exception& e) { mem::track = 0; threw = std::string(typeid(e).name()) + ": " + e.what(); }
      catch (...) { mem::track = 0; threw = "non-standard exception"; }
      abandon_expensive_computations = 0;
      if (count_cp) C = cp.seen;
      if (record) { N = mem::count; Wt = Weightwatch_Traits::weight - w0; n_new = mem::n_new; n_gmp = mem::n_gmp; n_gmp_other = mem::n_gmp_other; }
    }
    c.check(id("b.clean_threw"), threw.empty(), [&] { return std::string(which) + " clean run of the scenario threw " + threw; });
    if (compare) {
      bool same_obs = true; for (int i = 0; i < nsteps; ++i) if (o3[i] != obs[i]) same_obs = false;
      c.check(id("b.final_clean"), same_obs && eq, [&] { std::string m = std::string(which) + " clean run does not reproduce the first clean run"; for (int i = 0; i < nsteps; ++i) if (o3[i] != obs[i]) m += "\n step " + std::to_string(i) + ": first [" + join(obs[i]) + "] now [" + join(o3[i]) + "]"; if (!eq) m += "\n final objects differ"; return m; });
    }
    return mem::live - live0;
  }

  // one run with a fault armed; returns the live-allocation delta
  // manually managed storage: a world that is known (or found by the child) to be undestroyable is abandoned, not destroyed
  struct Slot {
    alignas(W) unsigned char buf[sizeof(W)]; W* w; bool abandon;
    Slot() : w(0), abandon(false) {}
    ~Slot() { if (w && !abandon) w->~W(); }
    W* operator->() { return w; }
  };
  bool skip_leak; uint64_t run_seq0;
  long fault(int mode, long k, bool oracle) {
    long live0 = mem::live; skip_leak = false; run_seq0 = mem::seq; size_t asserts0 = vf::fired_asserts().size();
    {
      std::vector<Obs> o2(nsteps);
      Slot ow; int stage = -2, exc = 0; std::string what;
      CountingCheckpoint cp;
      ResetGlobals guard;
      g_abandon_in_call = 0;
      if (mode == 3) { cp.k = k; abandon_expensive_computations = &cp; }
      if (mode == 4) guard.ww = new Weightwatch((Weightwatch_Traits::Delta) k, abandon_expensive_computations, g_tflag);
      mem::count = 0; mem::fired = 0; mem::fired_in_call = false; mem::fired_gmp = false; mem::arm = mode <= 2 ? k : 0;
      mem::track = 1;
      try { stage = -1; ow.w = new (ow.buf) W(P); for (int i = 0; i < nsteps; ++i) { stage = i; ow->step(i, o2[i]); } stage = nsteps; }
      catch (std::bad_alloc&) { exc = 1; }
      catch (Abandoned&) { exc = 2; }
      catch (std::exception& e) { mem::track = 0; exc = 3; what = std::string(typeid(e).name()) + ": " + e.what(); }
      catch (...) { exc = 4; what = "non-standard exception"; }
      mem::track = 0; mem::arm = 0; abandon_expensive_computations = 0; if (guard.ww) { delete guard.ww; guard.ww = 0; }
      const char* kind = mode <= 2 ? " / alloc" : " / abandon";
      const char* poison = (exc != 0 && stage >= 0 && stage < nsteps && ow.w) ? ow->poison(stage) : 0;
      if (poison && kf(poison)) { c.excluded(poison); ow.abandon = true; skip_leak = true; ++poisoned_n; }   // known: the objects cannot even be destroyed
      else if (oracle) {
        bool fired = mode <= 2 ? mem::fired > 0 : exc == 2;
        bool in_call = mode <= 2 ? mem::fired_in_call : g_abandon_in_call > 0;
        int expect = mode <= 2 ? 1 : 2;
        auto where = [&] { return std::string(mode_name(mode)) + ", k=" + std::to_string(k) + (stage < 0 ? ", while building the objects" : ", in step " + std::to_string(stage)) + (mode <= 2 ? (mem::fired_gmp ? " (GMP allocation)" : " (operator new)") : ""); };
        last_cls = (stage < 0 || !ow.w ? std::string("building") : ow->step_name(stage < nsteps ? stage : nsteps - 1)) + kind;
        verdict("b.exception_type", exc == 0 || (exc == expect && fired), [&] { return "injected failure (" + where() + "): " + (exc == 1 ? std::string("std::bad_alloc although nothing was injected") : exc == 2 ? std::string("unexpected abandonment") : "the call site received " + what); });
        ++probes;
        if (exc == 0) {
          bool ok = ow->equal(*fin); for (int i = 0; i < nsteps; ++i) if (o2[i] != obs[i]) ok = false;
          if (fired) { ++absorbed_n; c.tag("B failure absorbed by the library"); } else ++unfired_n;
          verdict("b.unfired_same", ok, [&] { return std::string(fired ? "the failure was absorbed" : "nothing fired") + " (" + where() + ") but the results differ from the clean run" + ow->diff(*fin); });
        }
        else if (stage < 0 || !ow.w) ++build_n;
        else {
          ++fired_n; if (in_call) { ++nt_n; c.nt(); }
          std::string wh = where();
          Report rep;
          int done = inspect_in_child(rep, [&](Report& r, const std::function<void(const char*)>& mark) {
            ow->after_failure(r, stage, *snaps[stage], fam, wh, 0);
            if (ow->is_const_step(stage)) {
              Obs tmp; std::string threw;
              try { ow->step(stage, tmp); } catch (std::exception& e) { threw = std::string(typeid(e).name()) + ": " + e.what(); } catch (...) { threw = "non-standard exception"; }
              r.check(id("b.retry"), threw.empty() && tmp == obs[stage], [&] { return "after the failure (" + wh + ") the same const operation repeated on the same objects " + (threw.empty() ? "answers [" + join(tmp) + "], the clean run answered [" + join(obs[stage]) + "]" : "throws " + threw); });
            }
            mark("P0");
            ow->after_failure(r, stage, *snaps[stage], fam, wh, 1);
            mark("P1");
            ow->assign_from(*snaps[stage]); ow.w->~W(); ow.abandon = true;
          });
          for (Finding& f : rep.v) f.cls += kind;
          if (done < 3) {
            std::string how = rep.how + " (" + wh + ", step class " + last_cls + ")";
            if (done == 0) rep.v.push_back(Finding{ id("b.crash_after_failure"), last_cls, "using the objects not being modified by the failed call (OK(), comparison with the pre-call value, repetition of a const operation) " + how, false });
            else if (done == 1) rep.v.push_back(Finding{ id("b.receiver_ok"), last_cls, "OK() of the receiver " + how, true });
            else rep.v.push_back(Finding{ id("b.assign_destroy"), last_cls, "assigning the pre-step values to the objects and destroying them " + how, false });
            ow.abandon = true; skip_leak = true;
          }
          for (const Finding& f : rep.v) finding(f);
          if (done == 3) {
            std::string threw;
            try { ow->assign_from(*snaps[stage]); for (int i = stage; i < nsteps; ++i) { o2[i].clear(); ow->step(i, o2[i]); } }
            catch (std::exception& e) { threw = std::string(typeid(e).name()) + ": " + e.what(); } catch (...) { threw = "non-standard exception"; }
            bool ok = threw.empty(); if (ok) { for (int i = stage; i < nsteps; ++i) if (o2[i] != obs[i]) ok = false; if (!ow->equal(*fin)) ok = false; }
            verdict("b.reuse", ok, [&] { std::string m = "after the failure (" + wh + ") every object was assigned its pre-step value and the rest of the scenario was re-run: ";
              if (!threw.empty()) return m + "it throws " + threw; for (int i = stage; i < nsteps; ++i) if (o2[i] != obs[i]) m += "step " + std::to_string(i) + " answers [" + join(o2[i]) + "] instead of [" + join(obs[i]) + "]; "; return m + "(final objects compared too)" + ow->diff(*fin); });
          }
        }
      }
    }
    if (vf::fired_asserts().size() != asserts0) skip_leak = true;     // assertion-enabled builds: the framework's record of a fired assertion is allocated inside the tracked region
    return mem::live - live0;
  }
  void probe(int mode, long k) {
    long d1 = fault(mode, k, true);
    if (d1 > 0 && !skip_leak) {
      long d2 = fault(mode, k, false); mem::deep = true; long d3 = d2 > 0 && !skip_leak ? fault(mode, k, false) : 0; mem::deep = false;
      int lk = 0; std::string who = d3 > 0 ? mem::survivors(run_seq0, &lk) : std::string(); bool gmpxx_only = lk == 1 && mem::fired_gmp && d3 <= 3; if (lk == 2) last_cls += " [CO_Tree]";
      // gmpxx: the constructors of mpq_class (copy: mpz_init_set + mpz_init_set; from an expression, e.g. the temporary of `to -= x * y':
      // mpq_init + evaluation) have no handler: when a later allocation of the same constructor fails, the limbs allocated so far are
      // lost.  A growth of at most three blocks where only limb blocks (no operator new block) survive a GMP-level fault is attributed to the
      // wrapper, not to the library (a leak of the library loses a container block as well).
      if (d2 > 0 && d3 > 0 && !skip_leak && gmpxx_only) { c.tag("B leak inside gmpxx (mpq_class constructor interrupted)"); ++cache_growth_n; }
      else if (d2 > 0 && d3 > 0 && !skip_leak) verdict("b.leak", false, [&] { return std::string("fault ") + mode_name(mode) + " k=" + std::to_string(k) + " (step class " + last_cls + "): live library allocations grew by " + std::to_string(d1) + ", " + std::to_string(d2) + ", " + std::to_string(d3) + " blocks on three consecutive identical runs (everything had been destroyed); blocks of the last run still alive, by requesting site:" + who; });
      else ++cache_growth_n;
    }
  }
  void run() {
    Tape& t = c.t;
    mem::gmp_on = P.gmp;
    clean(false, false, "the warm-up");
    long d = clean(true, false, "the first");
    if (d > 0) { long d2 = clean(false, true, "the second"); long d3 = d2 > 0 ? clean(false, true, "the third") : 0;
      // assertion-enabled builds: a clean run in which internal assertions fired (leads, execution continues) may leak in debug-only code
      if (d2 > 0 && d3 > 0 && !vf::fired_asserts().empty()) throw vf::Inconclusive("clean run leaks after internal assertions fired (assertion-enabled build only)");
      c.check(id("b.clean_leak"), !(d2 > 0 && d3 > 0), [&] { return "clean runs leak: live library allocations grew by " + std::to_string(d) + ", " + std::to_string(d2) + ", " + std::to_string(d3) + " blocks"; }); }
    bool pps = fam == "Pointset_Powerset_C";      // powersets read the abandon pointer themselves (precision loss instead of an exception): allocation faults only
    if (P.mode_pref == 1 && !pps) clean(false, false, "the checkpoint-counting", true);
    int mode = P.gmp ? 2 : 1;
    if (P.mode_pref == 1 && C > 0 && !pps) mode = 3; else if (P.mode_pref == 2 && Wt > 0 && !pps) mode = 4;
    std::vector<long> ks;
    if (mode <= 2) { long maxpos = N > 0 ? 100000 / (2 * N) : 1; if (maxpos > 100) maxpos = 100; if (maxpos < 6) maxpos = 6; ks = sample_ks(t, N, 300, maxpos); }
    else if (mode == 3) ks = sample_ks(t, C, 60, 40);
    else ks = sample_ks(t, (long) (Wt > 1000000000ULL ? 1000000000ULL : Wt), 24, 24);
    c.log << " clean run: " << N << " allocation events (operator new " << n_new << ", GMP " << n_gmp << ", GMP from other callers " << n_gmp_other << "), " << C << " abandonment checkpoints, weight " << Wt << "\n"
          << " fault mode: " << mode_name(mode) << ", " << ks.size() << " positions";
    if (!ks.empty()) c.log << " (" << ks.front() << " .. " << ks.back() << ")";
    c.log << "\n";
    c.tag(std::string("B ") + fam + " / " + mode_name(mode));
    if (n_gmp_other > 0) c.tag("B GMP allocations from non-whitelisted GMP functions present");
    // positions inside a step after which the objects are known to be unusable (solver known findings) are not injected
    long skipped = 0;
    for (long k : ks) {
      const char* poison = 0;
      if (mode <= 2) { for (int i = 0; i < nsteps; ++i) if (k > bounds[i] && k <= bounds[i + 1]) poison = snaps[i]->poison(i); }
      else { for (int i = 0; i < nsteps && !poison; ++i) poison = snaps[i]->poison(i); }     // every checkpoint of a solver scenario lies inside solve()
      if (poison && kf(poison)) { ++skipped; c.excluded(poison); continue; }
      probe(mode, k);
    }
    if (skipped) c.log << " " << skipped << " positions inside steps covered by a known finding were not injected\n";
    clean(false, true, "the final");
    c.check(id("b.global_state"), abandon_expensive_computations == 0 && Weightwatch_Traits::check_function == 0, "abandon_expensive_computations or a weight threshold is still installed after the case");
    mem::gmp_on = false;
    c.log << " probes " << probes << ": failed inside a step " << fired_n << " (inside a library call " << nt_n << "), while building " << build_n << ", not fired " << unfired_n << ", absorbed " << absorbed_n << ", one-off cache growth " << cache_growth_n << ", not inspected (known finding) " << poisoned_n << "\n";
  }
};

// ------------------------------------------------------------------ part B: worlds of semantic domain objects
struct GenP { int kind; LE e; long d; };     // 0 point, 1 ray / parameter, 2 line, 3 closure point (NNC only)
struct DStep { int kind, r, s; std::vector<RCon> cs; LE e, e2; long v, d; int rel; std::vector<GenP> gens; };
static const char* const dstep_names[] = { "constrain", "intersection_assign", "upper_bound_assign", "difference_assign", "affine_image", "affine_preimage",
  "generalized_affine_image", "widening", "minimize", "copy/assign/swap", "queries", "dimension round trip", "time_elapse_assign", "unconstrain", "maximize/minimize",
  "add generators | bounded_affine_image | propagate_constraints", "from generators + join | add_disjunct + pairwise_reduce", "rebuild from own description" };
static const int N_DSTEP = 18;
static Relation_Symbol relsym(int r) { return r == 0 ? LESS_OR_EQUAL : r == 1 ? GREATER_OR_EQUAL : EQUAL; }

struct DomPlain {
  size_t n; std::vector<std::vector<std::vector<RCon> > > init; std::vector<int> init_state; std::vector<DStep> steps; bool gmp; int mode_pref; int K;
  std::string str() const {
    std::ostringstream o; o << " dimension " << n << "\n";
    for (size_t j = 0; j < init.size(); ++j) { o << "  o" << j << " ="; for (size_t d = 0; d < init[j].size(); ++d) { o << (d ? " U {" : " {"); for (size_t i = 0; i < init[j][d].size(); ++i) o << (i ? ", " : "") << str_k(init[j][d][i], K); o << "}"; }
      o << (init_state[j] == 1 ? " then is_empty()" : init_state[j] == 2 ? " then minimized" : "") << "\n"; }
    for (size_t i = 0; i < steps.size(); ++i) { const DStep& s = steps[i]; o << "  step " << i << ": " << dstep_names[s.kind] << " recv o" << s.r << " arg o" << s.s << " var x" << s.v << " den " << s.d << " rel " << s.rel << " e=" << s.e.str() << " e2=" << s.e2.str();
      if (!s.cs.empty()) { o << " cs={"; for (size_t k = 0; k < s.cs.size(); ++k) o << (k ? ", " : "") << str_k(s.cs[k], K); o << "}"; }
      if (!s.gens.empty()) { o << " gens={"; for (size_t k = 0; k < s.gens.size(); ++k) o << (k ? ", " : "") << "pRlc"[s.gens[k].kind] << "(" << s.gens[k].e.str() << ")/" << s.gens[k].d; o << "}"; }
      o << "\n"; }
    return o.str();
  }
};
static DomPlain gen_domplain(Tape& t, int K) {
  DomPlain P; P.K = K; P.gmp = t.chance(45); P.mode_pref = t.weighted({60, 25, 15});    // fault family first: an exhausted tape must not bias it
  P.n = (size_t) t.range(1, 3); size_t n = P.n;
  std::vector<long> wit(n); for (size_t j = 0; j < n; ++j) wit[j] = t.range(-2, 2);
  for (int j = 0; j < 3; ++j) {
    std::vector<std::vector<RCon> > dis; int nd = K == K_PPS ? (int) t.range(1, 3) : 1;
    for (int d = 0; d < nd; ++d) { std::vector<RCon> cs; int m = (int) t.range(0, 4); for (int i = 0; i < m; ++i) cs.push_back(gen_rcon(t, n, wit, K == K_PPS ? K_C : K)); dis.push_back(cs); }
    P.init.push_back(dis); P.init_state.push_back((int) t.range(0, 2));
  }
  int ns = (int) t.range(2, 5);
  for (int i = 0; i < ns; ++i) {
    DStep s; s.kind = (int) t.range(0, N_DSTEP - 1); s.r = (int) t.range(0, 2); s.s = (s.r + 1 + (int) t.range(0, 1)) % 3;
    int m = (int) t.range(1, 3); for (int q = 0; q < m; ++q) s.cs.push_back(gen_rcon(t, n, wit, K == K_PPS ? K_C : K));
    s.e = gen_le(t, n, t.chance(20)); s.e2 = gen_le(t, n, false); s.v = t.range(0, (long) n - 1); s.d = t.pick(std::vector<long>{1, 1, 2, -1, 3, 7}); s.rel = (int) t.range(0, 2);
    int g = (int) t.range(1, 3); for (int q = 0; q < g; ++q) { GenP p; p.kind = q == 0 ? 0 : (int) t.range(0, K == K_NNC ? 3 : 2); p.e = gen_le(t, n, false); p.e.b = 0; p.d = t.range(1, 3); if (p.kind != 0 && p.kind != 3 && p.e.all_zero()) p.e.a[0] = 1; s.gens.push_back(p); }
    P.steps.push_back(s);
  }
  return P;
}
static Generator_System make_gs(const std::vector<GenP>& v, size_t n) {
  Generator_System gs;
  for (const GenP& p : v) { Linear_Expression e = p.e.ppl_dim(n); if (p.kind == 0) gs.insert(point(e, p.d)); else if (p.kind == 1) gs.insert(ray(e)); else if (p.kind == 2) gs.insert(line(e)); else gs.insert(closure_point(e, p.d)); }
  return gs;
}
static Grid_Generator_System make_ggs(const std::vector<GenP>& v, size_t n) {
  Grid_Generator_System gs;
  for (const GenP& p : v) { Linear_Expression e = p.e.ppl_dim(n); if (p.kind == 0 || p.kind == 3) gs.insert(grid_point(e, p.d)); else if (p.kind == 1) gs.insert(parameter(e, p.d)); else gs.insert(grid_line(e)); }
  return gs;
}
template <class D> static void minimize_obj(const D& x) {
  constexpr int K = Tr<D>::kind;
  if constexpr (K == K_C || K == K_NNC) { LIB((void) x.minimized_constraints()); LIB((void) x.minimized_generators()); }
  else if constexpr (K == K_GRID) { LIB((void) x.minimized_congruences()); LIB((void) x.minimized_grid_generators()); }
  else if constexpr (K == K_PPS) { LIB(x.omega_reduce()); }
  else { LIB((void) x.minimized_constraints()); }
}

template <class D> struct DomWorld {
  typedef DomPlain Plain;
  static constexpr int K = Tr<D>::kind;
  const Plain& P; D o[3];
  static std::string family(const Plain&) { return Tr<D>::name(); }
  static int nsteps(const Plain& p) { return (int) p.steps.size(); }
  int steps() const { return (int) P.steps.size(); }
  explicit DomWorld(const Plain& p) : P(p), o{ D(p.n), D(p.n), D(p.n) } {
    for (int j = 0; j < 3; ++j) {
      if constexpr (K == K_PPS) { PPS x(P.n, EMPTY); for (const std::vector<RCon>& cs : P.init[j]) { C_Polyhedron q(P.n); constrain(q, cs); LIB(x.add_disjunct(q)); } o[j].m_swap(x); }
      else constrain(o[j], P.init[j][0]);
      if (P.init_state[j] == 1) LIB((void) o[j].is_empty()); else if (P.init_state[j] == 2) minimize_obj(o[j]);
    }
  }
  bool is_const_step(int i) const { int k = P.steps[i].kind; return k == 8 || k == 10 || k == 14; }
  std::string step_name(int i) const { return dstep_names[P.steps[i].kind]; }
  const char* poison(int) const { return 0; }
  void assign_from(const DomWorld& w) { for (int j = 0; j < 3; ++j) o[j] = w.o[j]; }
  bool equal(const DomWorld& w) const { for (int j = 0; j < 3; ++j) if (!same(o[j], w.o[j])) return false; return true; }
  std::string diff(const DomWorld& w) const { std::string r; for (int j = 0; j < 3; ++j) if (!same(o[j], w.o[j])) r += "\n  o" + std::to_string(j) + " = " + show(o[j]) + "\n  clean run: " + show(w.o[j]); return r; }
  void after_failure(Report& c, int i, const DomWorld& snap, const std::string& fam, const std::string& where, int phase) {
    const DStep& st = P.steps[i]; bool cst = is_const_step(i); c.cls = dstep_names[st.kind];
    for (int j = 0; j < 3; ++j) {
      bool recv = !cst && j == st.r, arg = !recv && (j == st.r || j == st.s);
      if (recv != (phase == 1)) continue;
      std::string what = std::string(dstep_names[st.kind]) + " (" + where + "), object o" + std::to_string(j);
      if (recv) c.weak("b.receiver_ok." + fam, o[j].OK(), [&] { return "the receiver fails OK() after a failed " + what; });
      else {
        { auto m = [&] { return std::string(arg ? "a const argument" : "an object not involved") + " fails OK() after a failed " + what; };
          if (arg) c.weak("b.arg_ok." + fam, o[j].OK(), m); else c.check("b.bystander." + fam, o[j].OK(), m); }
        c.check(std::string(arg ? "b.arg_value." : "b.bystander.") + fam, same(o[j], snap.o[j]), [&] { return std::string(arg ? "a const argument" : "an object not involved") + " changed its value in a failed " + what; });
      }
    }
  }
  void step(int i, Obs& obs) {
    const DStep& st = P.steps[i]; D& x = o[st.r]; const D& y = o[st.s]; size_t n = P.n; Variable v(st.v);
    switch (st.kind) {
    case 0: constrain(x, st.cs); break;
    case 1: LIB(x.intersection_assign(y)); break;
    case 2: LIB(x.upper_bound_assign(y)); break;
    case 3: LIB(x.difference_assign(y)); break;
    case 4: { Linear_Expression e = st.e.ppl(); LIB(x.affine_image(v, e, st.d)); break; }
    case 5: { Linear_Expression e = st.e.ppl(); LIB(x.affine_preimage(v, e, st.d)); break; }
    case 6: { Linear_Expression e = st.e.ppl();
      if constexpr (K == K_BOX) LIB(x.affine_image(v, e, st.d));
      else if constexpr (K == K_GRID) LIB(x.generalized_affine_image(v, EQUAL, e, st.d, st.rel == 0 ? 0 : st.rel + 1));
      else LIB(x.generalized_affine_image(v, relsym(st.rel), e, st.d));
      break; }
    case 7: {
      if constexpr (K == K_PPS) LIB(x.upper_bound_assign(y));
      else {
        D tmp(x); LIB(tmp.upper_bound_assign(y));
        if constexpr (K == K_C || K == K_NNC) { if (st.rel == 0) { Constraint_System cs; for (const RCon& r : st.cs) if (r.kind != 2) cs.insert(to_ppl(r)); LIB(tmp.limited_H79_extrapolation_assign(x, cs)); } else LIB(tmp.H79_widening_assign(x)); }
        else if constexpr (K == K_GRID) { if (st.rel == 0) LIB(tmp.generator_widening_assign(x)); else LIB(tmp.congruence_widening_assign(x)); }
        else if constexpr (K == K_BDS || K == K_OS) { if (st.rel == 0) LIB(tmp.CC76_extrapolation_assign(x)); else LIB(tmp.BHMZ05_widening_assign(x)); }
        else LIB(tmp.widening_assign(x));
        LIB(x.m_swap(tmp));
      }
      break; }
    case 8: minimize_obj(x); { bool e; LIB(e = x.is_empty()); note(obs, "is_empty", e); dimension_type ad; LIB(ad = x.affine_dimension()); note(obs, "affine_dimension", (long) ad); } break;
    case 9: { if (st.rel == 0) { D tmp(y); LIB(x = tmp); } else if (st.rel == 1) { D tmp(y); LIB(tmp.m_swap(x)); } else { LIB(x = y); } break; }
    case 10: { bool b; LIB(b = x.contains(y)); note(obs, "contains", b); LIB(b = y.is_disjoint_from(x)); note(obs, "is_disjoint_from", b); LIB(b = x.is_empty()); note(obs, "is_empty", b);
      LIB(b = y.is_universe()); note(obs, "is_universe", b); LIB(b = x.is_bounded()); note(obs, "is_bounded", b); break; }
    case 11: {
      if (st.rel == 0) { LIB(x.add_space_dimensions_and_embed(1)); Linear_Expression e = st.e.ppl(); LIB(x.affine_image(Variable(n), e)); Variables_Set vs; vs.insert(v); LIB(x.remove_space_dimensions(vs)); }
      else if (st.rel == 1) { LIB(x.concatenate_assign(y)); LIB(x.remove_higher_space_dimensions(n)); }
      else { LIB(x.expand_space_dimension(v, 1)); Variables_Set vs; vs.insert(Variable(n)); LIB(x.fold_space_dimensions(vs, v)); }
      break; }
    case 12: LIB(x.time_elapse_assign(y)); break;
    case 13: LIB(x.unconstrain(v)); break;
    case 14: { Linear_Expression e = st.e.ppl(); Coefficient num, den; bool mx = false, b;
      LIB(b = x.maximize(e, num, den, mx)); note(obs, "maximize", b); if (b) { note_q(obs, "sup", num, den); note(obs, "attained", mx); }
      LIB(b = x.minimize(e, num, den, mx)); note(obs, "minimize", b); if (b) { note_q(obs, "inf", num, den); note(obs, "attained", mx); }
      LIB(b = x.bounds_from_above(e)); note(obs, "bounds_from_above", b); break; }
    case 15: {
      if constexpr (K == K_C || K == K_NNC) { Generator_System gs = make_gs(st.gens, n); LIB(x.add_generators(gs)); }
      else if constexpr (K == K_GRID) { Grid_Generator_System gs = make_ggs(st.gens, n); LIB(x.add_grid_generators(gs)); }
      else if constexpr (K == K_BOX) { Constraint_System cs; for (const RCon& r : st.cs) cs.insert(to_ppl(r)); LIB(x.propagate_constraints(cs, 3)); }
      else { Linear_Expression lb = st.e.ppl(), ub = st.e2.ppl(); LIB(x.bounded_affine_image(v, lb, ub, st.d)); }
      break; }
    case 16: {
      if constexpr (K == K_GRID) { Grid_Generator_System gs = make_ggs(st.gens, n); D tmp(gs); LIB(x.upper_bound_assign(tmp)); }
      else if constexpr (K == K_PPS) { C_Polyhedron q(n); constrain(q, st.cs); LIB(x.add_disjunct(q)); LIB(x.pairwise_reduce()); }
      else if constexpr (K == K_PROD) LIB(x.intersection_assign(y));
      else { Generator_System gs = make_gs(st.gens, n); D tmp(gs); LIB(x.upper_bound_assign(tmp)); }
      break; }
    default: {
      if constexpr (K == K_C || K == K_NNC) { if (st.rel == 0) { Generator_System gs; LIB(gs = x.generators()); D tmp(gs); LIB(x.m_swap(tmp)); } else if (st.rel == 1) { Constraint_System cs; LIB(cs = x.minimized_constraints()); D tmp(cs); LIB(x.m_swap(tmp)); } else LIB(x.topological_closure_assign()); }
      else if constexpr (K == K_GRID) { Congruence_System cgs; LIB(cgs = x.congruences()); D tmp(cgs); LIB(x.m_swap(tmp)); }
      else if constexpr (K == K_PPS) { LIB(x.omega_reduce()); LIB(x.pairwise_reduce()); }
      else { Constraint_System cs; LIB(cs = x.constraints()); D tmp(n); LIB(tmp.refine_with_constraints(cs)); LIB(x.intersection_assign(tmp)); }
      break; }
    }
  }
};

// ------------------------------------------------------------------ part B: MIP_Problem world
struct MStep { int kind; std::vector<RCon> cs; LE e; int sub; };
static const char* const mstep_names[] = { "add_constraint", "add_constraints", "set_objective_function", "set_optimization_mode", "solve", "is_satisfiable", "copy/assign/swap", "add_space_dimensions_and_embed", "add_to_integer_space_dimensions" };
struct MipPlain {
  size_t n; std::vector<RCon> init; LE obj; bool maxim; std::vector<long> ivars; std::vector<MStep> steps; bool gmp; int mode_pref; bool kf_c06_1_used;
  std::string str() const {
    std::ostringstream o; o << " dimension " << n << ", " << (maxim ? "max " : "min ") << obj.str() << " s.t. {"; for (size_t i = 0; i < init.size(); ++i) o << (i ? ", " : "") << ::vf::str(init[i]); o << "}, integer:";
    for (long j : ivars) o << " x" << j; o << "\n";
    for (size_t i = 0; i < steps.size(); ++i) { const MStep& s = steps[i]; o << "  step " << i << ": " << mstep_names[s.kind] << " sub " << s.sub << " e=" << s.e.str() << " cs={"; for (size_t k = 0; k < s.cs.size(); ++k) o << (k ? ", " : "") << ::vf::str(s.cs[k]); o << "}\n"; }
    return o.str();
  }
};
static RCon gen_mcon(Tape& t, size_t n, const std::vector<long>& wit) {
  RCon c; c.e = gen_le(t, n, t.chance(10)); c.kind = t.chance(20) ? 0 : 1;
  if (t.chance(80)) { mpz_class v = c.e.eval(wit); if (c.kind == 0) c.e.b -= v; else if (v < 0) { for (size_t j = 0; j < n; ++j) c.e.a[j] = -c.e.a[j]; c.e.b = -c.e.b; } }
  return c;
}
static MipPlain gen_mipplain(Tape& t) {
  MipPlain P; P.gmp = t.chance(45); P.mode_pref = t.weighted({45, 35, 20}); P.n = (size_t) t.range(1, 3); size_t n = P.n; P.kf_c06_1_used = false;
  std::vector<long> wit(n); for (size_t j = 0; j < n; ++j) wit[j] = t.range(-2, 2);
  int m = (int) t.range(1, 5); for (int i = 0; i < m; ++i) P.init.push_back(gen_mcon(t, n, wit));
  P.obj = gen_le(t, n, false); P.maxim = t.chance(50);
  bool ints = t.chance(40);
  if (ints) { for (size_t j = 0; j < n; ++j) { if (t.chance(60)) P.ivars.push_back((long) j); RCon lo, hi; lo.e = LE(n); lo.e.a[j] = 1; lo.e.b = 4; lo.kind = 1; hi.e = LE(n); hi.e.a[j] = -1; hi.e.b = 4; hi.kind = 1; P.init.push_back(lo); P.init.push_back(hi); } }
  int ns = (int) t.range(2, 5); bool solved = false; int pending = 0;
  for (int i = 0; i < ns; ++i) {
    MStep s; s.kind = t.weighted({12, 8, 8, 5, 30, 10, 12, 8, 7}); s.sub = (int) t.range(0, 2); s.e = gen_le(t, n, false);
    int k = (int) t.range(1, 2); for (int q = 0; q < k; ++q) s.cs.push_back(gen_mcon(t, n, wit));
    if (!ints && s.kind == 8) s.kind = 4;
    if (solved && (s.kind == 0 || s.kind == 1 || s.kind == 7 || s.kind == 8)) {
      // KF-C06-1: constraints / dimensions / integer variables added to an already solved problem are incorporated wrongly (path dependent results)
      if (kf("KF-C06-1")) { P.kf_c06_1_used = true; s.kind = 4; }
      else if (s.kind != 0 || pending > 0) s.kind = 4;
    }
    if (s.kind == 0 && solved) ++pending;
    if (s.kind == 4 || s.kind == 5) { solved = true; pending = 0; }
    P.steps.push_back(s);
  }
  return P;
}
static std::string mip_value(const MIP_Problem& p) {
  std::ostringstream o; o << "dim " << p.space_dimension() << (p.optimization_mode() == MAXIMIZATION ? " max " : " min ") << p.objective_function() << " s.t.";
  for (MIP_Problem::const_iterator i = p.constraints_begin(); i != p.constraints_end(); ++i) o << " [" << *i << "]";
  o << " int"; const Variables_Set& iv = p.integer_space_dimensions(); for (Variables_Set::const_iterator i = iv.begin(); i != iv.end(); ++i) o << " " << *i;
  return o.str();
}
// Value equality of two MIP problems.  is_satisfiable() / solve() on a problem with integer variables add the bounds they branch on
// (x >= ceil(v), after the branch x <= floor(v) turned out to have no integer point) to the problem ITSELF (MIP_Problem::is_mip_satisfiable):
// implied by the constraints plus integrality, but which ones appear depends on the vertices the simplex happens to visit.  Two runs of one
// scenario may therefore differ by such bounds on integer variables: they are skipped when the constraint lists are compared.
static bool mip_branch_bound(const Constraint& c, const Variables_Set& iv) {
  if (!c.is_nonstrict_inequality()) return false; int nz = 0; dimension_type v = 0;
  for (dimension_type j = 0; j < c.space_dimension(); ++j) if (c.coefficient(Variable(j)) != 0) { ++nz; v = j; }
  return nz == 1 && iv.count(v) != 0 && c.coefficient(Variable(v)) == 1;
}
static bool mip_same(const MIP_Problem& a, const MIP_Problem& b) {
  if (mip_value(a) == mip_value(b)) return true;
  std::ostringstream ha, hb; ha << a.space_dimension() << a.optimization_mode() << a.objective_function(); hb << b.space_dimension() << b.optimization_mode() << b.objective_function();
  const Variables_Set& iv = a.integer_space_dimensions(); if (ha.str() != hb.str() || iv != b.integer_space_dimensions()) return false;
  MIP_Problem::const_iterator i = a.constraints_begin(), ie = a.constraints_end(), j = b.constraints_begin(), je = b.constraints_end();
  auto txt = [](const Constraint& c) { std::ostringstream o; o << c; return o.str(); };
  while (i != ie || j != je) {
    if (i != ie && j != je && txt(*i) == txt(*j)) { ++i; ++j; }
    else if (i != ie && mip_branch_bound(*i, iv)) ++i;
    else if (j != je && mip_branch_bound(*j, iv)) ++j;
    else return false;
  }
  return true;
}
struct MipWorld {
  typedef MipPlain Plain;
  const Plain& P; MIP_Problem p, q;
  static std::string family(const Plain&) { return "MIP_Problem"; }
  static int nsteps(const Plain& p) { return (int) p.steps.size(); }
  int steps() const { return (int) P.steps.size(); }
  explicit MipWorld(const Plain& pl) : P(pl), p(pl.n), q(0) {
    for (const RCon& r : P.init) { Constraint c = to_ppl(r); LIB(p.add_constraint(c)); }
    { Linear_Expression e = P.obj.ppl(); LIB(p.set_objective_function(e)); } LIB(p.set_optimization_mode(P.maxim ? MAXIMIZATION : MINIMIZATION));
    if (!P.ivars.empty()) { Variables_Set vs; for (long j : P.ivars) vs.insert(Variable(j)); LIB(p.add_to_integer_space_dimensions(vs)); }
  }
  bool is_const_step(int i) const { int k = P.steps[i].kind; return k == 4 || k == 5; }
  std::string step_name(int i) const { return mstep_names[P.steps[i].kind]; }
  void assign_from(const MipWorld& w) { p = w.p; q = w.q; }
  std::string diff(const MipWorld& w) const { return "\n  p = " + mip_value(p) + "\n  clean run: " + mip_value(w.p) + "\n  q = " + mip_value(q) + "\n  clean run: " + mip_value(w.q); }
  bool equal(const MipWorld& w) const { return mip_same(p, w.p) && mip_same(q, w.q); }
  // KF-C14-8: a failure inside solve() / is_satisfiable() leaves the tableau half updated: the problem may crash when it is used,
  // assigned to or destroyed
  const char* poison(int i) const { return is_const_step(i) ? "KF-C14-8" : 0; }
  void after_failure(Report& c, int i, const MipWorld& snap, const std::string& fam, const std::string& where, int phase) {
    const MStep& st = P.steps[i]; c.cls = mstep_names[st.kind]; std::string what = std::string(mstep_names[st.kind]) + " (" + where + ")";
    bool cst = is_const_step(i);
    if (phase == 1) { if (!cst) c.weak("b.receiver_ok." + fam, p.OK() && (st.kind != 6 || q.OK()), [&] { return "the receiver fails OK() after a failed " + what; }); return; }
    if (cst) {
      c.check("b.arg_value." + fam, mip_same(p, snap.p), [&] { return "the problem changed in a failed const " + what + ":\n before " + mip_value(snap.p) + "\n after  " + mip_value(p); });
      c.weak("b.arg_ok." + fam, p.OK(), [&] { return "the problem fails OK() after a failed const " + what; });
    }
    if (st.kind != 6) c.check("b.bystander." + fam, q.OK() && mip_value(q) == mip_value(snap.q), [&] { return "a problem not involved changed or fails OK() after a failed " + what; });
  }
  void step(int i, Obs& obs) {
    const MStep& st = P.steps[i];
    switch (st.kind) {
    case 0: { Constraint c = to_ppl(st.cs[0]); LIB(p.add_constraint(c)); break; }
    case 1: { Constraint_System cs; for (const RCon& r : st.cs) cs.insert(to_ppl(r)); LIB(p.add_constraints(cs)); break; }
    case 2: { Linear_Expression e = st.e.ppl(); LIB(p.set_objective_function(e)); break; }
    case 3: LIB(p.set_optimization_mode(st.sub == 0 ? MAXIMIZATION : MINIMIZATION)); break;
    case 4: { MIP_Problem_Status s; LIB(s = p.solve()); note(obs, "solve", (long) s);
      if (s == OPTIMIZED_MIP_PROBLEM) { Coefficient num, den; LIB(p.optimal_value(num, den)); note_q(obs, "optimum", num, den); Generator g = point(); LIB(g = p.optimizing_point()); Coefficient n2, d2; LIB(p.evaluate_objective_function(g, n2, d2)); note_q(obs, "value at optimizing point", n2, d2); }
      break; }
    case 5: { bool b; LIB(b = p.is_satisfiable()); note(obs, "is_satisfiable", b); break; }
    case 6: { if (st.sub == 0) { MIP_Problem tmp(p); LIB(q = tmp); } else if (st.sub == 1) { LIB(q = p); LIB(p.m_swap(q)); } else { MIP_Problem tmp(p); LIB(tmp.m_swap(p)); } break; }
    case 7: { dimension_type d = p.space_dimension(); LIB(p.add_space_dimensions_and_embed(1)); Constraint c1(Variable(d) <= 3), c2(Variable(d) + Variable(0) >= -2); LIB(p.add_constraint(c1)); LIB(p.add_constraint(c2)); break; }
    default: { Variables_Set vs; vs.insert(Variable(st.sub % P.n)); LIB(p.add_to_integer_space_dimensions(vs)); break; }
    }
  }
};

// ------------------------------------------------------------------ part B: PIP_Problem world
struct PStep { int kind; std::vector<RCon> cs; int sub; };
static const char* const pstep_names[] = { "add_constraint", "add_constraints", "solve", "is_satisfiable", "copy/assign/swap", "add_space_dimensions_and_embed", "set_control_parameter", "optimizing_solution", "solution_values" };
struct PipPlain {
  size_t n; std::vector<long> params; std::vector<RCon> init; std::vector<PStep> steps; bool gmp; int mode_pref;
  std::string str() const {
    std::ostringstream o; o << " dimension " << n << ", parameters:"; for (long j : params) o << " x" << j; o << ", {"; for (size_t i = 0; i < init.size(); ++i) o << (i ? ", " : "") << ::vf::str(init[i]); o << "}\n";
    for (size_t i = 0; i < steps.size(); ++i) { const PStep& s = steps[i]; o << "  step " << i << ": " << pstep_names[s.kind] << " sub " << s.sub << " cs={"; for (size_t k = 0; k < s.cs.size(); ++k) o << (k ? ", " : "") << ::vf::str(s.cs[k]); o << "}\n"; }
    return o.str();
  }
};
static RCon gen_pcon(Tape& t, size_t n) { RCon c; c.e = LE(n); for (size_t j = 0; j < n; ++j) c.e.a[j] = t.chance(30) ? 0 : t.range(-3, 3); c.e.b = t.range(-6, 6); c.kind = t.chance(15) ? 0 : 1; return c; }
static PipPlain gen_pipplain(Tape& t) {
  PipPlain P; P.gmp = t.chance(45); P.mode_pref = t.weighted({45, 40, 15}); P.n = (size_t) t.range(1, 3); size_t n = P.n;
  if (n >= 2 && t.chance(70)) P.params.push_back((long) n - 1);
  int m = (int) t.range(0, 4); for (int i = 0; i < m; ++i) P.init.push_back(gen_pcon(t, n));
  for (size_t j = 0; j < n; ++j) if (P.params.empty() || (long) j != P.params[0]) { RCon hi; hi.e = LE(n); hi.e.a[j] = -1; hi.e.b = 5; hi.kind = 1; P.init.push_back(hi); }
  int ns = (int) t.range(2, 5);
  for (int i = 0; i < ns; ++i) { PStep s; s.kind = t.weighted({14, 8, 32, 8, 12, 8, 8, 10, 16}); s.sub = (int) t.range(0, 3); int k = (int) t.range(1, 2); for (int q = 0; q < k; ++q) s.cs.push_back(gen_pcon(t, n)); P.steps.push_back(s); }
  return P;
}
static std::string pip_value(const PIP_Problem& p) {
  std::ostringstream o; o << "dim " << p.space_dimension() << " params"; const Variables_Set& ps = p.parameter_space_dimensions(); for (Variables_Set::const_iterator i = ps.begin(); i != ps.end(); ++i) o << " " << *i;
  o << " s.t."; for (PIP_Problem::const_iterator i = p.constraints_begin(); i != p.constraints_end(); ++i) o << " [" << *i << "]";
  o << " ctl " << (int) p.get_control_parameter(PIP_Problem::CUTTING_STRATEGY) << " " << (int) p.get_control_parameter(PIP_Problem::PIVOT_ROW_STRATEGY);
  return o.str();
}
struct PipWorld {
  typedef PipPlain Plain;
  const Plain& P; PIP_Problem p, q;
  bool solved = false;   // p was solved by an earlier step and not modified since: step 8 queries the stored tree without re-solving
  static std::string family(const Plain&) { return "PIP_Problem"; }
  static int nsteps(const Plain& p) { return (int) p.steps.size(); }
  int steps() const { return (int) P.steps.size(); }
  explicit PipWorld(const Plain& pl) : P(pl), p(pl.n), q(0) {
    if (!P.params.empty()) { Variables_Set vs; for (long j : P.params) vs.insert(Variable(j)); LIB(p.add_to_parameter_space_dimensions(vs)); }
    for (const RCon& r : P.init) { Constraint c = to_ppl(r); LIB(p.add_constraint(c)); }
  }
  bool is_const_step(int i) const { int k = P.steps[i].kind; return k == 2 || k == 3 || k == 7 || k == 8; }
  std::string step_name(int i) const { return pstep_names[P.steps[i].kind]; }
  void assign_from(const PipWorld& w) { p = w.p; q = w.q; solved = w.solved; }
  std::string diff(const PipWorld& w) const { return "\n  p = " + pip_value(p) + "\n  clean run: " + pip_value(w.p) + "\n  q = " + pip_value(q) + "\n  clean run: " + pip_value(w.q); }
  bool equal(const PipWorld& w) const { return pip_value(p) == pip_value(w.p) && pip_value(q) == pip_value(w.q); }
  // KF-C14-7: a failure inside solve() / is_satisfiable() / optimizing_solution() leaves the solution tree half updated (or deleted
  // with the pointer kept): the problem may crash when it is used, assigned to or destroyed
  // (step 8 only reads the lazily computed values of the stored solution nodes: PIP_Solution_Node::update_solution() sets its validity
  // flag last, so an interrupted query must be repeatable - not part of KF-C14-7)
  const char* poison(int i) const { return is_const_step(i) && P.steps[i].kind != 8 ? "KF-C14-7" : 0; }
  // parametric values of every variable in every solution node; only the library call is inside the faulted region
  void values(Obs& obs, const PIP_Tree_Node* r) {
    if (r == 0) { note(obs, "values _|_", 0); return; }
    if (const PIP_Solution_Node* sn = r->as_solution()) {
      const Variables_Set& ps = p.parameter_space_dimensions();
      for (dimension_type v = 0; v < p.space_dimension(); ++v) if (ps.count(v) == 0) {
        const Linear_Expression* e = 0; LIB(e = &sn->parametric_values(Variable(v)));
        mem::Pause pz; std::ostringstream o; o << "value x" << v << " = " << *e; obs.push_back(o.str()); }
      return; }
    const PIP_Decision_Node* dn = r->as_decision(); const PIP_Tree_Node* tc = 0; const PIP_Tree_Node* fc = 0;
    LIB(tc = dn->child_node(true)); LIB(fc = dn->child_node(false)); values(obs, tc); values(obs, fc);
  }
  void after_failure(Report& c, int i, const PipWorld& snap, const std::string& fam, const std::string& where, int phase) {
    const PStep& st = P.steps[i]; c.cls = pstep_names[st.kind]; std::string what = std::string(pstep_names[st.kind]) + " (" + where + ")";
    bool cst = is_const_step(i);
    if (phase == 1) { if (!cst) c.weak("b.receiver_ok." + fam, p.OK() && (st.kind != 4 || q.OK()), [&] { return "the receiver fails OK() after a failed " + what; }); return; }
    if (cst) {
      c.check("b.arg_value." + fam, pip_value(p) == pip_value(snap.p), [&] { return "the problem changed in a failed const " + what + ":\n before " + pip_value(snap.p) + "\n after  " + pip_value(p); });
      c.weak("b.arg_ok." + fam, p.OK(), [&] { return "the problem fails OK() after a failed const " + what; });
    }
    if (st.kind != 4) c.check("b.bystander." + fam, q.OK() && pip_value(q) == pip_value(snap.q), [&] { return "a problem not involved changed or fails OK() after a failed " + what; });
  }
  static void tree(Obs& obs, const char* what, const PIP_Tree_Node* r) { mem::Pause pz; std::ostringstream s; if (r == 0) s << "_|_"; else r->print(s); std::string x = s.str(); for (char& ch : x) if (ch == '\n') ch = ' '; obs.push_back(std::string(what) + "=" + x); }
  void step(int i, Obs& obs) {
    const PStep& st = P.steps[i];
    switch (st.kind) {
    case 0: { solved = false; Constraint c = to_ppl(st.cs[0]); LIB(p.add_constraint(c)); break; }
    case 1: { solved = false; Constraint_System cs; for (const RCon& r : st.cs) cs.insert(to_ppl(r)); LIB(p.add_constraints(cs)); break; }
    case 2: { PIP_Problem_Status s; LIB(s = p.solve()); note(obs, "solve", (long) s); const PIP_Tree_Node* r = 0; LIB(r = p.solution()); if (st.sub != 3) tree(obs, "solution", r); /* (printing fills the nodes' value caches: sometimes left to step 8) */ solved = true; break; }
    case 3: { bool b; LIB(b = p.is_satisfiable()); note(obs, "is_satisfiable", b); solved = true; break; }
    case 8: { if (!solved) { note(obs, "solution_values skipped", 0); break; } const PIP_Tree_Node* r = 0; LIB(r = p.solution()); values(obs, r); break; }
    case 4: { if (st.sub != 0) solved = false; if (st.sub == 0) { PIP_Problem tmp(p); LIB(q = tmp); } else if (st.sub == 1) { LIB(q = p); LIB(p.m_swap(q)); } else { PIP_Problem tmp(p); LIB(tmp.m_swap(p)); } break; }
    case 5: { dimension_type d = p.space_dimension(); if (d >= 5) break; solved = false; if (st.sub % 2 == 0) { LIB(p.add_space_dimensions_and_embed(1, 0)); Constraint c1(Variable(d) <= 4); LIB(p.add_constraint(c1)); } else LIB(p.add_space_dimensions_and_embed(0, 1)); break; }
    case 6: { solved = false; if (st.sub == 0) LIB(p.set_control_parameter(PIP_Problem::CUTTING_STRATEGY_DEEPEST)); else if (st.sub == 1) LIB(p.set_control_parameter(PIP_Problem::CUTTING_STRATEGY_ALL)); else if (st.sub == 2) LIB(p.set_control_parameter(PIP_Problem::PIVOT_ROW_STRATEGY_MAX_COLUMN)); else LIB(p.set_control_parameter(PIP_Problem::CUTTING_STRATEGY_FIRST)); break; }
    default: { const PIP_Tree_Node* r = 0; LIB(r = p.optimizing_solution()); if (st.sub != 3) tree(obs, "optimizing_solution", r); solved = true; break; }
    }
  }
};

// ------------------------------------------------------------------ part B: expressions, systems, sparse rows
struct LStep { int kind, r, s, sub; long j, j2; mpz_class c; };
static const char* const lstep_names[] = { "e += c*x_j", "e op= e'", "e *= c | set_coefficient", "Constraint_System::insert", "Congruence_System::insert", "Generator_System::insert", "copies / representation change", "Sparse_Row insert/reset/copy", "dimension surgery on e", "queries" };
struct LowPlain {
  std::vector<LE> init; std::vector<LStep> steps; bool gmp; int mode_pref;
  std::string str() const { std::ostringstream o; for (size_t i = 0; i < init.size(); ++i) o << "  e" << i << " = " << init[i].str() << (i == 1 ? " (dense)" : " (sparse)") << "\n";
    for (size_t i = 0; i < steps.size(); ++i) { const LStep& s = steps[i]; o << "  step " << i << ": " << lstep_names[s.kind] << " r=e" << s.r << " s=e" << s.s << " sub " << s.sub << " j=" << s.j << " j2=" << s.j2 << " c=" << s.c << "\n"; } return o.str(); }
};
static LowPlain gen_lowplain(Tape& t) {
  LowPlain P; P.gmp = t.chance(55); P.mode_pref = 0; for (int i = 0; i < 3; ++i) P.init.push_back(gen_le(t, (size_t) t.range(0, 6), t.chance(40)));
  int ns = (int) t.range(3, 8);
  for (int i = 0; i < ns; ++i) { LStep s; s.kind = t.weighted({16, 12, 8, 10, 10, 8, 12, 12, 8, 4}); s.r = (int) t.range(0, 2); s.s = (int) t.range(0, 2); s.sub = (int) t.range(0, 3); s.j = t.range(0, 14); s.j2 = t.range(0, 14); s.c = gen_coef(t, true); if (s.c == 0 && t.chance(70)) s.c = 1; P.steps.push_back(s); }
  return P;
}
template <class T> static std::string dump_s(const T& x) { std::ostringstream o; x.ascii_dump(o); return o.str(); }
struct LowWorld {
  typedef LowPlain Plain;
  const Plain& P; Linear_Expression e[3]; Constraint_System cs; Congruence_System cgs; Generator_System gs; Sparse_Row row;
  static std::string family(const Plain&) { return "Linear_Systems"; }
  static int nsteps(const Plain& p) { return (int) p.steps.size(); }
  int steps() const { return (int) P.steps.size(); }
  explicit LowWorld(const Plain& pl) : P(pl), e{ Linear_Expression(SPARSE), Linear_Expression(DENSE), Linear_Expression(SPARSE) }, row(16) {
    for (int i = 0; i < 3; ++i) { const LE& le = P.init[i]; for (size_t j = 0; j < le.a.size(); ++j) if (le.a[j] != 0) { Coefficient cf(le.a[j]); LIB(add_mul_assign(e[i], cf, Variable(j))); } Coefficient b(le.b); LIB(e[i] += b); }
  }
  bool is_const_step(int i) const { return P.steps[i].kind == 9; }
  std::string step_name(int i) const { return lstep_names[P.steps[i].kind]; }
  const char* poison(int) const { return 0; }
  void assign_from(const LowWorld& w) { for (int i = 0; i < 3; ++i) e[i] = w.e[i]; cs = w.cs; cgs = w.cgs; gs = w.gs; row = w.row; }
  bool obj_same(int j, const LowWorld& w) const {
    if (j < 3) return e[j].space_dimension() == w.e[j].space_dimension() && e[j].is_equal_to(w.e[j]);
    if (j == 3) return dump_s(cs) == dump_s(w.cs); if (j == 4) return dump_s(cgs) == dump_s(w.cgs); if (j == 5) return dump_s(gs) == dump_s(w.gs);
    if (row.size() != w.row.size()) return false; for (dimension_type k = 0; k < row.size(); ++k) if (row.get(k) != w.row.get(k)) return false; return true;
  }
  bool obj_ok(int j) const { return j < 3 ? e[j].OK() : j == 3 ? cs.OK() : j == 4 ? cgs.OK() : j == 5 ? gs.OK() : row.OK(); }
  std::string diff(const LowWorld& w) const { std::string r; for (int j = 0; j < 7; ++j) if (!obj_same(j, w)) r += " object #" + std::to_string(j) + " differs;"; return r; }
  bool equal(const LowWorld& w) const { for (int j = 0; j < 7; ++j) if (!obj_same(j, w)) return false; return true; }
  void after_failure(Report& c, int i, const LowWorld& snap, const std::string& fam, const std::string& where, int phase) {
    const LStep& st = P.steps[i]; int recv = -1, arg = -1; c.cls = lstep_names[st.kind];
    switch (st.kind) { case 0: case 2: case 8: recv = st.r; break; case 1: recv = st.r; arg = st.s; break; case 3: recv = 3; arg = st.s; break; case 4: recv = 4; arg = st.s; break; case 5: recv = 5; arg = st.s; break;
      case 6: recv = st.sub == 0 ? st.r : st.sub == 1 ? 3 : st.sub == 2 ? 4 : 5; arg = st.sub == 0 ? st.s : -1; break; case 7: recv = 6; break; default: break; }
    if (arg == recv) arg = -1;
    static const char* const on[] = { "e0", "e1", "e2", "the constraint system", "the congruence system", "the generator system", "the sparse row" };
    for (int j = 0; j < 7; ++j) {
      if ((j == recv) != (phase == 1)) continue;
      std::string what = std::string(lstep_names[st.kind]) + " (" + where + "), object " + on[j];
      if (j == recv) c.weak("b.receiver_ok." + fam, obj_ok(j), [&] { return "the receiver fails OK() after a failed " + what; });
      else { bool a = j == arg || (st.kind == 9 && (j == st.r || j == st.s));
        { auto m = [&] { return std::string(a ? "a const argument" : "an object not involved") + " fails OK() after a failed " + what; };
          if (a) c.weak("b.arg_ok." + fam, obj_ok(j), m); else c.check("b.bystander." + fam, obj_ok(j), m); }
        c.check(std::string(a ? "b.arg_value." : "b.bystander.") + fam, obj_same(j, snap), [&] { return std::string(a ? "a const argument" : "an object not involved") + " changed in a failed " + what; }); }
    }
  }
  void step(int i, Obs& obs) {
    const LStep& st = P.steps[i]; Linear_Expression& x = e[st.r]; const Linear_Expression& y = e[st.s]; Coefficient cf(st.c);
    switch (st.kind) {
    case 0: if (st.sub == 0) LIB(sub_mul_assign(x, cf, Variable(st.j))); else LIB(add_mul_assign(x, cf, Variable(st.j))); break;
    case 1: if (st.r == st.s) { LIB(x += cf); } else if (st.sub == 0) LIB(x += y); else if (st.sub == 1) LIB(x -= y); else if (st.sub == 2) { LIB(x = x + y); } else if (st.c == 0 || st.c == -1) LIB(x -= y); else LIB(x.linear_combine(y, cf, cf + 1)); break;
    case 2: if (st.sub < 2 || (dimension_type) st.j >= x.space_dimension()) LIB(x *= cf); else if (st.sub == 2) LIB(x.set_coefficient(Variable(st.j), cf)); else LIB(x.set_inhomogeneous_term(cf)); break;
    case 3: { if (st.sub == 0) { Constraint c(y == 0); LIB(cs.insert(c)); } else { Constraint c(y >= 0); LIB(cs.insert(c)); } break; }
    case 4: { Congruence g((y %= 0) / (st.sub == 0 ? 0 : st.sub + 1)); LIB(cgs.insert(g)); break; }
    case 5: { Coefficient d(st.sub + 1); if (st.sub == 3 && !y.all_homogeneous_terms_are_zero()) { Generator g = ray(y); LIB(gs.insert(g)); } else { Generator g = point(y, d); LIB(gs.insert(g)); } break; }
    case 6: { if (st.sub == 0) { if (st.r == st.s) break; Linear_Expression tmp(y, st.r == 1 ? DENSE : SPARSE); LIB(x = tmp); } else if (st.sub == 1) { Constraint_System tmp(cs); LIB(cs = tmp); LIB(cs.insert(Constraint(Variable(st.j) >= 0))); } else if (st.sub == 2) { Congruence_System tmp(cgs); LIB(cgs = tmp); } else { Generator_System tmp(gs); LIB(gs = tmp); } break; }
    case 7: { dimension_type k = (dimension_type) st.j; if (st.sub == 0 || st.c == 0) LIB(row.reset(k)); else if (st.sub == 3) { Sparse_Row tmp(row); LIB(row = tmp); } else LIB(row.insert(k, cf)); break; }
    case 8: { dimension_type d = x.space_dimension();
      if (st.sub == 0) LIB(x.set_space_dimension((dimension_type) st.j));
      else if (st.sub == 1) { if (d >= 2) LIB(x.swap_space_dimensions(Variable(st.j % d), Variable(st.j2 % d))); }
      else if (st.sub == 2) { if (d >= 1) { Variables_Set vs; vs.insert(Variable(st.j % d)); if (d >= 2) vs.insert(Variable(st.j2 % d)); LIB(x.remove_space_dimensions(vs)); } }
      else { if (d >= 1) LIB(x.shift_space_dimensions(Variable(st.j % d), 1 + (dimension_type) (st.j2 % 3))); }
      break; }
    default: { bool b; LIB(b = x.is_equal_to(y)); note(obs, "is_equal_to", b); LIB(b = x.all_homogeneous_terms_are_zero()); note(obs, "all_homogeneous_terms_are_zero", b); note(obs, "space_dimension", (long) x.space_dimension()); note(obs, "cs rows", (long) std::distance(cs.begin(), cs.end())); break; }
    }
  }
};

// ------------------------------------------------------------------ part A: rejected calls
enum { X_NONE = 0, X_INV = 1, X_LEN = 2, X_DOM = 3, X_LOGIC = 4, X_OTHER = 5 };
static const char* xname(int x) { return x == X_NONE ? "no exception" : x == X_INV ? "std::invalid_argument" : x == X_LEN ? "std::length_error" : x == X_DOM ? "std::domain_error" : x == X_LOGIC ? "std::logic_error" : "another exception"; }
struct Rej { std::string op; int expect; std::function<void()> call; bool on_empty; };
static int thrown_by(const std::function<void()>& f, std::string& what) {
  try { f(); return X_NONE; }
  catch (vf::PplAssert&) { throw; }
  catch (std::invalid_argument& e) { what = e.what(); return X_INV; }
  catch (std::length_error& e) { what = e.what(); return X_LEN; }
  catch (std::domain_error& e) { what = e.what(); return X_DOM; }
  catch (std::logic_error& e) { what = e.what(); return X_LOGIC; }
  catch (std::exception& e) { what = std::string(typeid(e).name()) + ": " + e.what(); return X_OTHER; }
}
#define OP(name, exp, ...) ops.push_back(Rej{ name, exp, [&]() { __VA_ARGS__; }, false })
#define OPE(name, exp, ...) ops.push_back(Rej{ name, exp, [&]() { __VA_ARGS__; }, true })

template <int K> static auto& other_topology(C_Polyhedron& c, NNC_Polyhedron& n) { if constexpr (K == K_C) return n; else return c; }
template <class D> static bool model_same(const D& a, const D& b, size_t n) {
  constexpr int K = Tr<D>::kind;
  if constexpr (K == K_PPS) { (void) a; (void) b; (void) n; return true; }
  else if constexpr (K == K_GRID) { (void) n; return dump_of(a.minimized_congruences()) == dump_of(b.minimized_congruences()); }
  else { Sys sa = to_ref(a.constraints(), n), sb = to_ref(b.constraints(), n); return ref::equal(sa, sb); }
}

// Known-finding classes of part A (the exact class is skipped when the id is active; otherwise the checks fail)
static bool starts(const std::string& s, const char* p) { return s.compare(0, std::strlen(p), p) == 0; }
static const char* a_known(int K, const std::string& op, bool x_empty, bool x_no_disjunct, bool z_empty) {
  // KF-C14-1: BD_Shape / Octagonal_Shape / Box::expand_space_dimension(var, m) report the overflow of max_space_dimension() with
  //           std::invalid_argument, the documented exception is std::length_error
  if (op == "expand_space_dimension.overflow" && K == K_OS) return "KF-C14-1";   // (BD_Shape and Box were repaired; tests/Octagonal_Shape/expandspacedim1 expects invalid_argument)
  // KF-C14-2: BD_Shape / Octagonal_Shape / Box::add_constraints(cs) add the constraints one by one: those preceding the rejected one stay
  if (op == "add_constraints.not_representable" && (K == K_BDS || K == K_OS || K == K_BOX)) return "KF-C14-2";
  // KF-C14-3: Pointset_Powerset delegates argument checking to the operations of its disjuncts: nothing is checked when there is
  //           no disjunct, and several operations never check
  if (K == K_PPS && (x_no_disjunct || (z_empty && (op == "time_elapse_assign.dim" || op == "upper_bound_assign.dim" || op == "upper_bound_assign_if_exact.dim" || op == "is_disjoint_from.dim")) || op == "difference_assign.dim" || op == "remove_higher_space_dimensions.dim" || op == "contains.dim" || op == "strictly_contains.dim"
                     || op == "intersection_assign.dim" || op == "geometrically_covers.dim" || op == "geometrically_equals.dim")) return "KF-C14-3";
  // KF-C14-4: Partially_Reduced_Product does not check its own max_space_dimension(): the components run into std::bad_alloc
  if (K == K_PROD && (op == "add_space_dimensions_and_embed.overflow" || op == "add_space_dimensions_and_project.overflow" || op == "expand_space_dimension.overflow")) return "KF-C14-4";
  // KF-C14-5: Box::CC76_widening_assign / widening_assign do not check the dimension of the argument
  if (K == K_BOX && (op == "CC76_widening_assign.dim" || op == "widening_assign.dim")) return "KF-C14-5";
  // KF-C14-6: argument checks skipped when the receiver is (marked) empty
  if (x_empty && ((K == K_GRID && (op == "add_constraint.inequality" || op == "add_constraints.inequality")) || (K == K_PROD && (starts(op, "maximize") || starts(op, "minimize"))))) return "KF-C14-6";
  return 0;
}
template <class D> static D gen_obj(Ctx& c, size_t n, const std::vector<long>& wit, const char* nm) {
  constexpr int K = Tr<D>::kind; Tape& t = c.t;
  D x(n, UNIVERSE); c.log << "  " << nm << " (dim " << n << ") =";
  int nd = K == K_PPS ? (int) t.range(1, 2) : 1;
  if constexpr (K == K_PPS) x = D(n, EMPTY);
  for (int d = 0; d < nd; ++d) {
    std::vector<RCon> cs; int m = (int) t.range(0, 3); for (int i = 0; i < m; ++i) cs.push_back(gen_rcon(t, n, wit, K == K_PPS ? K_C : K));
    c.log << (d ? " U {" : " {"); for (size_t i = 0; i < cs.size(); ++i) c.log << (i ? ", " : "") << str_k(cs[i], K); c.log << "}";
    if constexpr (K == K_PPS) { C_Polyhedron q(n); constrain(q, cs); x.add_disjunct(q); } else constrain(x, cs);
  }
  if (n > 0 && t.chance(30)) { LE e = gen_le(t, n, false); long v = t.range(0, (long) n - 1); c.log << " then x" << v << " := " << e.str(); x.affine_image(Variable(v), e.ppl()); }
  int st = (int) t.range(0, 2); if (st == 1) (void) x.is_empty(); else if (st == 2) minimize_obj(x);
  c.log << (st == 1 ? " [is_empty() called]" : st == 2 ? " [minimized]" : "") << "\n";
  return x;
}

template <class D> static void part_a_dom(Ctx& c) {
  constexpr int K = Tr<D>::kind; Tape& t = c.t; const char* dn = Tr<D>::name();
  size_t n = (size_t) t.range(1, 3);
  std::vector<long> wit(n + 1); for (size_t j = 0; j <= n; ++j) wit[j] = t.range(-2, 2);
  c.log << "PART A  " << dn << "\n";
  D x = gen_obj<D>(c, n, wit, "receiver x"), y = gen_obj<D>(c, n, wit, "argument y"), z = gen_obj<D>(c, n + 1, wit, "argument z");
  LE ple = gen_le(t, n, false), pbig = gen_le(t, n + 1, false); pbig.a[n] = 1;
  Linear_Expression e = ple.ppl(), big = pbig.ppl();
  Variable v0((dimension_type) t.range(0, (long) n - 1)), vbad(n);
  Variables_Set vs_bad; vs_bad.insert(Variable(n)); Variables_Set vs_v0; vs_v0.insert(v0); Variables_Set vs_none;
  // (in about 40% of the cases the offending element of a system comes after a well-formed one that cuts the witness point off - derived
  // from choices already made, so that saved tapes keep their meaning: a call that validates while it applies leaves that part behind)
  bool mixed = wit[0] % 2 != 0; long wv = wit[v0.id()];
  Constraint c_valid = K == K_GRID ? Constraint(Linear_Expression(v0) == wv + 1) : Constraint(Linear_Expression(v0) <= wv - 1); Congruence cg_valid = (Linear_Expression(v0) %= wv + 1) / 0;
  if (mixed) c.log << "  (ill-formed systems start with the well-formed " << c_valid << ")\n";
  Constraint c_big = K == K_GRID ? Constraint(big == 0) : Constraint(big >= 0); Constraint_System cs_big; if (mixed) cs_big.insert(c_valid); cs_big.insert(c_big);
  Congruence cg_big = (big %= 0) / 0; Congruence_System cgs_big; if (mixed) cgs_big.insert(cg_valid); cgs_big.insert(cg_big);
  Congruence cg_proper = (Linear_Expression(v0) %= 1) / 2;
  Constraint c_strict(Linear_Expression(v0) > 0); Constraint_System cs_strict; if (mixed) cs_strict.insert(c_valid); cs_strict.insert(c_strict);
  Constraint_System cs_small; cs_small.insert(K == K_GRID ? Constraint(Linear_Expression(v0) == 1) : Constraint(Linear_Expression(v0) <= 1));
  Relation_Symbol rel = K == K_GRID ? EQUAL : relsym((int) t.range(0, 2));
  Coefficient num, den; bool mx; Generator gw = point();
  dimension_type maxd = D::max_space_dimension();
  NNC_Polyhedron w_nnc(n); C_Polyhedron w_c(n); w_nnc.refine_with_constraint(Linear_Expression(v0) >= -1); w_c.refine_with_constraint(Linear_Expression(v0) >= -1);
  std::vector<Rej> ops;
  OP("intersection_assign.dim", X_INV, x.intersection_assign(z));
  OP("upper_bound_assign.dim", X_INV, x.upper_bound_assign(z));
  OP("difference_assign.dim", X_INV, x.difference_assign(z));
  OP("contains.dim", X_INV, (void) x.contains(z));
  OP("strictly_contains.dim", X_INV, (void) x.strictly_contains(z));
  OP("is_disjoint_from.dim", X_INV, (void) x.is_disjoint_from(z));
  OP("time_elapse_assign.dim", X_INV, x.time_elapse_assign(z));
  OP("upper_bound_assign_if_exact.dim", X_INV, (void) x.upper_bound_assign_if_exact(z));
  OP("affine_image.var", X_INV, x.affine_image(vbad, e));
  OP("affine_image.expr", X_INV, x.affine_image(v0, big));
  OP("affine_image.den0", X_INV, x.affine_image(v0, e, 0));
  OP("affine_preimage.var", X_INV, x.affine_preimage(vbad, e));
  OP("affine_preimage.expr", X_INV, x.affine_preimage(v0, big));
  OP("affine_preimage.den0", X_INV, x.affine_preimage(v0, e, 0));
  OP("generalized_affine_image.var", X_INV, x.generalized_affine_image(vbad, rel, e));
  OP("generalized_affine_image.expr", X_INV, x.generalized_affine_image(v0, rel, big));
  OP("generalized_affine_image.den0", X_INV, x.generalized_affine_image(v0, rel, e, 0));
  OP("generalized_affine_image.lhs", X_INV, x.generalized_affine_image(big, rel, e));
  OP("generalized_affine_image.rhs", X_INV, x.generalized_affine_image(e, rel, big));
  OP("generalized_affine_preimage.var", X_INV, x.generalized_affine_preimage(vbad, rel, e));
  OP("generalized_affine_preimage.expr", X_INV, x.generalized_affine_preimage(v0, rel, big));
  OP("generalized_affine_preimage.den0", X_INV, x.generalized_affine_preimage(v0, rel, e, 0));
  OP("generalized_affine_preimage.lhs", X_INV, x.generalized_affine_preimage(big, rel, e));
  OP("generalized_affine_preimage.rhs", X_INV, x.generalized_affine_preimage(e, rel, big));
  OP("bounded_affine_image.var", X_INV, x.bounded_affine_image(vbad, e, e));
  OP("bounded_affine_image.lb", X_INV, x.bounded_affine_image(v0, big, e));
  OP("bounded_affine_image.ub", X_INV, x.bounded_affine_image(v0, e, big));
  OP("bounded_affine_image.den0", X_INV, x.bounded_affine_image(v0, e, e, 0));
  OP("bounded_affine_preimage.var", X_INV, x.bounded_affine_preimage(vbad, e, e));
  OP("bounded_affine_preimage.lb", X_INV, x.bounded_affine_preimage(v0, big, e));
  OP("bounded_affine_preimage.ub", X_INV, x.bounded_affine_preimage(v0, e, big));
  OP("bounded_affine_preimage.den0", X_INV, x.bounded_affine_preimage(v0, e, e, 0));
  OP("unconstrain.var", X_INV, x.unconstrain(vbad));
  OP("unconstrain.vars", X_INV, x.unconstrain(vs_bad));
  OP("relation_with.constraint", X_INV, (void) x.relation_with(c_big));
  OP("relation_with.congruence", X_INV, (void) x.relation_with(cg_big));
  OP("maximize.dim", X_INV, (void) x.maximize(big, num, den, mx));
  OP("minimize.dim", X_INV, (void) x.minimize(big, num, den, mx));
  OP("maximize_witness.dim", X_INV, (void) x.maximize(big, num, den, mx, gw));
  OP("minimize_witness.dim", X_INV, (void) x.minimize(big, num, den, mx, gw));
  OP("bounds_from_above.dim", X_INV, (void) x.bounds_from_above(big));
  OP("bounds_from_below.dim", X_INV, (void) x.bounds_from_below(big));
  OP("remove_space_dimensions.vars", X_INV, x.remove_space_dimensions(vs_bad));
  OP("remove_higher_space_dimensions.dim", X_INV, x.remove_higher_space_dimensions(n + 1));
  OP("fold_space_dimensions.dest_in_vars", X_INV, x.fold_space_dimensions(vs_v0, v0));
  OP("fold_space_dimensions.vars", X_INV, x.fold_space_dimensions(vs_bad, v0));
  OP("fold_space_dimensions.dest", X_INV, x.fold_space_dimensions(vs_v0, vbad));
  OP("expand_space_dimension.var", X_INV, x.expand_space_dimension(vbad, 1));
  OP("expand_space_dimension.overflow", X_LEN, x.expand_space_dimension(v0, maxd));
  // std::length_error on overflow is documented for polyhedra, grids and products only (not for BD shapes, octagons, boxes, powersets)
  if constexpr (K == K_C || K == K_NNC || K == K_GRID || K == K_PROD) {
    OP("add_space_dimensions_and_embed.overflow", X_LEN, x.add_space_dimensions_and_embed(maxd));
    OP("add_space_dimensions_and_project.overflow", X_LEN, x.add_space_dimensions_and_project(maxd));
    OP("ctor.dim_overflow", X_LEN, D tmp(maxd + 1); (void) tmp);
  }
  OP("constrains.var", X_INV, (void) x.constrains(vbad));
  OP("refine_with_constraint.dim", X_INV, x.refine_with_constraint(c_big));
  OP("refine_with_constraints.dim", X_INV, x.refine_with_constraints(cs_big));
  OP("refine_with_congruence.dim", X_INV, x.refine_with_congruence(cg_big));
  OP("refine_with_congruences.dim", X_INV, x.refine_with_congruences(cgs_big));
  OP("add_constraint.dim", X_INV, x.add_constraint(c_big));
  OP("add_constraints.dim", X_INV, x.add_constraints(cs_big));
  OP("add_congruence.dim", X_INV, x.add_congruence(cg_big));
  OP("add_congruences.dim", X_INV, x.add_congruences(cgs_big));
  if constexpr (K != K_PPS && K != K_PROD) OP("simplify_using_context_assign.dim", X_INV, (void) x.simplify_using_context_assign(z));
  if constexpr (K != K_PPS) OP("widening_assign.dim", X_INV, x.widening_assign(z));
  if constexpr (K == K_C || K == K_NNC) {
    auto& w = other_topology<K>(w_c, w_nnc);
    OP("intersection_assign.topology", X_INV, x.intersection_assign(w));
    OP("upper_bound_assign.topology", X_INV, x.upper_bound_assign(w));
    OP("difference_assign.topology", X_INV, x.difference_assign(w));
    OP("time_elapse_assign.topology", X_INV, x.time_elapse_assign(w));
    OP("contains.topology", X_INV, (void) x.contains(w));
    OP("is_disjoint_from.topology", X_INV, (void) x.is_disjoint_from(w));
    OP("H79_widening_assign.topology", X_INV, x.H79_widening_assign(w));
    OP("BHRZ03_widening_assign.topology", X_INV, x.BHRZ03_widening_assign(w));
    OP("H79_widening_assign.dim", X_INV, x.H79_widening_assign(z));
    OP("BHRZ03_widening_assign.dim", X_INV, x.BHRZ03_widening_assign(z));
    OP("limited_H79_extrapolation_assign.dim", X_INV, x.limited_H79_extrapolation_assign(z, cs_small));
    OP("limited_H79_extrapolation_assign.cs", X_INV, D y2(x); x.limited_H79_extrapolation_assign(y2, cs_big));
    OP("limited_BHRZ03_extrapolation_assign.cs", X_INV, D y2(x); x.limited_BHRZ03_extrapolation_assign(y2, cs_big));
    OP("bounded_H79_extrapolation_assign.cs", X_INV, D y2(x); x.bounded_H79_extrapolation_assign(y2, cs_big));
    OP("generalized_affine_image.not_equal", X_INV, x.generalized_affine_image(v0, NOT_EQUAL, e));
    OP("generalized_affine_preimage.not_equal", X_INV, x.generalized_affine_preimage(v0, NOT_EQUAL, e));
    OP("generalized_affine_image_lhs.not_equal", X_INV, x.generalized_affine_image(e, NOT_EQUAL, e));
    OP("add_generator.dim", X_INV, x.add_generator(point(big)));
    OP("add_generators.dim", X_INV, Generator_System gs; gs.insert(point(big)); x.add_generators(gs));
    OP("relation_with.generator", X_INV, (void) x.relation_with(point(big)));
    OP("add_congruence.proper", X_INV, x.add_congruence(cg_proper));
    OP("add_congruences.proper", X_INV, Congruence_System s; if (mixed) s.insert(cg_valid); s.insert(cg_proper); x.add_congruences(s));
    OPE("add_generator.ray_to_empty", X_INV, x.add_generator(ray(Linear_Expression(v0))));
    OPE("add_generator.line_to_empty", X_INV, x.add_generator(line(Linear_Expression(v0))));
    OPE("add_generators.no_point_to_empty", X_INV, Generator_System gs; gs.insert(ray(Linear_Expression(v0))); gs.insert(line(Linear_Expression(v0) + 1 * Variable(0))); x.add_generators(gs));
    OP("ctor.generators_without_point", X_INV, Generator_System gs; gs.insert(ray(Linear_Expression(v0))); D tmp(gs); (void) tmp);
    if constexpr (K == K_C) {
      OP("add_constraint.strict", X_INV, x.add_constraint(c_strict));
      OP("add_constraints.strict", X_INV, x.add_constraints(cs_strict));
      OP("add_generator.closure_point", X_INV, x.add_generator(closure_point(e)));
      OP("add_generators.closure_point", X_INV, Generator_System gs; gs.insert(point(e)); gs.insert(closure_point(e + Linear_Expression(v0))); x.add_generators(gs));
      OP("generalized_affine_image.strict", X_INV, x.generalized_affine_image(v0, LESS_THAN, e));
      OP("generalized_affine_preimage.strict", X_INV, x.generalized_affine_preimage(v0, GREATER_THAN, e));
      OP("generalized_affine_image_lhs.strict", X_INV, x.generalized_affine_image(e, LESS_THAN, e));
      OP("ctor.strict_constraints", X_INV, D tmp(cs_strict); (void) tmp);
      OP("ctor.closure_point", X_INV, Generator_System gs; gs.insert(point(e)); gs.insert(closure_point(e + Linear_Expression(v0))); D tmp(gs); (void) tmp);
      OPE("add_generator.closure_point_to_empty", X_INV, x.add_generator(closure_point(e)));
    }
    else {
      OPE("add_generator.closure_point_to_empty", X_INV, x.add_generator(closure_point(e)));
    }
  }
  if constexpr (K == K_GRID) {
    OP("add_grid_generator.dim", X_INV, x.add_grid_generator(grid_point(big)));
    OP("add_grid_generators.dim", X_INV, Grid_Generator_System gs; gs.insert(grid_point(big)); x.add_grid_generators(gs));
    OP("relation_with.grid_generator", X_INV, (void) x.relation_with(grid_point(big)));
    OP("relation_with.generator", X_INV, (void) x.relation_with(point(big)));
    OP("add_constraint.inequality", X_INV, x.add_constraint(Linear_Expression(v0) >= 1));
    OP("add_constraints.inequality", X_INV, Constraint_System s; if (mixed) s.insert(c_valid); s.insert(Linear_Expression(v0) >= 1); x.add_constraints(s));
    OP("congruence_widening_assign.dim", X_INV, x.congruence_widening_assign(z));
    OP("generator_widening_assign.dim", X_INV, x.generator_widening_assign(z));
    OP("limited_extrapolation_assign.dim", X_INV, Congruence_System s; x.limited_extrapolation_assign(z, s));
    OP("limited_extrapolation_assign.cgs", X_INV, D y2(x); x.limited_extrapolation_assign(y2, cgs_big));
    OP("generalized_affine_image.modulus_den0", X_INV, x.generalized_affine_image(v0, EQUAL, e, 0, 3));
    OPE("add_grid_generator.parameter_to_empty", X_INV, x.add_grid_generator(parameter(Linear_Expression(v0))));
    OPE("add_grid_generator.line_to_empty", X_INV, x.add_grid_generator(grid_line(Linear_Expression(v0))));
    OPE("add_grid_generators.no_point_to_empty", X_INV, Grid_Generator_System gs; gs.insert(parameter(Linear_Expression(v0))); x.add_grid_generators(gs));
  }
  if constexpr (K == K_BDS || K == K_OS) {
    OP("CC76_extrapolation_assign.dim", X_INV, x.CC76_extrapolation_assign(z));
    OP("BHMZ05_widening_assign.dim", X_INV, x.BHMZ05_widening_assign(z));
    OP("CC76_narrowing_assign.dim", X_INV, x.CC76_narrowing_assign(z));
    OP("limited_CC76_extrapolation_assign.dim", X_INV, x.limited_CC76_extrapolation_assign(z, cs_small));
    OP("limited_CC76_extrapolation_assign.cs", X_INV, D y2(x); x.limited_CC76_extrapolation_assign(y2, cs_big));
    OP("limited_BHMZ05_extrapolation_assign.cs", X_INV, D y2(x); x.limited_BHMZ05_extrapolation_assign(y2, cs_big));
    OP("limited_CC76_extrapolation_assign.strict", X_INV, D y2(x); x.limited_CC76_extrapolation_assign(y2, cs_strict));
    OP("relation_with.generator", X_INV, (void) x.relation_with(point(big)));
    OP("add_constraint.strict", X_INV, x.add_constraint(c_strict));
    OP("add_congruence.proper", X_INV, x.add_congruence(cg_proper));
    OP("generalized_affine_image.strict", X_INV, x.generalized_affine_image(v0, LESS_THAN, e));
    OP("generalized_affine_image.not_equal", X_INV, x.generalized_affine_image(v0, NOT_EQUAL, e));
    OP("generalized_affine_preimage.strict", X_INV, x.generalized_affine_preimage(v0, GREATER_THAN, e));
    OP("generalized_affine_image_lhs.strict", X_INV, x.generalized_affine_image(e, LESS_THAN, e));
    if (n >= 2) {
      OP("add_constraint.not_representable", X_INV, x.add_constraint(Variable(0) + 2 * Variable(1) <= 1));
      OP("add_constraints.not_representable", X_INV, Constraint_System s; s.insert(Variable(0) >= 0); s.insert(3 * Variable(0) + 2 * Variable(1) <= 1); x.add_constraints(s));
    }
  }
  if constexpr (K == K_BOX) {
    OP("CC76_widening_assign.dim", X_INV, x.CC76_widening_assign(z));
    OP("CC76_narrowing_assign.dim", X_INV, x.CC76_narrowing_assign(z));
    OP("limited_CC76_extrapolation_assign.dim", X_INV, x.limited_CC76_extrapolation_assign(z, cs_small));
    OP("limited_CC76_extrapolation_assign.cs", X_INV, D y2(x); x.limited_CC76_extrapolation_assign(y2, cs_big));
    OP("relation_with.generator", X_INV, (void) x.relation_with(point(big)));
    OP("add_congruence.proper", X_INV, x.add_congruence(cg_proper));
    OP("generalized_affine_image.not_equal", X_INV, x.generalized_affine_image(v0, NOT_EQUAL, e));
    OP("propagate_constraint.dim", X_INV, x.propagate_constraint(c_big));
    OP("propagate_constraints.dim", X_INV, x.propagate_constraints(cs_big));
    if (n >= 2) {
      OP("add_constraint.not_representable", X_INV, x.add_constraint(Variable(0) + Variable(1) <= 1));
      OP("add_constraints.not_representable", X_INV, Constraint_System s; s.insert(Variable(0) >= 0); s.insert(Variable(0) - Variable(1) <= 1); x.add_constraints(s));
    }
  }
  if constexpr (K == K_PPS) {
    OP("add_disjunct.dim", X_INV, C_Polyhedron q(n + 1); x.add_disjunct(q));
    OP("add_constraint.strict", X_INV, x.add_constraint(c_strict));
    OP("geometrically_covers.dim", X_INV, (void) x.geometrically_covers(z));
    OP("geometrically_equals.dim", X_INV, (void) x.geometrically_equals(z));
  }
  const Rej& r = ops[(size_t) t.range(0, (long) ops.size() - 1)];
  if (r.on_empty) { x = D(n, EMPTY); if (t.chance(50)) (void) x.is_empty(); }
  c.log << "  rejected call: " << r.op << "   [e = " << ple.str() << ", big = " << pbig.str() << ", v0 = x" << v0.id() << ", relsym " << (int) rel << "]\n";
  c.tag(std::string("A ") + dn + "." + r.op);
  std::string sfx = std::string(".") + dn + "." + r.op;
  // an object that fails OK() after its (valid) construction history is a defect outside this property
  if (!(x.OK() && y.OK() && z.OK())) { c.tag("A object fails OK() before the rejected call"); throw vf::Inconclusive("an object fails OK() before the rejected call (valid history)"); }
  D x0(x), y0(y), z0(z);
  bool nontriv = !x0.is_empty() && !x0.is_universe();
  { bool nodis = false; if constexpr (K == K_PPS) nodis = x0.is_empty();
    // Pointset_Powerset::intersection_assign documents no exception for dimension-incompatible arguments: outside "documented precondition"
    if (K == K_PPS && r.op == "intersection_assign.dim") { c.tag("undocumented rejection: not judged"); return; }
    if (const char* id = a_known(K, r.op, x0.is_empty(), nodis, z0.is_empty())) if (kf(id)) { c.excluded(id); c.log << "  (class of known finding " << id << ": call not made)\n"; return; } }
  std::string what; int got = thrown_by(r.call, what);
  c.check("a.threw" + sfx, got != X_NONE, [&] { return std::string(dn) + "::" + r.op + ": the call violating the precondition returned normally (documented: " + xname(r.expect) + ")"; });
  if (got == X_NONE) return;   // (muted in survey mode) the call went through: nothing else to compare
  c.check("a.type" + sfx, got == r.expect, [&] { return std::string(dn) + "::" + r.op + ": threw " + xname(got) + " (" + what + "), documented: " + xname(r.expect); });
  c.check("a.ok" + sfx, x.OK() && y.OK() && z.OK(), [&] { return std::string(dn) + "::" + r.op + ": receiver or argument fails OK() after the rejected call"; });
  c.check("a.unchanged" + sfx, same(x, x0) && same(y, y0) && same(z, z0), [&] { std::ostringstream o; o << dn << "::" << r.op << ": " << (!same(x, x0) ? "the receiver" : "an argument") << " changed its value in the rejected call"; return o.str(); });
  c.check("a.model" + sfx, model_same(x, x0, n) && model_same(z, z0, n + 1), [&] { return std::string(dn) + "::" + r.op + ": constraints()/congruences() of receiver or argument denote another set after the rejected call"; });
  { RCon fc = gen_rcon(t, n, wit, K == K_PPS ? K_C : K); std::vector<RCon> one(1, fc); LE fe = gen_le(t, n, false);
    constrain(x, one); constrain(x0, one); x.affine_image(v0, fe.ppl()); x0.affine_image(v0, fe.ppl()); x.upper_bound_assign(y); x0.upper_bound_assign(y0);
    c.check("a.followup" + sfx, same(x, x0), [&] { return std::string(dn) + "::" + r.op + ": after the rejected call, adding " + str_k(fc, K) + ", x" + std::to_string(v0.id()) + " := " + fe.str() + " and joining y gives another result than on the pre-call copy:\n  object " + show(x) + "\n  copy   " + show(x0) + "\n  y " + show(y) + "\n  y0 " + show(y0); }); }
  if (nontriv) c.nt();
}

// ---- solvers
static void part_a_mip(Ctx& c) {
  Tape& t = c.t; size_t n = (size_t) t.range(1, 3); c.log << "PART A  MIP_Problem dim " << n << "\n";
  std::vector<long> wit(n); for (size_t j = 0; j < n; ++j) wit[j] = t.range(-2, 2);
  int shape = (int) t.range(0, 3);          // 0,1 generic, 2 unfeasible, 3 unbounded
  MIP_Problem p(n); int m = (int) t.range(0, 4); c.log << "  constraints {";
  for (int i = 0; i < m; ++i) { RCon r = gen_mcon(t, n, wit); c.log << (i ? ", " : "") << str(r); p.add_constraint(to_ppl(r)); }
  LE obj = gen_le(t, n, false);
  if (shape == 2) { p.add_constraint(Variable(0) >= 1); p.add_constraint(Variable(0) <= 0); c.log << " + x0 >= 1, x0 <= 0"; }
  if (shape == 3) { p = MIP_Problem(n); p.add_constraint(Variable(0) >= 0); obj = LE(n); obj.a[0] = 1; c.log << "} replaced by {x0 >= 0"; }
  p.set_objective_function(obj.ppl()); p.set_optimization_mode(shape == 3 || t.chance(50) ? MAXIMIZATION : MINIMIZATION);
  c.log << "}, objective " << obj.str() << "\n";
  bool solved = t.chance(50); if (solved) (void) p.solve();
  LE pbig = gen_le(t, n + 1, false); pbig.a[n] = 1; Linear_Expression big = pbig.ppl(), e = gen_le(t, n, false).ppl();
  // (in about 40% of the cases the offending element comes after a well-formed one - derived from choices already made, so that saved
  // tapes keep their meaning: a call that validates while it applies would leave the well-formed part behind)
  bool mixed = wit[0] % 2 != 0; Constraint c_valid(Variable(0) <= wit[0] + 3);
  Constraint_System cs_big; if (mixed) cs_big.insert(c_valid); cs_big.insert(big >= 0); Constraint_System cs_strict; if (mixed) cs_strict.insert(c_valid); cs_strict.insert(Variable(0) > 0); if (mixed && wit[0] > 0) cs_strict.insert(Variable(0) >= wit[0] - 3);
  if (mixed) c.log << "  (ill-formed systems start with the well-formed " << c_valid << ")\n";
  Variables_Set vs_bad; vs_bad.insert(Variable(n)); Coefficient num, den; dimension_type maxd = MIP_Problem::max_space_dimension();
  MIP_Problem& x = p; std::vector<Rej> ops;
  OP("set_objective_function.dim", X_INV, x.set_objective_function(big));
  OP("add_constraint.dim", X_INV, x.add_constraint(big >= 0));
  OP("add_constraint.strict", X_INV, x.add_constraint(Variable(0) > 0));
  OP("add_constraints.dim", X_INV, x.add_constraints(cs_big));
  OP("add_constraints.strict", X_INV, x.add_constraints(cs_strict));
  OP("add_to_integer_space_dimensions.dim", X_INV, x.add_to_integer_space_dimensions(vs_bad));
  OP("add_space_dimensions_and_embed.overflow", X_LEN, x.add_space_dimensions_and_embed(maxd));
  OP("ctor.dim_overflow", X_LEN, MIP_Problem tmp(maxd + 1); (void) tmp);
  OP("ctor.constraints_dim", X_INV, MIP_Problem tmp(n, cs_big, e, MAXIMIZATION); (void) tmp);
  OP("ctor.constraints_strict", X_INV, MIP_Problem tmp(n, cs_strict, e, MAXIMIZATION); (void) tmp);
  OP("ctor.objective_dim", X_INV, Constraint_System s; MIP_Problem tmp(n, s, big, MAXIMIZATION); (void) tmp);
  OP("ctor.range_dim", X_INV, MIP_Problem tmp(n, cs_big.begin(), cs_big.end(), e, MAXIMIZATION); (void) tmp);
  OP("ctor.range_int_vars_dim", X_INV, Constraint_System s; MIP_Problem tmp(n, s.begin(), s.end(), vs_bad, e, MAXIMIZATION); (void) tmp);
  OP("evaluate_objective_function.dim", X_INV, x.evaluate_objective_function(point(big), num, den));
  OP("evaluate_objective_function.not_a_point", X_INV, x.evaluate_objective_function(ray(Linear_Expression(Variable(0))), num, den));
  if (shape == 2) {
    OP("feasible_point.unfeasible", X_DOM, (void) x.feasible_point());
    OP("optimizing_point.unfeasible", X_DOM, (void) x.optimizing_point());
    OP("optimal_value.unfeasible", X_DOM, x.optimal_value(num, den));
  }
  if (shape == 3) {
    OP("optimizing_point.unbounded", X_DOM, (void) x.optimizing_point());
    OP("optimal_value.unbounded", X_DOM, x.optimal_value(num, den));
  }
  const Rej& r = (shape >= 2 && t.chance(70)) ? ops[ops.size() - 1 - (size_t) t.range(0, shape == 2 ? 2 : 1)] : ops[(size_t) t.range(0, (long) ops.size() - 1)];
  c.log << "  rejected call: " << r.op << (solved ? " (after solve())" : " (not solved)") << "  big = " << pbig.str() << "\n"; c.tag("A MIP_Problem." + r.op);
  std::string sfx = ".MIP_Problem." + r.op; MIP_Problem p0(p); std::string v0 = mip_value(p);
  std::string what; int got = thrown_by(r.call, what);
  c.check("a.threw" + sfx, got != X_NONE, [&] { return "MIP_Problem::" + r.op + ": the call returned normally (documented: " + xname(r.expect) + ")"; });
  if (got == X_NONE) return;   // (muted in survey mode) the call went through: nothing else to compare
  c.check("a.type" + sfx, got == r.expect, [&] { return "MIP_Problem::" + r.op + ": threw " + xname(got) + " (" + what + "), documented: " + xname(r.expect); });
  c.check("a.ok" + sfx, p.OK(), [&] { return "MIP_Problem::" + r.op + ": the problem fails OK() after the rejected call"; });
  c.check("a.unchanged" + sfx, mip_value(p) == v0, [&] { return "MIP_Problem::" + r.op + ": the problem changed in the rejected call:\n before " + v0 + "\n after  " + mip_value(p); });
  MIP_Problem_Status s1 = p.solve(), s0 = p0.solve(); bool okv = s1 == s0;
  if (okv && s1 == OPTIMIZED_MIP_PROBLEM) { Coefficient n1, d1, n0, d0; p.optimal_value(n1, d1); p0.optimal_value(n0, d0); okv = n1 * d0 == n0 * d1; }
  c.check("a.followup" + sfx, okv, [&] { return "MIP_Problem::" + r.op + ": solve() after the rejected call differs from solve() on the pre-call copy"; });
  if (m > 0 || shape >= 2) c.nt();
}
static std::string pip_solution_text(const PIP_Problem& p) { std::ostringstream s; const PIP_Tree_Node* r = p.solution(); if (r == 0) s << "_|_"; else r->print(s); return s.str(); }
static void part_a_pip(Ctx& c) {
  Tape& t = c.t; size_t n = (size_t) t.range(2, 3); c.log << "PART A  PIP_Problem dim " << n << ", parameter x" << n - 1 << "\n";
  PIP_Problem p(n); Variables_Set params; params.insert(Variable(n - 1)); p.add_to_parameter_space_dimensions(params);
  int m = (int) t.range(0, 3); c.log << "  constraints {"; for (int i = 0; i < m; ++i) { RCon r = gen_pcon(t, n); c.log << (i ? ", " : "") << str(r); p.add_constraint(to_ppl(r)); } c.log << "} and x_j <= 5\n";
  for (size_t j = 0; j + 1 < n; ++j) p.add_constraint(Variable(j) <= 5);
  bool solved = t.chance(50); if (solved) (void) p.solve();
  LE pbig = gen_le(t, n + 1, false); pbig.a[n] = 1; Linear_Expression big = pbig.ppl();
  Constraint_System cs_big; cs_big.insert(big >= 0); Variables_Set vs_bad; vs_bad.insert(Variable(n)); Variables_Set vs_used; vs_used.insert(Variable(0));
  dimension_type maxd = PIP_Problem::max_space_dimension(); PIP_Problem& x = p; std::vector<Rej> ops;
  OP("add_constraint.dim", X_INV, x.add_constraint(big >= 0));
  OP("add_constraints.dim", X_INV, x.add_constraints(cs_big));
  OP("add_to_parameter_space_dimensions.dim", X_INV, x.add_to_parameter_space_dimensions(vs_bad));
  OP("set_big_parameter_dimension.not_a_parameter", X_INV, x.set_big_parameter_dimension(0));
  OP("set_big_parameter_dimension.dim", X_INV, x.set_big_parameter_dimension(n + 3));
  OP("add_space_dimensions_and_embed.overflow", X_LEN, x.add_space_dimensions_and_embed(maxd, 0));
  OP("add_space_dimensions_and_embed.overflow_params", X_LEN, x.add_space_dimensions_and_embed(1, maxd));
  OP("ctor.dim_overflow", X_LEN, PIP_Problem tmp(maxd + 1); (void) tmp);
  OP("ctor.constraints_dim", X_INV, PIP_Problem tmp(n, cs_big.begin(), cs_big.end(), params); (void) tmp);
  OP("ctor.params_dim", X_INV, Constraint_System s; PIP_Problem tmp(n, s.begin(), s.end(), vs_bad); (void) tmp);
  if (!solved) OP("print_solution.unsolved", X_LOGIC, std::ostringstream s; x.print_solution(s));
  const Rej& r = ops[(size_t) t.range(0, (long) ops.size() - 1)];
  c.log << "  rejected call: " << r.op << (solved ? " (after solve())" : " (not solved)") << "  big = " << pbig.str() << "\n"; c.tag("A PIP_Problem." + r.op);
  std::string sfx = ".PIP_Problem." + r.op; PIP_Problem p0(p); std::string v0 = pip_value(p);
  std::string what; int got = thrown_by(r.call, what);
  c.check("a.threw" + sfx, got != X_NONE, [&] { return "PIP_Problem::" + r.op + ": the call returned normally (documented: " + xname(r.expect) + ")"; });
  if (got == X_NONE) return;   // (muted in survey mode) the call went through: nothing else to compare
  c.check("a.type" + sfx, got == r.expect, [&] { return "PIP_Problem::" + r.op + ": threw " + xname(got) + " (" + what + "), documented: " + xname(r.expect); });
  c.check("a.ok" + sfx, p.OK(), [&] { return "PIP_Problem::" + r.op + ": the problem fails OK() after the rejected call"; });
  c.check("a.unchanged" + sfx, pip_value(p) == v0, [&] { return "PIP_Problem::" + r.op + ": the problem changed in the rejected call:\n before " + v0 + "\n after  " + pip_value(p); });
  PIP_Problem_Status s1 = p.solve(), s0 = p0.solve();
  c.check("a.followup" + sfx, s1 == s0 && pip_solution_text(p) == pip_solution_text(p0), [&] { return "PIP_Problem::" + r.op + ": solve() after the rejected call differs from solve() on the pre-call copy:\n" + pip_solution_text(p) + "---\n" + pip_solution_text(p0); });
  if (m > 0) c.nt();
}
// ---- expressions, rows of systems
static void part_a_systems(Ctx& c) {
  Tape& t = c.t; size_t n = (size_t) t.range(1, 4); LE ple = gen_le(t, n); Representation rp = t.chance(50) ? DENSE : SPARSE;
  Linear_Expression e(ple.ppl(), rp); Linear_Expression e0(e);
  c.log << "PART A  expressions / generators / systems: e = " << ple.str() << (rp == DENSE ? " (dense)" : " (sparse)") << "\n";
  Linear_Expression zero_h; zero_h += Coefficient(t.range(-3, 3)); if (n > 1 && t.chance(50)) zero_h += 0 * Variable(n - 1);
  dimension_type lmax = Linear_Expression::max_space_dimension(), vmax = Variable::max_space_dimension();
  Constraint con(e >= 0); Congruence cg((e %= 1) / 3); Generator gp = point(e, 2), gr = ray(e + 1 * Variable(0) + (ple.a[0] == -1 ? 1 : 0) * Variable(0)), gl = line(Linear_Expression(Variable(0)));
  Grid_Generator ggl = grid_line(Linear_Expression(Variable(0))), ggp = grid_point(e, 3);
  Coefficient out; std::vector<Rej> ops;
  OP("Variable.ctor_overflow", X_LEN, Variable v(vmax); (void) v);
  OP("Linear_Expression.ctor_variable_overflow", X_LEN, Linear_Expression tmp((Variable(lmax))); (void) tmp);
  OP("Linear_Expression.plus_variable_overflow", X_LEN, Linear_Expression tmp = e + Variable(lmax); (void) tmp);
  OP("Linear_Expression.plus_assign_variable_overflow", X_LEN, e += Variable(lmax));
  OP("Linear_Expression.minus_assign_variable_overflow", X_LEN, e -= Variable(lmax));
  OP("Linear_Expression.add_mul_assign_overflow", X_LEN, add_mul_assign(e, Coefficient(2), Variable(lmax)));
  OP("Linear_Expression.sub_mul_assign_overflow", X_LEN, sub_mul_assign(e, Coefficient(2), Variable(lmax)));
  OP("Linear_Expression.variable_difference_overflow", X_LEN, Linear_Expression tmp = Variable(0) - Variable(lmax); (void) tmp);
  OP("point.zero_divisor", X_INV, Generator g = point(e, 0); (void) g);
  OP("closure_point.zero_divisor", X_INV, Generator g = closure_point(e, 0); (void) g);
  OP("ray.zero_direction", X_INV, Generator g = ray(zero_h); (void) g);
  OP("line.zero_direction", X_INV, Generator g = line(zero_h); (void) g);
  OP("grid_point.zero_divisor", X_INV, Grid_Generator g = grid_point(e, 0); (void) g);
  OP("parameter.zero_divisor", X_INV, Grid_Generator g = parameter(e, 0); (void) g);
  OP("grid_line.zero_direction", X_INV, Grid_Generator g = grid_line(zero_h); (void) g);
  OP("Generator.divisor_of_ray", X_INV, out = gr.divisor());
  OP("Generator.divisor_of_line", X_INV, out = gl.divisor());
  OP("Grid_Generator.divisor_of_line", X_INV, out = ggl.divisor());
  OP("Constraint.coefficient_dim", X_INV, out = con.coefficient(Variable(con.space_dimension())));
  OP("Congruence.coefficient_dim", X_INV, out = cg.coefficient(Variable(cg.space_dimension())));
  OP("Generator.coefficient_dim", X_INV, out = gp.coefficient(Variable(gp.space_dimension())));
  OP("Grid_Generator.coefficient_dim", X_INV, out = ggp.coefficient(Variable(ggp.space_dimension())));
  OP("Congruence.set_modulus? scale_by_zero", X_NONE, (void) 0);
  ops.pop_back();
  const Rej& r = ops[(size_t) t.range(0, (long) ops.size() - 1)];
  c.log << "  rejected call: " << r.op << "\n"; c.tag("A systems." + r.op); std::string sfx = ".systems." + r.op;
  std::string dcon = dump_of(con), dcg = dump_of(cg), dgp = dump_of(gp), dgr = dump_of(gr), dggp = dump_of(ggp);
  std::string what; int got = thrown_by(r.call, what);
  c.check("a.threw" + sfx, got != X_NONE, [&] { return r.op + ": the call returned normally (documented: " + xname(r.expect) + ")"; });
  if (got == X_NONE) return;   // (muted in survey mode) the call went through: nothing else to compare
  c.check("a.type" + sfx, got == r.expect, [&] { return r.op + ": threw " + xname(got) + " (" + what + "), documented: " + xname(r.expect); });
  c.check("a.ok" + sfx, e.OK() && con.OK() && cg.OK() && gp.OK() && gr.OK() && ggp.OK(), [&] { return r.op + ": an object involved fails OK() after the rejected call"; });
  c.check("a.unchanged" + sfx, e.is_equal_to(e0) && e.space_dimension() == e0.space_dimension() && dump_of(con) == dcon && dump_of(cg) == dcg && dump_of(gp) == dgp && dump_of(gr) == dgr && dump_of(ggp) == dggp, [&] { std::ostringstream o; o << r.op << ": an object involved changed in the rejected call; e before: " << e0 << ", after: " << e; return o.str(); });
  { Linear_Expression a = e + 3 * Variable(n), b = e0 + 3 * Variable(n); a *= 2; b *= 2; c.check("a.followup" + sfx, a.is_equal_to(b) && a.OK(), [&] { return r.op + ": arithmetic on the expression after the rejected call differs from the same on the pre-call copy"; }); }
  if (!ple.all_zero()) c.nt();
}
static void part_a(Ctx& c) {
  switch (c.t.weighted({12, 10, 10, 9, 9, 9, 7, 7, 10, 9, 8})) {
  case 0: part_a_dom<C_Polyhedron>(c); break;
  case 1: part_a_dom<NNC_Polyhedron>(c); break;
  case 2: part_a_dom<Grid>(c); break;
  case 3: part_a_dom<BDS>(c); break;
  case 4: part_a_dom<OS>(c); break;
  case 5: part_a_dom<Rational_Box>(c); break;
  case 6: part_a_dom<PPS>(c); break;
  case 7: part_a_dom<PROD>(c); break;
  case 8: part_a_mip(c); break;
  case 9: part_a_pip(c); break;
  default: part_a_systems(c); break;
  }
}

// ------------------------------------------------------------------ known-finding classes of part B
static const char* b_known(const std::string& fam, const Finding& f) {
  auto is = [&](const char* chk) { return f.id == std::string(chk) + "." + fam; };
  bool solver_const = starts(f.cls, "solve") || starts(f.cls, "is_satisfiable") || starts(f.cls, "optimizing_solution");
  // KF-C14-7: PIP_Problem::solve() (also through is_satisfiable / optimizing_solution) updates context, tableau and solution tree in place:
  //           after a failure the problem fails OK(), answers differently, crashes when used, assigned to or destroyed
  if (fam == "PIP_Problem" && solver_const && (is("b.arg_ok") || is("b.arg_value") || is("b.retry") || is("b.crash_after_failure") || is("b.assign_destroy") || is("b.reuse"))) return "KF-C14-7";
  // KF-C14-8: the same for MIP_Problem::solve() / is_satisfiable() (pending constraints processed in place, status not updated)
  if (fam == "MIP_Problem" && solver_const && (is("b.arg_ok") || is("b.arg_value") || is("b.retry") || is("b.crash_after_failure") || is("b.assign_destroy") || is("b.reuse"))) return "KF-C14-8";
  // KF-C14-9: MIP_Problem owns its constraints through raw pointers: the copy constructor (also inside operator= and the branch-and-bound
  //           copies of solve()) leaks the constraints copied so far when a later allocation fails
  if (is("b.leak") && f.cls.find("[CO_Tree]") != std::string::npos) return "KF-C14-12";
  if ((fam == "MIP_Problem" || starts(f.cls, "maximize/minimize")) && is("b.leak")) return "KF-C14-9";     // BD shapes, octagons, boxes and grids optimize through a MIP_Problem
  // KF-C14-10: (weaker guarantee) the receiver of an interrupted mutator is left with a broken invariant: OK() is false or crashes
  if (is("b.receiver_ok")) return "KF-C14-10";
  // KF-C14-11: logically const operations that minimize / close / reduce their operands in place (lazy evaluation) leave a const
  //            operand inconsistent when interrupted: OK() false, another value, other answers when the operation is repeated
  if (fam != "PIP_Problem" && fam != "MIP_Problem" && (is("b.arg_ok") || is("b.arg_value") || is("b.retry"))) return "KF-C14-11";
  // KF-C14-12: CO_Tree::CO_Tree(Iterator, n) (sparse row built from a dense row or from another sequence) does not release indexes[] / data[]
  //            when copying a coefficient throws: seen when a dense expression enters a system of sparse rows
  // KF-C14-13: domain objects involved in an interrupted call crash when they are used, assigned to or destroyed
  if (fam != "PIP_Problem" && fam != "MIP_Problem" && (is("b.crash_after_failure") || is("b.assign_destroy"))) return "KF-C14-13";
  return 0;
}

// ------------------------------------------------------------------ case dispatch
template <class W> static void run_world(Ctx& c, const typename W::Plain& P) {
  c.log << "PART B  " << W::family(P) << (P.gmp ? "  [GMP allocations counted]" : "") << "\n" << P.str();
  Driver<W> d(c, P); d.run();
}
static void part_b(Ctx& c) {
  Tape& t = c.t;
  switch (t.weighted({14, 12, 10, 9, 9, 9, 8, 6, 12, 11, 10})) {
  case 0: { DomPlain P = gen_domplain(t, K_C); run_world<DomWorld<C_Polyhedron> >(c, P); break; }
  case 1: { DomPlain P = gen_domplain(t, K_NNC); run_world<DomWorld<NNC_Polyhedron> >(c, P); break; }
  case 2: { DomPlain P = gen_domplain(t, K_GRID); run_world<DomWorld<Grid> >(c, P); break; }
  case 3: { DomPlain P = gen_domplain(t, K_BDS); run_world<DomWorld<BDS> >(c, P); break; }
  case 4: { DomPlain P = gen_domplain(t, K_OS); run_world<DomWorld<OS> >(c, P); break; }
  case 5: { DomPlain P = gen_domplain(t, K_BOX); run_world<DomWorld<Rational_Box> >(c, P); break; }
  case 6: { DomPlain P = gen_domplain(t, K_PPS); run_world<DomWorld<PPS> >(c, P); break; }
  case 7: { DomPlain P = gen_domplain(t, K_PROD); run_world<DomWorld<PROD> >(c, P); break; }
  case 8: { MipPlain P = gen_mipplain(t); if (P.kf_c06_1_used) c.excluded("KF-C06-1"); run_world<MipWorld>(c, P); break; }
  case 9: { PipPlain P = gen_pipplain(t); run_world<PipWorld>(c, P); break; }
  default: { LowPlain P = gen_lowplain(t); run_world<LowWorld>(c, P); break; }
  }
}
void vf_case(Ctx& c) {
  bool b = c.t.chance(60);
  static const char* force = std::getenv("C14_PART");      // exploration aid: C14_PART=A or B runs one part only
  if (force && (*force == 'A' || *force == 'B')) b = *force == 'B';
  if (b) part_b(c); else part_a(c);
}
VF_MAIN
