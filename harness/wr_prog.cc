// C03 / C04: generated programs over boxes, BD shapes and octagonal shapes.
//   -DVF_C04            rational instances: exact predicates, exact / best-abstraction operators
//   -DVF_C03 -DVF_Gk    soundness for every numeric instance (group k selects the instances)
// The model of an object is the exact rational set denoted by its own constraints();
// the exact result S of a step is computed by the reference geometry from the models.
#include "poly_common.hh"
#include "interfaces/interfaced_boxes.hh"

using namespace vf;

#if defined(VF_C04)
static const bool EXACT = true;
const vf::Info vf_info = { "C04", "wr_prog@C04", 2.5 };
#elif defined(VF_C03)
static const bool EXACT = false;
#if defined(VF_G1)
const vf::Info vf_info = { "C03", "wr_prog@C03@G1", 2.5 };
#elif defined(VF_G2)
const vf::Info vf_info = { "C03", "wr_prog@C03@G2", 2.5 };
#elif defined(VF_G3)
const vf::Info vf_info = { "C03", "wr_prog@C03@G3", 2.5 };
#elif defined(VF_G4)
const vf::Info vf_info = { "C03", "wr_prog@C03@G4", 2.5 };
#else
#error "define VF_G1..VF_G4"
#endif
#else
#error "define VF_C03 or VF_C04"
#endif

static Relation_Symbol RS(int s) { static const Relation_Symbol t[5] = { LESS_THAN, LESS_OR_EQUAL, EQUAL, GREATER_OR_EQUAL, GREATER_THAN }; return t[s]; }
static const char* RSN(int s) { static const char* t[5] = { "<", "<=", "=", ">=", ">" }; return t[s]; }

// kind: 0 box, 1 BDS, 2 octagon
template <typename D> struct Traits;
#define VF_TRAITS(TYPE, KIND, NAME, RATIONAL, STRICT, EXTREME) \
  template <> struct Traits<TYPE > { static const int kind = KIND; static const char* name() { return NAME; } static const bool rational = RATIONAL; static const bool strict = STRICT; static const int extreme = EXTREME; };
// EXTREME: magnitude (bits) of "near the limits" data for the bound type; 0 = none
VF_TRAITS(Rational_Box, 0, "Rational_Box", true, true, 0)
VF_TRAITS(BD_Shape<mpq_class>, 1, "BD_Shape<mpq_class>", true, false, 0)
VF_TRAITS(Octagonal_Shape<mpq_class>, 2, "Octagonal_Shape<mpq_class>", true, false, 0)
VF_TRAITS(BD_Shape<mpz_class>, 1, "BD_Shape<mpz_class>", false, false, 0)
VF_TRAITS(BD_Shape<int8_t>, 1, "BD_Shape<int8_t>", false, false, 7)
VF_TRAITS(BD_Shape<int16_t>, 1, "BD_Shape<int16_t>", false, false, 15)
VF_TRAITS(BD_Shape<int32_t>, 1, "BD_Shape<int32_t>", false, false, 31)
VF_TRAITS(BD_Shape<int64_t>, 1, "BD_Shape<int64_t>", false, false, 63)
VF_TRAITS(BD_Shape<float>, 1, "BD_Shape<float>", false, false, 127)
VF_TRAITS(BD_Shape<double>, 1, "BD_Shape<double>", false, false, 1023)
VF_TRAITS(BD_Shape<long double>, 1, "BD_Shape<long double>", false, false, 1023)
VF_TRAITS(Octagonal_Shape<mpz_class>, 2, "Octagonal_Shape<mpz_class>", false, false, 0)
VF_TRAITS(Octagonal_Shape<int8_t>, 2, "Octagonal_Shape<int8_t>", false, false, 7)
VF_TRAITS(Octagonal_Shape<int16_t>, 2, "Octagonal_Shape<int16_t>", false, false, 15)
VF_TRAITS(Octagonal_Shape<int32_t>, 2, "Octagonal_Shape<int32_t>", false, false, 31)
VF_TRAITS(Octagonal_Shape<int64_t>, 2, "Octagonal_Shape<int64_t>", false, false, 63)
VF_TRAITS(Octagonal_Shape<float>, 2, "Octagonal_Shape<float>", false, false, 127)
VF_TRAITS(Octagonal_Shape<double>, 2, "Octagonal_Shape<double>", false, false, 1023)
VF_TRAITS(Octagonal_Shape<long double>, 2, "Octagonal_Shape<long double>", false, false, 1023)
VF_TRAITS(Z_Box, 0, "Z_Box", false, false, 0)
VF_TRAITS(Int8_Box, 0, "Int8_Box", false, false, 7)
VF_TRAITS(Int16_Box, 0, "Int16_Box", false, false, 15)
VF_TRAITS(Int32_Box, 0, "Int32_Box", false, false, 31)
VF_TRAITS(Int64_Box, 0, "Int64_Box", false, false, 63)
VF_TRAITS(Uint8_Box, 0, "Uint8_Box", false, false, 8)
VF_TRAITS(Uint16_Box, 0, "Uint16_Box", false, false, 16)
VF_TRAITS(Uint32_Box, 0, "Uint32_Box", false, false, 32)
VF_TRAITS(Uint64_Box, 0, "Uint64_Box", false, false, 64)
VF_TRAITS(Float_Box, 0, "Float_Box", false, true, 127)
VF_TRAITS(Double_Box, 0, "Double_Box", false, true, 1023)
VF_TRAITS(Long_Double_Box, 0, "Long_Double_Box", false, true, 1023)

// directions of the domain's templates
static std::vector<Vec> directions(size_t n, int kind) {
  std::vector<Vec> d;
  for (size_t i = 0; i < n; ++i) for (int s = -1; s <= 1; s += 2) { Vec v(n, Q(0)); v[i] = s; d.push_back(v); }
  if (kind >= 1) for (size_t i = 0; i < n; ++i) for (size_t j = 0; j < n; ++j) if (i != j) { Vec v(n, Q(0)); v[i] = 1; v[j] = -1; d.push_back(v); }
  if (kind == 2) for (size_t i = 0; i < n; ++i) for (size_t j = i + 1; j < n; ++j) for (int s = -1; s <= 1; s += 2) { Vec v(n, Q(0)); v[i] = s; v[j] = s; d.push_back(v); }
  return d;
}
// best abstraction of a finite union; `open_ok': the domain has open bounds (rational boxes)
static Sys alpha(const ref::Union& pieces, size_t n, int kind, bool open_ok) {
  ref::Union ne; for (size_t i = 0; i < pieces.size(); ++i) if (!ref::is_empty(pieces[i])) ne.push_back(pieces[i]);
  if (ne.empty()) return ref::empty_sys(n);
  Sys r(n);
  std::vector<Vec> ds = directions(n, kind);
  for (size_t t = 0; t < ds.size(); ++t) {
    bool bounded = true, have = false, att = false; Q best;
    for (size_t i = 0; i < ne.size() && bounded; ++i) {
      Q v; bool a; if (!ref::sup(ne[i], ds[t], Q(0), v, a)) bounded = false;
      else if (!have || v > best) { best = v; att = a; have = true; } else if (v == best && a) att = true;
    }
    if (bounded) { Vec a(n); for (size_t j = 0; j < n; ++j) a[j] = -ds[t][j]; r.add(Con(a, best, (open_ok && !att) ? ref::GT : ref::GE)); }
  }
  return r;
}

template <typename D> struct Prog {
  typedef Traits<D> TR;
  Ctx& c; Tape& t;
  struct Obj { D d; Sys m; size_t n; std::set<std::string> states; bool odd_state = false; Obj(size_t n_, Degenerate_Element k) : d(n_, k), m(n_), n(n_) {} };
  std::vector<Obj> pool; std::vector<long> wit; int nt_steps = 0;
  Prog(Ctx& c_) : c(c_), t(c_.t) {}

  std::string status(const D& d) { std::string s = dump_of(d); size_t a = s.find('\n'); if (TR::kind == 0) return s.substr(0, a); size_t b = s.find('\n', a + 1); return s.substr(a + 1, b == std::string::npos ? std::string::npos : b - a - 1); }
  void note_state(Obj& o) { std::string s = status(o.d); o.states.insert(s); c.tag(std::string("state ") + TR::name() + " " + s); }

  // exact set denoted by the object's own constraint description
  Sys read(const D& d, size_t n) { return to_ref(d.constraints(), n); }
  Sys snapshot(const D& d, size_t n) { D cp(d); return read(cp, n); }
  // For inexact bound types the descriptions of one object may differ by rounding: closing the matrix adds
  // (rounded-up) implied constraints, reduction drops constraints it deems redundant.  `small' is the tightest
  // description (all entries of the closed matrix), `big' the loosest (minimized constraints).  Soundness of a
  // step is judged as  f(small(arguments))  included in  big(result).
  Sys small(const D& d, size_t n) { D cp(d); (void) cp.is_empty(); return read(cp, n); }
  // KF-C13-9: the strong reduction behind Octagonal_Shape::minimized_constraints() assumes exact halving: on integer-bounded octagons it
  // changes the value (and can index out of bounds): under the finding the non-minimized constraints are read instead.
  static bool int_octagon() { return TR::kind == 2 && !TR::rational && TR::extreme < 100; }
  Constraint_System min_cs(const D& d) { if (int_octagon() && kf("KF-C13-9")) { c.excluded("KF-C13-9"); return d.constraints(); } return d.minimized_constraints(); }
  Sys big(const D& d, size_t n) { D cp(d); return to_ref(min_cs(cp), n); }

  // ---- data generation -------------------------------------------------
  mpz_class gen_bound() {
    int k = t.weighted({55, 25, TR::extreme ? 20 : 0});
    if (k == 0) return t.range(-4, 4);
    if (k == 1) return t.range(-60, 60);
    mpz_class big = 1; big <<= (unsigned) (TR::extreme - (int) t.range(0, 2)); big += t.range(-2, 2);
    return t.chance(50) ? big : mpz_class(-big);
  }
  // a constraint of the domain's own syntactic class
  RCon gen_shape_con(size_t n) {
    RCon rc; rc.e = LE(n); rc.kind = t.weighted({15, 70, TR::strict ? 15 : 0});
    if (n == 0) { rc.e.b = t.range(-1, 2); return rc; }
    size_t i = t.range(0, (long) n - 1), j = t.range(0, (long) n - 1);
    mpz_class co = (TR::kind == 0 || t.chance(70)) ? mpz_class(1) : mpz_class(t.range(2, 3));
    int shape = TR::kind == 0 ? 0 : (int) t.range(0, TR::kind == 1 ? 1 : 2);
    if (shape == 0 || i == j) { rc.e.a[i] = t.chance(50) ? co : mpz_class(-co); if (TR::kind == 0 && t.chance(30)) rc.e.a[i] *= t.range(2, 3); }
    else if (shape == 1) { rc.e.a[i] = co; rc.e.a[j] = -co; }
    else { mpz_class s = t.chance(50) ? co : mpz_class(-co); rc.e.a[i] = s; rc.e.a[j] = s; }
    rc.e.b = gen_bound();
    // keep the witness point inside, mostly
    if (!t.chance(12)) { mpz_class v = rc.e.eval(wit); if (rc.kind == 0) rc.e.b -= v; else if (v < 0 || (rc.kind == 2 && v == 0)) { if (t.chance(50)) { for (size_t k = 0; k < n; ++k) rc.e.a[k] = -rc.e.a[k]; rc.e.b = -rc.e.b; v = -v; if (rc.kind == 2 && v == 0) rc.e.b += 1; } else rc.e.b -= v - (rc.kind == 2 ? 1 : 0); } }
    return rc;
  }
  void make_obj(size_t n) {
    int kind = t.weighted({45, 25, 8, 7, 15});
    Obj o(n, kind == 3 ? EMPTY : UNIVERSE);
    c.log << "  new " << TR::name() << "(dim " << n << ")";
    if (kind == 0) { // own-class constraints
      int m = (int) t.range(0, 5); c.log << " add_constraints {";
      for (int i = 0; i < m; ++i) { RCon rc = gen_shape_con(n); c.log << (i ? ", " : "") << str(rc); o.d.add_constraint(to_ppl(rc)); }
      c.log << "}\n";
    }
    else if (kind == 1) { // from a polyhedron, chosen complexity
      int m = (int) t.range(0, 5); C_Polyhedron ph(n); Sys pm(n); c.log << " from C_Polyhedron {";
      bool unrep = false;
      for (int i = 0; i < m; ++i) { RCon rc = gen_con(t, n, wit, false, t.chance(10)); if (unrepresentable(rc)) unrep = true; c.log << (i ? ", " : "") << str(rc); ph.add_constraint(to_ppl(rc)); pm.add(to_refcon(rc)); }
      int cx = (int) t.range(0, 2);
      // (former KF-C03-6, repaired: Box(C_Polyhedron, non-ANY complexity) threw std::length_error for a trivially false equality)
      (void) unrep;
      if (float_box() && cx != 0 && kf("KF-C03-10")) { c.excluded("KF-C03-10"); cx = 0; }
      Complexity_Class cc = cx == 0 ? ANY_COMPLEXITY : cx == 1 ? SIMPLEX_COMPLEXITY : POLYNOMIAL_COMPLEXITY;
      c.log << "} complexity " << (cx == 0 ? "ANY" : cx == 1 ? "SIMPLEX" : "POLYNOMIAL") << "\n";
      if (t.chance(40)) (void) ph.minimized_generators();
      o.d = D(ph, cc);
      Sys got = EXACT ? snapshot(o.d, n) : big(o.d, n);
      c.check("ctor.polyhedron.sound", ref::included(pm, got), [&] { return std::string(TR::name()) + "(C_Polyhedron) lost points: " + show_sys(got) + " source " + show_sys(pm); });
      if (EXACT && cx == 0) { ref::Union u; u.push_back(pm); Sys e = alpha(u, n, TR::kind, TR::strict);
        c.check("ctor.polyhedron.best", ref::equal(got, e), [&] { return std::string(TR::name()) + "(C_Polyhedron, ANY) is not the smallest: " + show_sys(got) + " expected " + show_sys(e) + " source " + show_sys(pm); }); }
    }
    else if (kind == 2) c.log << " UNIVERSE\n";
    else if (kind == 3) c.log << " EMPTY\n";
    else { // from generators
      int m = (int) t.range(1, 4); Generator_System gs; ref::Gens g(n); c.log << " from generators {";
      for (int i = 0; i < m; ++i) { int gk = i == 0 ? 2 : t.weighted({10, 25, 65}); LE e(n); for (size_t j = 0; j < n; ++j) e.a[j] = t.range(-3, 3);
        if (n == 0) gk = 2;
        if (gk < 2 && e.all_zero()) e.a[0] = 1;
        long dv = gk == 2 ? t.pick(std::vector<long>{1, 1, 2, 3}) : 1; Vec v = e.vec();
        if (gk == 0) { gs.insert(Generator::line(e.ppl())); g.lines.push_back(v); c.log << " line(" << e.str() << ")"; }
        else if (gk == 1) { gs.insert(Generator::ray(e.ppl())); g.rays.push_back(v); c.log << " ray(" << e.str() << ")"; }
        else { for (size_t j = 0; j < n; ++j) v[j] = mkq(e.a[j], dv); gs.insert(Generator::point(e.ppl(), dv)); g.points.push_back(v); c.log << " point((" << e.str() << ")/" << dv << ")"; } }
      c.log << " }\n";
      if (gs.space_dimension() < n) gs.set_space_dimension(n);
      C_Polyhedron ph(n, EMPTY); ph.add_generators(gs);
      if (t.chance(50)) o.d = D(gs); else o.d = D(ph, ANY_COMPLEXITY);
      Sys pm = ref::from_gens(g); Sys got = EXACT ? snapshot(o.d, n) : big(o.d, n);
      c.check("ctor.generators.sound", ref::included(pm, got), [&] { return std::string(TR::name()) + "(generators) lost points: " + show_sys(got) + " source " + show_sys(pm); });
      if (EXACT) { ref::Union u; u.push_back(pm); Sys e = alpha(u, n, TR::kind, TR::strict);
        c.check("ctor.generators.best", ref::equal(got, e), [&] { return std::string(TR::name()) + "(generators) is not the smallest: " + show_sys(got) + " expected " + show_sys(e); }); }
    }
    o.m = EXACT ? snapshot(o.d, n) : small(o.d, n);
    pool.push_back(o);
  }

  // KF-C03-9: BD_Shape/Octagonal_Shape over bounded native integers mishandle overflow (wrapped or stale finite
  // bounds instead of +infinity).  Class: an exact bound of the data involved exceeds a quarter of the range of T.
  static bool bounded_int() { return TR::kind != 0 && TR::extreme > 0 && TR::extreme < 100; }
  bool near_overflow(const ref::Union& S, size_t n) {
    mpz_class lim = 1; lim <<= (unsigned) (TR::extreme - 2);
    std::vector<Vec> ds = directions(n, 2);
    for (size_t i = 0; i < S.size(); ++i) { if (ref::is_empty(S[i])) continue;
      for (size_t k = 0; k < ds.size(); ++k) { Q v; bool a; if (ref::sup(S[i], ds[k], Q(0), v, a) && abs(v) > Q(lim)) return true; } }
    return false;
  }
  bool kf9(const ref::Union& S, size_t n, const Sys* before = 0) {
    if (!bounded_int() || !kf("KF-C03-9")) return false;
    ref::Union u(S); if (before && before->n == n) u.push_back(*before);
    if (!near_overflow(u, n)) return false;
    c.excluded("KF-C03-9"); return true;
  }

  // KF-C03-10: floating-point boxes: constraint propagation (Box(ph, POLYNOMIAL/SIMPLEX), refine_with_constraint(s) with a
  // non-interval constraint) is unsound: a coefficient that is not exactly representable is rounded in the wrong direction, and a bound
  // that is exact may be made open because the FPU inexact flag was raised by an intermediate operation.
  static bool float_box() { return TR::kind == 0 && TR::extreme >= 100; }
  static bool unrepresentable(const RCon& rc) { mpz_class lim = 1; lim <<= 24; for (size_t j = 0; j < rc.e.a.size(); ++j) if (abs(rc.e.a[j]) >= lim) return true; return abs(rc.e.b) >= lim; }

  // ---- verdict after a mutator --------------------------------------------
  // S: exact result as a union; mode: 'E' exact if EXACT, 'B' best if EXACT, 'S' sound only
  void settle(Obj& o, const char* op, const ref::Union& S, char mode) {
    D cp(o.d); Sys got = EXACT ? (t.chance(50) ? read(cp, o.n) : to_ref(min_cs(cp), o.n)) : to_ref(min_cs(cp), o.n);
    std::string id = std::string("op.") + op;
    bool skip = !EXACT && kf9(S, o.n, &o.m);
    for (size_t i = 0; i < S.size() && !skip; ++i)
      c.check(id + ".sound", ref::included(S[i], got), [&] { return std::string(TR::name()) + "::" + op + " cut points of the exact result: got " + show_sys(got) + " exact piece " + show_sys(S[i]); });
    if (EXACT) c.check(id + ".OK", cp.OK(), "OK() false after the operation");
    bool enlarged = false;
    if (EXACT && mode != 'S') {
      Sys e(o.n);
      if (mode == 'E') { // exact: the union must be a single piece equal to got (or empty)
        if (S.size() == 1) e = S[0]; else { e = alpha(S, o.n, TR::kind, TR::strict); }
        c.check(id + ".exact", ref::equal(got, e), [&] { return std::string(TR::name()) + "::" + op + " not exact: got " + show_sys(got) + " expected " + show_sys(e); });
      } else {
        e = alpha(S, o.n, TR::kind, TR::strict);
        c.check(id + ".best", ref::equal(got, e), [&] { return std::string(TR::name()) + "::" + op + " is not the smallest element containing the exact result: got " + show_sys(got) + " expected " + show_sys(e); });
      }
    }
    if (!EXACT) { for (size_t i = 0; i < S.size() && !enlarged; ++i) {} ref::Union g; g.push_back(got); try { enlarged = !ref::union_included(g, S); } catch (ref::Budget_Exceeded&) { enlarged = false; } if (enlarged) { ++nt_steps; c.tag(std::string("rounded-or-inexpressible ") + TR::name()); } }
    o.m = EXACT ? got : small(o.d, o.n); note_state(o);
  }
  void settle1(Obj& o, const char* op, const Sys& s, char mode) { ref::Union u; u.push_back(s); settle(o, op, u, mode); }
  bool interesting(const Sys& m) { return !ref::is_empty(m) && !ref::is_universe(m); }

  Obj& partner(Obj& o) {
    size_t self = &o - &pool[0];
    std::vector<size_t> cand; for (size_t i = 0; i < pool.size(); ++i) if (i != self && pool[i].n == o.n) cand.push_back(i);
    if (cand.empty()) { size_t i = self == 0 ? 1 : 0; pool[i].d = o.d; pool[i].m = o.m; pool[i].n = o.n; c.log << "  (obj" << i << " := copy of obj" << self << ")\n"; return pool[i]; }
    return pool[cand[t.range(0, (long) cand.size() - 1)]];
  }
  void arg_unchanged(Obj& q, const Sys& before, const char* op) {
    if (!EXACT) return;      // equality of descriptions is only meaningful for exact bounds (see small/big)
    Sys got = snapshot(q.d, q.n);
    c.check(std::string("op.") + op + ".const_arg", ref::equal(got, before), [&] { return std::string(op) + " changed its const argument: now " + show_sys(got) + " was " + show_sys(before); });
  }

  // is the relation  x_k' sym (rhs)/den  expressible exactly in the domain (syntactic, conservative)?
  bool expressible(size_t k, const LE& rhs, const mpz_class& den) {
    size_t nz = 0, j = 0; for (size_t i = 0; i < rhs.a.size(); ++i) if (rhs.a[i] != 0) { ++nz; j = i; }
    if (nz == 0) return true;
    if (nz > 1) return false;
    if (TR::kind == 0) return j == k;
    if (rhs.a[j] == den) return true;
    if (TR::kind == 2 && rhs.a[j] == -den) return true;
    return false;
  }
  static void add_rel(Sys& s, size_t n, const LE& lhs, int sym, const LE& rhs, const mpz_class& den, bool with_frame) {
    Con c; c.a.assign(2 * n, Q(0));
    for (size_t j = 0; j < n; ++j) { c.a[n + j] += Q(den) * Q(lhs.a[j]); c.a[j] -= Q(rhs.a[j]); }
    c.b = Q(den) * Q(lhs.b) - Q(rhs.b);
    int sy = sym; if (den < 0) sy = 4 - sym;
    if (sy == 2) c.r = ref::EQ; else if (sy == 3) c.r = ref::GE; else if (sy == 4) c.r = ref::GT;
    else { for (size_t t = 0; t < c.a.size(); ++t) c.a[t] = -c.a[t]; c.b = -c.b; c.r = (sy == 1) ? ref::GE : ref::GT; }
    s.add(c);
    if (with_frame) for (size_t i = 0; i < n; ++i) if (lhs.a[i] == 0) { Con f; f.a.assign(2 * n, Q(0)); f.a[i] = 1; f.a[n + i] = -1; f.b = 0; f.r = ref::EQ; s.add(f); }
  }
  static Sys rel_apply(const Sys& p, size_t n, const std::vector<Con>& rel, bool image) {
    if (ref::is_empty(p)) return ref::empty_sys(n);
    Sys s(2 * n);
    for (size_t i = 0; i < p.cs.size(); ++i) { Con c; c.a.assign(2 * n, Q(0)); for (size_t j = 0; j < n; ++j) c.a[(image ? 0 : n) + j] = p.cs[i].a[j]; c.b = p.cs[i].b; c.r = p.cs[i].r; s.add(c); }
    for (size_t i = 0; i < rel.size(); ++i) s.add(rel[i]);
    if (image) for (size_t i = 0; i < s.cs.size(); ++i) { Vec a(2 * n); for (size_t j = 0; j < n; ++j) { a[j] = s.cs[i].a[n + j]; a[n + j] = s.cs[i].a[j]; } s.cs[i].a = a; }
    return ref::project_last(s, n);
  }

  void mutate_image(Obj& o) {
    size_t n = o.n; if (n == 0) return;
    int op = (int) t.range(0, 7);
    size_t k = t.range(0, (long) n - 1);
    LE rhs(n), rhs2(n);
    // mostly domain-shaped right-hand sides, sometimes general ones
    auto gen_rhs = [&](LE& e) { if (t.chance(65)) { size_t j = t.range(0, (long) n - 1); int w = t.weighted({20, 40, 25, 15}); e.a[j] = w == 0 ? 0 : w == 1 ? 1 : w == 2 ? -1 : t.range(-3, 3); e.b = gen_bound(); } else { e = gen_le(t, n, false); for (size_t j = 0; j < n; ++j) if (t.chance(40)) e.a[j] = 0; } };
    gen_rhs(rhs); gen_rhs(rhs2);
    mpz_class den = t.pick(std::vector<long>{1, 1, 1, -1, 2, -2, 3});
    if (t.chance(60)) { for (size_t j = 0; j < n; ++j) { rhs.a[j] *= den; rhs2.a[j] *= den; } }   // make coefficient == +-den likely
    int sym = (int) t.range(TR::strict ? 0 : 1, TR::strict ? 4 : 3);
    LE var(n); var.a[k] = 1;
    Sys tmp(2 * n); bool image = true; const char* name = ""; bool expr_ok = expressible(k, rhs, den);
    // The following Box operators are known to be wrong (and may leave an inconsistent object): under the finding they are NOT executed.
    // KF-C03-2: Box::generalized_affine_preimage(lhs, relsym, rhs) is computed as an image of a sign-swapped relation: unsound
    if (TR::kind == 0 && op == 5 && kf("KF-C03-2")) { c.excluded("KF-C03-2"); c.log << "  (generalized_affine_preimage(lhs, ...) not executed: KF-C03-2)\n"; return; }
    // KF-C03-7: Box::generalized_affine_image(lhs, relsym, rhs) cuts points of the exact image
    if (TR::kind == 0 && op == 4 && kf("KF-C03-7")) { c.excluded("KF-C03-7"); c.log << "  (generalized_affine_image(lhs, ...) not executed: KF-C03-7)\n"; return; }
    // KF-C03-4: Box::bounded_affine_image cuts points of the exact image
    if (TR::kind == 0 && op == 6 && kf("KF-C03-4")) { c.excluded("KF-C03-4"); c.log << "  (bounded_affine_image not executed: KF-C03-4)\n"; return; }
    // KF-C03-5: Box::generalized_affine_preimage(var, relsym, expr, d) with var not occurring in expr cuts points of the exact preimage
    if (TR::kind == 0 && op == 3 && rhs.a[k] == 0 && sym != 2 && kf("KF-C03-5")) { c.excluded("KF-C03-5"); c.log << "  (generalized_affine_preimage not executed: KF-C03-5)\n"; return; }
    switch (op) {
    case 0: name = "affine_image"; c.log << "  affine_image x" << k << " := (" << rhs.str() << ")/" << den << "\n"; o.d.affine_image(Variable(k), rhs.ppl(), Coefficient(den)); add_rel(tmp, n, var, 2, rhs, den, true); break;
    case 1: name = "affine_preimage"; c.log << "  affine_preimage x" << k << " := (" << rhs.str() << ")/" << den << "\n"; o.d.affine_preimage(Variable(k), rhs.ppl(), Coefficient(den)); add_rel(tmp, n, var, 2, rhs, den, true); image = false; break;
    case 2: name = "generalized_affine_image"; c.log << "  generalized_affine_image x" << k << " " << RSN(sym) << " (" << rhs.str() << ")/" << den << "\n"; o.d.generalized_affine_image(Variable(k), RS(sym), rhs.ppl(), Coefficient(den)); add_rel(tmp, n, var, sym, rhs, den, true); break;
    case 3: name = "generalized_affine_preimage"; c.log << "  generalized_affine_preimage x" << k << " " << RSN(sym) << " (" << rhs.str() << ")/" << den << "\n"; o.d.generalized_affine_preimage(Variable(k), RS(sym), rhs.ppl(), Coefficient(den)); add_rel(tmp, n, var, sym, rhs, den, true); image = false; break;
    case 4: { name = "generalized_affine_image_lhs"; LE lhs(n); gen_rhs(lhs); c.log << "  generalized_affine_image " << lhs.str() << " " << RSN(sym) << " " << rhs.str() << "\n";
      o.d.generalized_affine_image(lhs.ppl(), RS(sym), rhs.ppl()); add_rel(tmp, n, lhs, sym, rhs, 1, true); expr_ok = false; break; }
    case 5: { name = "generalized_affine_preimage_lhs"; LE lhs(n); gen_rhs(lhs); c.log << "  generalized_affine_preimage " << lhs.str() << " " << RSN(sym) << " " << rhs.str() << "\n"; o.d.generalized_affine_preimage(lhs.ppl(), RS(sym), rhs.ppl()); add_rel(tmp, n, lhs, sym, rhs, 1, true); image = false; expr_ok = false; break; }
    case 6: name = "bounded_affine_image"; c.log << "  bounded_affine_image (" << rhs.str() << ")/" << den << " <= x" << k << " <= (" << rhs2.str() << ")/" << den << "\n";
      o.d.bounded_affine_image(Variable(k), rhs.ppl(), rhs2.ppl(), Coefficient(den)); add_rel(tmp, n, var, 3, rhs, den, true); { Sys t2(2 * n); add_rel(t2, n, var, 1, rhs2, den, false); tmp.cs.push_back(t2.cs[0]); } expr_ok = false; break;
    default: name = "bounded_affine_preimage"; c.log << "  bounded_affine_preimage (" << rhs.str() << ")/" << den << " <= x" << k << " <= (" << rhs2.str() << ")/" << den << "\n";
      // KF-C03-1: Box::bounded_affine_preimage divides by the coefficient of var in a bound expression: SIGFPE when it is zero
      if (TR::kind == 0 && (rhs.a[k] == 0 || rhs2.a[k] == 0) && kf("KF-C03-1")) { c.excluded("KF-C03-1"); c.log << "   (not executed: KF-C03-1)\n"; return; }
      o.d.bounded_affine_preimage(Variable(k), rhs.ppl(), rhs2.ppl(), Coefficient(den)); add_rel(tmp, n, var, 3, rhs, den, true); { Sys t2(2 * n); add_rel(t2, n, var, 1, rhs2, den, false); tmp.cs.push_back(t2.cs[0]); } image = false; expr_ok = false; break;
    }
    c.tag(std::string("op ") + name + (expr_ok ? " expressible" : " general"));
    Sys e = rel_apply(o.m, n, tmp.cs, image);
    // exactness only claimed for plain affine image/preimage with an expressible relation
    char mode = (expr_ok && op <= 1) ? 'E' : 'S';
    // KF-C04-1: the shapes' affine_preimage forgets `var' without first imposing var == expr when
    // var does not occur in expr (non-invertible): sound but not exact although expressible
    if (mode == 'E' && op == 1 && rhs.a[k] == 0 && EXACT && kf("KF-C04-1")) { c.excluded("KF-C04-1"); mode = 'S'; }
    settle1(o, name, e, mode);
  }

  void mutate(Obj& o) {
    size_t n = o.n; bool was = interesting(o.m);
    int op = t.weighted({12, 8, 8, 10, 8, 14, 6, 6, 3, 4, 3, 3, 3, 3, 3, 3, 3});
    switch (op) {
    case 0: { RCon rc = gen_shape_con(n); c.log << "  add_constraint " << str(rc) << "\n"; o.d.add_constraint(to_ppl(rc)); Sys e = o.m; e.add(to_refcon(rc));
      // exact when the bound is representable: rational instances only
      settle1(o, "add_constraint", e, 'E'); break; }
    case 1: { // refine_with_constraint(s): arbitrary constraints, sandwich
      int m = (int) t.range(1, 2); Constraint_System cs; cs.set_space_dimension(n); Sys lo = o.m, before = o.m; c.log << "  refine_with_constraints {";
      bool shaped = true, unrep = false;
      Constraint first = Constraint::zero_dim_positivity();
      for (int i = 0; i < m; ++i) { bool general = t.chance(50); RCon rc = general ? gen_con(t, n, wit, true, t.chance(15)) : gen_shape_con(n); if (general) shaped = false; if (general && unrepresentable(rc)) unrep = true; c.log << (i ? ", " : "") << str(rc); cs.insert(to_ppl(rc)); if (i == 0) first = to_ppl(rc); lo.add(to_refcon(rc)); }
      c.log << "}\n";
      if (m == 1 && t.chance(50)) o.d.refine_with_constraint(first); else o.d.refine_with_constraints(cs);
      (void) unrep;
      if (float_box() && !shaped && kf("KF-C03-10")) { c.excluded("KF-C03-10"); o.m = small(o.d, n); note_state(o); break; }
      settle1(o, "refine_with_constraints", lo, 'S');
      if (EXACT) c.check("op.refine_with_constraints.upper", ref::included(o.m, before), [&] { return "refine_with_constraints enlarged the receiver: " + show_sys(o.m) + " was " + show_sys(before); });
      (void) shaped; break; }
    case 2: { Obj& q = partner(o); c.log << "  intersection_assign obj" << (&q - &pool[0]) << "\n"; Sys e = ref::meet(o.m, q.m), qm = q.m; o.d.intersection_assign(q.d); settle1(o, "intersection_assign", e, 'E'); arg_unchanged(q, qm, "intersection_assign"); break; }
    case 3: { Obj& q = partner(o); c.log << "  upper_bound_assign obj" << (&q - &pool[0]) << "\n"; ref::Union S; S.push_back(o.m); S.push_back(q.m); Sys qm = q.m; o.d.upper_bound_assign(q.d); settle(o, "upper_bound_assign", S, 'B'); arg_unchanged(q, qm, "upper_bound_assign"); break; }
    case 4: { Obj& q = partner(o); c.log << "  difference_assign obj" << (&q - &pool[0]) << "\n"; ref::Union S = ref::difference(o.m, q.m); Sys qm = q.m; o.d.difference_assign(q.d);
      if (S.empty()) S.push_back(ref::empty_sys(n));
      settle(o, "difference_assign", S, 'B'); arg_unchanged(q, qm, "difference_assign"); break; }
    case 5: mutate_image(o); break;
    case 6: { if (n == 0) break; Sys e = o.m;
      if (t.chance(60)) { size_t k = t.range(0, (long) n - 1); c.log << "  unconstrain x" << k << "\n"; o.d.unconstrain(Variable(k)); e = ref::unconstrain(e, k); }
      else { Variables_Set vs; c.log << "  unconstrain {"; for (size_t k = 0; k < n; ++k) if (t.chance(40)) { vs.insert(Variable(k)); e = ref::unconstrain(e, k); c.log << " x" << k; } c.log << " }\n"; o.d.unconstrain(vs); }
      settle1(o, "unconstrain", e, 'E'); break; }
    case 7: { // time_elapse: sound only (DESIGN App. A)
      Obj& q = partner(o); c.log << "  time_elapse_assign obj" << (&q - &pool[0]) << "\n"; Sys pm = o.m, qm = q.m;
      o.d.time_elapse_assign(q.d);
      Sys e(n);
      if (ref::is_empty(pm) || ref::is_empty(qm)) e = ref::empty_sys(n);
      else { size_t N = 3 * n + 1; Sys L(N);
        for (size_t i = 0; i < pm.cs.size(); ++i) { Con r; r.a.assign(N, Q(0)); for (size_t j = 0; j < n; ++j) r.a[n + j] = pm.cs[i].a[j]; r.b = pm.cs[i].b; r.r = pm.cs[i].r; L.add(r); }
        for (size_t i = 0; i < qm.cs.size(); ++i) { Con r; r.a.assign(N, Q(0)); for (size_t j = 0; j < n; ++j) r.a[2 * n + j] = qm.cs[i].a[j]; r.a[3 * n] = qm.cs[i].b; r.b = 0; r.r = qm.cs[i].r; L.add(r); }
        { Con r; r.a.assign(N, Q(0)); r.a[3 * n] = 1; r.b = 0; r.r = ref::GT; L.add(r); }
        for (size_t j = 0; j < n; ++j) { Con eq; eq.a.assign(N, Q(0)); eq.a[j] = 1; eq.a[n + j] = -1; eq.a[2 * n + j] = -1; eq.b = 0; eq.r = ref::EQ; L.add(eq); }
        e = ref::project_last(L, 2 * n + 1); }
      ref::Union S; S.push_back(e); if (!ref::is_empty(qm)) S.push_back(pm);
      settle(o, "time_elapse_assign", S, 'S'); arg_unchanged(q, qm, "time_elapse_assign"); break; }
    case 8: { c.log << "  topological_closure_assign\n"; Sys e = ref::is_empty(o.m) ? ref::empty_sys(n) : ref::closure(o.m); o.d.topological_closure_assign(); settle1(o, "topological_closure_assign", e, 'E'); break; }
    case 9: { if (n >= 4) break; size_t m = t.range(1, 2); bool emb = t.chance(50); c.log << "  add_space_dimensions_and_" << (emb ? "embed " : "project ") << m << "\n";
      Sys e = emb ? ref::embed(o.m, m) : ref::project(o.m, m); if (emb) o.d.add_space_dimensions_and_embed(m); else o.d.add_space_dimensions_and_project(m); o.n = n + m; settle1(o, "add_space_dimensions", e, 'E'); break; }
    case 10: { if (n == 0) break; std::set<size_t> rm; Variables_Set vs; bool higher = t.chance(30);
      if (higher) { size_t nd = t.range(0, (long) n); for (size_t k = nd; k < n; ++k) rm.insert(k); c.log << "  remove_higher_space_dimensions " << nd << "\n"; }
      else { c.log << "  remove_space_dimensions {"; for (size_t k = 0; k < n; ++k) if (t.chance(35)) { rm.insert(k); vs.insert(Variable(k)); c.log << " x" << k; } c.log << " }\n"; }
      Sys e = ref::remove_dims(o.m, rm); if (higher) o.d.remove_higher_space_dimensions(n - rm.size()); else o.d.remove_space_dimensions(vs); o.n = n - rm.size(); settle1(o, "remove_space_dimensions", e, 'B'); break; }
    case 11: { if (n == 0) break; Partial_Function pf; std::vector<long> img(n, -1); std::vector<size_t> keep; for (size_t k = 0; k < n; ++k) if (t.chance(75)) keep.push_back(k);
      std::vector<size_t> perm(keep.size()); for (size_t i = 0; i < perm.size(); ++i) perm[i] = i; for (size_t i = perm.size(); i > 1; --i) std::swap(perm[i - 1], perm[t.range(0, (long) i - 1)]);
      c.log << "  map_space_dimensions {"; for (size_t i = 0; i < keep.size(); ++i) { pf.insert(keep[i], perm[i]); img[keep[i]] = (long) perm[i]; c.log << " x" << keep[i] << "->x" << perm[i]; } c.log << " }\n";
      std::set<size_t> rm; for (size_t k = 0; k < n; ++k) if (img[k] < 0) rm.insert(k); Sys pr = ref::remove_dims(o.m, rm); std::vector<size_t> mp; for (size_t k = 0; k < n; ++k) if (img[k] >= 0) mp.push_back((size_t) img[k]);
      Sys e = ref::rename(pr, mp, keep.size()); o.d.map_space_dimensions(pf); o.n = keep.size(); settle1(o, "map_space_dimensions", e, 'B'); break; }
    case 12: { if (n == 0 || n >= 4) break; size_t k = t.range(0, (long) n - 1), m = t.range(1, 2); c.log << "  expand_space_dimension x" << k << " by " << m << "\n";
      Sys e = ref::embed(o.m, m); for (size_t j = 0; j < m; ++j) { std::vector<size_t> mp(n); for (size_t i = 0; i < n; ++i) mp[i] = i; mp[k] = n + j; e = ref::meet(e, ref::rename(o.m, mp, n + m)); }
      if (ref::is_empty(o.m)) e = ref::empty_sys(n + m); o.d.expand_space_dimension(Variable(k), m); o.n = n + m; settle1(o, "expand_space_dimension", e, 'B'); break; }
    case 13: { if (n < 2) break; size_t dest = t.range(0, (long) n - 1); Variables_Set vs; std::set<size_t> fold; for (size_t k = 0; k < n; ++k) if (k != dest && t.chance(45)) { vs.insert(Variable(k)); fold.insert(k); }
      c.log << "  fold_space_dimensions {"; for (size_t k : fold) c.log << " x" << k; c.log << " } into x" << dest << "\n";
      ref::Union S; size_t n2 = n - fold.size(); std::vector<size_t> srcs(fold.begin(), fold.end()); srcs.push_back(dest);
      for (size_t si = 0; si < srcs.size(); ++si) { size_t v = srcs[si]; std::set<size_t> rm; for (size_t u : srcs) if (u != v) rm.insert(u); Sys pr = ref::remove_dims(o.m, rm);
        std::vector<size_t> remaining; for (size_t k = 0; k < n; ++k) if (!rm.count(k)) remaining.push_back(k); std::vector<size_t> newidx(n, 0); { size_t idx = 0; for (size_t k = 0; k < n; ++k) if (!fold.count(k)) newidx[k] = idx++; }
        std::vector<size_t> mp(remaining.size()); for (size_t i = 0; i < remaining.size(); ++i) mp[i] = (remaining[i] == v) ? newidx[dest] : newidx[remaining[i]]; S.push_back(ref::rename(pr, mp, n2)); }
      o.d.fold_space_dimensions(vs, Variable(dest)); o.n = n2; settle(o, "fold_space_dimensions", S, 'B'); break; }
    case 14: { Obj& q = pool[t.range(0, (long) pool.size() - 1)]; if (n + q.n > 5 || &q == &o) break; c.log << "  concatenate_assign obj" << (&q - &pool[0]) << "\n"; Sys e = ref::concatenate(o.m, q.m), qm = q.m; size_t qn = q.n;
      o.d.concatenate_assign(q.d); o.n = n + qn; settle1(o, "concatenate_assign", e, 'E'); arg_unchanged(q, qm, "concatenate_assign"); break; }
    case 15: { // upper_bound_assign_if_exact (exact instances: verdict; others: sound)
      Obj& q = partner(o); c.log << "  upper_bound_assign_if_exact obj" << (&q - &pool[0]) << "\n"; Sys pm = o.m, qm = q.m;
      bool r = try_ub_if_exact(o.d, q.d);
      ref::Union u; u.push_back(pm); u.push_back(qm);
      if (EXACT) { Sys a = alpha(u, n, TR::kind, TR::strict); bool exact = ref::covered(a, u);
        // KF-C04-2: Box::upper_bound_assign_if_exact misses exact unions (false negatives)
        if (TR::kind == 0 && !r && exact && kf("KF-C04-2")) c.excluded("KF-C04-2");
        else c.check("op.upper_bound_assign_if_exact.verdict", r == exact, [&] { return std::string(TR::name()) + "::upper_bound_assign_if_exact returned " + (r ? "true" : "false") + " but the union " + (exact ? "is" : "is not") + " an element of the domain: P=" + show_sys(pm) + " Q=" + show_sys(qm); }); }
      if (r) settle(o, "upper_bound_assign_if_exact", u, 'B'); else settle1(o, "upper_bound_assign_if_exact.unchanged", pm, 'E');
      break; }
    default: { // simplify_using_context_assign
      Obj& q = partner(o); c.log << "  simplify_using_context_assign obj" << (&q - &pool[0]) << "\n"; Sys pm = o.m, qm = q.m;
      // KF-C03-3: Octagonal_Shape::simplify_using_context_assign can run into PPL_UNREACHABLE (abort)
      if (TR::kind == 2 && kf("KF-C03-3")) { c.excluded("KF-C03-3"); c.log << "   (not executed: KF-C03-3)\n"; break; }
      bool r = o.d.simplify_using_context_assign(q.d);
      Sys got = EXACT ? snapshot(o.d, n) : big(o.d, n); bool meet_empty = ref::is_empty(ref::meet(pm, qm));
      if (EXACT) c.check("op.simplify_using_context.verdict", r == !meet_empty, [&] { return std::string("returned ") + (r ? "true" : "false") + " but P /\\ Q is " + (meet_empty ? "empty" : "non-empty") + " P=" + show_sys(pm) + " Q=" + show_sys(qm); });
      else if (!r) c.check("op.simplify_using_context.verdict_false", meet_empty, [&] { return "returned false but P /\\ Q is non-empty: P=" + show_sys(pm) + " Q=" + show_sys(qm); });
      if (r) { c.check("op.simplify_using_context.meet_lower", ref::included(ref::meet(pm, qm), ref::meet(got, qm)), [&] { return "result /\\ Q lost points of P /\\ Q: " + show_sys(got); });
        /* meet-preservation from above is not stated by C03/C04 for the shapes: not checked */ }
      o.m = EXACT ? got : small(o.d, n); note_state(o); break; }
    }
    if (was && EXACT) ++nt_steps;
  }
  bool try_ub_if_exact(D& a, const D& b) {
    if constexpr (TR::extreme >= 100 && TR::kind != 0) { D h(a); h.upper_bound_assign(b); bool r = (h == a) || (h == b); if (r) a = h; return r; }   // not offered for floating-point shapes: emulate the trivial cases
    else return a.upper_bound_assign_if_exact(b);
  }

  // ---- observers -----------------------------------------------------------
  void observe(Obj& o) {
    size_t n = o.n; const D& d = o.d; const Sys& m = o.m; bool emp = ref::is_empty(m);
    int q = (int) t.range(0, 15);
    // exact instances: answer must equal the model's; others: definite answers must be true
    auto ck2 = [&](const char* id, bool r, bool e, const std::function<std::string()>& msg) { if (EXACT) c.check(id, r == e, [&] { return msg() + " [model " + show_sys(m) + "]"; }); else c.check(id, !r || e, [&] { return msg() + " (definite answer not true) [model " + show_sys(m) + "]"; }); };
    std::string st = status(d); if (st.find("-SPC") != std::string::npos || st.find("-SC") != std::string::npos || st.find("+SPR") != std::string::npos || st.find("-EUP") != std::string::npos) o.odd_state = true;
    switch (q) {
    case 0: { bool r = d.is_empty(); c.log << "  ? is_empty -> " << r << "\n"; ck2("q.is_empty", r, emp, [&] { return std::string("is_empty() = ") + (r ? "true" : "false"); }); break; }
    case 1: { bool r = d.is_universe(); c.log << "  ? is_universe -> " << r << "\n"; ck2("q.is_universe", r, !emp && ref::is_universe(m), [&] { return std::string("is_universe() = ") + (r ? "true" : "false"); }); break; }
    case 2: { bool r = d.is_bounded(); c.log << "  ? is_bounded -> " << r << "\n"; ck2("q.is_bounded", r, ref::is_bounded(m), [&] { return std::string("is_bounded() = ") + (r ? "true" : "false"); }); break; }
    case 3: { size_t r = d.affine_dimension(); c.log << "  ? affine_dimension -> " << r << "\n"; if (EXACT) c.check("q.affine_dimension", r == (emp ? 0 : ref::affine_dim(m)), [&] { return "affine_dimension() = " + std::to_string(r) + " [model " + show_sys(m) + "]"; }); break; }
    case 4: case 5: case 6: case 7: { Obj& y = partner(o); int w = q - 4; bool r, e; const char* nm;
      if (w == 0) { nm = "contains"; r = d.contains(y.d); e = ref::included(y.m, m); }
      else if (w == 1) { nm = "strictly_contains"; r = d.strictly_contains(y.d); e = ref::included(y.m, m) && !ref::included(m, y.m); }
      else if (w == 2) { nm = "is_disjoint_from"; r = d.is_disjoint_from(y.d); e = ref::disjoint(m, y.m); }
      else { nm = "=="; r = (d == y.d); e = ref::equal(m, y.m); }
      c.log << "  ? " << nm << " obj" << (&y - &pool[0]) << " -> " << r << "\n";
      ck2((std::string("q.") + nm).c_str(), r, e, [&] { return std::string(nm) + " answered " + (r ? "true" : "false") + " for argument " + show_sys(y.m); }); break; }
    case 8: case 9: { RCon rc = t.chance(50) ? gen_shape_con(n) : gen_con(t, n, wit, true, t.chance(50));
      Constraint pc = to_ppl(rc); Poly_Con_Relation r = Poly_Con_Relation::nothing();
      try { r = d.relation_with(pc); } catch (std::invalid_argument&) { c.log << "  ? relation_with " << str(rc) << " -> invalid_argument (not in the domain's class)\n"; break; }
      Con cc = to_refcon(rc); Con hyp = cc; hyp.r = ref::EQ; Sys mc(m); mc.add(cc);
      bool dis = ref::is_empty(mc), inc = ref::included_in_con(m, cc), sat = ref::included_in_con(m, hyp);
      std::ostringstream rs; rs << r; c.log << "  ? relation_with " << str(rc) << " -> " << rs.str() << "\n";
      if (EXACT) { Poly_Con_Relation e = Poly_Con_Relation::nothing(); if (dis) e = e && Poly_Con_Relation::is_disjoint(); if (inc) e = e && Poly_Con_Relation::is_included(); if (sat) e = e && Poly_Con_Relation::saturates(); if (!dis && !inc) e = e && Poly_Con_Relation::strictly_intersects();
        std::ostringstream es; es << e; c.check("q.relation_with_constraint", r == e, [&] { return "relation_with(" + str(rc) + ") = " + rs.str() + ", expected " + es.str() + " [model " + show_sys(m) + "]"; }); }
      else { c.check("q.relation_with_constraint.disjoint", !r.implies(Poly_Con_Relation::is_disjoint()) || dis, [&] { return "claims is_disjoint for " + str(rc) + " [model " + show_sys(m) + "]"; });
        c.check("q.relation_with_constraint.included", !r.implies(Poly_Con_Relation::is_included()) || inc, [&] { return "claims is_included for " + str(rc) + " [model " + show_sys(m) + "]"; });
        c.check("q.relation_with_constraint.saturates", !r.implies(Poly_Con_Relation::saturates()) || sat, [&] { return "claims saturates for " + str(rc) + " [model " + show_sys(m) + "]"; }); }
      break; }
    case 10: { // relation_with(generator)
      int kind = n == 0 ? 2 : t.weighted({15, 25, 60}); LE e(n); for (size_t j = 0; j < n; ++j) e.a[j] = t.range(-3, 3); if (kind < 2 && e.all_zero()) e.a[0] = 1; long dv = kind == 2 ? t.pick(std::vector<long>{1, 1, 2, 3}) : 1;
      Generator g = kind == 0 ? Generator::line(e.ppl()) : kind == 1 ? Generator::ray(e.ppl()) : Generator::point(e.ppl(), dv); Vec v = e.vec(); if (kind == 2) for (size_t j = 0; j < n; ++j) v[j] = mkq(e.a[j], dv);
      Poly_Gen_Relation r = d.relation_with(g); bool sub;
      if (emp) sub = false; else if (kind == 2) sub = m.sat(v); else if (kind == 1) sub = ref::in_recession_cone(m, v); else { Vec mv(v); for (size_t j = 0; j < n; ++j) mv[j] = -mv[j]; sub = ref::in_recession_cone(m, v) && ref::in_recession_cone(m, mv); }
      std::ostringstream gs; gs << g; c.log << "  ? relation_with " << gs.str() << " -> " << (r == Poly_Gen_Relation::subsumes() ? "subsumes" : "nothing") << "\n";
      ck2("q.relation_with_generator", r == Poly_Gen_Relation::subsumes(), sub, [&] { return "relation_with(" + gs.str() + ")"; }); break; }
    case 11: { if (n == 0) break; size_t k = t.range(0, (long) n - 1); bool r = d.constrains(Variable(k)); c.log << "  ? constrains x" << k << " -> " << r << "\n";
      if (EXACT) c.check("q.constrains", r == ref::constrains(m, k), [&] { return "constrains(x" + std::to_string(k) + ") = " + (r ? "true" : "false") + " [model " + show_sys(m) + "]"; }); break; }
    case 12: case 13: case 14: { LE e = gen_le(t, n, false); if (t.chance(50)) { for (size_t j = 0; j < n; ++j) e.a[j] = 0; if (n) { e.a[t.range(0, (long) n - 1)] = t.pick(std::vector<long>{1, -1}); if (TR::kind >= 1 && t.chance(50)) e.a[t.range(0, (long) n - 1)] = t.pick(std::vector<long>{1, -1}); } }
      bool maxi = t.chance(50); Q v; bool att = false; bool fin = emp ? false : (maxi ? ref::sup(m, e.vec(), Q(e.b), v, att) : ref::inf(m, e.vec(), Q(e.b), v, att));
      if (q == 12) { bool r = maxi ? d.bounds_from_above(e.ppl()) : d.bounds_from_below(e.ppl()); c.log << "  ? bounds_from_" << (maxi ? "above " : "below ") << e.str() << " -> " << r << "\n";
        ck2("q.bounds", r, emp || fin, [&] { return "bounds_from_" + std::string(maxi ? "above(" : "below(") + e.str() + ")"; }); break; }
      Coefficient num, dn; bool mx; Generator g = Generator::zero_dim_point(); bool withg = q == 14;
      bool r = withg ? (maxi ? d.maximize(e.ppl(), num, dn, mx, g) : d.minimize(e.ppl(), num, dn, mx, g)) : (maxi ? d.maximize(e.ppl(), num, dn, mx) : d.minimize(e.ppl(), num, dn, mx));
      c.log << "  ? " << (maxi ? "maximize " : "minimize ") << e.str() << " -> " << r; if (r) c.log << " " << num << "/" << dn << (mx ? " attained" : " not attained"); c.log << "\n";
      if (EXACT) { c.check("q.optimize.bounded", r == fin, [&] { return std::string(maxi ? "maximize(" : "minimize(") + e.str() + ") returned " + (r ? "true" : "false") + " [model " + show_sys(m) + "]"; });
        if (r && fin) { Q got = mkq(mpz_class(num), mpz_class(dn)); c.check("q.optimize.value", got == v, [&] { return std::string(maxi ? "maximize(" : "minimize(") + e.str() + ") = " + got.get_str() + ", exact " + v.get_str() + " [model " + show_sys(m) + "]"; });
          c.check("q.optimize.attained", mx == att, [&] { return "attained flag wrong for " + e.str() + " [model " + show_sys(m) + "]"; });
          if (withg) { Vec gv = gen_vec(g, n); Q ev = Q(e.b); for (size_t j = 0; j < n; ++j) ev += Q(e.a[j]) * gv[j]; c.check("q.optimize.witness", ev == v && ref::closure(m).sat(gv) && (!att || m.sat(gv)), [&] { std::ostringstream s; s << "witness " << g << " invalid [model " << show_sys(m) << "]"; return s.str(); }); } } }
      else if (r && !emp && bounded_int() && kf("KF-C03-9") && fin && abs(v) > Q(mpz_class(1) << (unsigned) (TR::extreme - 2))) c.excluded("KF-C03-9");
      else if (r && !emp) { // a reported bound must be a sound bound
        Q got = mkq(mpz_class(num), mpz_class(dn)); c.check("q.optimize.sound", fin && (maxi ? got >= v : got <= v), [&] { return std::string(maxi ? "maximize(" : "minimize(") + e.str() + ") = " + got.get_str() + " is not a bound of the set [model " + show_sys(m) + "]"; }); }
      break; }
    default: { Sys a = to_ref(min_cs(d), n), b = read(d, n); c.log << "  ? minimized_constraints\n";
      if (!EXACT) c.check("q.minimized_constraints.sound", ref::included(m, a) && ref::included(m, b), [&] { return "a description of the object cuts points of its tightest description: minimized " + show_sys(a) + " full " + show_sys(b) + " [model " + show_sys(m) + "]"; });
      else c.check("q.minimized_constraints", ref::equal(a, b) && ref::equal(a, m), [&] { return "minimized_constraints() " + show_sys(a) + " and constraints() " + show_sys(b) + " differ, or an observer changed the value [model " + show_sys(m) + "]"; }); break; }
    }
    // observers never change the value
    if (EXACT && t.chance(30)) { Sys now = snapshot(d, n); c.check("q.observer_changed_value", ref::equal(now, m), [&] { return "value changed by an observer: now " + show_sys(now) + " was " + show_sys(m); }); }
    note_state(o);
  }

  void run() {
    // KF-C03-9 (overflow in bounded-integer shapes) also leaves Not-a-Number entries behind: reading such an object
    // throws std::domain_error.  Under the known finding the case ends there.
    try { run_body(); }
    catch (std::domain_error&) { if (bounded_int() && kf("KF-C03-9")) { c.excluded("KF-C03-9"); return; } throw; }
  }
  void run_body() {
    size_t n = (size_t) t.weighted({4, 26, 45, 25});
    wit.resize(8); for (size_t j = 0; j < 8; ++j) wit[j] = t.range(-2, 2);
    c.log << "program " << TR::name() << " dim " << n << (EXACT ? " (exact)" : " (soundness)") << "\n";
    size_t k = (size_t) t.range(2, 3); pool.reserve(4);
    for (size_t i = 0; i < k; ++i) { c.log << " obj" << i << ":\n"; make_obj(n); note_state(pool.back()); }
    int steps = 0;
    while (!t.exhausted() && steps < 12) {
      ++steps; size_t i = t.range(0, (long) pool.size() - 1); Obj& o = pool[i];
      int what = t.weighted({50, 35, 15}); c.log << " step " << steps << " obj" << i << ":\n";
      if (what == 0) mutate(o); else if (what == 1) observe(o);
      else { size_t j = t.range(0, (long) pool.size() - 1); if (t.chance(50)) { c.log << "  obj" << i << " = obj" << j << "\n"; o.d = pool[j].d; o.m = pool[j].m; o.n = pool[j].n; } else if (i != j) { c.log << "  swap obj" << i << " obj" << j << "\n"; o.d.m_swap(pool[j].d); std::swap(o.m, pool[j].m); std::swap(o.n, pool[j].n); } note_state(o); }
    }
    // final: every object still denotes its model; equal sets compare equal whatever their history
    for (size_t i = 0; i < pool.size(); ++i) { Obj& o = pool[i]; Sys now = snapshot(o.d, o.n);
      if (!EXACT) c.check("final.value.sound", ref::included(o.m, big(o.d, o.n)), [&] { return "object lost points of its model: " + show_sys(now) + " vs " + show_sys(o.m); });
      else c.check("final.value", ref::equal(now, o.m), [&] { return "object no longer denotes its model: " + show_sys(now) + " vs " + show_sys(o.m); });
      if (EXACT) c.check("final.OK", o.d.OK(), "OK() false at the end");
      if (EXACT) { D alt(o.n, UNIVERSE); Constraint_System cs = min_cs(o.d); alt.refine_with_constraints(cs);
        c.check("final.equal_sets_compare_equal", alt == o.d && alt.contains(o.d) && o.d.contains(alt), [&] { return "object differs from an equal set rebuilt from its minimized constraints " + show_sys(o.m); }); } }
    if (EXACT) { bool odd = false; for (size_t i = 0; i < pool.size(); ++i) if (pool[i].states.size() >= 2) odd = true; if (nt_steps >= 1 && odd) c.nt(); }
    else if (nt_steps >= 1) c.nt();
  }
};

void vf_case(Ctx& c) {
#if defined(VF_C04)
  switch (c.t.range(0, 2)) { case 0: { Prog<BD_Shape<mpq_class> > p(c); p.run(); break; } case 1: { Prog<Octagonal_Shape<mpq_class> > p(c); p.run(); break; } default: { Prog<Rational_Box> p(c); p.run(); } }
#elif defined(VF_G1)
  switch (c.t.range(0, 4)) { case 0: { Prog<BD_Shape<mpq_class> > p(c); p.run(); break; } case 1: { Prog<BD_Shape<int8_t> > p(c); p.run(); break; } case 2: { Prog<BD_Shape<double> > p(c); p.run(); break; } case 3: { Prog<BD_Shape<mpz_class> > p(c); p.run(); break; } default: { Prog<BD_Shape<int32_t> > p(c); p.run(); } }
#elif defined(VF_G2)
  switch (c.t.range(0, 4)) { case 0: { Prog<Octagonal_Shape<mpq_class> > p(c); p.run(); break; } case 1: { Prog<Octagonal_Shape<int8_t> > p(c); p.run(); break; } case 2: { Prog<Octagonal_Shape<double> > p(c); p.run(); break; } case 3: { Prog<Octagonal_Shape<mpz_class> > p(c); p.run(); break; } default: { Prog<Octagonal_Shape<float> > p(c); p.run(); } }
#elif defined(VF_G3)
  // KF-C03-8: boxes over integer boundary types round fractional / strict bounds inwards (integer-point semantics):
  // real points of the exact result are cut.  Under the known finding only the other box instances are run.
  long w = c.t.range(0, 5);
  if (kf("KF-C03-8") && (w == 1 || w == 2 || w == 4)) { c.excluded("KF-C03-8"); w = w == 1 ? 0 : w == 2 ? 3 : 5; }
  switch (w) { case 0: { Prog<Rational_Box> p(c); p.run(); break; } case 1: { Prog<Z_Box> p(c); p.run(); break; } case 2: { Prog<Int8_Box> p(c); p.run(); break; } case 3: { Prog<Double_Box> p(c); p.run(); break; } case 4: { Prog<Uint8_Box> p(c); p.run(); break; } default: { Prog<Float_Box> p(c); p.run(); } }
#elif defined(VF_G4)
  switch (c.t.range(0, 7)) { case 0: { Prog<BD_Shape<int16_t> > p(c); p.run(); break; } case 1: { Prog<BD_Shape<int64_t> > p(c); p.run(); break; } case 2: { Prog<BD_Shape<float> > p(c); p.run(); break; } case 3: { Prog<Octagonal_Shape<int16_t> > p(c); p.run(); break; }
    case 4: { Prog<Octagonal_Shape<int64_t> > p(c); p.run(); break; } case 5: { Prog<Octagonal_Shape<long double> > p(c); p.run(); break; }
    case 6: { if (kf("KF-C03-8")) { c.excluded("KF-C03-8"); Prog<Long_Double_Box> p(c); p.run(); } else { Prog<Int32_Box> p(c); p.run(); } break; } default: { Prog<Long_Double_Box> p(c); p.run(); } }
#endif
}
VF_MAIN
