// C05: generated programs over a pool of Grid objects, each carrying an exact lattice model
// (ref/reflattice.hh: point + Z-span(parameters) + R-span(lines), own Hermite reduction).
#include "ppl-config.h"
#include "ppl_include_files.hh"
#include "reflattice_x.hh"
#include "common.hh"

using namespace Parma_Polyhedra_Library;
using namespace Parma_Polyhedra_Library::IO_Operators;
using namespace vf;
using rl::Q; using rl::Vec;

const vf::Info vf_info = { "C05", "grid_prog", 2.5 };

struct Cg { std::vector<long> a; long b; long f; };   // a.x + b = 0 (mod f)
static Congruence to_ppl(const Cg& c) { Linear_Expression e; for (size_t j = c.a.size(); j-- > 0; ) if (c.a[j]) e += c.a[j] * Variable(j); e += c.b; return (e %= 0) / c.f; }
static std::string str(const Cg& c) { std::ostringstream o; bool first = true; for (size_t j = 0; j < c.a.size(); ++j) if (c.a[j]) { o << (first ? "" : " + ") << c.a[j] << "*x" << j; first = false; } if (first || c.b) o << (first ? "" : " + ") << c.b; o << " = 0 (mod " << c.f << ")"; return o.str(); }
static void fold(rl::Grid& g, const Cg& c) { Vec a(g.n, Q(0)); for (size_t j = 0; j < c.a.size(); ++j) a[j] = c.a[j]; g.add_congruence(a, Q(-c.b), Q(c.f)); }
static Q mk(const mpz_class& n, const mpz_class& d) { Q q(n, d); q.canonicalize(); return q; }

static rl::Grid model_of_congruences(const Congruence_System& cgs, size_t n) {
  rl::Grid g(n);
  for (Congruence_System::const_iterator i = cgs.begin(); i != cgs.end(); ++i) {
    Vec a(n, Q(0)); for (size_t j = 0; j < i->space_dimension(); ++j) a[j] = Q(mpz_class(i->coefficient(Variable(j))));
    g.add_congruence(a, Q(mpz_class(-i->inhomogeneous_term())), Q(mpz_class(i->modulus())));
  }
  return g;
}
static rl::Grid model_of_generators(const Grid_Generator_System& gs, size_t n) {
  rl::Grid g = rl::Grid::make_empty(n);
  for (Grid_Generator_System::const_iterator i = gs.begin(); i != gs.end(); ++i) if (i->is_point()) {
    Vec v(n, Q(0)); for (size_t j = 0; j < i->space_dimension(); ++j) v[j] = mk(mpz_class(i->coefficient(Variable(j))), mpz_class(i->divisor())); g.add_point(v); }
  if (g.empty) return g;
  for (Grid_Generator_System::const_iterator i = gs.begin(); i != gs.end(); ++i) if (!i->is_point()) {
    Vec v(n, Q(0)); for (size_t j = 0; j < i->space_dimension(); ++j) v[j] = Q(mpz_class(i->coefficient(Variable(j))));
    if (i->is_parameter()) { for (size_t j = 0; j < n; ++j) v[j] = mk(v[j].get_num(), mpz_class(i->divisor())); g.add_param(v); } else g.add_line(v); }
  return g;
}
template <typename T> static std::string dump_of(const T& x) { std::ostringstream o; x.ascii_dump(o); return o.str(); }

struct Prog {
  Ctx& c; Tape& t;
  struct Obj { Grid g; rl::Grid m; size_t n; std::set<std::string> states; Obj(size_t n_) : g(n_), m(n_), n(n_) {} };
  std::vector<Obj> pool; int nt_steps = 0;
  Prog(Ctx& c_) : c(c_), t(c_.t) {}

  std::string status(const Grid& g) { std::string d = dump_of(g); size_t a = d.find('\n'); size_t b = d.find('\n', a + 1); return d.substr(a + 1, b - a - 1); }
  void note_state(Obj& o) { std::string s = status(o.g); o.states.insert(s); c.tag("state " + s); }

  Cg gen_cg(size_t n, bool allow_proper = true) {
    Cg cg; cg.a.resize(n); for (size_t j = 0; j < n; ++j) cg.a[j] = t.chance(35) ? 0 : t.range(-3, 3); cg.b = t.range(-4, 4);
    cg.f = allow_proper ? t.pick(std::vector<long>{0, 1, 2, 3, 4, 6}) : 0;
    if (t.chance(8)) { for (size_t j = 0; j < n; ++j) cg.a[j] = 0; }    // constant congruence (tautology / inconsistency)
    return cg;
  }
  // library grid generator + model vector; kind 0 point, 1 parameter, 2 line
  Grid_Generator gen_gg(size_t n, int& kind, Vec& v, std::string& txt) {
    Linear_Expression e; v.assign(n, Q(0)); std::vector<long> a(n); bool zero = true;
    for (size_t j = 0; j < n; ++j) { a[j] = t.range(-3, 3); if (a[j]) zero = false; }
    if (kind != 0 && zero) { if (n == 0) kind = 0; else { a[0] = 1; } }
    for (size_t j = n; j-- > 0; ) if (a[j]) e += a[j] * Variable(j);
    if (n > 0 && e.space_dimension() < n) e += 0 * Variable(n - 1);      // full space dimension
    long d = kind == 2 ? 1 : t.pick(std::vector<long>{1, 1, 2, 3});
    std::ostringstream s;
    for (size_t j = 0; j < n; ++j) v[j] = mk(a[j], d);
    Grid_Generator g = kind == 0 ? grid_point(e, d) : kind == 1 ? parameter(e, d) : grid_line(e);
    s << g; txt = s.str(); return g;
  }

  // ------------------------------------------------------------ descriptions vs model
  void verify(Obj& o, const char* where) {
    Grid cp(o.g); const Grid& g = t.chance(60) ? cp : o.g; size_t n = o.n;
    int order = (int) t.range(0, 3); rl::Grid mc(n), mg(n), mmc(n), mmg(n);
    for (int k = 0; k < 4; ++k) { int w = (k + order) % 4;
      if (w == 0) mc = model_of_congruences(g.congruences(), n); else if (w == 1) mg = model_of_generators(g.grid_generators(), n);
      else if (w == 2) mmc = model_of_congruences(g.minimized_congruences(), n); else mmg = model_of_generators(g.minimized_grid_generators(), n); }
    std::string pre = std::string(where) + ": ";
    c.check("desc.congruences", mc.equals(o.m), [&] { return pre + "congruences() denote " + mc.show() + ", model " + o.m.show(); });
    c.check("desc.grid_generators", mg.equals(o.m), [&] { return pre + "grid_generators() denote " + mg.show() + ", model " + o.m.show(); });
    c.check("desc.minimized_congruences", mmc.equals(o.m), [&] { return pre + "minimized_congruences() denote " + mmc.show() + ", model " + o.m.show(); });
    c.check("desc.minimized_grid_generators", mmg.equals(o.m), [&] { return pre + "minimized_grid_generators() denote " + mmg.show() + ", model " + o.m.show(); });
    if (!g.OK()) c.tag("OK-false at verify");
  }
  // independent point check: membership in a window of (1/2)Z^n decided from the library's congruences
  void window(Obj& o) {
    size_t n = o.n; if (n == 0 || n > 3) return;
    Grid cp(o.g); const Congruence_System& cgs = cp.congruences(); bool lib_empty = cp.is_empty();
    std::vector<long> idx(n, -4);
    for (;;) {
      Vec x(n); for (size_t j = 0; j < n; ++j) x[j] = mk(idx[j], 2);
      bool s = !lib_empty;
      for (Congruence_System::const_iterator i = cgs.begin(); i != cgs.end() && s; ++i) {
        Q v = Q(mpz_class(i->inhomogeneous_term())); for (size_t j = 0; j < i->space_dimension(); ++j) v += Q(mpz_class(i->coefficient(Variable(j)))) * x[j];
        if (i->is_equality()) s = v == 0; else { Q r = v / Q(mpz_class(i->modulus())); s = r.get_den() == 1; } }
      c.check("desc.window", s == o.m.contains_point(x), [&] { std::ostringstream m; m << "point ("; for (size_t j = 0; j < n; ++j) m << (j ? "," : "") << x[j]; m << ") membership by the library's congruences = " << s << ", model " << o.m.show(); return m.str(); });
      size_t j = 0; while (j < n && ++idx[j] > 4) { idx[j] = -4; ++j; }
      if (j == n) break;
    }
  }

  void make_obj(size_t n) {
    Obj o(n); int kind = t.weighted({45, 35, 8, 12});
    if (kind == 0) { int m = (int) t.range(0, 4); c.log << "  new Grid(dim " << n << ") from congruences {";
      Congruence_System cgs; cgs.set_space_dimension(n);
      for (int i = 0; i < m; ++i) { Cg cg = gen_cg(n); c.log << (i ? ", " : "") << str(cg); cgs.insert(to_ppl(cg)); fold(o.m, cg); }
      c.log << "}\n"; o.g = t.chance(50) ? Grid(cgs) : [&] { Grid g(n); g.add_congruences(cgs); return g; }(); }
    else if (kind == 1) { int k = (int) t.range(1, 4); Grid_Generator_System gs; o.m = rl::Grid::make_empty(n); c.log << "  new Grid(dim " << n << ") from generators {";
      for (int i = 0; i < k; ++i) { int gk = i == 0 ? 0 : t.weighted({30, 45, 25}); Vec v; std::string txt; Grid_Generator g = gen_gg(n, gk, v, txt); c.log << (i ? ", " : "") << txt; gs.insert(g);
        if (gk == 0) o.m.add_point(v); else if (gk == 1) o.m.add_param(v); else o.m.add_line(v); }
      c.log << "}\n"; o.g = Grid(gs); }
    else if (kind == 2) { c.log << "  new Grid(dim " << n << ", UNIVERSE)\n"; }
    else { c.log << "  new Grid(dim " << n << ", EMPTY)\n"; o.g = Grid(n, EMPTY); o.m = rl::Grid::make_empty(n); }
    pool.push_back(o);
  }
  Obj& partner(Obj& o) {
    size_t self = &o - &pool[0]; std::vector<size_t> cand; for (size_t i = 0; i < pool.size(); ++i) if (i != self && pool[i].n == o.n) cand.push_back(i);
    if (cand.empty()) { size_t i = self == 0 ? 1 : 0; pool[i].g = o.g; pool[i].m = o.m; pool[i].n = o.n; c.log << "  (obj" << i << " := copy of obj" << self << ")\n"; return pool[i]; }
    return pool[cand[t.range(0, (long) cand.size() - 1)]];
  }
  void settle(Obj& o, const char* op, const rl::Grid& expected) {
    Grid cp(o.g); const Grid& g = t.chance(25) ? o.g : cp;
    rl::Grid got = t.chance(50) ? model_of_congruences(g.congruences(), o.n) : model_of_generators(g.grid_generators(), o.n);
    bool ok = got.equals(expected);
    if (!ok && muted().count(std::string("op.") + op)) { o.m = got; note_state(o); return; }     // survey mode: resynchronise the model
    c.check(std::string("op.") + op, ok, [&] { return std::string(op) + ": expected " + expected.show() + " got " + got.show(); });
    if (!g.OK()) c.tag(std::string("OK-false after ") + op);     // class invariant: a lead, not part of C05
    o.m = expected; note_state(o);
  }
  void arg_unchanged(Obj& q, const rl::Grid& before, const char* op) {
    Grid cp(q.g); rl::Grid got = model_of_congruences(cp.congruences(), q.n);
    c.check(std::string("op.") + op + ".const_arg", got.equals(before), [&] { return std::string(op) + " changed its const argument: now " + got.show() + " was " + before.show(); });
  }
  bool interesting(const rl::Grid& m) { return !m.empty && m.lines.size() < m.n && !(m.params.empty() && m.lines.empty()); }

  void mutate(Obj& o) {
    size_t n = o.n; bool was = interesting(o.m);
    int op = t.weighted({12, 10, 8, 8, 6, 12, 8, 6, 6, 4, 4, 4, 3, 3, 3, 3});
    switch (op) {
    case 0: { // add_congruence(s) / refine_with_congruence(s)
      int m = (int) t.range(1, 2); Congruence_System cgs; cgs.set_space_dimension(n); rl::Grid e = o.m; std::vector<Cg> v; c.log << "  add_congruences {";
      for (int i = 0; i < m; ++i) { Cg cg = gen_cg(n); v.push_back(cg); c.log << (i ? ", " : "") << str(cg); cgs.insert(to_ppl(cg)); fold(e, cg); } c.log << "}\n";
      int how = (int) t.range(0, 3);
      if (m == 1 && how <= 1) { if (how == 0) o.g.add_congruence(to_ppl(v[0])); else o.g.refine_with_congruence(to_ppl(v[0])); }
      else if (how <= 1) o.g.add_congruences(cgs); else if (how == 2) o.g.refine_with_congruences(cgs); else o.g.add_recycled_congruences(cgs);
      settle(o, "add_congruences", e); break; }
    case 1: { // add_constraint (equality) / refine_with_constraint
      Cg cg = gen_cg(n, false); Linear_Expression e; for (size_t j = n; j-- > 0; ) if (cg.a[j]) e += cg.a[j] * Variable(j); e += cg.b;
      bool refine = t.chance(40); c.log << "  " << (refine ? "refine_with_constraint " : "add_constraint ") << str(cg) << "\n";
      if (refine) o.g.refine_with_constraint(e == 0); else o.g.add_constraint(e == 0);
      rl::Grid ex = o.m; fold(ex, cg); settle(o, "add_constraint", ex); break; }
    case 2: { // add_grid_generator(s)
      bool emp = o.m.empty; int k = (int) t.range(1, 2); Grid_Generator_System gs; rl::Grid e = o.m; std::string all; Grid_Generator first = grid_point();
      for (int i = 0; i < k; ++i) { int gk = (emp && i == 0) ? 0 : t.weighted({40, 40, 20}); Vec v; std::string txt; Grid_Generator g = gen_gg(n, gk, v, txt); if (i == 0) first = g; gs.insert(g); all += (i ? ", " : "") + txt;
        if (gk == 0) e.add_point(v); else if (gk == 1) e.add_param(v); else e.add_line(v); }
      c.log << "  add_grid_generators {" << all << "}\n";
      if (k == 1 && t.chance(50)) o.g.add_grid_generator(first); else if (t.chance(50)) o.g.add_grid_generators(gs); else o.g.add_recycled_grid_generators(gs);
      settle(o, "add_grid_generators", e); break; }
    case 3: { Obj& q = partner(o); c.log << "  intersection_assign obj" << (&q - &pool[0]) << "\n"; rl::Grid e = rl::intersect(o.m, q.m), qm = q.m; o.g.intersection_assign(q.g); settle(o, "intersection_assign", e); arg_unchanged(q, qm, "intersection_assign"); break; }
    case 4: { Obj& q = partner(o); c.log << "  upper_bound_assign obj" << (&q - &pool[0]) << "\n"; rl::Grid e = o.m, qm = q.m; e.join(q.m); o.g.upper_bound_assign(q.g); settle(o, "upper_bound_assign", e); arg_unchanged(q, qm, "upper_bound_assign"); break; }
    case 5: case 6: { // affine image / preimage, generalized with modulus
      if (n == 0) break; size_t k = t.range(0, (long) n - 1); Vec e(n); Linear_Expression le; for (size_t j = n; j-- > 0; ) { long a = t.chance(40) ? 0 : t.range(-3, 3); e[j] = a; if (a) le += a * Variable(j); } long e0 = t.range(-3, 3); le += e0;
      long d = t.pick(std::vector<long>{1, 1, -1, 2, -2, 3}); int which = (int) t.range(0, 3); long mod = t.pick(std::vector<long>{0, 0, 1, 2, 3});
      std::ostringstream es; es << le;
      if (which == 0) { c.log << "  affine_image x" << k << " := (" << es.str() << ")/" << d << "\n"; rl::Grid ex = o.m; ex.affine_image(k, e, Q(e0), Q(d)); o.g.affine_image(Variable(k), le, d); settle(o, "affine_image", ex); }
      else if (which == 1) { c.log << "  affine_preimage x" << k << " := (" << es.str() << ")/" << d << "\n"; rl::Grid ex = rl::affine_preimage(o.m, k, e, Q(e0), Q(d)); o.g.affine_preimage(Variable(k), le, d); settle(o, "affine_preimage", ex); }
      else if (which == 2) { c.log << "  generalized_affine_image x" << k << " = (" << es.str() << ")/" << d << " (mod " << mod << ")\n"; rl::Grid ex = o.m; ex.affine_image(k, e, Q(e0), Q(d)); if (!ex.empty && mod) { Vec u(n, Q(0)); u[k] = mod; ex.add_param(u); }
        o.g.generalized_affine_image(Variable(k), EQUAL, le, d, mod); settle(o, "generalized_affine_image", ex); }
      else if (mod != 0 && kf("KF-C05-1")) { c.excluded("KF-C05-1"); c.log << "  (generalized_affine_preimage with a modulus: KF-C05-1)\n"; }
      else { c.log << "  generalized_affine_preimage x" << k << " = (" << es.str() << ")/" << d << " (mod " << mod << ")\n"; rl::Grid gm = o.m; if (!gm.empty && mod) { Vec u(n, Q(0)); u[k] = mod; gm.add_param(u); }
        rl::Grid ex = rl::affine_preimage(gm, k, e, Q(e0), Q(d)); o.g.generalized_affine_preimage(Variable(k), EQUAL, le, d, mod); settle(o, "generalized_affine_preimage", ex); }
      break; }
    case 7: { if (n == 0) break; rl::Grid e = o.m; if (t.chance(60)) { size_t k = t.range(0, (long) n - 1); c.log << "  unconstrain x" << k << "\n"; if (!e.empty) { Vec u(n, Q(0)); u[k] = 1; e.add_line(u); } o.g.unconstrain(Variable(k)); }
      else { Variables_Set vs; c.log << "  unconstrain {"; for (size_t k = 0; k < n; ++k) if (t.chance(40)) { vs.insert(Variable(k)); c.log << " x" << k; if (!e.empty) { Vec u(n, Q(0)); u[k] = 1; e.add_line(u); } } c.log << " }\n"; o.g.unconstrain(vs); }
      settle(o, "unconstrain", e); break; }
    case 8: { Obj& q = partner(o); c.log << "  difference_assign obj" << (&q - &pool[0]) << "\n"; rl::Grid e = rl::difference(o.m, q.m), qm = q.m; o.g.difference_assign(q.g); settle(o, "difference_assign", e); arg_unchanged(q, qm, "difference_assign"); break; }
    case 9: { Obj& q = partner(o); c.log << "  time_elapse_assign obj" << (&q - &pool[0]) << "\n"; rl::Grid e = rl::Grid::make_empty(n), qm = q.m;
      if (!o.m.empty && !q.m.empty) { e = o.m; e.add_param(q.m.p); for (size_t i = 0; i < q.m.params.size(); ++i) e.add_param(q.m.params[i]); for (size_t i = 0; i < q.m.lines.size(); ++i) e.add_line(q.m.lines[i]); }
      o.g.time_elapse_assign(q.g); settle(o, "time_elapse_assign", e); arg_unchanged(q, qm, "time_elapse_assign"); break; }
    case 10: { if (n >= 4) break; size_t m = t.range(1, 2); bool emb = t.chance(50);
      // KF-C05-2: projecting the zero-dimensional universe grid gives the universe instead of the origin (tests/Grid/addspacedims1 test17 expects that)
      if (!emb && n == 0 && !o.m.empty && kf("KF-C05-2")) { c.excluded("KF-C05-2"); emb = true; }
      c.log << "  add_space_dimensions_and_" << (emb ? "embed " : "project ") << m << "\n"; rl::Grid e = emb ? rl::embed(o.m, m) : rl::project(o.m, m);
      if (emb) o.g.add_space_dimensions_and_embed(m); else o.g.add_space_dimensions_and_project(m); o.n = n + m; settle(o, "add_space_dimensions", e); break; }
    case 11: { if (n == 0) break; std::vector<long> keep(n, -1); Variables_Set vs; bool higher = t.chance(30); size_t n2 = 0;
      if (higher) { size_t nd = t.range(0, (long) n); for (size_t k = 0; k < nd; ++k) keep[k] = (long) n2++; c.log << "  remove_higher_space_dimensions " << nd << "\n"; o.g.remove_higher_space_dimensions(nd); }
      else { c.log << "  remove_space_dimensions {"; for (size_t k = 0; k < n; ++k) if (t.chance(35)) { vs.insert(Variable(k)); c.log << " x" << k; } else keep[k] = (long) n2++; c.log << " }\n"; o.g.remove_space_dimensions(vs); }
      rl::Grid e = rl::remap(o.m, keep, n2); o.n = n2; settle(o, "remove_space_dimensions", e); break; }
    case 12: { if (n == 0) break; Partial_Function pf; std::vector<long> img(n, -1); std::vector<size_t> kp; for (size_t k = 0; k < n; ++k) if (t.chance(75)) kp.push_back(k);
      std::vector<size_t> perm(kp.size()); for (size_t i = 0; i < perm.size(); ++i) perm[i] = i; for (size_t i = perm.size(); i > 1; --i) std::swap(perm[i - 1], perm[t.range(0, (long) i - 1)]);
      c.log << "  map_space_dimensions {"; for (size_t i = 0; i < kp.size(); ++i) { pf.insert(kp[i], perm[i]); img[kp[i]] = (long) perm[i]; c.log << " x" << kp[i] << "->x" << perm[i]; } c.log << " }\n";
      rl::Grid e = rl::remap(o.m, img, kp.size()); o.g.map_space_dimensions(pf); o.n = kp.size(); settle(o, "map_space_dimensions", e); break; }
    case 13: { Obj& q = pool[t.range(0, (long) pool.size() - 1)]; if (&q == &o || n + q.n > 5) break; c.log << "  concatenate_assign obj" << (&q - &pool[0]) << "\n"; rl::Grid e = rl::concatenate(o.m, q.m), qm = q.m; size_t qn = q.n;
      o.g.concatenate_assign(q.g); o.n = n + qn; settle(o, "concatenate_assign", e); arg_unchanged(q, qm, "concatenate_assign"); break; }
    case 14: { Obj& q = partner(o); c.log << "  upper_bound_assign_if_exact obj" << (&q - &pool[0]) << "\n"; rl::Grid pm = o.m; bool exact = rl::union_is_grid(o.m, q.m); bool r = o.g.upper_bound_assign_if_exact(q.g);
      c.check("op.upper_bound_assign_if_exact.verdict", r == exact, [&] { return std::string("returned ") + (r ? "true" : "false") + " but the union " + (exact ? "is" : "is not") + " a grid: " + pm.show() + " / " + q.m.show(); });
      rl::Grid e = pm; if (r) e.join(q.m); settle(o, "upper_bound_assign_if_exact", e); break; }
    default: { // expand / fold
      if (n == 0 || n >= 4) break;
      if (t.chance(50)) { size_t k = t.range(0, (long) n - 1); c.log << "  expand_space_dimension x" << k << " by 1\n"; rl::Grid e = rl::embed(o.m, 1);
        if (!o.m.empty) { std::vector<rl::Cong> cs = rl::congruences_of(o.m); for (size_t i = 0; i < cs.size(); ++i) { Vec a = cs[i].a; a.resize(n + 1, Q(0)); a[n] = a[k]; a[k] = 0; e.add_congruence(a, cs[i].b, cs[i].f); } }
        o.g.expand_space_dimension(Variable(k), 1); o.n = n + 1; settle(o, "expand_space_dimension", e); }
      else if (n >= 2) { size_t dest = t.range(0, (long) n - 1); size_t src = t.range(0, (long) n - 2); if (src >= dest) ++src; Variables_Set vs; vs.insert(Variable(src)); c.log << "  fold_space_dimensions { x" << src << " } into x" << dest << "\n";
        std::vector<long> k1(n, -1), k2(n, -1); { size_t idx = 0; for (size_t k = 0; k < n; ++k) if (k != src) k1[k] = (long) idx++; } for (size_t k = 0; k < n; ++k) k2[k] = k1[k]; k2[src] = k1[dest]; k2[dest] = -1;
        rl::Grid e = rl::remap(o.m, k1, n - 1); e.join(rl::remap(o.m, k2, n - 1)); o.g.fold_space_dimensions(vs, Variable(dest)); o.n = n - 1; settle(o, "fold_space_dimensions", e); }
      break; }
    }
    if (was) ++nt_steps;
  }

  void observe(Obj& o) {
    size_t n = o.n; const Grid& g = o.g; const rl::Grid& m = o.m; int q = (int) t.range(0, 15);
    auto ck = [&](const char* id, bool ok, const std::function<std::string()>& msg) { c.check(id, ok, [&] { return msg() + " [model " + m.show() + "]"; }); };
    switch (q) {
    case 0: { bool r = g.is_empty(); c.log << "  ? is_empty -> " << r << "\n"; ck("q.is_empty", r == m.empty, [&] { return std::string("is_empty() wrong"); }); break; }
    case 1: { bool r = g.is_universe(); c.log << "  ? is_universe -> " << r << "\n"; ck("q.is_universe", r == (!m.empty && m.lines.size() == n), [&] { return std::string("is_universe() = ") + (r ? "true" : "false"); }); break; }
    case 2: { bool r = g.is_discrete(); c.log << "  ? is_discrete -> " << r << "\n"; ck("q.is_discrete", r == (m.empty || m.lines.empty()), [&] { return std::string("is_discrete() wrong"); }); break; }
    case 3: { bool r = g.is_bounded(); c.log << "  ? is_bounded -> " << r << "\n"; ck("q.is_bounded", r == (m.empty || (m.lines.empty() && m.params.empty())), [&] { return std::string("is_bounded() wrong"); }); break; }
    case 4: { size_t r = g.affine_dimension(); c.log << "  ? affine_dimension -> " << r << "\n"; ck("q.affine_dimension", r == (m.empty ? 0 : rl::dim(m)), [&] { return "affine_dimension() = " + std::to_string(r); }); break; }
    case 5: case 6: case 7: case 8: { Obj& y = partner(o); int w = q - 5; bool r, e; const char* nm;
      if (w == 0) { nm = "contains"; r = g.contains(y.g); e = m.contains(y.m); } else if (w == 1) { nm = "strictly_contains"; r = g.strictly_contains(y.g); e = m.contains(y.m) && !y.m.contains(m); }
      else if (w == 2) { nm = "is_disjoint_from"; r = g.is_disjoint_from(y.g); e = rl::intersect(m, y.m).empty; } else { nm = "=="; r = (g == y.g); e = m.equals(y.m); }
      c.log << "  ? " << nm << " obj" << (&y - &pool[0]) << " -> " << r << "\n"; ck((std::string("q.") + nm).c_str(), r == e, [&] { return std::string(nm) + " answered " + (r ? "true" : "false") + " for " + y.m.show(); }); break; }
    case 9: { Cg cg = gen_cg(n);
      Poly_Con_Relation r = g.relation_with(to_ppl(cg)); rl::Grid mi = m; fold(mi, cg);
      Poly_Con_Relation e = m.empty ? (Poly_Con_Relation::saturates() && Poly_Con_Relation::is_included() && Poly_Con_Relation::is_disjoint()) : mi.empty ? Poly_Con_Relation::is_disjoint() : mi.equals(m) ? Poly_Con_Relation::is_included() : Poly_Con_Relation::strictly_intersects();
      std::ostringstream rs, es; rs << r; es << e; c.log << "  ? relation_with " << str(cg) << " -> " << rs.str() << "\n";
      bool ok = r == e || (mi.equals(m) && !m.empty && r == (Poly_Con_Relation::is_included() && Poly_Con_Relation::saturates()));
      ck("q.relation_with_congruence", ok, [&] { return "relation_with(" + str(cg) + ") = " + rs.str() + ", expected " + es.str(); }); break; }
    case 10: { // relation_with(constraint)
      Cg cg = gen_cg(n, false); int kind = (int) t.range(0, 2); Linear_Expression le; Vec a(n); for (size_t j = n; j-- > 0; ) { a[j] = cg.a[j]; if (cg.a[j]) le += cg.a[j] * Variable(j); } le += cg.b;
      Constraint pc = kind == 0 ? Constraint(le == 0) : kind == 1 ? Constraint(le >= 0) : Constraint(le > 0); Poly_Con_Relation r = g.relation_with(pc); std::ostringstream rs; rs << r; c.log << "  ? relation_with " << pc << " -> " << rs.str() << "\n";
      Poly_Con_Relation e = Poly_Con_Relation::nothing();
      if (m.empty) e = Poly_Con_Relation::saturates() && Poly_Con_Relation::is_included() && Poly_Con_Relation::is_disjoint();
      else if (kind == 0) { rl::Grid mi = m; fold(mi, cg); e = mi.empty ? Poly_Con_Relation::is_disjoint() : mi.equals(m) ? (Poly_Con_Relation::is_included() && Poly_Con_Relation::saturates()) : Poly_Con_Relation::strictly_intersects(); }
      else if (!rl::constant_on(m, a)) e = Poly_Con_Relation::strictly_intersects();
      else { Q v = rl::dot(a, m.p) + cg.b; if (v > 0) e = Poly_Con_Relation::is_included(); else if (v < 0) e = Poly_Con_Relation::is_disjoint(); else e = kind == 1 ? (Poly_Con_Relation::saturates() && Poly_Con_Relation::is_included()) : (Poly_Con_Relation::saturates() && Poly_Con_Relation::is_disjoint()); }
      std::ostringstream es; es << e; ck("q.relation_with_constraint", r == e || (kind == 2 && e == (Poly_Con_Relation::saturates() && Poly_Con_Relation::is_disjoint()) && r == Poly_Con_Relation::is_disjoint()), [&] { std::ostringstream o2; o2 << "relation_with(" << pc << ") = " << rs.str() << ", expected " << es.str(); return o2.str(); }); break; }
    case 11: { // relation_with(grid generator)
      int gk = t.weighted({40, 35, 25}); Vec v; std::string txt; Grid_Generator gg = gen_gg(n, gk, v, txt);
      if (gk == 0 && !m.empty && t.chance(40)) { v = m.p; for (size_t i = 0; i < m.params.size(); ++i) rl::axpy(v, Q(t.range(-2, 2)), m.params[i]); mpz_class l = 1; for (size_t j = 0; j < n; ++j) l = lcm(l, v[j].get_den()); Linear_Expression le; for (size_t j = n; j-- > 0; ) { Q w = v[j] * l; le += Coefficient(w.get_num()) * Variable(j); } gg = grid_point(le, Coefficient(l)); std::ostringstream s; s << gg; txt = s.str(); }
      Poly_Gen_Relation r = g.relation_with(gg); bool sub;
      if (m.empty) sub = false; else if (gk == 0) sub = m.contains_point(v); else if (gk == 1) sub = m.has_direction(v, true); else { Vec w = v; for (size_t k = 0; k < m.lines.size(); ++k) { Q gq = -w[m.lpiv[k]]; rl::axpy(w, gq, m.lines[k]); } sub = rl::is_zero(w); }
      c.log << "  ? relation_with " << txt << " -> " << (r == Poly_Gen_Relation::subsumes() ? "subsumes" : "nothing") << "\n";
      ck("q.relation_with_grid_generator", (r == Poly_Gen_Relation::subsumes()) == sub, [&] { return "relation_with(" + txt + ") wrong, expected " + (sub ? "subsumes" : "nothing"); }); break; }
    case 12: { // frequency
      Cg cg = gen_cg(n, false); Linear_Expression le; Vec a(n); for (size_t j = n; j-- > 0; ) { a[j] = cg.a[j]; if (cg.a[j]) le += cg.a[j] * Variable(j); } le += cg.b;
      Coefficient fn, fd, vn, vd; bool r = g.frequency(le, fn, fd, vn, vd); Q v0, gq; bool def = !m.empty && rl::value_set(m, a, Q(cg.b), v0, gq);
      c.log << "  ? frequency " << le << " -> " << r << "\n"; ck("q.frequency.defined", r == def, [&] { return std::string("frequency returned ") + (r ? "true" : "false"); });
      if (r && def) { Q f = mk(mpz_class(fn), mpz_class(fd)), val = mk(mpz_class(vn), mpz_class(vd));
        ck("q.frequency.freq", f == gq, [&] { return "frequency " + f.get_str() + ", exact " + gq.get_str(); });
        bool member = gq == 0 ? val == v0 : Q((val - v0) / gq).get_den() == 1; bool canonical = gq == 0 ? true : (abs(val) < gq);      // the documentation says `closest to zero'; the remainder is accepted
        ck("q.frequency.value", member && canonical, [&] { return "value " + val.get_str() + " is not a value (smaller than the frequency) of " + v0.get_str() + " + Z*" + gq.get_str(); }); }
      break; }
    case 13: { // bounds / maximize / minimize
      Cg cg = gen_cg(n, false); if (t.chance(40) && !m.empty) for (size_t j = 0; j < n; ++j) { Vec u(n, Q(0)); u[j] = 1; if (!rl::constant_on(m, u)) cg.a[j] = 0; }
      Linear_Expression le; Vec a(n); for (size_t j = n; j-- > 0; ) { a[j] = cg.a[j]; if (cg.a[j]) le += cg.a[j] * Variable(j); } le += cg.b;
      bool bnd = m.empty || rl::constant_on(m, a); bool maxi = t.chance(50); int how = (int) t.range(0, 2);
      if (how == 0) { bool r = maxi ? g.bounds_from_above(le) : g.bounds_from_below(le); c.log << "  ? bounds " << le << " -> " << r << "\n"; ck("q.bounds", r == bnd, [&] { return std::string("bounds_from_* wrong"); }); break; }
      Coefficient num, den; bool mx; Generator pt = point(); bool r = how == 1 ? (maxi ? g.maximize(le, num, den, mx) : g.minimize(le, num, den, mx)) : (maxi ? g.maximize(le, num, den, mx, pt) : g.minimize(le, num, den, mx, pt));
      c.log << "  ? " << (maxi ? "maximize " : "minimize ") << le << " -> " << r << "\n";
      ck("q.optimize.bounded", r == (!m.empty && bnd), [&] { return std::string("maximize/minimize returned ") + (r ? "true" : "false"); });
      if (r && !m.empty && bnd) { Q v = rl::dot(a, m.p) + cg.b; ck("q.optimize.value", mk(mpz_class(num), mpz_class(den)) == v && mx, [&] { return "optimum " + mk(mpz_class(num), mpz_class(den)).get_str() + ", exact " + v.get_str(); });
        if (how == 2) { Vec pv(n, Q(0)); for (size_t j = 0; j < pt.space_dimension(); ++j) pv[j] = mk(mpz_class(pt.coefficient(Variable(j))), mpz_class(pt.divisor())); ck("q.optimize.witness", m.contains_point(pv), [&] { return std::string("witness point not in the grid"); }); } }
      break; }
    case 14: { if (n == 0) break; size_t k = t.range(0, (long) n - 1); bool r = g.constrains(Variable(k)); Vec u(n, Q(0)); u[k] = 1; bool e = m.empty; if (!e) { Vec w = u; for (size_t l = 0; l < m.lines.size(); ++l) { Q gq = -w[m.lpiv[l]]; rl::axpy(w, gq, m.lines[l]); } e = !rl::is_zero(w); }
      c.log << "  ? constrains x" << k << " -> " << r << "\n"; ck("q.constrains", r == e, [&] { return "constrains(x" + std::to_string(k) + ") wrong"; }); break; }
    default: { bool r = g.is_topologically_closed(); (void) g.hash_code(); (void) g.total_memory_in_bytes(); c.log << "  ? is_topologically_closed -> " << r << "\n"; ck("q.is_topologically_closed", r, [&] { return std::string("a grid is always closed"); }); break; }
    }
    note_state(o);
  }

  void run() {
    size_t n = (size_t) t.weighted({5, 30, 40, 25}); c.log << "program Grid dim " << n << "\n";
    size_t k = (size_t) t.range(2, 3); pool.reserve(4);
    for (size_t i = 0; i < k; ++i) { c.log << " obj" << i << ":\n"; make_obj(n); note_state(pool.back()); }
    int steps = 0;
    while (!t.exhausted() && steps < 14) { ++steps; size_t i = t.range(0, (long) pool.size() - 1); Obj& o = pool[i]; int what = t.weighted({45, 35, 8, 12}); c.log << " step " << steps << " obj" << i << ":\n";
      if (what == 0) mutate(o); else if (what == 1) observe(o);
      else if (what == 2) { size_t j = t.range(0, (long) pool.size() - 1); if (t.chance(50)) { c.log << "  obj" << i << " = obj" << j << "\n"; o.g = pool[j].g; o.m = pool[j].m; o.n = pool[j].n; } else if (i != j) { c.log << "  swap\n"; o.g.m_swap(pool[j].g); std::swap(o.m, pool[j].m); std::swap(o.n, pool[j].n); } note_state(o); }
      else { c.log << "  verify\n"; verify(o, "mid"); } }
    bool varied = false;
    for (size_t i = 0; i < pool.size(); ++i) { verify(pool[i], "final"); window(pool[i]); if (pool[i].states.size() >= 2) varied = true; }
    if (nt_steps >= 1 && varied) c.nt();
  }
};

void vf_case(Ctx& c) { Prog p(c); p.run(); }
VF_MAIN
