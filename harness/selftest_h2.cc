// Self-test of hook H2 (not a registered check): a crash while the condition of a library assertion is evaluated must end the
// process with exit code 39 (reported by the driver as assert:crash-while-evaluating-an-assertion and confirmed in rel);
// the same crash outside an assertion must give 40 + signal.   bin/selftest_h2 --replay <tape with first word 0 or 1>
#include "poly_common.hh"
const vf::Info vf_info = { "C00", "selftest_h2", 1.0 };
#include <csignal>
static bool boom() { std::raise(SIGSEGV); return true; }
void vf_case(vf::Ctx& c) {
  if (c.t.range(0, 1) == 0) { PPL_ASSERT(boom()); } else { (void) boom(); }
}
VF_MAIN
