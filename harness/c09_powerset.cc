// C09: generated programs over a pool of Pointset_Powerset<D> objects, D in
// { C_Polyhedron, NNC_Polyhedron, BD_Shape<mpq_class>, Rational_Box, Grid }, each carrying a model
// (ref::Union = finite union of ref::Sys; for grids a vector<rl::Grid>, see GProg below; grid check ids
// carry the prefix "grid.").  After every step the union of the library's disjuncts (read through the
// const interface: disjunct.constraints() / congruences()) is compared with the union computed by the
// exact reference geometry / lattice model (no PPL code).
// Single-domain variants: bin/c09_powerset@CPOLY, @NNC, @BDS, @BOX, @GRID.
//
// Oracles
//   op.<name>            the union after the operation equals the reference union (element-wise
//                        operators act on every disjunct; binary operators on every pair)
//   op.<name>.base       (shapes/boxes, and operators without exact reference semantics) the union equals
//                        the union of the base-level results computed by the base domain itself on copies
//   difference.*         exact set difference (NNC), its closure (C), sound over-approximation inside
//                        the minuend (shapes, boxes)
//   omega_reduce.* / pairwise_reduce.* / collapse.*   reductions keep the union, do not add disjuncts,
//                        reach their documented normal form; collapse = base-level join, one disjunct
//   q.*                  predicates: geometric covering/equality exact; contains/strictly_contains as
//                        documented (disjunct-wise) and implying geometric covering
//   simplify.*           meet with the context preserved, not more disjuncts, verdict
//   cow.* / arg.*        copies / const arguments keep their value
//   inv.OK               OK() holds after every operation
//
// Non-trivial case: a reduction or a binary operator was applied to a powerset with >= 2 non-empty,
// non-redundant disjuncts of which two overlap or touch.
//
// Known findings (a guard is active only with VERIF_KF_ACTIVE=<id>,...; with no id active the check fails):
//   KF-C09-1  Pointset_Powerset::topological_closure_assign() (Pointset_Powerset_templates.hh:692) and
//             fold_space_dimensions() (:361) modify the disjuncts but keep the `reduced' flag, although closing /
//             folding can make incomparable disjuncts comparable.  Afterwards OK() is false, omega_reduce() is a
//             no-op on a redundant sequence (is_universe()/is_topologically_closed(), which trust the flag, may
//             answer wrongly).  Guarded checks: inv.OK, omega_reduce.nonredundant, q.is_universe,
//             q.is_topologically_closed - only inside the window between such a call and the next operator that
//             resets the flag (the window is inherited by copies and by upper_bound/concatenate results).
//   KF-C09-2  (base level, seen through Pointset_Powerset<Rational_Box>::simplify_using_context_assign with a
//             context of >= 2 disjuncts, or open bounds) Box::simplify_using_context_assign does not preserve the
//             meet: (a) Box_templates.hh:2168 `for (j = num_dims; j-- > i; )' also resets interval i, so a box
//             disjoint from the context becomes the universe; (b) Interval::simplify_using_context_assign
//             (Interval_templates.hh:410, "FIXME ... assumes that intervals are closed") drops an open bound that the
//             closed context bound does not imply.  Guarded check: base.simplify_using_context_assign (Rational_Box
//             only); the powerset-level simplify.* checks are skipped for that step.
//   KF-C09-3  (base level, seen through pairwise_reduce on boxes) Box::upper_bound_assign_if_exact answers false for
//             adjacent half-open intervals such as [-2,-1) and [-1,0): Interval::can_be_exactly_joined_to
//             (Interval_inlines.hh:313) compares an open with a closed boundary by eq().  pairwise_reduce() therefore
//             leaves mergeable boxes.  Guarded check: base.upper_bound_assign_if_exact (Rational_Box, verdict false).
//   KF-C09-4  (base level, seen through Pointset_Powerset<C/NNC_Polyhedron>::simplify_using_context_assign with a
//             context of >= 2 disjuncts) Polyhedron::simplify_using_context_assign may return a polyhedron that is
//             meet-preserving but NOT an enlargement of its first argument (documented: "meet-preserving enlargement
//             simplification"): when an inequality of the *context* is saturated by the whole meet it is taken as a
//             "masked equality" (Polyhedron_public.cc:2534-2560; PPL_ASSERT(i >= y_cs_num_ineq) at :2542 is violated).
//             Pointset_Powerset::intersection_preserving_enlarge_element (Pointset_Powerset_templates.hh:704) meets the
//             later context disjuncts with that result, so the powerset result loses points of X /\ context.
//             e.g. X={x0+x1=2,1<=x0<=3,x1>=-2}, context {[2,3]x[-2,-1]} U {[2,3]x[-1,0]} -> {x0+x1=2, x1<=-1}.
//             Guarded check: base.simplify_using_context_assign.enlargement (polyhedra); powerset-level simplify.*
//             checks are skipped for that step (without the guard the step fails on that check or on simplify.meet).
//   KF-C09-5  (powerset layer, grids) approximate_partition_aux (Pointset_Powerset.cc:132-188) splits a grid by a proper
//             congruence e = n (mod m) of the other grid into the residue classes e = i (mod m), i = 0..m-1 integer
//             (loop at :177-186).  Points of the grid where e is not an integer belong to no class and are lost:
//             Pointset_Powerset<Grid>::difference_assign drops points of X \ Y (X = (1/2)Z, Y = 2Z+1 gives 2Z), and
//             geometrically_covers / geometrically_equals answer true wrongly ({2Z+1} U {2Z} "covers" (1/2)Z).
//             Guarded checks: grid.difference.sound, grid.q.geometrically_covers, grid.q.geometrically_equals, only
//             when a proper congruence of a cutting disjunct takes non-integer values on a disjunct being cut and
//             the error has the direction above (points lost / covering claimed).
#include "poly_common.hh"
#include "reflattice_x.hh"
#include <list>

const vf::Info vf_info = { "C09", "c09_powerset", 4.0 };
using namespace vf;
typedef ref::Union Union;

// ---------------------------------------------------------------- domain traits
template <typename D> struct DT;
template <> struct DT<C_Polyhedron>        { static const char* name() { return "C_Polyhedron"; }   enum { strict = 0, poly = 1, bds = 0, box = 0 }; };
template <> struct DT<NNC_Polyhedron>      { static const char* name() { return "NNC_Polyhedron"; } enum { strict = 1, poly = 1, bds = 0, box = 0 }; };
template <> struct DT<BD_Shape<mpq_class> > { static const char* name() { return "BD_Shape<mpq>"; }  enum { strict = 0, poly = 0, bds = 1, box = 0 }; };
template <> struct DT<Rational_Box>        { static const char* name() { return "Rational_Box"; }   enum { strict = 1, poly = 0, bds = 0, box = 1 }; };

// relation  den*x'_k = rhs(x)  over (x: 0..n-1, x': n..2n-1) with frame x'_i = x_i (i != k)   [from poly_prog.cc]
static std::vector<Con> affine_rel(size_t n, size_t k, const LE& rhs, const mpz_class& den) {
  std::vector<Con> out;
  Con c; c.a.assign(2 * n, Q(0));
  c.a[n + k] += Q(den); for (size_t j = 0; j < n; ++j) c.a[j] -= Q(rhs.a[j]);
  c.b = -Q(rhs.b); c.r = ref::EQ; out.push_back(c);
  for (size_t i = 0; i < n; ++i) if (i != k) { Con f; f.a.assign(2 * n, Q(0)); f.a[i] = 1; f.a[n + i] = -1; f.b = 0; f.r = ref::EQ; out.push_back(f); }
  return out;
}
static Sys rel_apply(const Sys& p, size_t n, const std::vector<Con>& rel, bool image) {
  if (ref::is_empty(p)) return ref::empty_sys(n);
  Sys s(2 * n);
  for (size_t i = 0; i < p.cs.size(); ++i) { Con c; c.a.assign(2 * n, Q(0)); for (size_t j = 0; j < n; ++j) c.a[(image ? 0 : n) + j] = p.cs[i].a[j]; c.b = p.cs[i].b; c.r = p.cs[i].r; s.add(c); }
  for (size_t i = 0; i < rel.size(); ++i) s.add(rel[i]);
  if (image) for (size_t i = 0; i < s.cs.size(); ++i) { Vec a(2 * n); for (size_t j = 0; j < n; ++j) { a[j] = s.cs[i].a[n + j]; a[n + j] = s.cs[i].a[j]; } s.cs[i].a = a; }
  return ref::project_last(s, n);
}

static std::string show_union(const Union& u) { std::ostringstream o; o << "[" << u.size() << ":"; for (size_t i = 0; i < u.size(); ++i) o << (i ? " U " : " ") << ref::show(u[i]); o << " ]"; return o.str(); }
static bool same_syntax(const Union& a, const Union& b) { if (a.size() != b.size()) return false; for (size_t i = 0; i < a.size(); ++i) if (ref::show(a[i]) != ref::show(b[i])) return false; return true; }
// exact covering test: like ref::covered, but disjuncts that do not meet the remaining piece are skipped instead of
// being used to split it (the splitting is what makes the test expensive)
static bool cov(const Sys& p, const Union& u, size_t from, int depth) {
  if (ref::is_empty(p)) return true;
  while (from < u.size() && ref::is_empty(ref::meet(p, u[from]))) ++from;
  if (from == u.size()) return false;
  if (depth > 14) throw ref::Budget_Exceeded();
  Union rest = ref::difference(p, u[from]);
  for (size_t i = 0; i < rest.size(); ++i) if (!cov(rest[i], u, from + 1, depth + 1)) return false;
  return true;
}
static bool u_included(const Union& a, const Union& b) { for (size_t i = 0; i < a.size(); ++i) if (!cov(a[i], b, 0, 0)) return false; return true; }
static bool u_equal(const Union& a, const Union& b) { return same_syntax(a, b) || (u_included(a, b) && u_included(b, a)); }
static bool u_empty(const Union& a) { for (size_t i = 0; i < a.size(); ++i) if (!ref::is_empty(a[i])) return false; return true; }
static Union u_meet(const Union& a, const Union& b) { Union r; for (size_t i = 0; i < a.size(); ++i) for (size_t j = 0; j < b.size(); ++j) r.push_back(ref::meet(a[i], b[j])); return r; }
static Union u_diff(const Union& a, const Union& b) {     // exact, pieces non-empty
  Union r;
  for (size_t i = 0; i < a.size(); ++i) {
    Union cur; if (!ref::is_empty(a[i])) cur.push_back(a[i]);
    for (size_t j = 0; j < b.size(); ++j) { Union nx; for (size_t k = 0; k < cur.size(); ++k) { Union d = ref::difference(cur[k], b[j]); nx.insert(nx.end(), d.begin(), d.end()); } cur.swap(nx); if (cur.size() > 60) throw ref::Budget_Exceeded(); }
    r.insert(r.end(), cur.begin(), cur.end());
  }
  return r;
}

template <typename D> struct Prog {
  typedef Pointset_Powerset<D> PS;
  typedef DT<D> T;
  Ctx& c; Tape& t;
  struct Obj { PS ps; Union m; size_t n; bool stale; Obj(size_t n_) : ps(n_, EMPTY), n(n_), stale(false) {} };
  std::vector<Obj> pool;
  struct Snap { PS ps; Union m; size_t n; std::string what; bool stale; };
  std::vector<Snap> snaps;
  int nt_steps = 0;

  Prog(Ctx& c_) : c(c_), t(c_.t) {}

  // ------------------------------------------------------------ conversions
  static Sys read(const D& d, size_t n) { return to_ref(d.constraints(), n); }
  static Union read(const PS& ps) { Union u; size_t n = ps.space_dimension(); for (typename PS::const_iterator i = ps.begin(), e = ps.end(); i != e; ++i) u.push_back(read(i->pointset(), n)); return u; }
  static D make_dom(const Sys& m) {
    size_t n = m.n; D d(n, UNIVERSE);
    for (size_t i = 0; i < m.cs.size(); ++i) {
      const Con& k = m.cs[i];
      if (k.is_const()) { if (k.const_true()) continue; return D(n, EMPTY); }
      mpz_class l = 1; for (size_t j = 0; j < n; ++j) l = lcm(l, k.a[j].get_den()); l = lcm(l, k.b.get_den());
      Linear_Expression e; for (size_t j = n; j-- > 0; ) { Q v = k.a[j] * l; if (v != 0) e += Coefficient(v.get_num()) * Variable(j); }
      { Q v = k.b * l; e += Coefficient(v.get_num()); }
      if (k.r == ref::EQ) d.add_constraint(e == 0); else if (k.r == ref::GE || !T::strict) d.add_constraint(e >= 0); else d.add_constraint(e > 0);
    }
    return d;
  }
  template <typename F> static Union per_piece(const Union& m, F f) { Union r; for (size_t i = 0; i < m.size(); ++i) { D d = make_dom(m[i]); f(d); r.push_back(read(d, d.space_dimension())); } return r; }

  // ------------------------------------------------------------ generators
  RCon bound(size_t n, size_t j, long v, bool lower, bool strict) { RCon r; r.e = LE(n); r.e.a[j] = lower ? 1 : -1; r.e.b = lower ? -v : v; r.kind = strict ? 2 : 1; return r; }
  // a constraint the domain can represent exactly
  RCon gen_rep_con(size_t n) {
    RCon r; r.e = LE(n);
    size_t j = t.range(0, (long) n - 1);
    int shape = T::poly ? t.weighted({40, 20, 40}) : (T::bds && n >= 2) ? t.weighted({60, 40}) : 0;
    if (shape == 0) { r.e.a[j] = t.chance(50) ? 1 : -1; r.e.b = t.range(-3, 3); }
    else if (shape == 1) { size_t k = (j + 1 + t.range(0, (long) n - 2)) % n; if (n < 2) k = j; r.e.a[j] = 1; if (k != j) r.e.a[k] = -1; r.e.b = t.range(-2, 2); }
    else { for (size_t i = 0; i < n; ++i) r.e.a[i] = t.range(-2, 2); r.e.b = t.range(-3, 3); }
    r.kind = t.weighted({15, 60, T::strict ? 25 : 0});
    return r;
  }
  std::vector<RCon> gen_piece(size_t n) {
    std::vector<RCon> v;
    int shape = t.weighted({76, 6, 6, 12});       // box-like, empty, universe, partly unbounded
    if (shape == 2) return v;
    if (shape == 1) { v.push_back(bound(n, 0, 1, true, false)); v.push_back(bound(n, 0, 0, false, false)); return v; }
    for (size_t j = 0; j < n; ++j) {
      long lo = t.range(-2, 2), len = t.weighted({15, 40, 30, 15});
      int keep = shape == 3 ? 50 : 94;
      bool hasl = !t.chance(100 - keep), hasu = !t.chance(100 - keep);
      if (len == 0 && hasl && hasu && t.chance(50)) { RCon r; r.e = LE(n); r.e.a[j] = 1; r.e.b = -lo; r.kind = 0; v.push_back(r); continue; }
      if (hasl) v.push_back(bound(n, j, lo, true, T::strict && t.chance(25)));
      if (hasu) v.push_back(bound(n, j, lo + len, false, T::strict && t.chance(25)));
    }
    if (!T::box && t.chance(25)) v.push_back(gen_rep_con(n));
    return v;
  }
  static D dom_of(const std::vector<RCon>& cs, size_t n) { D d(n, UNIVERSE); for (size_t i = 0; i < cs.size(); ++i) d.add_constraint(to_ppl(cs[i])); return d; }
  static Sys sys_of(const std::vector<RCon>& cs, size_t n) { Sys s(n); for (size_t i = 0; i < cs.size(); ++i) s.add(to_refcon(cs[i])); return s; }
  static std::string str_of(const std::vector<RCon>& cs) { std::string s = "{"; for (size_t i = 0; i < cs.size(); ++i) s += (i ? ", " : "") + str(cs[i]); return s + "}"; }

  // a new disjunct for object o: fresh, or related to the pieces already there
  void gen_disjunct(const Obj& o, D& d, Sys& s) {
    size_t n = o.n;
    int how = o.m.empty() ? 0 : t.weighted({40, 10, 15, 35});
    if (how == 0) { std::vector<RCon> cs = gen_piece(n); d = dom_of(cs, n); s = sys_of(cs, n); c.log << str_of(cs); return; }
    const Sys& base = o.m[t.range(0, (long) o.m.size() - 1)];
    if (how == 1) { s = base; d = make_dom(s); c.log << "(copy of a disjunct) " << ref::show(s); return; }
    if (how == 2) { RCon rc = gen_rep_con(n); s = base; s.add(to_refcon(rc)); d = make_dom(base); d.add_constraint(to_ppl(rc)); c.log << "(a disjunct cut by " << str(rc) << ") " << ref::show(s); return; }
    // a neighbour: the disjunct translated by one unit along an axis (adjacent or overlapping)
    size_t k = t.range(0, (long) n - 1); long sh = t.pick(std::vector<long>{1, -1, 2});
    s = base; for (size_t i = 0; i < s.cs.size(); ++i) s.cs[i].b -= s.cs[i].a[k] * Q(sh);
    d = make_dom(s); c.log << "(a disjunct shifted by " << sh << " along x" << k << ") " << ref::show(s);
  }

  // ------------------------------------------------------------ bookkeeping
  bool nontrivial_operand(const Union& m) {
    std::vector<size_t> mx;
    for (size_t i = 0; i < m.size(); ++i) {
      if (ref::is_empty(m[i])) continue;
      bool red = false; for (size_t j = 0; j < m.size() && !red; ++j) if (j != i && ref::included(m[i], m[j]) && (j < i || !ref::included(m[j], m[i]))) red = true;
      if (!red) mx.push_back(i);
    }
    if (mx.size() < 2) return false;
    for (size_t a = 0; a < mx.size(); ++a) for (size_t b = a + 1; b < mx.size(); ++b) if (!ref::is_empty(ref::meet(ref::closure(m[mx[a]]), ref::closure(m[mx[b]])))) return true;
    return false;
  }
  void check_ok(Obj& o, const char* op) {
    bool ok = o.ps.OK();
    if (!ok && o.stale && kf("KF-C09-1")) { c.excluded("KF-C09-1"); return; }
    c.check("inv.OK", ok, [&] { return std::string("OK() is false after ") + op + "; disjuncts " + show_union(read(o.ps)); });
  }
  // after a mutator: compare with the expected union, then resynchronise the model with the library's disjunct list
  void settle(Obj& o, const char* op, const Union& expected, const char* suffix = "") {
    Union got = read(o.ps);
    c.check(std::string("op.") + op + suffix, u_equal(got, expected), [&] { return std::string(op) + ": library union " + show_union(got) + " differs from the expected union " + show_union(expected) + "  (before: " + show_union(o.m) + ")"; });
    c.check("inv.space_dimension", o.ps.space_dimension() == o.n, "space_dimension() wrong");
    o.m = got; check_ok(o, op);
  }
  void arg_unchanged(Obj& q, const char* op) {
    Union got = read(q.ps);
    c.check("arg.unchanged", u_equal(got, q.m), [&] { return std::string(op) + " changed the union of its const argument: now " + show_union(got) + " was " + show_union(q.m); });
    q.m = got;
  }
  Obj& partner(Obj& o) {
    size_t self = &o - &pool[0];
    std::vector<size_t> cand; for (size_t i = 0; i < pool.size(); ++i) if (i != self && pool[i].n == o.n) cand.push_back(i);
    if (cand.empty()) { size_t i = self == 0 ? 1 : 0; pool[i].ps = o.ps; pool[i].m = o.m; pool[i].n = o.n; pool[i].stale = o.stale; c.log << "  (ps" << i << " := copy of ps" << self << ")\n"; return pool[i]; }
    return pool[cand[t.range(0, (long) cand.size() - 1)]];
  }
  size_t idx(const Obj& o) { return &o - &pool[0]; }

  // ------------------------------------------------------------ mutators
  void mutate(Obj& o) {
    size_t n = o.n;
    int op = t.weighted({12, 9, 9, 9, 7, 7, 4, 3, 3, 3, 3, 4, 6, 8, 5, 6, 4, 3, 3});
    // operators that reset the library's `reduced' flag end a KF-C09-1 window; the others keep (or inherit) it
    static const bool resets[19] = { true, true, false, true, true, true, true, false, true, false, true, false, false, false, false, true, false, true, false };
    bool was_stale = o.stale; fell_back = false;
    mutate_op(o, op);
    if (resets[op] && !fell_back && was_stale) o.stale = false;
  }
  void mutate_op(Obj& o, int op) {
    size_t n = o.n;
    switch (op) {
    case 0: { // add_disjunct
      if (o.m.size() >= 6) { reduce(o, 1); break; }
      D d(n); Sys s(n); c.log << "  add_disjunct "; gen_disjunct(o, d, s); c.log << "\n";
      Union e = o.m; e.push_back(s); o.ps.add_disjunct(d); settle(o, "add_disjunct", e); break; }
    case 1: { // intersection_assign / meet_assign
      Obj& q = partner(o); if (o.m.size() * q.m.size() > 9) { reduce(o, 1); break; }
      bool alt = t.chance(30); c.log << "  " << (alt ? "meet_assign" : "intersection_assign") << " ps" << idx(q) << "\n";
      if (nt_steps == 0 && (nontrivial_operand(o.m) || nontrivial_operand(q.m))) ++nt_steps;
      Union e = u_meet(o.m, q.m); if (alt) o.ps.meet_assign(q.ps); else o.ps.intersection_assign(q.ps);
      settle(o, "intersection_assign", e); arg_unchanged(q, "intersection_assign"); break; }
    case 2: { // upper_bound_assign and its aliases
      Obj& q = partner(o); if (o.m.size() + q.m.size() > 8) { reduce(o, 1); break; }
      int alt = (int) t.range(0, 2); c.log << "  " << (alt == 0 ? "upper_bound_assign" : alt == 1 ? "least_upper_bound_assign" : "upper_bound_assign_if_exact") << " ps" << idx(q) << "\n";
      if (nt_steps == 0 && (nontrivial_operand(o.m) || nontrivial_operand(q.m))) ++nt_steps;
      Union e = o.m; e.insert(e.end(), q.m.begin(), q.m.end()); size_t bound = o.m.size() + q.m.size();
      if (q.stale) o.stale = true;
      if (alt == 0) o.ps.upper_bound_assign(q.ps); else if (alt == 1) o.ps.least_upper_bound_assign(q.ps); else c.check("op.upper_bound_assign_if_exact.verdict", o.ps.upper_bound_assign_if_exact(q.ps), "returned false");
      settle(o, "upper_bound_assign", e); c.check("op.upper_bound_assign.size", o.ps.size() <= bound, "more disjuncts than both operands together");
      arg_unchanged(q, "upper_bound_assign"); break; }
    case 3: { // difference_assign
      Obj& q = partner(o); if (o.m.size() > 3 || q.m.size() > 2) { reduce(o, 1); break; }
      c.log << "  difference_assign ps" << idx(q) << "\n";
      if (nt_steps == 0 && (nontrivial_operand(o.m) || nontrivial_operand(q.m))) ++nt_steps;
      Union before = o.m; Union ex = u_diff(o.m, q.m);
      o.ps.difference_assign(q.ps);
      if (T::poly) { Union e; for (size_t i = 0; i < ex.size(); ++i) e.push_back(T::strict ? ex[i] : ref::closure(ex[i])); settle(o, "difference_assign", e); }
      else {
        Union got = read(o.ps);
        c.check("difference.sound", u_included(ex, got), [&] { return "difference_assign lost points of X \\ Y: result " + show_union(got) + " X=" + show_union(before) + " Y=" + show_union(q.m); });
        c.check("difference.within", u_included(got, before), [&] { return "difference_assign result not inside X: result " + show_union(got) + " X=" + show_union(before) + " Y=" + show_union(q.m); });
        o.m = got; check_ok(o, "difference_assign");
      }
      arg_unchanged(q, "difference_assign"); break; }
    case 4: { // add_constraint(s) / refine_with_constraint(s) with representable constraints: exact meet
      int cnt = (int) t.range(1, 2); std::vector<RCon> cs; for (int i = 0; i < cnt; ++i) cs.push_back(gen_rep_con(n));
      int how = cnt == 1 ? (int) t.range(0, 1) : (int) t.range(2, 3);
      c.log << "  " << (how == 0 ? "add_constraint " : how == 1 ? "refine_with_constraint " : how == 2 ? "add_constraints " : "refine_with_constraints ") << str_of(cs) << "\n";
      Constraint_System pcs; for (size_t i = 0; i < cs.size(); ++i) pcs.insert(to_ppl(cs[i]));
      Union e; for (size_t i = 0; i < o.m.size(); ++i) { Sys s = o.m[i]; for (size_t k = 0; k < cs.size(); ++k) s.add(to_refcon(cs[k])); e.push_back(s); }
      if (how == 0) o.ps.add_constraint(to_ppl(cs[0])); else if (how == 1) o.ps.refine_with_constraint(to_ppl(cs[0])); else if (how == 2) o.ps.add_constraints(pcs); else o.ps.refine_with_constraints(pcs);
      settle(o, "add_constraint", e); break; }
    case 5: { // affine_image / affine_preimage
      size_t k = t.range(0, (long) n - 1); LE rhs(n); for (size_t j = 0; j < n; ++j) rhs.a[j] = t.chance(45) ? 0 : t.range(-2, 2); rhs.b = t.range(-2, 2);
      mpz_class den = t.pick(std::vector<long>{1, 1, -1, 2}); bool image = t.chance(55);
      c.log << "  " << (image ? "affine_image x" : "affine_preimage x") << k << " := (" << rhs.str() << ")/" << den << "\n";
      Linear_Expression pe = rhs.ppl(); Coefficient pd(den);
      Union e;
      if (T::poly) { std::vector<Con> rel = affine_rel(n, k, rhs, den); for (size_t i = 0; i < o.m.size(); ++i) e.push_back(rel_apply(o.m[i], n, rel, image)); }
      else e = per_piece(o.m, [&](D& d) { if (image) d.affine_image(Variable(k), pe, pd); else d.affine_preimage(Variable(k), pe, pd); });
      if (image) o.ps.affine_image(Variable(k), pe, pd); else o.ps.affine_preimage(Variable(k), pe, pd);
      settle(o, image ? "affine_image" : "affine_preimage", e, T::poly ? "" : ".base"); break; }
    case 6: { // unconstrain
      size_t k = t.range(0, (long) n - 1); bool set = t.chance(30); c.log << "  unconstrain " << (set ? "{x" : "x") << k << (set ? "}" : "") << "\n";
      Union e; for (size_t i = 0; i < o.m.size(); ++i) e.push_back(ref::unconstrain(o.m[i], k));
      if (set) { Variables_Set vs; vs.insert(Variable(k)); o.ps.unconstrain(vs); } else o.ps.unconstrain(Variable(k));
      settle(o, "unconstrain", e); break; }
    case 7: { // add_space_dimensions
      if (n >= 3) { reduce(o, 0); break; }
      bool emb = t.chance(50); c.log << "  add_space_dimensions_and_" << (emb ? "embed" : "project") << " 1\n";
      Union e; for (size_t i = 0; i < o.m.size(); ++i) e.push_back(emb ? ref::embed(o.m[i], 1) : (ref::is_empty(o.m[i]) ? ref::empty_sys(n + 1) : ref::project(o.m[i], 1)));
      if (emb) o.ps.add_space_dimensions_and_embed(1); else o.ps.add_space_dimensions_and_project(1);
      o.n = n + 1; settle(o, "add_space_dimensions", e); break; }
    case 8: { // remove_space_dimensions / remove_higher_space_dimensions
      if (n < 2) { reduce(o, 0); break; }
      std::set<size_t> rm; bool higher = t.chance(35);
      if (higher) rm.insert(n - 1); else rm.insert(t.range(0, (long) n - 1));
      c.log << "  " << (higher ? "remove_higher_space_dimensions -> " : "remove_space_dimensions x") << (higher ? n - 1 : *rm.begin()) << "\n";
      Union e; for (size_t i = 0; i < o.m.size(); ++i) e.push_back(ref::remove_dims(o.m[i], rm));
      if (higher) o.ps.remove_higher_space_dimensions(n - 1); else { Variables_Set vs; vs.insert(Variable(*rm.begin())); o.ps.remove_space_dimensions(vs); }
      o.n = n - 1; settle(o, "remove_space_dimensions", e); break; }
    case 9: { // concatenate_assign
      Obj& q = pool[t.range(0, (long) pool.size() - 1)];
      if (&q == &o || n + q.n > 3 || o.m.size() * q.m.size() > 6) { reduce(o, 0); break; }
      c.log << "  concatenate_assign ps" << idx(q) << "\n";
      Union e; for (size_t i = 0; i < o.m.size(); ++i) for (size_t j = 0; j < q.m.size(); ++j) e.push_back((ref::is_empty(o.m[i]) || ref::is_empty(q.m[j])) ? ref::empty_sys(n + q.n) : ref::concatenate(o.m[i], q.m[j]));
      if (q.stale) o.stale = true;
      o.ps.concatenate_assign(q.ps); o.n = n + q.n; settle(o, "concatenate_assign", e); arg_unchanged(q, "concatenate_assign"); break; }
    case 10: { // time_elapse_assign: base-level results on copies, all pairs
      Obj& q = partner(o); if (o.m.size() * q.m.size() > 6) { reduce(o, 1); break; }
      c.log << "  time_elapse_assign ps" << idx(q) << "\n";
      if (nt_steps == 0 && (nontrivial_operand(o.m) || nontrivial_operand(q.m))) ++nt_steps;
      Union e; for (size_t i = 0; i < o.m.size(); ++i) for (size_t j = 0; j < q.m.size(); ++j) { D a = make_dom(o.m[i]); D b = make_dom(q.m[j]); a.time_elapse_assign(b); e.push_back(read(a, n)); }
      o.ps.time_elapse_assign(q.ps); settle(o, "time_elapse_assign", e, ".base"); arg_unchanged(q, "time_elapse_assign"); break; }
    case 11: { // topological_closure_assign
      c.log << "  topological_closure_assign\n";
      Union e; for (size_t i = 0; i < o.m.size(); ++i) e.push_back(ref::is_empty(o.m[i]) ? ref::empty_sys(n) : ref::closure(o.m[i]));
      if (T::strict) o.stale = true; o.ps.topological_closure_assign(); settle(o, "topological_closure_assign", e); break; }
    case 12: reduce(o, 0); break;
    case 13: reduce(o, 1); break;
    case 14: reduce(o, 2); break;
    case 15: { // simplify_using_context_assign
      Obj& q = partner(o); if (o.m.size() * q.m.size() > 9) { reduce(o, 1); break; }
      c.log << "  simplify_using_context_assign ps" << idx(q);
      if (nt_steps == 0 && (nontrivial_operand(o.m) || nontrivial_operand(q.m))) ++nt_steps;
      Union before = o.m; Union want = u_meet(before, q.m); size_t sz = o.ps.size();
      bool r = o.ps.simplify_using_context_assign(q.ps); c.log << " -> " << r << "\n";
      Union got = read(o.ps); Union have = u_meet(got, q.m);
      { // the base-level operator must honour its own contract on every pair, otherwise the powerset result is meaningless
        bool base_bad = false, base_skip = false; std::string why;
        for (size_t i = 0; i < before.size() && !base_bad; ++i) for (size_t j = 0; j < q.m.size() && !base_bad; ++j) {
          if (ref::is_empty(before[i]) || ref::is_empty(q.m[j])) continue;
          D z = make_dom(before[i]); bool br = z.simplify_using_context_assign(make_dom(q.m[j])); Sys zs = read(z, n); Sys mt = ref::meet(before[i], q.m[j]);
          if (br && !ref::included(before[i], zs)) {   // documented: meet-preserving *enlargement*; the powerset algorithm relies on it
            if (T::poly && kf("KF-C09-4")) c.excluded("KF-C09-4");
            else c.check("base.simplify_using_context_assign.enlargement", false, [&] { return "base-level simplify_using_context_assign(" + ref::show(before[i]) + ", context " + ref::show(q.m[j]) + ") left " + ref::show(zs) + ", which does not contain its first argument"; });
            base_skip = true;
          }
          if (br == ref::is_empty(mt) || !ref::equal(ref::meet(zs, q.m[j]), mt)) { base_bad = true; why = "base-level simplify_using_context_assign(" + ref::show(before[i]) + ", context " + ref::show(q.m[j]) + ") returned " + (br ? "true" : "false") + " and left " + ref::show(zs); }
        }
        if (base_bad) {
          if (T::box && kf("KF-C09-2")) c.excluded("KF-C09-2");
          else c.check("base.simplify_using_context_assign", false, [&] { return why + ": the meet with the context is not preserved"; });
          o.m = got; arg_unchanged(q, "simplify_using_context_assign"); break;
        }
        if (base_skip) { o.m = got; arg_unchanged(q, "simplify_using_context_assign"); break; }
      }
      c.check("simplify.meet", u_equal(have, want), [&] { return "meet with the context not preserved: result " + show_union(got) + " X=" + show_union(before) + " context=" + show_union(q.m); });
      c.check("simplify.size", o.ps.size() <= sz, [&] { return "more disjuncts (" + std::to_string(o.ps.size()) + ") than before (" + std::to_string(sz) + ")"; });
      c.check("simplify.verdict", r == !u_empty(want), [&] { return std::string("returned ") + (r ? "true" : "false") + " but the meet with the context is " + (u_empty(want) ? "empty" : "non-empty") + ": X=" + show_union(before) + " context=" + show_union(q.m); });
      o.m = got; check_ok(o, "simplify_using_context_assign"); arg_unchanged(q, "simplify_using_context_assign"); break; }
    case 16: { // iteration + drop_disjunct / drop_disjuncts
      Union cur = read(o.ps);
      c.check("iter.count", cur.size() == o.ps.size() && (cur.empty() == o.ps.empty()), "size() differs from the number of disjuncts seen by the iterators");
      if (cur.empty()) { c.log << "  (no disjunct to drop)\n"; break; }
      size_t k = t.range(0, (long) cur.size() - 1); bool range = t.chance(30); size_t k2 = range ? (size_t) t.range((long) k, (long) cur.size()) : k + 1;
      c.log << "  drop_disjunct" << (range ? "s [" : " #") << k; if (range) c.log << "," << k2 << ")"; c.log << "\n";
      typename PS::iterator i = o.ps.begin(); std::advance(i, k);
      Union e;
      if (!range) { typename PS::iterator nx = o.ps.drop_disjunct(i); for (size_t j = 0; j < cur.size(); ++j) if (j != k) e.push_back(cur[j]);
        bool at_end = nx == o.ps.end(); c.check("iter.drop_result", at_end == (k + 1 == cur.size()) && (at_end || ref::show(read(nx->pointset(), n)) == ref::show(cur[k + 1])), "drop_disjunct did not return the iterator to the next disjunct"); }
      else { typename PS::iterator j = o.ps.begin(); std::advance(j, k2); o.ps.drop_disjuncts(i, j); for (size_t x = 0; x < cur.size(); ++x) if (x < k || x >= k2) e.push_back(cur[x]); }
      settle(o, "drop_disjunct", e); break; }
    case 17: { // refine_with_constraint with an arbitrary constraint (shapes and boxes approximate it): base level on copies
      RCon rc; rc.e = LE(n); for (size_t j = 0; j < n; ++j) rc.e.a[j] = t.range(-2, 2); rc.e.b = t.range(-3, 3); rc.kind = t.weighted({15, 60, 25});
      c.log << "  refine_with_constraint " << str(rc) << "\n"; Constraint pc = to_ppl(rc);
      Union e;
      if (T::poly && (T::strict || rc.kind != 2)) for (size_t i = 0; i < o.m.size(); ++i) { Sys s = o.m[i]; s.add(to_refcon(rc)); e.push_back(s); }
      else e = per_piece(o.m, [&](D& d) { d.refine_with_constraint(pc); });
      o.ps.refine_with_constraint(pc); settle(o, "refine_with_constraint", e, (T::poly && (T::strict || rc.kind != 2)) ? "" : ".base"); break; }
    default: { // fold_space_dimensions / expand_space_dimension: base level on copies
      bool fold = t.chance(50);
      if (fold ? n < 2 : n >= 3) { reduce(o, 0); break; }
      if (fold) { size_t dst = t.range(0, (long) n - 1); size_t src = (dst + 1 + t.range(0, (long) n - 2)) % n; Variables_Set vs; vs.insert(Variable(src));
        c.log << "  fold_space_dimensions {x" << src << "} into x" << dst << "\n";
        Union e = per_piece(o.m, [&](D& d) { d.fold_space_dimensions(vs, Variable(dst)); });
        o.stale = true; o.ps.fold_space_dimensions(vs, Variable(dst)); o.n = n - 1; settle(o, "fold_space_dimensions", e, ".base"); }
      else { size_t k = t.range(0, (long) n - 1); c.log << "  expand_space_dimension x" << k << " by 1\n";
        Union e = per_piece(o.m, [&](D& d) { d.expand_space_dimension(Variable(k), 1); });
        o.ps.expand_space_dimension(Variable(k), 1); o.n = n + 1; settle(o, "expand_space_dimension", e, ".base"); }
      break; }
    }
  }

  // which: 0 omega_reduce, 1 pairwise_reduce, 2 collapse
  bool fell_back = false;
  void reduce(Obj& o, int which) {
    fell_back = true;
    size_t n = o.n; size_t before = o.ps.size(); Union m0 = o.m;
    if (nt_steps == 0 && nontrivial_operand(o.m)) ++nt_steps;
    if (which == 0) {
      c.log << "  omega_reduce\n"; o.ps.omega_reduce(); settle(o, "omega_reduce", m0);
      c.check("omega_reduce.size", o.ps.size() <= before, "omega_reduce() increased the number of disjuncts");
      bool red = false; std::string why;
      for (size_t i = 0; i < o.m.size() && !red; ++i) {
        if (ref::is_empty(o.m[i])) { red = true; why = "empty disjunct " + ref::show(o.m[i]); break; }
        for (size_t j = 0; j < o.m.size() && !red; ++j) if (i != j && ref::included(o.m[i], o.m[j])) { red = true; why = "disjunct " + ref::show(o.m[i]) + " is contained in disjunct " + ref::show(o.m[j]); }
      }
      if (red && o.stale && kf("KF-C09-1")) { c.excluded("KF-C09-1"); return; }
      c.check("omega_reduce.nonredundant", !red, [&] { return "after omega_reduce(): " + why + "; disjuncts " + show_union(o.m); });
    }
    else if (which == 1) {
      c.log << "  pairwise_reduce\n"; o.ps.pairwise_reduce(); settle(o, "pairwise_reduce", m0);
      c.check("pairwise_reduce.size", o.ps.size() <= before, "pairwise_reduce() increased the number of disjuncts");
      if (o.m.size() <= 5) for (size_t i = 0; i < o.m.size(); ++i) for (size_t j = i + 1; j < o.m.size(); ++j) {
        D a = make_dom(o.m[i]); D b = make_dom(o.m[j]); D x(a); bool ex = x.upper_bound_assign_if_exact(b);
        c.check("pairwise_reduce.irreducible", !ex, [&] { return "after pairwise_reduce() disjuncts " + ref::show(o.m[i]) + " and " + ref::show(o.m[j]) + " can still be merged (base-level upper_bound_assign_if_exact succeeds)"; });
        a.upper_bound_assign(b); Sys h = read(a, n); Union two; two.push_back(o.m[i]); two.push_back(o.m[j]);
        bool geo = cov(h, two, 0, 0);
        if (ex != geo) {   // base-level exactness test disagrees with the geometry
          if (T::box && !ex && kf("KF-C09-3")) { c.excluded("KF-C09-3"); continue; }
          c.check("base.upper_bound_assign_if_exact", false, [&] { return std::string("base-level upper_bound_assign_if_exact answered ") + (ex ? "true" : "false") + " for " + ref::show(o.m[i]) + " and " + ref::show(o.m[j]) + " whose upper bound " + ref::show(h) + (geo ? " equals" : " differs from") + " their union"; });
        }
      }
    }
    else {
      c.log << "  collapse\n"; bool was_empty = o.ps.empty();
      o.ps.collapse(); Union got = read(o.ps);
      c.check("collapse.size", got.size() == (was_empty ? 0u : 1u), [&] { return "collapse() left " + std::to_string(got.size()) + " disjuncts"; });
      if (!was_empty && got.size() == 1) {
        D j = make_dom(m0[0]); for (size_t i = 1; i < m0.size(); ++i) j.upper_bound_assign(make_dom(m0[i]));
        Sys js = read(j, n);
        c.check("collapse.join", ref::equal(got[0], js), [&] { return "collapse() gave " + ref::show(got[0]) + ", the base-level upper bound of the disjuncts is " + ref::show(js) + "; before " + show_union(m0); });
        for (size_t i = 0; i < m0.size(); ++i) c.check("collapse.contains", ref::included(m0[i], got[0]), [&] { return "collapse() result " + ref::show(got[0]) + " does not contain disjunct " + ref::show(m0[i]); });
      }
      o.m = got; check_ok(o, "collapse");
    }
  }

  // ------------------------------------------------------------ observers
  void observe(Obj& o) {
    const PS& p = o.ps; const Union& m = o.m;
    int q = (int) t.weighted({14, 10, 10, 8, 10, 6, 6, 6, 6, 4});
    auto implies_doc = [&](const Union& x, const Union& y, bool strictly, bool skip_empty) {   // every disjunct of y (strictly) contained in a disjunct of x
      for (size_t j = 0; j < y.size(); ++j) { if (skip_empty && ref::is_empty(y[j])) continue;   /* an empty disjunct may or may not have been dropped by a lazy omega-reduction */ bool f = false; for (size_t i = 0; i < x.size() && !f; ++i) f = ref::included(y[j], x[i]) && (!strictly || !ref::included(x[i], y[j])); if (!f) return false; }
      return true; };
    switch (q) {
    case 0: case 1: { Obj& y = partner(o); bool eq = q == 1;
      if (m.size() + y.m.size() > 8) { c.log << "  (too many disjuncts for a geometric comparison)\n"; break; }
      if (nt_steps == 0 && (nontrivial_operand(m) || nontrivial_operand(y.m))) ++nt_steps;
      bool r = eq ? p.geometrically_equals(y.ps) : p.geometrically_covers(y.ps);
      bool e = eq ? u_equal(m, y.m) : u_included(y.m, m);
      c.log << "  ? " << (eq ? "geometrically_equals ps" : "geometrically_covers ps") << idx(y) << " -> " << r << "\n";
      c.check(eq ? "q.geometrically_equals" : "q.geometrically_covers", r == e, [&] { return std::string(eq ? "geometrically_equals" : "geometrically_covers") + " answered " + (r ? "true" : "false") + ": X=" + show_union(m) + " Y=" + show_union(y.m); });
      arg_unchanged(y, "geometric comparison"); arg_unchanged(o, "geometric comparison"); break; }
    case 2: case 3: { Obj& y = partner(o); bool st = q == 3;
      bool r = st ? p.strictly_contains(y.ps) : p.contains(y.ps);
      c.log << "  ? " << (st ? "strictly_contains ps" : "contains ps") << idx(y) << " -> " << r << "\n";
      bool doc = implies_doc(m, y.m, st, true); { bool doc2 = implies_doc(m, y.m, st, false); if (doc2 != doc && r == doc2) doc = doc2; }   // both readings accepted when Y holds an (undetected) empty disjunct
      c.check(st ? "q.strictly_contains.documented" : "q.contains.documented", r == doc, [&] { return std::string(st ? "strictly_contains" : "contains") + " answered " + (r ? "true" : "false") + " but disjunct-wise containment is " + (doc ? "true" : "false") + ": X=" + show_union(m) + " Y=" + show_union(y.m); });
      if (r) c.check("q.contains.implies_covers", u_included(y.m, m), [&] { return "entailment-based containment holds but Y is not covered: X=" + show_union(m) + " Y=" + show_union(y.m); });
      arg_unchanged(y, "contains"); arg_unchanged(o, "contains"); break; }
    case 4: { Obj& y = partner(o); bool r = p.is_disjoint_from(y.ps); c.log << "  ? is_disjoint_from ps" << idx(y) << " -> " << r << "\n";
      bool e = u_empty(u_meet(m, y.m));
      c.check("q.is_disjoint_from", r == e, [&] { return std::string("is_disjoint_from answered ") + (r ? "true" : "false") + ": X=" + show_union(m) + " Y=" + show_union(y.m); }); break; }
    case 5: { bool r = p.is_empty(); c.log << "  ? is_empty -> " << r << "\n"; c.check("q.is_empty", r == u_empty(m), [&] { return "is_empty() wrong for " + show_union(m); }); break; }
    case 6: { bool r = p.is_universe(); c.log << "  ? is_universe -> " << r << "\n"; bool e = false; for (size_t i = 0; i < m.size(); ++i) if (!ref::is_empty(m[i]) && ref::is_universe(m[i])) e = true;
      if (r != e && o.stale && kf("KF-C09-1")) { c.excluded("KF-C09-1"); break; }
      c.check("q.is_universe", r == e, [&] { return std::string("is_universe() answered ") + (r ? "true" : "false") + " for " + show_union(m); }); arg_unchanged(o, "is_universe"); break; }
    case 7: { bool r = p.is_bounded(); c.log << "  ? is_bounded -> " << r << "\n"; bool e = true; for (size_t i = 0; i < m.size(); ++i) if (!ref::is_bounded(m[i])) e = false;
      c.check("q.is_bounded", r == e, [&] { return std::string("is_bounded() answered ") + (r ? "true" : "false") + " for " + show_union(m); }); break; }
    case 8: { bool r = p.is_topologically_closed(); c.log << "  ? is_topologically_closed -> " << r << "\n";
      // documented: all (non-redundant) disjuncts are closed
      bool e = true; for (size_t i = 0; i < m.size(); ++i) { if (ref::is_empty(m[i]) || ref::is_closed(m[i])) continue; bool red = false; for (size_t j = 0; j < m.size() && !red; ++j) if (j != i && ref::included(m[i], m[j]) && !ref::included(m[j], m[i])) red = true; if (!red) e = false; }
      if (r != e && o.stale && kf("KF-C09-1")) { c.excluded("KF-C09-1"); break; }
      c.check("q.is_topologically_closed", r == e, [&] { return std::string("is_topologically_closed() answered ") + (r ? "true" : "false") + " for " + show_union(m); }); arg_unchanged(o, "is_topologically_closed"); break; }
    default: { size_t s = p.size(); size_t cnt = 0; for (typename PS::const_iterator i = p.begin(); i != p.end(); ++i) ++cnt; size_t rc = 0; for (typename PS::const_reverse_iterator i = p.rbegin(); i != p.rend(); ++i) ++rc;
      c.log << "  ? size -> " << s << "\n"; c.check("q.size", s == cnt && s == rc && (s == 0) == p.empty(), "size() / empty() / iterators disagree"); (void) p.total_memory_in_bytes(); break; }
    }
  }

  // ------------------------------------------------------------ copies
  void copy_step(Obj& o) {
    size_t i = idx(o); size_t j = t.range(0, (long) pool.size() - 1); int h = (int) t.range(0, 3);
    if (h == 0) { c.log << "  ps" << i << " = ps" << j << "\n"; o.ps = pool[j].ps; o.m = pool[j].m; o.n = pool[j].n; o.stale = pool[j].stale; }
    else if (h == 1) { c.log << "  swap ps" << i << " ps" << j << "\n"; if (i != j) { swap(o.ps, pool[j].ps); std::swap(o.m, pool[j].m); std::swap(o.n, pool[j].n); std::swap(o.stale, pool[j].stale); } }
    else if (h == 2) { c.log << "  ps" << i << " = copy-constructed ps" << j << "\n"; PS cp(pool[j].ps); Union mm = pool[j].m; size_t nn = pool[j].n; bool st = pool[j].stale; o.ps.m_swap(cp); o.m = mm; o.n = nn; o.stale = st; }
    else if (snaps.size() < 2) { c.log << "  snapshot of ps" << i << " (checked at the end)\n"; Snap s = { PS(o.ps), o.m, o.n, "snapshot of ps" + std::to_string(i), o.stale }; snaps.push_back(s); }
  }

  // ------------------------------------------------------------ main loop
  void run() {
    size_t n = 1 + (size_t) t.weighted({30, 45, 25});
    c.log << "program Pointset_Powerset<" << T::name() << "> dim " << n << "\n";
    c.tag(std::string("domain ") + T::name());
    size_t k = (size_t) t.range(2, 3); pool.reserve(4);
    for (size_t i = 0; i < k; ++i) {
      pool.push_back(Obj(n)); Obj& o = pool.back();
      int cnt = (int) t.weighted({5, 20, 35, 30, 10});
      int ctor = t.weighted({80, 10, 10});
      c.log << " ps" << i << ":\n";
      if (ctor == 1) { o.ps = PS(n, UNIVERSE); o.m.push_back(Sys(n)); c.log << "  (dim, UNIVERSE)\n"; }
      else if (ctor == 2) { std::vector<RCon> cs = gen_piece(n); D d = dom_of(cs, n); o.ps = PS(d); Sys s = sys_of(cs, n); if (!ref::is_empty(s)) o.m.push_back(s); c.log << "  built from the base-level object " << str_of(cs) << "\n"; }
      for (int j = 0; j < cnt; ++j) { D d(n); Sys s(n); c.log << "  add_disjunct "; gen_disjunct(o, d, s); c.log << "\n"; o.ps.add_disjunct(d); o.m.push_back(s); }
      settle(o, "construct", o.m);
    }
    int steps = 0;
    while (!t.exhausted() && steps < 10) {
      ++steps;
      size_t i = t.range(0, (long) pool.size() - 1); Obj& o = pool[i];
      int what = t.weighted({60, 27, 13});
      c.log << " step " << steps << " ps" << i << " (" << o.m.size() << " disjuncts, dim " << o.n << "):\n";
      if (what == 0) mutate(o); else if (what == 1) observe(o); else copy_step(o);
    }
    c.log << " final:\n";
    for (size_t i = 0; i < pool.size(); ++i) { Union got = read(pool[i].ps); c.check("cow.pool", u_equal(got, pool[i].m), [&] { return "ps" + std::to_string(i) + " changed behind the model's back: now " + show_union(got) + " model " + show_union(pool[i].m); }); }
    for (size_t i = 0; i < snaps.size(); ++i) { Union got = read(snaps[i].ps); c.check("cow.snapshot", u_equal(got, snaps[i].m), [&] { return snaps[i].what + " changed after later mutations of the original: now " + show_union(got) + " saved " + show_union(snaps[i].m); }); }
    if (nt_steps >= 1) c.nt();
  }
};

// =============================================================================================================
// Pointset_Powerset<Grid>: model = vector<rl::Grid> (exact lattice model, ref/reflattice*.hh, no PPL code).
// Covering of a grid p by a finite union of grids is decided exactly: only the disjuncts meeting p in a sublattice
// of finite index matter (B.H. Neumann: cosets of infinite index can be omitted from a finite covering of a group);
// with M = lcm of those indices every coset of the common refinement has a representative p0 + sum c_t*param_t,
// 0 <= c_t < M, and p is covered iff each representative lies in one of the disjuncts (finite window).
typedef std::vector<rl::Grid> GUnion;
struct Cg { std::vector<long> a; long b; long f; };   // a.x + b = 0 (mod f)
static Congruence to_ppl(const Cg& c) { Linear_Expression e; for (size_t j = c.a.size(); j-- > 0; ) if (c.a[j]) e += c.a[j] * Variable(j); e += c.b; return (e %= 0) / c.f; }
static std::string str(const Cg& c) { std::ostringstream o; bool first = true; for (size_t j = 0; j < c.a.size(); ++j) if (c.a[j]) { o << (first ? "" : " + ") << c.a[j] << "*x" << j; first = false; } if (first || c.b) o << (first ? "" : " + ") << c.b; o << " = 0 (mod " << c.f << ")"; return o.str(); }
static void fold_cg(rl::Grid& g, const Cg& c) { rl::Vec a(g.n, rl::Q(0)); for (size_t j = 0; j < c.a.size(); ++j) a[j] = c.a[j]; g.add_congruence(a, rl::Q(-c.b), rl::Q(c.f)); }
static rl::Grid model_of_congruences(const Congruence_System& cgs, size_t n) {
  rl::Grid g(n);
  for (Congruence_System::const_iterator i = cgs.begin(); i != cgs.end(); ++i) {
    rl::Vec a(n, rl::Q(0)); for (size_t j = 0; j < i->space_dimension(); ++j) a[j] = rl::Q(mpz_class(i->coefficient(Variable(j))));
    g.add_congruence(a, rl::Q(mpz_class(-i->inhomogeneous_term())), rl::Q(mpz_class(i->modulus())));
  }
  return g;
}
static Linear_Expression int_expr(const rl::Vec& v, const mpz_class& l, size_t n) { Linear_Expression e; for (size_t j = n; j-- > 0; ) { rl::Q x = v[j] * l; if (x != 0) e += Coefficient(x.get_num()) * Variable(j); } if (n > 0 && e.space_dimension() < n) e += 0 * Variable(n - 1); return e; }
static mpz_class den_lcm(const rl::Vec& v) { mpz_class l = 1; for (size_t j = 0; j < v.size(); ++j) l = lcm(l, v[j].get_den()); return l; }
static Grid make_grid(const rl::Grid& m) {
  size_t n = m.n; if (m.empty) return Grid(n, EMPTY);
  Grid_Generator_System gs; { mpz_class l = den_lcm(m.p); gs.insert(grid_point(int_expr(m.p, l, n), Coefficient(l))); }
  for (size_t t = 0; t < m.params.size(); ++t) { mpz_class l = den_lcm(m.params[t]); gs.insert(parameter(int_expr(m.params[t], l, n), Coefficient(l))); }
  for (size_t t = 0; t < m.lines.size(); ++t) { mpz_class l = den_lcm(m.lines[t]); gs.insert(grid_line(int_expr(m.lines[t], l, n))); }
  Grid g(gs); if (g.space_dimension() < n) g.add_space_dimensions_and_project(n - g.space_dimension()); return g;
}
static bool g_cov(const rl::Grid& p, const GUnion& u) {
  if (p.empty) return true;
  GUnion zs; mpz_class M = 1;
  for (size_t k = 0; k < u.size(); ++k) {
    rl::Grid z = rl::intersect(p, u[k]); if (z.empty) continue; if (z.equals(p)) return true;
    if (rl::dim(z) != rl::dim(p) || z.lines.size() != p.lines.size()) continue;
    mpz_class idx = rl::index_in(z, p); if (idx == 0) continue; M = lcm(M, idx); zs.push_back(z);
  }
  if (zs.empty()) return false;
  size_t k = p.params.size(); mpz_class total = 1; for (size_t t = 0; t < k; ++t) total *= M;
  if (total > 3000) throw Inconclusive("grid covering window too large");
  long m = M.get_si(); std::vector<long> cidx(k, 0);
  for (;;) {
    rl::Vec x = p.p; for (size_t t = 0; t < k; ++t) rl::axpy(x, rl::Q(cidx[t]), p.params[t]);
    bool in = false; for (size_t i = 0; i < zs.size() && !in; ++i) in = zs[i].contains_point(x);
    if (!in) return false;
    size_t t = 0; while (t < k && ++cidx[t] == m) { cidx[t] = 0; ++t; }
    if (t == k) break;
  }
  return true;
}
static bool g_included(const GUnion& a, const GUnion& b) { for (size_t i = 0; i < a.size(); ++i) if (!g_cov(a[i], b)) return false; return true; }
static bool g_equal(const GUnion& a, const GUnion& b) { return g_included(a, b) && g_included(b, a); }
static GUnion g_meet(const GUnion& a, const GUnion& b) { GUnion r; for (size_t i = 0; i < a.size(); ++i) for (size_t j = 0; j < b.size(); ++j) r.push_back(rl::intersect(a[i], b[j])); return r; }
static bool g_empty(const GUnion& a) { for (size_t i = 0; i < a.size(); ++i) if (!a[i].empty) return false; return true; }
static std::string g_show(const GUnion& u) { std::ostringstream o; o << "[" << u.size() << ":"; for (size_t i = 0; i < u.size(); ++i) o << (i ? " U " : " ") << u[i].show(); o << " ]"; return o.str(); }

struct GProg {
  typedef Pointset_Powerset<Grid> PS;
  Ctx& c; Tape& t;
  struct Obj { PS ps; GUnion m; size_t n; Obj(size_t n_) : ps(n_, EMPTY), n(n_) {} };
  std::vector<Obj> pool; struct Snap { PS ps; GUnion m; std::string what; }; std::vector<Snap> snaps; int nt_steps = 0;
  GProg(Ctx& c_) : c(c_), t(c_.t) {}
  static GUnion read(const PS& ps) { GUnion u; size_t n = ps.space_dimension(); for (PS::const_iterator i = ps.begin(), e = ps.end(); i != e; ++i) u.push_back(model_of_congruences(i->pointset().congruences(), n)); return u; }
  size_t idx(const Obj& o) { return &o - &pool[0]; }
  Cg gen_cg(size_t n) { Cg cg; cg.a.assign(n, 0); size_t j = t.range(0, (long) n - 1); cg.a[j] = 1; if (n >= 2 && t.chance(25)) cg.a[(j + 1) % n] = t.pick(std::vector<long>{1, -1, 2}); cg.b = t.range(-3, 3); cg.f = t.pick(std::vector<long>{2, 2, 3, 4, 1, 0, 6}); return cg; }
  void gen_disjunct(const Obj& o, Grid& g, rl::Grid& m) {
    size_t n = o.n; int how = o.m.empty() ? 0 : t.weighted({40, 10, 15, 35});
    if (how == 0) { int kind = t.weighted({84, 8, 8}); m = rl::Grid(n); g = Grid(n);
      if (kind == 1) { m = rl::Grid::make_empty(n); g = Grid(n, EMPTY); c.log << "EMPTY"; return; } if (kind == 2) { c.log << "UNIVERSE"; return; }
      int cnt = (int) t.range(1, (long) n + 1); for (int i = 0; i < cnt; ++i) { Cg cg = gen_cg(n); g.add_congruence(to_ppl(cg)); fold_cg(m, cg); c.log << (i ? ", " : "{") << str(cg); } c.log << "}"; return; }
    const rl::Grid& base = o.m[t.range(0, (long) o.m.size() - 1)];
    if (how == 1) { m = base; g = make_grid(m); c.log << "(copy of a disjunct) " << m.show(); return; }
    if (how == 2) { Cg cg = gen_cg(n); m = base; fold_cg(m, cg); g = make_grid(base); g.add_congruence(to_ppl(cg)); c.log << "(a disjunct cut by " << str(cg) << ") " << m.show(); return; }
    size_t k = t.range(0, (long) n - 1); long sh = t.pick(std::vector<long>{1, -1, 2}); m = base; if (!m.empty) { m.p[k] += sh; m.canon(); } g = make_grid(m); c.log << "(a disjunct shifted by " << sh << " along x" << k << ") " << m.show();
  }
  // KF-C09-5 class: a proper congruence of a disjunct of `cutters' takes non-integer values on a piece
  static bool nonint(const GUnion& pieces, const PS& cutters) {
    size_t n = cutters.space_dimension();
    for (PS::const_iterator d = cutters.begin(), e = cutters.end(); d != e; ++d) { const Congruence_System& cgs = d->pointset().congruences();
      for (Congruence_System::const_iterator i = cgs.begin(); i != cgs.end(); ++i) { if (i->modulus() == 0) continue;
        rl::Vec a(n, rl::Q(0)); for (size_t j = 0; j < i->space_dimension(); ++j) a[j] = rl::Q(mpz_class(i->coefficient(Variable(j))));
        for (size_t k = 0; k < pieces.size(); ++k) { if (pieces[k].empty) continue; rl::Q v0, gq; if (!rl::value_set(pieces[k], a, rl::Q(mpz_class(i->inhomogeneous_term())), v0, gq)) continue; if (!rl::is_int(v0) || !rl::is_int(gq)) return true; } } }
    return false;
  }
  bool nontrivial_operand(const GUnion& m) {
    std::vector<size_t> mx; for (size_t i = 0; i < m.size(); ++i) { if (m[i].empty) continue; bool red = false; for (size_t j = 0; j < m.size() && !red; ++j) if (j != i && m[j].contains(m[i]) && (j < i || !m[i].contains(m[j]))) red = true; if (!red) mx.push_back(i); }
    if (mx.size() < 2) return false;   // two non-redundant grids that overlap or are cosets of one another
    for (size_t a = 0; a < mx.size(); ++a) for (size_t b = a + 1; b < mx.size(); ++b) { if (!rl::intersect(m[mx[a]], m[mx[b]]).empty) return true; rl::Grid j = m[mx[a]]; j.join(m[mx[b]]); if (rl::dim(j) == rl::dim(m[mx[a]])) return true; }
    return false;
  }
  void settle(Obj& o, const char* op, const GUnion& expected) {
    GUnion got = read(o.ps);
    c.check(std::string("grid.op.") + op, g_equal(got, expected), [&] { return std::string(op) + ": library union " + g_show(got) + " differs from the expected union " + g_show(expected) + "  (before: " + g_show(o.m) + ")"; });
    c.check("grid.inv.space_dimension", o.ps.space_dimension() == o.n, "space_dimension() wrong");
    o.m = got; c.check("grid.inv.OK", o.ps.OK(), [&] { return std::string("OK() is false after ") + op + "; disjuncts " + g_show(got); });
  }
  void arg_unchanged(Obj& q, const char* op) { GUnion got = read(q.ps); c.check("grid.arg.unchanged", g_equal(got, q.m), [&] { return std::string(op) + " changed the union of its const argument: now " + g_show(got) + " was " + g_show(q.m); }); q.m = got; }
  Obj& partner(Obj& o) {
    size_t self = idx(o); std::vector<size_t> cand; for (size_t i = 0; i < pool.size(); ++i) if (i != self && pool[i].n == o.n) cand.push_back(i);
    if (cand.empty()) { size_t i = self == 0 ? 1 : 0; pool[i].ps = o.ps; pool[i].m = o.m; pool[i].n = o.n; c.log << "  (ps" << i << " := copy of ps" << self << ")\n"; return pool[i]; }
    return pool[cand[t.range(0, (long) cand.size() - 1)]];
  }
  void reduce(Obj& o, int which) {
    size_t before = o.ps.size(); GUnion m0 = o.m; size_t n = o.n;
    if (nt_steps == 0 && nontrivial_operand(o.m)) ++nt_steps;
    if (which == 0) { c.log << "  omega_reduce\n"; o.ps.omega_reduce(); settle(o, "omega_reduce", m0); c.check("grid.omega_reduce.size", o.ps.size() <= before, "more disjuncts");
      for (size_t i = 0; i < o.m.size(); ++i) { c.check("grid.omega_reduce.nonredundant", !o.m[i].empty, "empty disjunct after omega_reduce()");
        for (size_t j = 0; j < o.m.size(); ++j) if (i != j) c.check("grid.omega_reduce.nonredundant", !o.m[j].contains(o.m[i]), [&] { return "after omega_reduce(): disjunct " + o.m[i].show() + " is contained in " + o.m[j].show(); }); } }
    else if (which == 1) { c.log << "  pairwise_reduce\n"; o.ps.pairwise_reduce(); settle(o, "pairwise_reduce", m0); c.check("grid.pairwise_reduce.size", o.ps.size() <= before, "more disjuncts");
      if (o.m.size() <= 5) for (size_t i = 0; i < o.m.size(); ++i) for (size_t j = i + 1; j < o.m.size(); ++j) {
        Grid a = make_grid(o.m[i]), b = make_grid(o.m[j]); bool ex = a.upper_bound_assign_if_exact(b);
        c.check("grid.pairwise_reduce.irreducible", !ex, [&] { return "after pairwise_reduce() disjuncts " + o.m[i].show() + " and " + o.m[j].show() + " can still be merged"; });
        bool geo = rl::union_is_grid(o.m[i], o.m[j]);
        c.check("grid.base.upper_bound_assign_if_exact", ex == geo, [&] { return std::string("base-level upper_bound_assign_if_exact answered ") + (ex ? "true" : "false") + " for " + o.m[i].show() + " and " + o.m[j].show(); }); } }
    else { c.log << "  collapse\n"; bool was_empty = o.ps.empty(); o.ps.collapse(); GUnion got = read(o.ps);
      c.check("grid.collapse.size", got.size() == (was_empty ? 0u : 1u), "collapse() did not leave one disjunct");
      if (!was_empty && got.size() == 1) { rl::Grid j = rl::Grid::make_empty(n); for (size_t i = 0; i < m0.size(); ++i) j.join(m0[i]);
        c.check("grid.collapse.join", got[0].equals(j), [&] { return "collapse() gave " + got[0].show() + ", the join of the disjuncts is " + j.show(); }); }
      o.m = got; c.check("grid.inv.OK", o.ps.OK(), "OK() false after collapse"); }
  }
  void mutate(Obj& o) {
    size_t n = o.n; int op = t.weighted({12, 9, 9, 10, 7, 7, 4, 3, 3, 3, 6, 8, 5, 6, 4});
    switch (op) {
    case 0: { if (o.m.size() >= 6) { reduce(o, 1); break; } Grid g(n); rl::Grid m(n); c.log << "  add_disjunct "; gen_disjunct(o, g, m); c.log << "\n"; GUnion e = o.m; e.push_back(m); o.ps.add_disjunct(g); settle(o, "add_disjunct", e); break; }
    case 1: { Obj& q = partner(o); if (o.m.size() * q.m.size() > 9) { reduce(o, 1); break; } c.log << "  intersection_assign ps" << idx(q) << "\n"; if (nt_steps == 0 && (nontrivial_operand(o.m) || nontrivial_operand(q.m))) ++nt_steps;
      GUnion e = g_meet(o.m, q.m); o.ps.intersection_assign(q.ps); settle(o, "intersection_assign", e); arg_unchanged(q, "intersection_assign"); break; }
    case 2: { Obj& q = partner(o); if (o.m.size() + q.m.size() > 8) { reduce(o, 1); break; } c.log << "  upper_bound_assign ps" << idx(q) << "\n"; if (nt_steps == 0 && (nontrivial_operand(o.m) || nontrivial_operand(q.m))) ++nt_steps;
      GUnion e = o.m; e.insert(e.end(), q.m.begin(), q.m.end()); o.ps.upper_bound_assign(q.ps); settle(o, "upper_bound_assign", e); arg_unchanged(q, "upper_bound_assign"); break; }
    case 3: { // difference_assign: sound over-approximation inside X; exact when every meeting pair has finite index
      Obj& q = partner(o); if (o.m.size() > 3 || q.m.size() > 2) { reduce(o, 1); break; } c.log << "  difference_assign ps" << idx(q) << "\n"; if (nt_steps == 0 && (nontrivial_operand(o.m) || nontrivial_operand(q.m))) ++nt_steps;
      GUnion before = o.m; o.ps.difference_assign(q.ps); GUnion got = read(o.ps);
      GUnion gy = got; gy.insert(gy.end(), q.m.begin(), q.m.end());
      if (kf("KF-C09-5") && nonint(before, q.ps) && !g_included(before, gy)) { c.excluded("KF-C09-5"); o.m = got; arg_unchanged(q, "difference_assign"); break; }
      c.check("grid.difference.sound", g_included(before, gy), [&] { return "difference_assign lost points of X \\ Y: result " + g_show(got) + " X=" + g_show(before) + " Y=" + g_show(q.m); });
      c.check("grid.difference.within", g_included(got, before), [&] { return "difference_assign result not inside X: result " + g_show(got) + " X=" + g_show(before) + " Y=" + g_show(q.m); });
      bool finite = true; for (size_t i = 0; i < before.size(); ++i) for (size_t j = 0; j < q.m.size(); ++j) { rl::Grid z = rl::intersect(before[i], q.m[j]); if (z.empty) continue; if (rl::dim(z) != rl::dim(before[i]) || z.lines.size() != before[i].lines.size()) finite = false; }
      if (finite) c.check("grid.difference.exact", g_empty(g_meet(got, q.m)), [&] { return "X \\ Y is a finite union of grids but the result meets Y: result " + g_show(got) + " X=" + g_show(before) + " Y=" + g_show(q.m); });
      o.m = got; c.check("grid.inv.OK", o.ps.OK(), "OK() false after difference_assign"); arg_unchanged(q, "difference_assign"); break; }
    case 4: { Cg cg = gen_cg(n); bool refine = t.chance(40); c.log << "  " << (refine ? "refine_with_congruence " : "add_congruence ") << str(cg) << "\n"; GUnion e = o.m; for (size_t i = 0; i < e.size(); ++i) fold_cg(e[i], cg);
      if (refine) o.ps.refine_with_congruence(to_ppl(cg)); else o.ps.add_congruence(to_ppl(cg)); settle(o, "add_congruence", e); break; }
    case 5: { size_t k = t.range(0, (long) n - 1); std::vector<long> a(n); for (size_t j = 0; j < n; ++j) a[j] = t.chance(45) ? 0 : t.range(-2, 2); long b = t.range(-2, 2); long den = t.pick(std::vector<long>{1, 1, -1, 2}); bool image = t.chance(55);
      Linear_Expression pe; for (size_t j = n; j-- > 0; ) if (a[j]) pe += a[j] * Variable(j); pe += b; rl::Vec ev(n); for (size_t j = 0; j < n; ++j) ev[j] = a[j];
      c.log << "  " << (image ? "affine_image x" : "affine_preimage x") << k << " := (" << pe << ")/" << den << "\n";
      GUnion e = o.m; for (size_t i = 0; i < e.size(); ++i) { if (image) e[i].affine_image(k, ev, rl::Q(b), rl::Q(den)); else e[i] = rl::affine_preimage(e[i], k, ev, rl::Q(b), rl::Q(den)); }
      if (image) o.ps.affine_image(Variable(k), pe, Coefficient(den)); else o.ps.affine_preimage(Variable(k), pe, Coefficient(den)); settle(o, image ? "affine_image" : "affine_preimage", e); break; }
    case 6: { size_t k = t.range(0, (long) n - 1); c.log << "  unconstrain x" << k << "\n"; GUnion e = o.m; for (size_t i = 0; i < e.size(); ++i) if (!e[i].empty) { rl::Vec v(n, rl::Q(0)); v[k] = 1; e[i].add_line(v); } o.ps.unconstrain(Variable(k)); settle(o, "unconstrain", e); break; }
    case 7: { if (n >= 3) { reduce(o, 0); break; } bool emb = t.chance(50); c.log << "  add_space_dimensions_and_" << (emb ? "embed" : "project") << " 1\n"; GUnion e; for (size_t i = 0; i < o.m.size(); ++i) e.push_back(emb ? rl::embed(o.m[i], 1) : rl::project(o.m[i], 1));
      if (emb) o.ps.add_space_dimensions_and_embed(1); else o.ps.add_space_dimensions_and_project(1); o.n = n + 1; settle(o, "add_space_dimensions", e); break; }
    case 8: { if (n < 2) { reduce(o, 0); break; } size_t k = t.range(0, (long) n - 1); c.log << "  remove_space_dimensions x" << k << "\n"; std::vector<long> keep(n); long nx = 0; for (size_t j = 0; j < n; ++j) keep[j] = j == k ? -1 : nx++;
      GUnion e; for (size_t i = 0; i < o.m.size(); ++i) e.push_back(rl::remap(o.m[i], keep, n - 1)); Variables_Set vs; vs.insert(Variable(k)); o.ps.remove_space_dimensions(vs); o.n = n - 1; settle(o, "remove_space_dimensions", e); break; }
    case 9: { Obj& q = pool[t.range(0, (long) pool.size() - 1)]; if (&q == &o || n + q.n > 3 || o.m.size() * q.m.size() > 6) { reduce(o, 0); break; } c.log << "  concatenate_assign ps" << idx(q) << "\n";
      GUnion e; for (size_t i = 0; i < o.m.size(); ++i) for (size_t j = 0; j < q.m.size(); ++j) e.push_back(rl::concatenate(o.m[i], q.m[j])); o.ps.concatenate_assign(q.ps); o.n = n + q.n; settle(o, "concatenate_assign", e); arg_unchanged(q, "concatenate_assign"); break; }
    case 10: reduce(o, 0); break;
    case 11: reduce(o, 1); break;
    case 12: reduce(o, 2); break;
    case 13: { Obj& q = partner(o); if (o.m.size() * q.m.size() > 9) { reduce(o, 1); break; } c.log << "  simplify_using_context_assign ps" << idx(q); if (nt_steps == 0 && (nontrivial_operand(o.m) || nontrivial_operand(q.m))) ++nt_steps;
      GUnion before = o.m; GUnion want = g_meet(before, q.m); size_t sz = o.ps.size(); bool r = o.ps.simplify_using_context_assign(q.ps); c.log << " -> " << r << "\n"; GUnion got = read(o.ps);
      bool base_bad = false; std::string why;
      for (size_t i = 0; i < before.size() && !base_bad; ++i) for (size_t j = 0; j < q.m.size() && !base_bad; ++j) { if (before[i].empty || q.m[j].empty) continue;
        Grid z = make_grid(before[i]); bool br = z.simplify_using_context_assign(make_grid(q.m[j])); rl::Grid zs = model_of_congruences(z.congruences(), n); rl::Grid mt = rl::intersect(before[i], q.m[j]);
        if (br == mt.empty || !rl::intersect(zs, q.m[j]).equals(mt)) { base_bad = true; why = "base-level simplify_using_context_assign(" + before[i].show() + ", context " + q.m[j].show() + ") returned " + (br ? "true" : "false") + " and left " + zs.show(); } }
      if (base_bad) { c.check("grid.base.simplify_using_context_assign", false, [&] { return why; }); o.m = got; arg_unchanged(q, "simplify_using_context_assign"); break; }
      c.check("grid.simplify.meet", g_equal(g_meet(got, q.m), want), [&] { return "meet with the context not preserved: result " + g_show(got) + " X=" + g_show(before) + " context=" + g_show(q.m); });
      c.check("grid.simplify.size", o.ps.size() <= sz, "more disjuncts than before");
      c.check("grid.simplify.verdict", r == !g_empty(want), [&] { return std::string("returned ") + (r ? "true" : "false") + ": X=" + g_show(before) + " context=" + g_show(q.m); });
      o.m = got; c.check("grid.inv.OK", o.ps.OK(), "OK() false after simplify"); arg_unchanged(q, "simplify_using_context_assign"); break; }
    default: { GUnion cur = read(o.ps); if (cur.empty()) { c.log << "  (no disjunct to drop)\n"; break; } size_t k = t.range(0, (long) cur.size() - 1); c.log << "  drop_disjunct #" << k << "\n";
      PS::iterator i = o.ps.begin(); std::advance(i, k); o.ps.drop_disjunct(i); GUnion e; for (size_t j = 0; j < cur.size(); ++j) if (j != k) e.push_back(cur[j]); settle(o, "drop_disjunct", e); break; }
    }
  }
  void observe(Obj& o) {
    const PS& p = o.ps; const GUnion& m = o.m; int q = t.weighted({16, 12, 10, 8, 10, 6, 6});
    auto doc = [&](const GUnion& x, const GUnion& y, bool strictly, bool skip_empty) { for (size_t j = 0; j < y.size(); ++j) { if (skip_empty && y[j].empty) continue;   /* may or may not have been dropped by a lazy omega-reduction */ bool f = false; for (size_t i = 0; i < x.size() && !f; ++i) f = x[i].contains(y[j]) && (!strictly || !y[j].contains(x[i])); if (!f) return false; } return true; };
    switch (q) {
    case 0: case 1: { Obj& y = partner(o); bool eq = q == 1; if (m.size() + y.m.size() > 8) break; if (nt_steps == 0 && (nontrivial_operand(m) || nontrivial_operand(y.m))) ++nt_steps;
      bool r = eq ? p.geometrically_equals(y.ps) : p.geometrically_covers(y.ps); bool e = eq ? g_equal(m, y.m) : g_included(y.m, m);
      c.log << "  ? " << (eq ? "geometrically_equals ps" : "geometrically_covers ps") << idx(y) << " -> " << r << "\n";
      if (r && !e && kf("KF-C09-5") && (nonint(y.m, p) || (eq && nonint(m, y.ps)))) { c.excluded("KF-C09-5"); break; }
      c.check(eq ? "grid.q.geometrically_equals" : "grid.q.geometrically_covers", r == e, [&] { return std::string(eq ? "geometrically_equals" : "geometrically_covers") + " answered " + (r ? "true" : "false") + ": X=" + g_show(m) + " Y=" + g_show(y.m); });
      arg_unchanged(y, "geometric comparison"); arg_unchanged(o, "geometric comparison"); break; }
    case 2: case 3: { Obj& y = partner(o); bool st = q == 3; bool r = st ? p.strictly_contains(y.ps) : p.contains(y.ps); c.log << "  ? " << (st ? "strictly_contains ps" : "contains ps") << idx(y) << " -> " << r << "\n"; bool d = doc(m, y.m, st, true); { bool d2 = doc(m, y.m, st, false); if (d2 != d && r == d2) d = d2; }
      c.check(st ? "grid.q.strictly_contains.documented" : "grid.q.contains.documented", r == d, [&] { return std::string("answered ") + (r ? "true" : "false") + ": X=" + g_show(m) + " Y=" + g_show(y.m); });
      if (r) c.check("grid.q.contains.implies_covers", g_included(y.m, m), "entailment-based containment holds but Y is not covered"); break; }
    case 4: { Obj& y = partner(o); bool r = p.is_disjoint_from(y.ps); c.log << "  ? is_disjoint_from ps" << idx(y) << " -> " << r << "\n"; c.check("grid.q.is_disjoint_from", r == g_empty(g_meet(m, y.m)), [&] { return "wrong: X=" + g_show(m) + " Y=" + g_show(y.m); }); break; }
    case 5: { bool r = p.is_empty(); c.log << "  ? is_empty -> " << r << "\n"; c.check("grid.q.is_empty", r == g_empty(m), "is_empty() wrong"); break; }
    default: { bool r = p.is_universe(); c.log << "  ? is_universe -> " << r << "\n"; bool e = false; for (size_t i = 0; i < m.size(); ++i) if (!m[i].empty && m[i].lines.size() == o.n) e = true; c.check("grid.q.is_universe", r == e, [&] { return "is_universe() wrong for " + g_show(m); }); break; }
    }
  }
  void copy_step(Obj& o) {
    size_t i = idx(o), j = t.range(0, (long) pool.size() - 1); int h = (int) t.range(0, 3);
    if (h == 0) { c.log << "  ps" << i << " = ps" << j << "\n"; o.ps = pool[j].ps; o.m = pool[j].m; o.n = pool[j].n; }
    else if (h == 1) { c.log << "  swap ps" << i << " ps" << j << "\n"; if (i != j) { swap(o.ps, pool[j].ps); std::swap(o.m, pool[j].m); std::swap(o.n, pool[j].n); } }
    else if (h == 2) { c.log << "  ps" << i << " = copy-constructed ps" << j << "\n"; PS cp(pool[j].ps); GUnion mm = pool[j].m; size_t nn = pool[j].n; o.ps.m_swap(cp); o.m = mm; o.n = nn; }
    else if (snaps.size() < 2) { c.log << "  snapshot of ps" << i << "\n"; Snap s = { PS(o.ps), o.m, "snapshot of ps" + std::to_string(i) }; snaps.push_back(s); }
  }
  void run() {
    size_t n = 1 + (size_t) t.weighted({35, 45, 20}); c.log << "program Pointset_Powerset<Grid> dim " << n << "\n"; c.tag("domain Grid");
    size_t k = (size_t) t.range(2, 3); pool.reserve(4);
    for (size_t i = 0; i < k; ++i) { pool.push_back(Obj(n)); Obj& o = pool.back(); int cnt = (int) t.weighted({5, 20, 35, 30, 10}); c.log << " ps" << i << ":\n";
      for (int j = 0; j < cnt; ++j) { Grid g(n); rl::Grid m(n); c.log << "  add_disjunct "; gen_disjunct(o, g, m); c.log << "\n"; o.ps.add_disjunct(g); o.m.push_back(m); }
      settle(o, "construct", o.m); }
    int steps = 0;
    while (!t.exhausted() && steps < 10) { ++steps; size_t i = t.range(0, (long) pool.size() - 1); Obj& o = pool[i]; int what = t.weighted({60, 27, 13});
      c.log << " step " << steps << " ps" << i << " (" << o.m.size() << " disjuncts, dim " << o.n << "):\n";
      if (what == 0) mutate(o); else if (what == 1) observe(o); else copy_step(o); }
    for (size_t i = 0; i < pool.size(); ++i) { GUnion got = read(pool[i].ps); c.check("grid.cow.pool", g_equal(got, pool[i].m), [&] { return "ps" + std::to_string(i) + " changed behind the model's back: now " + g_show(got) + " model " + g_show(pool[i].m); }); }
    for (size_t i = 0; i < snaps.size(); ++i) { GUnion got = read(snaps[i].ps); c.check("grid.cow.snapshot", g_equal(got, snaps[i].m), [&] { return snaps[i].what + " changed after later mutations of the original"; }); }
    if (nt_steps >= 1) c.nt();
  }
};

void vf_case(Ctx& c) {
  int dom = c.t.weighted({26, 26, 16, 16, 16});
  // single-domain variants: bin/c09_powerset@CPOLY, @NNC, @BDS, @BOX, @GRID
#if defined(VF_CPOLY)
  dom = 0;
#elif defined(VF_NNC)
  dom = 1;
#elif defined(VF_BDS)
  dom = 2;
#elif defined(VF_BOX)
  dom = 3;
#elif defined(VF_GRID)
  dom = 4;
#endif
  if (dom == 0) { Prog<C_Polyhedron> p(c); p.run(); }
  else if (dom == 1) { Prog<NNC_Polyhedron> p(c); p.run(); }
  else if (dom == 2) { Prog<BD_Shape<mpq_class> > p(c); p.run(); }
  else if (dom == 3) { Prog<Rational_Box> p(c); p.run(); }
  else { GProg p(c); p.run(); }
}
VF_MAIN
