// C07: PIP_Problem histories; the solution tree is evaluated THROUGH THE PUBLIC INTERFACE at concrete parameter assignments and
// compared with a brute-force lexicographic minimum.
//
// Case: 1-3 variables, 0-2 parameters (any dimensions), 0-5 constraints (=, >=, > with coefficients in [-4,4]), optional context
// constraints (constraints over parameters only), optional big parameter, one CUTTING_STRATEGY x PIVOT_ROW_STRATEGY, three ways of
// building the problem, then a HISTORY: solve; add_constraint(s) / add_space_dimensions_and_embed / add_to_parameter_space_dimensions /
// set_big_parameter_dimension on a new parameter / copy, assign, swap / change of strategy; solve again; ...; finally a fresh problem
// built from the final data must have a tree with the same semantics.
//
// Oracle (shares no code with PPL; plain long / mpz arithmetic).  For every assignment of the non-big parameters in [0..7]^p (0..4 with
// three parameters, 0..3 next to a big parameter; the big parameter takes 10^6 and 10^6+1) that satisfies the context rows (the rows
// without variable coefficients: other assignments are outside the quantifier of the property and are skipped):
//   * the tree is spanned as documented in PIP_Problem_defs.hh: artificial parameters of a node are appended after the dimensions seen
//     so far (value = floor(expr/denominator)), the node's constraints() are evaluated, a decision node is left through
//     child_node(all tests hold), a solution node whose constraints fail, a null child and a null tree are bottom;
//     parametric_values(v) is evaluated for every variable v;
//   * the last variable (highest index) is minimised exactly by interval arithmetic once the others are fixed; the other variables range
//     over 0..ub when the rows bound them by a constant ub ("exact" class: the oracle point is THE lexicographic minimum, order =
//     increasing dimension index) and over a window otherwise (0..10, the neighbourhood of the tree's own values, the neighbourhoods of
//     M/2, M, 2M when there is a big parameter).  In the window class the checks are one-sided: the tree's point must be feasible, no
//     lexicographically smaller point may exist in the window, bottom must mean that the window has no feasible point.
// Status: UNFEASIBLE <=> solution() == 0 (exact); UNFEASIBLE => bottom everywhere is the per-assignment check; OPTIMIZED => some
// assignment has a solution is only claimed when there is no big parameter, the variables are in the exact class and every parameter is
// bounded inside the window by a context row (otherwise a solution may exist outside the tested window).
// Parametric values are Linear_Expressions (integer coefficients), so integrality holds by type; non-negativity is part of feasibility.
//
// Check ids
//   eval.bottom            the tree evaluates to bottom but the oracle has a feasible point                      (KF-C07-1 guards a subclass)
//   eval.point_feasible    the tree's point violates a constraint / is negative
//   eval.lexmin            a lexicographically smaller feasible point exists
//   tree.*                 structural validity of the tree (undeclared artificial parameter, variable mentioned in a test, decision
//                          node without true child / without test / with false child and several tests, bad denominator)
//   status.*               status vs tree, is_satisfiable, solve() idempotent, optimizing_solution() == solution()
//   problem.*              space_dimension(), parameter_space_dimensions(), get_big_parameter_dimension(), OK(), constraints
//   copy.same_semantics, incremental.equals_fresh    evaluation vectors differ
//   exn.add_to_parameter_space_dimensions.unchanged  a rejected call modified the problem                             (KF-C07-2)
//   copy.OK_after_assign_or_swap                     OK() false right after operator= / swap                          (KF-C07-3)
//   status.optimized_but_bottom_everywhere           OPTIMIZED although every allowed assignment is unfeasible (exact class only; KF-C07-8)
//   crash (exit 51), wall-clock guard                KF-C07-5, KF-C07-9
// With a big parameter nothing is claimed at assignments where the feasibility verdict of the oracle differs between M and M+1.
// In --survey mode a muted check lets the case go on with a tree known to be broken: later failures (and crashes) of the same case are
// artefacts; survey with the known findings active.
//
// Known findings
//   KF-C07-1  PIP_Solution_Node::row_sign() (PIP_Tree.cc:2175) classifies a parametric row whose non-zero coefficients are all negative
//             as NEGATIVE even when its constant term is zero, i.e. when the row is only <= 0; PIP_Solution_Node::solve()
//             (PIP_Tree.cc:2814-2822) then declares the node unfeasible when the row has no positive variable coefficient, although the
//             row is satisfiable where its parametric part vanishes: {A + B <= 0}, parameter B, is UNFEASIBLE though A = 0 at B = 0.
//             Guard: eval.bottom at assignments where some (non-big) parameter is 0 - the only place where such a row can vanish
//             as long as no artificial parameter is involved.
//   KF-C07-2  PIP_Problem::add_to_parameter_space_dimensions() (PIP_Problem.cc:677-687) inserts p_vars into the parameter set BEFORE
//             it rejects indices of already solved variables with std::invalid_argument: the rejected call turns the variable into a
//             parameter.  Guard: the misuse step is not generated.
//
//   KF-C07-3  PIP_Problem::m_swap() (PIP_Problem_inlines.hh:56) and therefore operator= (swap with a temporary copy) exchange the
//             solution trees without set_owner(): OK() is false, and the nodes of the assigned-to problem keep a pointer to a DESTROYED
//             temporary which parametric_values() dereferences.  Check copy.OK_after_assign_or_swap (also problem.OK); guard: assignment
//             and swap steps are replaced by copy construction.
//   KF-C07-4  Adding space dimensions to a solved problem does not renumber the artificial parameters inside the stored node
//             constraints and artificial parameter definitions (PIP_Solution_Node::update_tableau, PIP_Tree.cc:2427, only moves the
//             tableau columns; PIP_Decision_Node::update_tableau, PIP_Tree.cc:1397, only recurses) although the class documentation
//             promises the "systematic renumbering": "Parameter F = (D + E) div 2" keeps meaning E after E has become a new variable.
//             Checks tree.mentions_variable / tree.undeclared_dimension / eval.* / incremental.equals_fresh; guard: no dimensions are
//             added while the tree of the last solve stores an expression over an artificial parameter.
//   KF-C07-5  PIP_Decision_Node::solve() (PIP_Tree.cc:1445, 1460) stores the node returned by the child's solve() without set_parent();
//             nodes created by PIP_Solution_Node::solve() have a null parent_, and parent_merge() (PIP_Tree.cc:1275, called at 1486,
//             1503, 1535 when a branch of a decision node dies in an incremental re-solve) dereferences it: SIGSEGV.  Check: crash
//             (exit 51); guard: the re-solve is tried in a forked child first, a problem whose re-solve crashes is rebuilt from its data.
//
//   KF-C07-6  PIP_Solution_Node::solve(), case "then branch unfeasible, else branch feasible" (PIP_Tree.cc:3211-3223): the else branch is
//             *this re-solved in place after its constraints and artificial parameters were swapped aside; on return the saved lists
//             are swapped BACK instead of being merged, so every artificial parameter and every validity constraint produced while
//             solving the else branch is dropped (and when that solve returned a new decision node - PPL_ASSERT(f_node == this) - the
//             tests of that node are replaced).  {4B+2C-4D-6>=0, 4B+C>=0, 3A+4D-17=0, B,C,D<=5}, parameter A, DEEPEST/MAX_COLUMN gives
//             "if -A >= -5 and -A >= -4 then {-E+4 ; 2E-2G+5 ; -G+5}" with E, G declared nowhere.  Checks tree.undeclared_dimension,
//             problem.OK (first solve); the silent variant (only validity constraints lost) would show as eval.point_feasible /
//             eval.lexmin: {-3A+2B+C+D-1=0, 3A-D+6>=0, -A+2C+D>=0, A<=2, 4B<=5, C<=2, D<=2}, parameters A B, FIRST/MAX_COLUMN gives
//             (C,D) = (0,4) at A=1, B=0.  Guard: a tree with undeclared artificial parameters or with OK() false is not evaluated
//             (case abandoned); in assertion-enabled builds the lead PPL_ASSERT(f_node == this) is used the same way.  The fully
//             silent variant (f_node == this, only validity constraints lost) cannot be recognised from outside and is NOT guarded.
//   KF-C07-7  PIP_Solution_Node::update_tableau() (PIP_Tree.cc:2560) stores the coefficient of a parameter with Row::insert(), which
//             OVERWRITES what the substitution of an earlier non-basic variable of the same constraint (line 2572) accumulated in that
//             column: a constraint added after a solve that mentions a variable v and a parameter q > v whose stored solution depends
//             on q enters the tableau wrongly ({-B+3C-5>0, 4B-4C+2>=0, A<=5, 3A-4C+4>=0, 2B+4C+6>0} solved, then -4A-B+4C>=0 added:
//             A = 3 at B = C = 3 violates it).  Checks eval.point_feasible / eval.lexmin / eval.bottom / incremental.equals_fresh;
//             guard: such rows are not added.
//   KF-C07-8  On a re-solve the artificial parameters stored in the tree only get zero columns in the context
//             (add_artificial_parameters, PIP_Tree.cc:245-251, called at 1436 and 2646): their defining inequalities
//             d*q <= expr <= d*q + d - 1 are not put back, so compatibility checks treat them as free parameters: wrong signs, validity
//             constraints that can never hold (OPTIMIZED with a tree that is bottom everywhere), wrong points.  Checks
//             status.optimized_but_bottom_everywhere / eval.* / incremental.equals_fresh; guard: a problem whose stored tree has an
//             artificial parameter is rebuilt from its data before it is solved again.
//
//   KF-C07-10 PIP_Decision_Node::solve() (PIP_Tree.cc:1475-1492): when the false child of a decision node becomes unfeasible in a
//             re-solve, the node is replaced by its true child and its tests are dropped as "no longer discriminative" - but where the
//             test fails the answer is now bottom, not the true child's solution.  {A,B,D <= 6, -4C+D+2 > 0}, parameter C, solved
//             ("if -C >= 0 then {0;0;0} else if -C >= -1 then {0;0;4C-1} else _|_"), then 3D-3 = 0 added: the tree becomes {0;0;1}
//             for every C although C >= 1 is unfeasible.  Checks eval.point_feasible / eval.lexmin / incremental.equals_fresh; guard:
//             a problem whose stored tree has a decision node with a false child is rebuilt from its data before it is solved again.
//   KF-C07-9  PIP_Solution_Node::Tableau::is_better_pivot() (PIVOT_ROW_STRATEGY_MAX_COLUMN only), sparse rows: (a) the loop at
//             PIP_Tree.cc:1826-1832 lacks ++j1 and never terminates when row_1 has a stored parameter column beyond the last one of
//             row_0 and s[i][col_1] == 0; (b) at end_loop (line 1837) *j0 and *j1 are passed to column_lower() although one of them
//             may be end() (mismatch found in a trailing loop) or they designate different columns: invalid read, SIGSEGV in mpz_mul
//             depending on the heap contents (not reproducible by a replay in a fresh process).  Needs >= 2 columns in the parameter
//             matrix, i.e. >= 1 parameter.  Check: crash (exit 51) / wall-clock guard; guard: the solve is tried in a forked child
//             first; if it crashes the strategy is reset to PIVOT_ROW_STRATEGY_FIRST, if it hangs the case is inconclusive.
//   Big parameter: it only occurs the documented way (x_j replaced by x'_j - M or M - x'_j).  With arbitrary coefficients (3A >= 2M - 5,
//   3A <= 2M) the cuts need artificial parameters over M and row_sign() then trusts the sign of M's coefficient alone: PPL answers
//   UNFEASIBLE.  Reported as a suspected defect, not claimed by this harness.
//
// Termination is not part of the property: every solve runs under a Threshold_Watcher<Weightwatch_Traits> whose handler throws
// (=> vf::Inconclusive) and under a 3 s SIGALRM guard that leaves solve() by siglongjmp (=> vf::Inconclusive, the problem object is
// leaked): PIP_Solution_Node::Tableau::is_better_pivot() (PIVOT_ROW_STRATEGY_MAX_COLUMN) has a loop that never polls maybe_abandon().
//
// Non-trivial: the tree of some solve has a decision node or an artificial parameter, or the history changed the problem after a solve.
#include "ppl-config.h"
#include "ppl_include_files.hh"
#include "common.hh"
#include <csetjmp>
#include <climits>
#include <algorithm>
#include <sys/time.h>
#include <sys/wait.h>
using namespace Parma_Polyhedra_Library;
using namespace Parma_Polyhedra_Library::IO_Operators;
using namespace vf;
const vf::Info vf_info = { "C07", "c07_pip", 2.5 };

typedef mpz_class Z;

// ------------------------------------------------------------------ guards
static const unsigned long long WEIGHT_LIMIT = 60000000ULL;
static const double WALL_LIMIT = 3.0;
static sigjmp_buf g_jb;
static volatile sig_atomic_t g_armed = 0;
static bool g_poisoned = false;          // a solve was left by siglongjmp: leak the problems of this case
static void on_alarm(int) { if (g_armed) { g_armed = 0; siglongjmp(g_jb, 1); } }
static void timer_set(double s) { struct itimerval it; std::memset(&it, 0, sizeof it); it.it_value.tv_sec = (long) s; it.it_value.tv_usec = (long) ((s - (long) s) * 1e6); setitimer(ITIMER_REAL, &it, 0); }
struct WeightLimit {};
static void too_fat() { throw WeightLimit(); }
typedef Threshold_Watcher<Weightwatch_Traits> Weightwatch;
static Weightwatch* g_ww = 0;

static PIP_Problem_Status guarded_solve(const PIP_Problem& p) {
  static bool installed = false;
  if (!installed) { struct sigaction sa; std::memset(&sa, 0, sizeof sa); sa.sa_handler = on_alarm; sigemptyset(&sa.sa_mask); sigaction(SIGALRM, &sa, 0); installed = true; }
  if (sigsetjmp(g_jb, 1) != 0) {
    timer_set(0); g_poisoned = true; delete g_ww; g_ww = 0;     // (the watcher must leave the pending list)
    throw Inconclusive("wall-clock guard: PIP_Problem::solve() still running after 3 s without polling maybe_abandon()");
  }
  g_armed = 1; timer_set(WALL_LIMIT);
  PIP_Problem_Status st = UNFEASIBLE_PIP_PROBLEM;
  try { g_ww = new Weightwatch(WEIGHT_LIMIT, too_fat); st = p.solve(); }
  catch (WeightLimit&) { g_armed = 0; timer_set(0); delete g_ww; g_ww = 0; g_poisoned = true; throw Inconclusive("weight threshold reached inside PIP_Problem::solve()"); }
  catch (...) { g_armed = 0; timer_set(0); delete g_ww; g_ww = 0; throw; }
  g_armed = 0; timer_set(0); delete g_ww; g_ww = 0;
  return st;
}
// p.solve() in a forked child (same address space contents, hence the same behaviour): 0 returns, 1 dies from a signal, 2 still
// running after 3 s (used only under KF-C07-5 and KF-C07-9)
static int solve_probe(const PIP_Problem& p) {
  std::cout.flush(); std::cerr.flush(); fflush(0);
  pid_t pid = fork(); if (pid < 0) throw Inconclusive("fork failed");
  if (pid == 0) {
    for (int sg : { SIGSEGV, SIGABRT, SIGFPE, SIGBUS, SIGILL, SIGALRM }) std::signal(sg, SIG_DFL);
    int fd = ::open("/dev/null", O_WRONLY); if (fd >= 0) { ::dup2(fd, 2); ::dup2(fd, 1); }
    alarm(3);
    try { Weightwatch ww(WEIGHT_LIMIT, too_fat); (void) p.solve(); } catch (...) {}
    ::_exit(0);
  }
  int status = 0; while (waitpid(pid, &status, 0) < 0) {}
  return !WIFSIGNALED(status) ? 0 : WTERMSIG(status) == SIGALRM ? 2 : 1;
}
static bool solve_crashes(const PIP_Problem& p) { return solve_probe(p) == 1; }
struct Prob {                         // owner that leaks after an abandoned solve (the object is then in an unspecified state)
  PIP_Problem* p;
  Prob() : p(0) {}
  ~Prob() { if (!g_poisoned) delete p; }
  void reset(PIP_Problem* q) { if (!g_poisoned) delete p; p = q; }
private: Prob(const Prob&); Prob& operator=(const Prob&);
};

// ------------------------------------------------------------------ model
struct Row { std::vector<long> a; long b; int k; };   // a.x + b {k=0 '=', 1 '>=', 2 '>'} 0
static long coef(const Row& r, size_t j) { return j < r.a.size() ? r.a[j] : 0; }
struct Model {
  size_t n = 0; std::vector<bool> par; std::vector<Row> rows; long big = -1; int cut = 0, piv = 0;
  std::vector<size_t> vars() const { std::vector<size_t> v; for (size_t j = 0; j < n; ++j) if (!par[j]) v.push_back(j); return v; }
  std::vector<size_t> params() const { std::vector<size_t> v; for (size_t j = 0; j < n; ++j) if (par[j]) v.push_back(j); return v; }
  bool is_context(const Row& r) const { for (size_t j = 0; j < n; ++j) if (!par[j] && coef(r, j) != 0) return false; return true; }
};
static std::string nm(size_t j) { std::string s(1, (char) ('A' + j % 26)); if (j >= 26) s += std::to_string(j / 26); return s; }
static std::string row_str(const Row& r) {
  std::ostringstream o; bool f = true;
  for (size_t j = 0; j < r.a.size(); ++j) if (r.a[j]) { long v = r.a[j]; if (f) { if (v == -1) o << "-"; else if (v != 1) o << v << "*"; } else { o << (v < 0 ? " - " : " + "); if (v != 1 && v != -1) o << (v < 0 ? -v : v) << "*"; } o << nm(j); f = false; }
  if (f) o << r.b; else if (r.b) o << (r.b < 0 ? " - " : " + ") << (r.b < 0 ? -r.b : r.b);
  o << (r.k == 0 ? " = 0" : r.k == 1 ? " >= 0" : " > 0"); return o.str();
}
static std::string describe(const Model& m) {
  std::ostringstream o; o << "dim " << m.n << ", parameters {"; bool f = true; for (size_t j = 0; j < m.n; ++j) if (m.par[j]) { o << (f ? "" : ",") << nm(j); f = false; } o << "}";
  if (m.big >= 0) o << ", big " << nm(m.big);
  o << ", cut " << m.cut << " piv " << m.piv << ", constraints {"; for (size_t i = 0; i < m.rows.size(); ++i) o << (i ? ", " : "") << row_str(m.rows[i]); o << "}"; return o.str();
}
static Constraint row_con(const Row& r) {
  Linear_Expression e; for (size_t j = r.a.size(); j-- > 0; ) if (r.a[j]) e += r.a[j] * Variable(j); e += r.b;
  return r.k == 0 ? Constraint(e == 0) : r.k == 1 ? Constraint(e >= 0) : Constraint(e > 0);
}
static PIP_Problem::Control_Parameter_Value cutv(int c) { return c == 0 ? PIP_Problem::CUTTING_STRATEGY_FIRST : c == 1 ? PIP_Problem::CUTTING_STRATEGY_DEEPEST : PIP_Problem::CUTTING_STRATEGY_ALL; }
static PIP_Problem::Control_Parameter_Value pivv(int p) { return p == 0 ? PIP_Problem::PIVOT_ROW_STRATEGY_FIRST : PIP_Problem::PIVOT_ROW_STRATEGY_MAX_COLUMN; }

// ------------------------------------------------------------------ oracle
static long fdiv(long a, long b) { long q = a / b, r = a % b; if (r != 0 && ((r < 0) != (b < 0))) --q; return q; }   // floor
static long cdiv(long a, long b) { return -fdiv(-a, b); }                                                        // ceiling
static const long INF = LONG_MAX / 8;
// x holds the parameters and the already fixed variables; minimise variable `last' exactly.  Returns false if empty.
static bool min_last(const Model& m, std::vector<long>& x, size_t last, long& best) {
  long lo = 0, hi = INF;
  for (size_t i = 0; i < m.rows.size(); ++i) {
    const Row& r = m.rows[i]; long cl = coef(r, last), rest = r.b;
    for (size_t j = 0; j < m.n; ++j) if (j != last) rest += coef(r, j) * x[j];
    if (cl == 0) { if (r.k == 0 ? rest != 0 : r.k == 1 ? rest < 0 : rest <= 0) return false; continue; }
    if (r.k == 0) { if (rest % cl != 0) return false; long v = -rest / cl; lo = std::max(lo, v); hi = std::min(hi, v); }
    else { long need = r.k == 2 ? 1 : 0;            // cl*x + rest >= need
      if (cl > 0) lo = std::max(lo, cdiv(need - rest, cl)); else hi = std::min(hi, fdiv(rest - need, -cl)); }
    if (lo > hi) return false;
  }
  best = lo; return true;
}
static bool lexmin_rec(const Model& m, const std::vector<size_t>& vs, const std::vector<std::vector<long> >& cand, size_t k, std::vector<long>& x) {
  if (k + 1 == vs.size()) { long b; if (!min_last(m, x, vs[k], b)) return false; x[vs[k]] = b; return true; }
  for (size_t i = 0; i < cand[k].size(); ++i) { x[vs[k]] = cand[k][i]; if (lexmin_rec(m, vs, cand, k + 1, x)) return true; }
  return false;
}
static bool feasible_z(const Model& m, const std::vector<Z>& x, std::string& why) {
  for (size_t j = 0; j < m.n; ++j) if (!m.par[j] && x[j] < 0) { why = nm(j) + " is negative"; return false; }
  for (size_t i = 0; i < m.rows.size(); ++i) { Z v = m.rows[i].b; for (size_t j = 0; j < m.n; ++j) v += coef(m.rows[i], j) * x[j];
    if (m.rows[i].k == 0 ? v != 0 : m.rows[i].k == 1 ? v < 0 : v <= 0) { why = "violates " + row_str(m.rows[i]); return false; } }
  return true;
}

// ------------------------------------------------------------------ tree evaluation through the public interface
struct Point { bool skipped = false, bottom = true; std::vector<Z> x; int depth = 0, arts = 0; bool art_zero = false, zero_par = false; };
static std::string pt_str(const Point& p) { if (p.skipped) return "skipped"; if (p.bottom) return "bottom"; std::string s = "("; for (size_t i = 0; i < p.x.size(); ++i) s += (i ? "," : "") + p.x[i].get_str(); return s + ")"; }

struct Shape { int decisions = 0, leaves = 0, arts = 0, depth = 0, false_children = 0, art_refs = 0;
  std::set<std::pair<size_t, size_t> > dep; };   // dep: (variable v, parameter q) such that some leaf's parametric value of v mentions q   // art_refs: stored expressions mentioning an artificial parameter

struct Evaluator {
  Ctx& c; const Model& m; std::string what;
  Evaluator(Ctx& c_, const Model& m_, const std::string& w) : c(c_), m(m_), what(w) {}
  // value of a linear form over parameters and declared artificial parameters
  template <typename E> Z eval(const E& e, Coefficient_traits::const_reference inhomo, size_t dim, const std::vector<Z>& val, const char* where) {
    Z s = Z(inhomo);
    for (size_t j = 0; j < dim; ++j) { Z cf = Z(e.coefficient(Variable(j))); if (cf == 0) continue;
      c.check("tree.undeclared_dimension", j < val.size(), [&] { return what + ": " + where + " mentions dimension " + nm(j) + " but only " + std::to_string(val.size()) + " dimensions (problem + artificial parameters declared on the path) exist there"; });
      c.check("tree.mentions_variable", j >= m.n || m.par[j], [&] { return what + ": " + where + " has a non-zero coefficient for the problem VARIABLE " + nm(j); });
      s += cf * val[j]; }
    return s;
  }
  bool sat(const Constraint& k, const std::vector<Z>& val) { Z v = eval(k, k.inhomogeneous_term(), k.space_dimension(), val, "a node constraint"); return k.is_equality() ? v == 0 : k.is_strict_inequality() ? v > 0 : v >= 0; }
  Point run(const PIP_Tree_Node* node, std::vector<Z> val) {
    Point r; int guard = 0;
    for (;;) {
      if (node == 0) return r;
      c.check("tree.too_deep", ++guard < 200, "path longer than 200 nodes");
      for (PIP_Tree_Node::Artificial_Parameter_Sequence::const_iterator i = node->art_parameter_begin(); i != node->art_parameter_end(); ++i) {
        Z den = Z(i->denominator()); c.check("tree.denominator_positive", den > 0, [&] { return what + ": artificial parameter with denominator " + den.get_str(); });
        Z num = eval(*i, i->inhomogeneous_term(), i->space_dimension(), val, "an artificial parameter"); Z q; mpz_fdiv_q(q.get_mpz_t(), num.get_mpz_t(), den.get_mpz_t());
        val.push_back(q); ++r.arts; if (q == 0) r.art_zero = true;
      }
      bool all = true; const Constraint_System& cs = node->constraints();
      for (Constraint_System::const_iterator i = cs.begin(); i != cs.end(); ++i) if (!sat(*i, val)) { all = false; break; }
      if (const PIP_Decision_Node* d = node->as_decision()) { ++r.depth; c.check("tree.decision_has_true_child", d->child_node(true) != 0, what + ": decision node without true child"); node = d->child_node(all); continue; }
      const PIP_Solution_Node* s = node->as_solution();
      c.check("tree.node_kind", s != 0, what + ": node is neither a decision nor a solution node");
      if (!all) return r;
      r.bottom = false; r.x.assign(m.n, Z(0));
      for (size_t j = 0; j < m.n; ++j) { if (m.par[j]) { r.x[j] = val[j]; continue; } const Linear_Expression& e = s->parametric_values(Variable(j)); r.x[j] = eval(e, e.inhomogeneous_term(), e.space_dimension(), val, "a parametric value"); }
      return r;
    }
  }
  // whole-tree structural walk (independent of the assignments)
  void walk(const PIP_Tree_Node* node, size_t dim, int depth, Shape& sh) {
    c.check("tree.too_deep", depth < 200, "tree deeper than 200");
    size_t na = 0;
    for (PIP_Tree_Node::Artificial_Parameter_Sequence::const_iterator i = node->art_parameter_begin(); i != node->art_parameter_end(); ++i, ++na) {
      for (size_t j = 0; j < i->space_dimension(); ++j) if (i->coefficient(Variable(j)) != 0) {
        if (j >= m.n) ++sh.art_refs;
        c.check("tree.undeclared_dimension", j < dim + na, [&] { return what + ": artificial parameter " + nm(dim + na) + " is defined in terms of " + nm(j) + " which is not declared before it"; });
        c.check("tree.mentions_variable", j >= m.n || m.par[j], [&] { return what + ": an artificial parameter mentions the problem variable " + nm(j); }); }
      c.check("tree.denominator_positive", i->denominator() > 0, what + ": artificial parameter with non-positive denominator");
    }
    c.check("tree.art_parameter_count", node->art_parameter_count() == na, what + ": art_parameter_count() differs from the length of [art_parameter_begin(), art_parameter_end())");
    sh.arts += (int) na; dim += na; sh.depth = std::max(sh.depth, depth);
    const Constraint_System& cs = node->constraints(); size_t ncs = 0;
    for (Constraint_System::const_iterator i = cs.begin(); i != cs.end(); ++i, ++ncs)
      for (size_t j = 0; j < i->space_dimension(); ++j) if (i->coefficient(Variable(j)) != 0) {
        if (j >= m.n) ++sh.art_refs;
        c.check("tree.undeclared_dimension", j < dim, [&] { std::ostringstream o; o << what << ": node constraint mentions " << nm(j) << " but only " << dim << " dimensions are declared on the path"; return o.str(); });
        c.check("tree.mentions_variable", j >= m.n || m.par[j], [&] { return what + ": a node constraint mentions the problem variable " + nm(j); }); }
    if (const PIP_Decision_Node* d = node->as_decision()) {
      ++sh.decisions;
      c.check("tree.decision_has_true_child", d->child_node(true) != 0, what + ": decision node without true child");
      c.check("tree.decision_has_test", ncs >= 1, what + ": decision node without any test");
      if (d->child_node(false) != 0) { ++sh.false_children; c.check("tree.false_child_single_test", ncs == 1, [&] { return what + ": decision node with a false child and " + std::to_string(ncs) + " tests"; }); }
      walk(d->child_node(true), dim, depth + 1, sh); if (d->child_node(false) != 0) walk(d->child_node(false), dim, depth + 1, sh);
    } else {
      const PIP_Solution_Node* s = node->as_solution(); c.check("tree.node_kind", s != 0, what + ": node is neither a decision nor a solution node"); ++sh.leaves;
      for (size_t j = 0; j < m.n; ++j) if (!m.par[j]) { const Linear_Expression& e = s->parametric_values(Variable(j));
        for (size_t q = 0; q < e.space_dimension(); ++q) if (e.coefficient(Variable(q)) != 0) {
          if (q < m.n) sh.dep.insert(std::make_pair(j, q));
          c.check("tree.undeclared_dimension", q < dim, [&] { std::ostringstream o; o << what << ": parametric value of " << nm(j) << " mentions " << nm(q) << " but only " << dim << " dimensions are declared on the path"; return o.str(); });
          c.check("tree.mentions_variable", q >= m.n || m.par[q], [&] { return what + ": parametric value of " + nm(j) + " mentions the problem variable " + nm(q); }); } }
    }
  }
};

// ------------------------------------------------------------------ the program
static const long BIGM = 1000000;
static long small(Tape& t, int maxabs) { long i = t.range(0, 2 * maxabs + 4); if (i > 2 * maxabs) return 0; return (i & 1) ? (i + 1) / 2 : -(i / 2); }

struct Prog {
  Ctx& c; Tape& t; Model m; Prob P; int mutations = 0; int solves = 0; bool boxed = true; long U = 4; std::vector<long> wit; std::vector<int> subst; size_t solved_dims = 0;
  bool any_shape_nt = false; std::string last_shape, last_status; Shape last_sh, p_sh; bool abandon = false;
  Prog(Ctx& c_) : c(c_), t(c_.t) {}

  Row gen_row(bool context_only) {
    Row r; r.a.assign(m.n, 0);
    for (size_t j = 0; j < m.n; ++j) { if ((long) j == m.big || (context_only && !m.par[j])) continue; r.a[j] = small(t, 4); }
    r.b = small(t, 6); r.k = (int) t.weighted({70, 15, 15}); r.k = r.k == 0 ? 1 : r.k == 1 ? 0 : 2;
    // The big parameter M only occurs the documented way: a row over "original" variables in which x_j is replaced by
    // x'_j - M (sign-unrestricted x_j, subst +1) or by M - x'_j (maximised x_j, subst -1).
    if (m.big >= 0) { for (size_t j = 0; j < m.n && j < subst.size(); ++j) if (!m.par[j] && subst[j] != 0) { if (subst[j] > 0) r.a[m.big] -= r.a[j]; else { r.a[m.big] += r.a[j]; r.a[j] = -r.a[j]; } } return r; }
    if (t.chance(50)) {                      // make the witness satisfy it (more feasible problems)
      long v = r.b; for (size_t j = 0; j < m.n; ++j) v += r.a[j] * wit[j];
      if (r.k == 0) r.b -= v; else if (v < (r.k == 2 ? 1 : 0)) { for (size_t j = 0; j < m.n; ++j) r.a[j] = -r.a[j]; r.b = -r.b; if (r.k == 2 && v == 0) r.b += 1; } }
    return r;
  }
  Row box_row(size_t j, long ub) { Row r; r.a.assign(m.n, 0); r.a[j] = -1; r.b = ub; r.k = 1; return r; }
  // box of a variable: 0 <= x <= U, or -U <= original x <= U for a substituted one (two rows in x' and M)
  void push_box(size_t j) {
    if (m.big >= 0 && j < subst.size() && subst[j] != 0) { Row r = box_row(j, U); r.a[m.big] = 1; m.rows.push_back(r); Row q; q.a.assign(m.n, 0); q.a[j] = 1; q.a[m.big] = -1; q.b = U; q.k = 1; m.rows.push_back(q); }
    else m.rows.push_back(box_row(j, U));
  }

  PIP_Problem* build(int variant) {          // three ways of constructing the same problem
    PIP_Problem* p = 0;
    if (variant == 0) {
      std::vector<Constraint> cs; for (size_t i = 0; i < m.rows.size(); ++i) cs.push_back(row_con(m.rows[i]));
      Variables_Set ps; for (size_t j = 0; j < m.n; ++j) if (m.par[j]) ps.insert(Variable(j));
      p = new PIP_Problem(m.n, cs.begin(), cs.end(), ps);
    } else if (variant == 1) {
      p = new PIP_Problem(m.n);
      Variables_Set ps; for (size_t j = 0; j < m.n; ++j) if (m.par[j]) ps.insert(Variable(j));
      if (!ps.empty()) p->add_to_parameter_space_dimensions(ps);
      Constraint_System cs; cs.set_space_dimension(m.n); for (size_t i = 0; i < m.rows.size(); ++i) cs.insert(row_con(m.rows[i]));
      p->add_constraints(cs);
    } else {
      p = new PIP_Problem();
      for (size_t j = 0; j < m.n; ++j) { if (m.par[j]) p->add_space_dimensions_and_embed(0, 1); else p->add_space_dimensions_and_embed(1, 0); }
      for (size_t i = 0; i < m.rows.size(); ++i) p->add_constraint(row_con(m.rows[i]));
    }
    if (m.big >= 0) p->set_big_parameter_dimension((dimension_type) m.big);
    p->set_control_parameter(cutv(m.cut)); p->set_control_parameter(pivv(m.piv));
    return p;
  }

  std::string tree_text(const PIP_Problem& p) { std::ostringstream o; try { p.print_solution(o); } catch (std::exception& e) { o << "<print_solution threw " << e.what() << ">"; } return o.str(); }

  // Solves p (already holding the model's data), checks status/structure, evaluates every assignment against the oracle.
  std::vector<Point> check(PIP_Problem& p, const std::string& how) {
    ++solves;
    if (kf("KF-C07-9") && m.piv == 1 && !m.params().empty() && p.get_control_parameter(PIP_Problem::PIVOT_ROW_STRATEGY) == PIP_Problem::PIVOT_ROW_STRATEGY_MAX_COLUMN) {
      int pr = solve_probe(p);
      if (pr == 2) throw Inconclusive("PIVOT_ROW_STRATEGY_MAX_COLUMN: solve() does not return (forked probe)");
      if (pr == 1) { c.excluded("KF-C07-9"); c.log << "  (solve() crashes in a forked child under PIVOT_ROW_STRATEGY_MAX_COLUMN: strategy set to FIRST, KF-C07-9)\n"; m.piv = 0; p.set_control_parameter(pivv(0)); }
    }
    unsigned long long w0 = Weightwatch_Traits::weight; size_t a0 = fired_asserts().size();
    PIP_Problem_Status st = guarded_solve(p);
    if (kf("KF-C07-6")) for (size_t i = a0; i < fired_asserts().size(); ++i) if (fired_asserts()[i].find("(f_node == this)") != std::string::npos) {   // lead available in assertion-enabled builds only
      c.excluded("KF-C07-6"); c.log << "    (PPL_ASSERT(f_node == this) fired inside solve(): KF-C07-6, case abandoned)\n"; abandon = true; return std::vector<Point>(); }
    unsigned long long w = Weightwatch_Traits::weight - w0;
    PIP_Tree root = p.solution();
    c.log << "  " << how << ": solve -> " << (st == UNFEASIBLE_PIP_PROBLEM ? "UNFEASIBLE" : "OPTIMIZED") << " (weight " << w << ")\n";
    if (c.verbose) c.log << tree_text(p);
    auto ctxmsg = [&]() { return how + " for " + describe(m) + "\n tree:\n" + tree_text(p); };
    c.check("status.matches_tree", (st == UNFEASIBLE_PIP_PROBLEM) == (root == 0), [&] { return std::string("solve() = ") + (st == UNFEASIBLE_PIP_PROBLEM ? "UNFEASIBLE" : "OPTIMIZED") + " but solution() is " + (root ? "not null" : "null") + "; " + ctxmsg(); });
    c.check("status.optimizing_solution_same", p.optimizing_solution() == root, "optimizing_solution() != solution()");
    c.check("status.is_satisfiable", p.is_satisfiable() == (st == OPTIMIZED_PIP_PROBLEM), "is_satisfiable() disagrees with solve()");
    c.check("status.solve_idempotent", p.solve() == st && p.solution() == root, "a second solve() changed the status or the tree");
    { bool ok = p.OK();
      if (!ok && kf("KF-C07-6")) { c.excluded("KF-C07-6"); c.log << "    (OK() false after solve(): KF-C07-6, case abandoned)\n"; abandon = true; return std::vector<Point>(); }
      c.check("problem.OK", ok, [&] { return "OK() is false after solve(); " + ctxmsg(); });
      if (!ok) { abandon = true; return std::vector<Point>(); } }
    c.check("problem.space_dimension", p.space_dimension() == m.n, [&] { return "space_dimension() = " + std::to_string(p.space_dimension()) + ", expected " + std::to_string(m.n); });
    { const Variables_Set& ps = p.parameter_space_dimensions(); bool ok = ps.size() == m.params().size(); for (size_t j = 0; j < m.n; ++j) if ((ps.count(j) != 0) != (bool) m.par[j]) ok = false;
      c.check("problem.parameter_space_dimensions", ok, [&] { std::ostringstream o; o << "parameter_space_dimensions() = " << ps << "; " << ctxmsg(); return o.str(); }); }
    c.check("problem.big_parameter_dimension", m.big >= 0 ? p.get_big_parameter_dimension() == (dimension_type) m.big : p.get_big_parameter_dimension() == not_a_dimension(), "get_big_parameter_dimension() wrong");
    // (rows added through a Constraint_System lose the trivially true ones: only an upper bound on their number is exact)
    c.check("problem.constraints", (size_t) std::distance(p.constraints_begin(), p.constraints_end()) <= m.rows.size(), "more constraints in [constraints_begin(), constraints_end()) than were added");
    c.check("problem.control_parameters", p.get_control_parameter(PIP_Problem::CUTTING_STRATEGY) == cutv(m.cut) && p.get_control_parameter(PIP_Problem::PIVOT_ROW_STRATEGY) == pivv(m.piv), "get_control_parameter() wrong");

    Evaluator ev(c, m, how + " for " + describe(m));
    Shape sh;
    try { if (root) ev.walk(root, m.n, 0, sh); }
    catch (Fail& f) {   // KF-C07-6: the tree uses artificial parameters whose definitions were dropped
      if (f.id == "tree.undeclared_dimension" && kf("KF-C07-6")) { c.excluded("KF-C07-6"); c.log << "    (tree mentions undeclared artificial parameters: KF-C07-6, case abandoned)\n"; abandon = true; return std::vector<Point>(); }
      throw; }
    { std::ostringstream o; o << "shape " << (root == 0 ? "null" : sh.decisions == 0 ? "leaf" : sh.decisions <= 2 ? "decisions 1-2" : "decisions 3+") << (sh.arts ? " +art" : ""); last_shape = o.str(); }
    last_status = st == UNFEASIBLE_PIP_PROBLEM ? "status UNFEASIBLE" : "status OPTIMIZED";
    if (sh.decisions >= 1 || sh.arts >= 1) any_shape_nt = true;
    last_sh = sh;
    solved_dims = m.n;

    // --- assignments
    std::vector<size_t> vs = m.vars(), ps = m.params(); std::vector<size_t> nb; for (size_t q : ps) if ((long) q != m.big) nb.push_back(q);
    const long PW = m.big >= 0 ? 3 : nb.size() >= 3 ? 4 : 7;
    // exact class: every variable but the last has a constant upper bound
    std::vector<long> ub(vs.size(), -1); bool exact = true;
    for (size_t k = 0; k + 1 < vs.size(); ++k) { long best = INF;
      for (const Row& r : m.rows) { long a = coef(r, vs[k]); if (a >= 0 || r.k == 0) continue; bool single = true; for (size_t j = 0; j < m.n; ++j) if (j != vs[k] && coef(r, j) != 0) single = false; if (!single) continue; best = std::min(best, fdiv(r.b - (r.k == 2 ? 1 : 0), -a)); }
      if (best > 40) exact = false; else ub[k] = best; }
    bool params_bounded = m.big < 0;
    for (size_t q : nb) { long best = INF; for (const Row& r : m.rows) { long a = coef(r, q); if (a >= 0 || r.k == 0) continue; bool single = true; for (size_t j = 0; j < m.n; ++j) if (j != q && coef(r, j) != 0) single = false; if (single) best = std::min(best, fdiv(r.b - (r.k == 2 ? 1 : 0), -a)); } if (best > PW) params_bounded = false; }

    std::vector<Point> out; std::vector<long> pv(nb.size(), 0); bool any_solution = false; long evaluated = 0, residue_skips = 0;
    for (;;) {
      for (int bigk = 0; bigk < (m.big >= 0 ? 2 : 1); ++bigk) {
        std::vector<long> x(m.n, 0); for (size_t i = 0; i < nb.size(); ++i) x[nb[i]] = pv[i]; if (m.big >= 0) x[m.big] = BIGM + bigk;
        bool in_ctx = true; for (const Row& r : m.rows) if (m.is_context(r)) { long v = r.b; for (size_t j = 0; j < m.n; ++j) v += coef(r, j) * x[j]; if (r.k == 0 ? v != 0 : r.k == 1 ? v < 0 : v <= 0) { in_ctx = false; break; } }
        if (!in_ctx) { Point sk; sk.skipped = true; out.push_back(sk); continue; }
        if (m.big >= 0 && exact) {   // "for all sufficiently large values": nothing is claimed where feasibility depends on the residue of the big parameter
          bool h[2]; for (int b2 = 0; b2 < 2; ++b2) { std::vector<long> y = x; y[m.big] = BIGM + b2; std::vector<std::vector<long> > cd(vs.size()); for (size_t k = 0; k + 1 < vs.size(); ++k) for (long v = 0; v <= ub[k]; ++v) cd[k].push_back(v); h[b2] = lexmin_rec(m, vs, cd, 0, y); }
          if (h[0] != h[1]) { Point sk; sk.skipped = true; out.push_back(sk); ++residue_skips; continue; } }
        ++evaluated;
        std::vector<Z> val(m.n, Z(0)); for (size_t j = 0; j < m.n; ++j) if (m.par[j]) val[j] = x[j];
        Point tp = ev.run(root, val);
        for (size_t q : nb) if (x[q] == 0) tp.zero_par = true;
        auto amsg = [&]() { std::ostringstream o; o << "at"; for (size_t q : ps) o << " " << nm(q) << "=" << x[q]; if (ps.empty()) o << " (no parameters)"; return o.str(); };
        // candidates
        std::vector<std::vector<long> > cand(vs.size());
        for (size_t k = 0; k + 1 < vs.size(); ++k) {
          std::set<long> s;
          if (exact) { for (long v = 0; v <= ub[k]; ++v) s.insert(v); }
          else { for (long v = 0; v <= 10; ++v) s.insert(v);
            if (ub[k] >= 0) { std::set<long> s2; for (long v : s) if (v <= ub[k]) s2.insert(v); s.swap(s2); }
            if (!tp.bottom && tp.x[vs[k]] >= 0 && tp.x[vs[k]] < Z(INF)) { long tv = tp.x[vs[k]].get_si(); for (long d = -2; d <= 1; ++d) if (tv + d >= 0) s.insert(tv + d); }
            if (m.big >= 0) for (long base : { x[m.big] / 2, x[m.big], 2 * x[m.big] }) for (long d = -3; d <= 3; ++d) s.insert(base + d); }
          cand[k].assign(s.begin(), s.end());
        }
        bool have = false; std::vector<long> best = x;
        if (vs.empty()) { have = true; for (const Row& r : m.rows) { long v = r.b; for (size_t j = 0; j < m.n; ++j) v += coef(r, j) * x[j]; if (r.k == 0 ? v != 0 : r.k == 1 ? v < 0 : v <= 0) have = false; } }
        else have = lexmin_rec(m, vs, cand, 0, best);
        if (have) any_solution = true;
        auto omsg = [&]() { std::string s = "oracle "; s += exact ? "(exact) " : "(window) "; if (!have) return s + "has no feasible point"; s += "("; for (size_t j = 0; j < m.n; ++j) s += (j ? "," : "") + std::to_string(best[j]); return s + ")"; };
        if (tp.bottom) {
          if (have) {
            bool zero_par = false; for (size_t q : nb) if (x[q] == 0) zero_par = true;
            if (zero_par && kf("KF-C07-1")) { c.excluded("KF-C07-1"); }
            else c.check("eval.bottom", false, [&] { return "tree evaluates to bottom " + amsg() + " but " + omsg() + "; " + ctxmsg(); });
          }
        } else {
          std::string why;
          c.check("eval.point_feasible", feasible_z(m, tp.x, why), [&] { return "tree gives " + pt_str(tp) + " " + amsg() + " which " + why + "; " + omsg() + "; " + ctxmsg(); });
          bool same = have; if (have) for (size_t j = 0; j < m.n; ++j) if (tp.x[j] != best[j]) same = false;
          // (have is necessarily true here in the exact class; in the window class the tree's own values are candidates)
          bool smaller = false; if (have && !same) for (size_t j : vs) { if (Z(best[j]) < tp.x[j]) { smaller = true; break; } if (Z(best[j]) > tp.x[j]) break; }
          c.check("eval.lexmin", !(have && !same && (smaller || exact)), [&] { return "tree gives " + pt_str(tp) + " " + amsg() + " but " + omsg() + " is lexicographically smaller; " + ctxmsg(); });
        }
        out.push_back(tp);
      }
      size_t i = 0; while (i < pv.size() && ++pv[i] > PW) { pv[i] = 0; ++i; }
      if (i == pv.size()) break;
    }
    if (st == OPTIMIZED_PIP_PROBLEM && exact && params_bounded && !any_solution)
      c.check("status.optimized_but_bottom_everywhere", false, [&] { return "solve() = OPTIMIZED but the feasible region is empty for every parameter assignment allowed by the context (" + std::to_string(evaluated) + " assignments); " + ctxmsg(); });
    c.log << "    " << last_shape << ", " << evaluated << " assignments evaluated, " << (exact ? "exact" : "window") << " oracle\n";
    return out;
  }

  void same_points(const char* id, const std::vector<Point>& a, const std::vector<Point>& b, const std::function<std::string()>& msg) {
    bool ok = a.size() == b.size(); size_t bad = 0;
    for (size_t i = 0; ok && i < a.size(); ++i) {
      if (!a[i].skipped && !b[i].skipped && a[i].bottom != b[i].bottom && a[i].zero_par && kf("KF-C07-1")) { c.excluded("KF-C07-1"); continue; }   // one of them is the false bottom of KF-C07-1
      if (a[i].skipped != b[i].skipped || a[i].bottom != b[i].bottom) { ok = false; bad = i; break; } if (!a[i].skipped && !a[i].bottom && a[i].x != b[i].x) { ok = false; bad = i; } }
    c.check(id, ok, [&] { return "assignment #" + std::to_string(bad) + ": " + (bad < a.size() ? pt_str(a[bad]) : "?") + " vs " + (bad < b.size() ? pt_str(b[bad]) : "?") + "; " + msg(); });
  }

  // KF-C07-5: the re-solve of a problem whose tree has decision nodes may dereference a null parent pointer.  Under the known finding
  // the re-solve is first tried in a forked child; if that crashes the problem is rebuilt from its data (the history goes on).
  void resolve_guard() {
    // KF-C07-8: the re-solve does not put the defining inequalities of the stored artificial parameters back into the context
    if (kf("KF-C07-8") && p_sh.arts > 0) { c.excluded("KF-C07-8"); c.log << "  (stored tree has artificial parameters: problem rebuilt from its data, KF-C07-8)\n"; P.reset(build(0)); return; }
    // KF-C07-10: a decision node whose false child dies in the re-solve is replaced by its true child WITHOUT its tests
    if (kf("KF-C07-10") && p_sh.false_children > 0) { c.excluded("KF-C07-10"); c.log << "  (stored tree has a decision node with a false child: problem rebuilt from its data, KF-C07-10)\n"; P.reset(build(0)); return; }
    if (!kf("KF-C07-5") || p_sh.decisions == 0) return;
    if (solve_crashes(*P.p)) { c.excluded("KF-C07-5"); c.log << "  (re-solve crashes in a forked child: problem rebuilt from its data, KF-C07-5)\n"; P.reset(build(0)); }
  }
  // KF-C07-4: dimensions must not be added while the tree stores expressions over artificial parameters
  bool dims_guard() { if (p_sh.art_refs == 0 || !kf("KF-C07-4")) return false; c.excluded("KF-C07-4"); return true; }

  // KF-C07-7 trigger: the row mentions a variable v and a parameter q > v such that the stored solution of v depends on q
  bool kf7_trigger(const Row& r) { if (solves == 0) return false; for (const std::pair<size_t, size_t>& d : p_sh.dep) if (d.first < d.second && coef(r, d.first) != 0 && coef(r, d.second) != 0) return true; return false; }
  void add_rows_to(PIP_Problem& p, const std::vector<Row>& rs0) {
    std::vector<Row> rs;
    for (const Row& r : rs0) { if (kf("KF-C07-7") && kf7_trigger(r)) { c.excluded("KF-C07-7"); continue; } rs.push_back(r); }
    if (rs.empty()) return;
    bool one = rs.size() == 1 && t.chance(60);
    c.log << "  add_constraint" << (one ? " " : "s {"); for (size_t i = 0; i < rs.size(); ++i) { c.log << (i ? ", " : "") << row_str(rs[i]); m.rows.push_back(rs[i]); } c.log << (one ? "\n" : "}\n");
    if (one) p.add_constraint(row_con(rs[0])); else { Constraint_System cs; for (size_t i = 0; i < rs.size(); ++i) cs.insert(row_con(rs[i])); p.add_constraints(cs); }
  }

  void run() {
    wit.resize(12); for (size_t j = 0; j < wit.size(); ++j) wit[j] = t.range(0, 3);
    size_t nv = (size_t) t.range(1, 3), np = (size_t) t.range(0, 2); m.n = nv + np; m.par.assign(m.n, false);
    { std::vector<size_t> d; for (size_t j = 0; j < m.n; ++j) d.push_back(j); for (size_t q = 0; q < np; ++q) { size_t k = (size_t) t.range(0, (long) d.size() - 1); m.par[d[d.size() - 1 - k]] = true; d.erase(d.begin() + (d.size() - 1 - k)); } }   // choice 0: the last dimensions
    subst.assign(m.n, 0);
    if (np >= 1 && t.chance(20)) { std::vector<size_t> ps = m.params(); m.big = (long) t.pick(ps); for (size_t j : m.vars()) { int k = t.weighted({30, 35, 35}); subst[j] = k == 0 ? 0 : k == 1 ? 1 : -1; } }
    boxed = !t.chance(15) || m.big >= 0; U = t.range(1, 6);   // (big parameter: every variable is boxed, so that the solutions have the documented form M + k / M - k / k)
    { long k = (t.range(0, 5) + (long) nv + 2 * (long) np + U) % 6; m.cut = (int) (k % 3); m.piv = (int) (k / 3); }   // (spread: the tape is biased towards small choices)
    int nrows = (int) t.range(0, 5);
    for (int i = 0; i < nrows; ++i) m.rows.push_back(gen_row(false));
    if (np >= 1) { int k = t.weighted({50, 35, 15}); for (int i = 0; i < k; ++i) m.rows.push_back(gen_row(true));
      if (t.chance(40)) for (size_t q : m.params()) if ((long) q != m.big) m.rows.push_back(box_row(q, t.range(2, 7))); }
    if (boxed) for (size_t j : m.vars()) push_box(j);
    int variant = (int) t.range(0, 2);
    c.log << "PIP " << describe(m) << "\n  built by " << (variant == 0 ? "PIP_Problem(dim, first, last, params)" : variant == 1 ? "PIP_Problem(dim) + add_to_parameter_space_dimensions + add_constraints" : "PIP_Problem() + add_space_dimensions_and_embed + add_constraint") << "\n";
    P.reset(build(variant));
    std::vector<Point> last = check(*P.p, "first solve"); p_sh = last_sh;
    if (abandon) return;

    int steps = 0; bool dirty = false, corrupted = false;
    while (!t.exhausted() && steps < 5 && !corrupted) {
      ++steps; int what = t.weighted({30, 16, 10, 14, 8, 8, 6, 8});
      switch (what) {
      case 0: if (m.rows.size() < 12) { std::vector<Row> rs; int k = (int) t.range(1, 2); for (int i = 0; i < k; ++i) rs.push_back(gen_row(m.params().size() > 0 && t.chance(20))); add_rows_to(*P.p, rs); dirty = true; ++mutations; } break;
      case 1: { // new dimensions
        if (dims_guard()) break;
        size_t mv = (size_t) t.range(0, 1), mp = (size_t) t.range(0, 1); if (m.vars().size() + mv > 4) mv = 0; if (m.params().size() + mp > 3) mp = 0;
        c.log << "  add_space_dimensions_and_embed(" << mv << ", " << mp << ")\n"; P.p->add_space_dimensions_and_embed(mv, mp);
        for (size_t i = 0; i < mv; ++i) { m.par.push_back(false); ++m.n; } for (size_t i = 0; i < mp; ++i) { m.par.push_back(true); ++m.n; }
        if (mv + mp > 0) { dirty = true; ++mutations; }
        if (mv && boxed) { std::vector<Row> rs; rs.push_back(box_row(m.n - mp - 1, U)); add_rows_to(*P.p, rs); }
        if (mv + mp > 0 && t.chance(60) && m.rows.size() < 12) { std::vector<Row> rs; rs.push_back(gen_row(false)); if (rs[0].a[m.n - 1] == 0) rs[0].a[m.n - 1] = t.chance(50) ? 1 : -1; add_rows_to(*P.p, rs); }
        break; }
      case 2: { // new variable dimensions turned into parameters before the next solve
        if (dims_guard()) break;
        if (m.params().size() >= 3 || m.n >= 7) break; size_t k = (size_t) t.range(1, 2); if (m.params().size() + 1 > 3) break; if (m.vars().size() + k - 1 > 4) k = 1;
        c.log << "  add_space_dimensions_and_embed(" << k << ", 0)\n"; P.p->add_space_dimensions_and_embed(k, 0);
        for (size_t i = 0; i < k; ++i) { m.par.push_back(false); ++m.n; }
        size_t which = m.n - 1 - (size_t) t.range(0, (long) k - 1); Variables_Set s; s.insert(Variable(which)); c.log << "  add_to_parameter_space_dimensions {" << nm(which) << "}\n";
        P.p->add_to_parameter_space_dimensions(s); m.par[which] = true; dirty = true; ++mutations;
        if (boxed) for (size_t j = m.n - k; j < m.n; ++j) if (!m.par[j]) { std::vector<Row> rs; rs.push_back(box_row(j, U)); add_rows_to(*P.p, rs); }
        if (t.chance(60) && m.rows.size() < 12) { std::vector<Row> rs; rs.push_back(gen_row(false)); if (rs[0].a[which] == 0) rs[0].a[which] = t.chance(50) ? 1 : -1; add_rows_to(*P.p, rs); }
        break; }
      case 3: { // copy / assign / swap
        int h = (int) t.range(0, 3);
        if ((h == 1 || h == 2) && kf("KF-C07-3")) { c.excluded("KF-C07-3"); h = 0; }
        if (h == 0) { c.log << "  p = copy(p), original destroyed\n"; PIP_Problem* q = new PIP_Problem(*P.p); P.reset(q); }
        else if (h == 1) { c.log << "  assignment to another problem, original destroyed\n"; PIP_Problem* q = new PIP_Problem(3); q->add_constraint(Variable(0) + Variable(1) >= 2); (void) q->is_satisfiable(); *q = *P.p; P.reset(q); }
        else if (h == 2) { c.log << "  swap with a solved dummy\n"; PIP_Problem* q = new PIP_Problem(2); q->add_constraint(Variable(0) >= 1); (void) q->is_satisfiable(); swap(*q, *P.p); P.reset(q); }
        if (h == 1 || h == 2) { bool ok = P.p->OK(); c.check("copy.OK_after_assign_or_swap", ok, [&] { return std::string("OK() is false right after ") + (h == 1 ? "operator=" : "swap") + " (solution tree nodes still owned by the other problem) for " + describe(m); }); if (!ok) corrupted = true; }
        else if (!dirty) { c.log << "  copy evaluated next to the original\n"; Prob Q; Q.reset(new PIP_Problem(*P.p)); std::vector<Point> r = check(*Q.p, "copy"); if (abandon) return; same_points("copy.same_semantics", last, r, [&] { return "copy vs original for " + describe(m); }); }
        break; }
      case 4: { m.cut = (int) t.range(0, 2); m.piv = (int) t.range(0, 1); c.log << "  set_control_parameter cut " << m.cut << " piv " << m.piv << "\n"; P.p->set_control_parameter(cutv(m.cut)); P.p->set_control_parameter(pivv(m.piv)); break; }
      case 5: { // big parameter on a parameter added after the last solve
        if (m.big >= 0) break; long cand = -1; for (size_t j = solved_dims; j < m.n; ++j) if (m.par[j]) cand = (long) j; if (cand < 0) break;
        { bool used = false; for (const Row& r : m.rows) if (r.a.size() > (size_t) cand && r.a[cand] != 0) used = true; if (used) break; }   // the big parameter is only claimed in the documented x' = x + M form
        c.log << "  set_big_parameter_dimension(" << nm(cand) << ")\n"; P.p->set_big_parameter_dimension((dimension_type) cand); m.big = cand; dirty = true; ++mutations; break; }
      case 6: { // documented rejection: an already solved variable cannot become a parameter
        if (solved_dims == 0) break; std::vector<size_t> sv; for (size_t j = 0; j < solved_dims; ++j) if (!m.par[j]) sv.push_back(j); if (sv.empty()) break;
        if (kf("KF-C07-2")) { c.excluded("KF-C07-2"); break; }
        size_t j = t.pick(sv); Variables_Set s; s.insert(Variable(j)); bool threw = false; c.log << "  add_to_parameter_space_dimensions {" << nm(j) << "} (solved variable: must be rejected)\n";
        try { P.p->add_to_parameter_space_dimensions(s); } catch (std::invalid_argument&) { threw = true; }
        if (threw) { const Variables_Set& ps = P.p->parameter_space_dimensions(); bool ok = true; for (size_t q = 0; q < m.n; ++q) if ((ps.count(q) != 0) != (bool) m.par[q]) ok = false;
          c.check("exn.add_to_parameter_space_dimensions.unchanged", ok, [&] { std::ostringstream o; o << "add_to_parameter_space_dimensions({" << nm(j) << "}) threw std::invalid_argument (variable already solved) but parameter_space_dimensions() is now " << ps << " for " << describe(m); return o.str(); });
          if (!ok) { c.log << "  (history stops: the rejected call changed the problem)\n"; corrupted = true; } }
        else { m.par[j] = true; dirty = true; ++mutations; }   // accepted: then the semantics must follow
        break; }
      default: break;
      }
      if (corrupted) return;
      if (dirty && t.chance(65)) { resolve_guard(); last = check(*P.p, "history solve #" + std::to_string(solves)); p_sh = last_sh; dirty = false; if (abandon) return; }
    }
    if (dirty) { resolve_guard(); last = check(*P.p, "final history solve"); p_sh = last_sh; dirty = false; if (abandon) return; }
    if (mutations > 0) {
      Prob F; F.reset(build(0)); std::vector<Point> fr = check(*F.p, "fresh problem from the final data"); if (abandon) return;
      same_points("incremental.equals_fresh", last, fr, [&] { return "history-built vs fresh for " + describe(m) + "\n history tree:\n" + tree_text(*P.p) + " fresh tree:\n" + tree_text(*F.p); });
    }
    c.tag("strategy cut" + std::to_string(m.cut) + " piv" + std::to_string(m.piv)); c.tag(last_shape); c.tag(last_status);
    c.tag(mutations ? "history" : "single solve"); if (m.big >= 0) c.tag("big parameter");
    if (any_shape_nt || mutations > 0) c.nt();
  }
};

void vf_case(Ctx& c) {
  g_poisoned = false;
  Prog p(c);
  p.run();
}
VF_MAIN
