// Conversions between PPL objects and the reference geometry, and
// constructive generators of linear expressions / constraints from the tape.
#ifndef VF_POLY_COMMON_HH
#define VF_POLY_COMMON_HH
#include "ppl-config.h"
#include "ppl_include_files.hh"
#include "refx.hh"
#define VF_CASE_BEGIN (ref::LP::limit() = ref::LP::work() + 3000000)
#include "common.hh"

namespace PPL = Parma_Polyhedra_Library;
using namespace Parma_Polyhedra_Library;
using namespace Parma_Polyhedra_Library::IO_Operators;

namespace vf {
using ref::Q; using ref::Vec; using ref::Con; using ref::Sys;

inline Q mkq(const mpz_class& n, const mpz_class& d) { Q q(n, d); q.canonicalize(); return q; }

inline Con to_ref(const Constraint& c, size_t n) {
  Con r; r.a.assign(n, Q(0));
  for (size_t j = 0; j < c.space_dimension() && j < n; ++j) r.a[j] = Q(mpz_class(c.coefficient(Variable(j))));
  r.b = Q(mpz_class(c.inhomogeneous_term()));
  r.r = c.is_equality() ? ref::EQ : (c.is_strict_inequality() ? ref::GT : ref::GE);
  return r;
}
inline Sys to_ref(const Constraint_System& cs, size_t n) {
  Sys s(n);
  for (Constraint_System::const_iterator i = cs.begin(); i != cs.end(); ++i) s.add(to_ref(*i, n));
  return s;
}
inline ref::Gens to_ref(const Generator_System& gs, size_t n) {
  ref::Gens g(n);
  for (Generator_System::const_iterator i = gs.begin(); i != gs.end(); ++i) {
    Vec v(n, Q(0));
    for (size_t j = 0; j < i->space_dimension(); ++j) v[j] = Q(mpz_class(i->coefficient(Variable(j))));
    if (i->is_point() || i->is_closure_point()) for (size_t j = 0; j < n; ++j) v[j] = mkq(v[j].get_num(), mpz_class(i->divisor()));
    if (i->is_line()) g.lines.push_back(v); else if (i->is_ray()) g.rays.push_back(v);
    else if (i->is_point()) g.points.push_back(v); else g.cpoints.push_back(v);
  }
  return g;
}
inline Vec gen_vec(const Generator& g, size_t n) {
  Vec v(n, Q(0));
  for (size_t j = 0; j < g.space_dimension(); ++j) v[j] = Q(mpz_class(g.coefficient(Variable(j))));
  if (g.is_point() || g.is_closure_point()) for (size_t j = 0; j < n; ++j) v[j] = mkq(v[j].get_num(), mpz_class(g.divisor()));
  return v;
}

// --- linear expressions with integer coefficients ---------------------------
struct LE {
  std::vector<mpz_class> a; mpz_class b;
  explicit LE(size_t n = 0) : a(n, 0), b(0) {}
  Linear_Expression ppl() const { Linear_Expression r; for (size_t j = a.size(); j-- > 0; ) if (a[j] != 0) r += Coefficient(a[j]) * Variable(j); r += Coefficient(b); return r; }
  // make sure the expression has the full space dimension when needed
  Linear_Expression ppl_dim(size_t n) const { Linear_Expression r = ppl(); if (n > 0 && r.space_dimension() < n) r += 0 * Variable(n - 1); return r; }
  Vec vec() const { Vec v(a.size()); for (size_t j = 0; j < a.size(); ++j) v[j] = Q(a[j]); return v; }
  bool all_zero() const { for (size_t j = 0; j < a.size(); ++j) if (a[j] != 0) return false; return true; }
  mpz_class eval(const std::vector<long>& w) const { mpz_class v = b; for (size_t j = 0; j < a.size(); ++j) v += a[j] * w[j]; return v; }
  std::string str() const {
    std::ostringstream o; bool first = true;
    for (size_t j = 0; j < a.size(); ++j) if (a[j] != 0) { o << (first ? "" : " + ") << a[j] << "*x" << j; first = false; }
    if (first || b != 0) o << (first ? "" : " + ") << b;
    return o.str();
  }
};

// small coefficient, 0 fairly often, occasionally huge (crosses machine words)
inline mpz_class gen_coef(Tape& t, bool allow_big = true) {
  int k = t.weighted({30, 60, 7, allow_big ? 3 : 0});
  if (k == 0) return 0;
  if (k == 1) return t.range(-4, 4);
  if (k == 2) return t.range(-40, 40);
  mpz_class big = 1; big <<= (unsigned) t.range(31, 70); big += t.range(-3, 3);
  return t.chance(50) ? big : mpz_class(-big);
}
inline LE gen_le(Tape& t, size_t n, bool allow_big = true) {
  LE e(n); for (size_t j = 0; j < n; ++j) e.a[j] = gen_coef(t, allow_big); e.b = gen_coef(t, allow_big); return e;
}

// constraint kind: 0 '=', 1 '>=', 2 '>'
struct RCon { LE e; int kind; };
inline Constraint to_ppl(const RCon& c) { Linear_Expression e = c.e.ppl(); return c.kind == 0 ? Constraint(e == 0) : c.kind == 1 ? Constraint(e >= 0) : Constraint(e > 0); }
inline Con to_refcon(const RCon& c) { return Con(c.e.vec(), Q(c.e.b), c.kind == 0 ? ref::EQ : c.kind == 1 ? ref::GE : ref::GT); }
inline std::string str(const RCon& c) { return c.e.str() + (c.kind == 0 ? " = 0" : c.kind == 1 ? " >= 0" : " > 0"); }

// Constraint satisfied by the witness point (unless `hostile'): keeps most sets non-empty.
inline RCon gen_con(Tape& t, size_t n, const std::vector<long>& wit, bool strict_ok, bool hostile = false) {
  RCon c; c.e = gen_le(t, n);
  c.kind = t.weighted({15, 60, strict_ok ? 25 : 0});
  if (hostile) return c;
  mpz_class v = c.e.eval(wit);
  if (c.kind == 0) c.e.b -= v;
  else {
    if (v < 0) { for (size_t j = 0; j < n; ++j) c.e.a[j] = -c.e.a[j]; c.e.b = -c.e.b; v = -v; }
    if (c.kind == 2 && v == 0) c.e.b += 1;
  }
  return c;
}

inline std::string show_sys(const Sys& s) { return ref::show(s); }

// status header of an ascii_dump (first lines up to the first blank or "con_sys")
template <typename T> std::string dump_of(const T& x) { std::ostringstream o; x.ascii_dump(o); return o.str(); }

} // namespace vf
#endif
