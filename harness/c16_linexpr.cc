// C16 (b): differential programs over Linear_Expression (DENSE vs SPARSE vs mixed operands) with an independent
// std::vector<mpz_class> model, plus Constraint / Generator / Congruence / Grid_Generator and their systems built
// from both representations.
//
// A slot holds the same expression three times: `d' (DENSE), `s' (SPARSE) and the model `v' (v[0] inhomogeneous
// term, v[i+1] coefficient of Variable(i)).  Every generated operation is applied to all three; binary operations
// take their second operand either in the same representation as the target or in the other one ("mixed").
// After every step: space dimension, every coefficient, OK(), representation(), is_equal_to / compare between
// the two representations, const_iterator sequences.  Private range primitives of Linear_Expression (used by
// the library's friends) are reached through the explicit-instantiation access idiom.
//
// Non-trivial rule: at the end some slot has dimension >= 4, >= 3 non-zero homogeneous coefficients and went
// through >= 3 mutating operations.
#include "ppl-config.h"
#include "ppl_include_files.hh"
#include "common.hh"

using namespace Parma_Polyhedra_Library;
using namespace vf;

const vf::Info vf_info = { "C16", "c16_linexpr", 6.0 };

typedef mpz_class Z;
typedef std::vector<Z> Vec;
typedef Linear_Expression LE;
typedef Coefficient_traits::const_reference CRef;

namespace rob {
template <typename Tag, typename Tag::type M> struct Rob { friend typename Tag::type get(Tag) { return M; } };
#define PRIV(Tag, Class, Sig, Member) struct Tag { typedef Sig; friend type get(Tag); }; template struct Rob<Tag, &Class::Member>;
PRIV(LGet, LE, CRef (LE::*type)(dimension_type) const, get)
PRIV(LSet, LE, void (LE::*type)(dimension_type, CRef), set)
PRIV(LAllZ, LE, bool (LE::*type)(dimension_type, dimension_type) const, all_zeroes)
PRIV(LNumZ, LE, dimension_type (LE::*type)(dimension_type, dimension_type) const, num_zeroes)
PRIV(LGcd, LE, Coefficient (LE::*type)(dimension_type, dimension_type) const, gcd)
PRIV(LExDiv, LE, void (LE::*type)(CRef, dimension_type, dimension_type), exact_div_assign)
PRIV(LComb, LE, void (LE::*type)(const LE&, CRef, CRef, dimension_type, dimension_type), linear_combine)
PRIV(LCombLax, LE, void (LE::*type)(const LE&, CRef, CRef, dimension_type, dimension_type), linear_combine_lax)
PRIV(LCombI, LE, void (LE::*type)(const LE&, dimension_type), linear_combine)
PRIV(LMul, LE, void (LE::*type)(CRef, dimension_type, dimension_type), mul_assign)
PRIV(LLast0, LE, dimension_type (LE::*type)() const, last_nonzero)
PRIV(LLast, LE, dimension_type (LE::*type)(dimension_type, dimension_type) const, last_nonzero)
PRIV(LFirst, LE, dimension_type (LE::*type)(dimension_type, dimension_type) const, first_nonzero)
PRIV(LAllZEx, LE, bool (LE::*type)(const Variables_Set&, dimension_type, dimension_type) const, all_zeroes_except)
PRIV(LSp, LE, void (LE::*type)(Coefficient&, const LE&) const, scalar_product_assign)
PRIV(LSpR, LE, void (LE::*type)(Coefficient&, const LE&, dimension_type, dimension_type) const, scalar_product_assign)
PRIV(LSpS, LE, int (LE::*type)(const LE&) const, scalar_product_sign)
PRIV(LSpSR, LE, int (LE::*type)(const LE&, dimension_type, dimension_type) const, scalar_product_sign)
PRIV(LEqR, LE, bool (LE::*type)(const LE&, dimension_type, dimension_type) const, is_equal_to)
PRIV(LEqC, LE, bool (LE::*type)(const LE&, CRef, CRef, dimension_type, dimension_type) const, is_equal_to)
PRIV(LCommon, LE, bool (LE::*type)(const LE&, Variable, Variable) const, have_a_common_variable)
PRIV(LNeg, LE, void (LE::*type)(dimension_type, dimension_type), negate)
PRIV(CStrong, Constraint, void (Constraint::*type)(), strong_normalize)
PRIV(GStrong, Generator, void (Generator::*type)(), strong_normalize)
PRIV(GGStrong, Grid_Generator, void (Grid_Generator::*type)(), strong_normalize)
}
using namespace rob;
#define CALL(obj, Tag) ((obj).*get(Tag()))

static Z zv(CRef c) { return Z(c); }
static int sgnz(const Z& z) { return sgn(z); }
static std::string show(const Vec& v) { std::ostringstream o; o << "["; for (size_t i = 0; i < v.size(); ++i) o << (i ? (i == 1 ? " | " : " ") : "") << v[i]; o << "]"; return o.str(); }
static Vec vec_of(const LE& e) { Vec v(e.space_dimension() + 1); v[0] = zv(e.inhomogeneous_term()); for (dimension_type i = 0; i < e.space_dimension(); ++i) v[i + 1] = zv(e.coefficient(Variable(i))); return v; }
template <typename T> static std::string dump_norep(const T& x) {
  std::ostringstream o; x.ascii_dump(o); std::string s = o.str(), r;
  for (size_t i = 0; i < s.size(); ) { if (s.compare(i, 5, "DENSE") == 0) { r += "<REP>"; i += 5; } else if (s.compare(i, 6, "SPARSE") == 0) { r += "<REP>"; i += 6; } else r += s[i++]; }
  return r;
}
template <typename T> static std::string text_of(const T& x) { using namespace IO_Operators; std::ostringstream o; o << x; return o.str(); }

struct Slot { LE d, s; Vec v; int muts; Slot() : d(DENSE), s(SPARSE), v(1, Z(0)), muts(0) {} size_t dim() const { return v.size() - 1; } };

struct Prog {
  Ctx& c; Tape& t; Slot sl[2]; std::string op;
  Prog(Ctx& c_) : c(c_), t(c_.t) {}
  // a failing check that is muted (--survey / --mute) ends the case: the state is no longer trustworthy
  void ck(const char* id, bool ok, const std::function<std::string()>& msg) { if (!ok && muted().count(id)) throw Inconclusive(std::string("muted ") + id); c.check(id, ok, [&] { return op + ": " + msg(); }); }
  void ck(const char* id, bool ok, const char* msg) { if (!ok && muted().count(id)) throw Inconclusive(std::string("muted ") + id); c.check(id, ok, [&] { return op + ": " + msg; }); }

  Z val(bool nonzero = false) { int w = t.weighted({70, 12, 10, 8}); Z v; if (w == 0) v = t.range(-4, 4); else if (w == 1) v = 0; else if (w == 2) v = t.range(-60, 60); else { v = 1; v <<= 66; v += t.range(0, 5); if (t.chance(50)) v = -v; } if (nonzero && v == 0) v = 1; return v; }
  Z small_nz() { long v = t.range(-3, 3); return Z(v == 0 ? 2 : v); }

  // ------------------------------------------------------------ model helpers
  static Z gcd_range(const Vec& v, size_t a, size_t b) { Z g = 0; for (size_t i = a; i < b; ++i) { Z x = abs(v[i]); mpz_gcd(g.get_mpz_t(), g.get_mpz_t(), x.get_mpz_t()); } return g; }
  static int model_compare(const Vec& x, const Vec& y) {
    size_t n = std::max(x.size(), y.size());
    for (size_t i = 1; i < n; ++i) { Z a = i < x.size() ? x[i] : Z(0), b = i < y.size() ? y[i] : Z(0); if (a != b) return a < b ? -2 : 2; }
    return x[0] < y[0] ? -1 : x[0] > y[0] ? 1 : 0;
  }
  static int sign_of(int x) { return x < 0 ? -1 : x > 0 ? 1 : 0; }

  // ------------------------------------------------------------ verification of one slot
  void verify(int idx) {
    Slot& o = sl[idx]; std::string w = "e" + std::to_string(idx);
    const LE* both[2] = { &o.d, &o.s }; const char* nm[2] = { "dense", "sparse" };
    for (int r = 0; r < 2; ++r) {
      const LE& e = *both[r];
      ck("state.space_dimension", e.space_dimension() == o.dim(), [&] { return w + " " + nm[r] + ": space_dimension() = " + std::to_string(e.space_dimension()) + ", model " + std::to_string(o.dim()); });
      ck("state.representation", e.representation() == (r == 0 ? DENSE : SPARSE), [&] { return w + " " + nm[r] + ": representation() changed"; });
      Vec got = vec_of(e);
      ck(r == 0 ? "state.coefficients.dense" : "state.coefficients.sparse", got == o.v, [&] { return w + " " + nm[r] + " = " + show(got) + ", model " + show(o.v) + (vec_of(*both[1 - r]) == o.v ? " (the other representation agrees with the model)" : " (the other representation also differs: " + show(vec_of(*both[1 - r])) + ")"); });
      ck("state.OK", e.OK(), [&] { return w + " " + nm[r] + ": OK() is false, value " + show(got); });
      // iteration: the non-zero homogeneous coefficients in increasing variable order
      std::vector<std::pair<dimension_type, Z> > seq, exp; size_t guard = 0;
      for (LE::const_iterator i = e.begin(), ie = e.end(); i != ie; ++i) { seq.push_back(std::make_pair(i.variable().id(), zv(*i))); ck("state.iteration", ++guard <= o.v.size(), "iteration does not terminate"); }
      for (size_t i = 1; i < o.v.size(); ++i) if (o.v[i] != 0) exp.push_back(std::make_pair(i - 1, o.v[i]));
      ck("state.iteration", seq == exp, [&] { std::ostringstream q; q << w << " " << nm[r] << ": const_iterator yields"; for (auto& p : seq) q << " (x" << p.first << "," << p.second << ")"; q << ", model " << show(o.v); return q.str(); });
      bool hz = true; for (size_t i = 1; i < o.v.size(); ++i) hz = hz && o.v[i] == 0;
      ck("query.all_homogeneous_terms_are_zero", e.all_homogeneous_terms_are_zero() == hz, [&] { return w + " " + nm[r] + ": all_homogeneous_terms_are_zero() wrong for " + show(o.v); });
      ck("query.is_zero", e.is_zero() == (hz && o.v[0] == 0), [&] { return w + " " + nm[r] + ": is_zero() wrong for " + show(o.v); });
    }
    ck("cross.is_equal_to", o.d.is_equal_to(o.s) && o.s.is_equal_to(o.d) && o.d.is_equal_to(o.d) && o.s.is_equal_to(o.s), [&] { return w + ": is_equal_to between the dense and the sparse copy is false; " + show(o.v); });
    ck("cross.compare", compare(o.d, o.s) == 0 && compare(o.s, o.d) == 0, [&] { return w + ": compare(dense, sparse) = " + std::to_string(compare(o.d, o.s)) + " for equal expressions " + show(o.v); });
    ck("cross.ascii_dump", dump_norep(o.d) == dump_norep(o.s), [&] { return w + ": ascii_dump differs: dense `" + dump_norep(o.d) + "' sparse `" + dump_norep(o.s) + "'"; });
    ck("cross.print", text_of(o.d) == text_of(o.s), [&] { return w + ": operator<< differs: dense `" + text_of(o.d) + "' sparse `" + text_of(o.s) + "'"; });
  }

  // applies f to (dense target, operand) and (sparse target, operand); mixed selects the operand of the other representation
  template <typename F> void both2(Slot& x, Slot& y, bool mixed, F f) { f(x.d, mixed ? y.s : y.d); f(x.s, mixed ? y.d : y.s); }
  template <typename F> void both1(Slot& x, F f) { f(x.d); f(x.s); }
  // a query returning a comparable value, evaluated on all four representation pairings
  template <typename R, typename F> R query2(const char* id, Slot& x, Slot& y, F f, const char* what) {
    R dd = f(x.d, y.d), ds = f(x.d, y.s), sd = f(x.s, y.d), ss = f(x.s, y.s);
    ck(id, dd == ds && dd == sd && dd == ss, [&] { std::ostringstream q; q << what << ": dense/dense " << dd << ", dense/sparse " << ds << ", sparse/dense " << sd << ", sparse/sparse " << ss << "; x = " << show(x.v) << " y = " << show(y.v); return q.str(); });
    return dd;
  }
  template <typename R, typename F> R query1(const char* id, Slot& x, F f, const char* what) {
    R a = f(x.d), b = f(x.s);
    ck(id, a == b, [&] { std::ostringstream q; q << what << ": dense " << a << ", sparse " << b << "; x = " << show(x.v); return q.str(); });
    return a;
  }
  static LE from_model(const Vec& v, Representation r) { LE e(r); e.set_space_dimension(v.size() - 1); for (size_t j = 1; j < v.size(); ++j) if (v[j] != 0) e.set_coefficient(Variable(j - 1), Coefficient(v[j])); e.set_inhomogeneous_term(Coefficient(v[0])); return e; }
  // all observable views of e agree with the model vector nv
  bool faithful(const LE& e, const Vec& nv) { LE ref = from_model(nv, DENSE); return e.space_dimension() == nv.size() - 1 && e.OK() && vec_of(e) == nv && text_of(e) == text_of(ref) && compare(e, ref) == 0 && compare(ref, e) == 0 && e.is_equal_to(ref) && dump_norep(e) == dump_norep(ref); }
  void grow(Vec& v, size_t n) { if (v.size() < n) v.resize(n, Z(0)); }
  void range_of(size_t size, size_t& a, size_t& b) { a = t.range(0, (long) size); b = t.range(0, (long) size); if (a > b) std::swap(a, b); if (t.chance(25)) { a = 0; b = size; } }
  void same_dim(Slot& x, Slot& y, std::ostringstream& d) {   // make y as long as x (several primitives need equal dimensions)
    if (x.dim() != y.dim()) { size_t n = x.dim(); d << "[e" << (&y - sl) << ".set_space_dimension(" << n << ")] "; y.d.set_space_dimension(n); y.s.set_space_dimension(n); y.v.resize(n + 1, Z(0)); }
  }

  void step() {
    int xi = (int) t.range(0, 1); Slot& x = sl[xi]; Slot& y = sl[1 - xi]; std::ostringstream d; d << "e" << xi << ": "; bool mixed = t.chance(50); const char* mx = mixed ? " [mixed]" : ""; bool mut = true;
    std::string Y = "e" + std::to_string(1 - xi);
    if (x.dim() > 24) { d << "set_space_dimension(6) [cap]"; op = d.str(); both1(x, [&](LE& e) { e.set_space_dimension(6); }); x.v.resize(7); c.log << "  " << op << "\n"; return; }
    int k = t.weighted({ /*0 set_coefficient*/ 12, /*1 += -= e*/ 8, /*2 += -= var/n*/ 6, /*3 *= */ 4, /*4 /= */ 3, /*5 neg*/ 2, /*6 add/sub_mul var*/ 5, /*7 add/sub_mul e*/ 6,
                         /*8 linear_combine(y,v)*/ 5, /*9 linear_combine(y,c1,c2)(+lax)*/ 7, /*10 ranged combine*/ 7, /*11 swap dims*/ 3, /*12 remove dims*/ 4, /*13 permute*/ 4, /*14 shift*/ 4,
                         /*15 set_space_dimension*/ 4, /*16 normalize*/ 3, /*17 sign_normalize*/ 3, /*18 copies/conversions*/ 8, /*19 new from operators*/ 5, /*20 range queries*/ 8, /*21 binary queries*/ 8,
                         /*22 private set/mul/negate/exact_div*/ 6, /*23 m_swap / assignment*/ 3, /*24 constraint-like objects*/ 6, /*25 systems*/ 3 });
    switch (k) {
    case 0: { size_t n = t.chance(85) && x.dim() > 0 ? t.range(0, (long) x.dim() - 1) : t.range(0, 8); Z v = val();
      if (n < x.dim()) { d << "set_coefficient(x" << n << ", " << v << ")"; op = d.str(); both1(x, [&](LE& e) { e.set_coefficient(Variable(n), Coefficient(v)); }); x.v[n + 1] = v; }
      else if (t.chance(50)) { d << "set_inhomogeneous_term(" << v << ")"; op = d.str(); both1(x, [&](LE& e) { e.set_inhomogeneous_term(Coefficient(v)); }); x.v[0] = v; }
      else { d << "+= " << v << "*x" << n << " (Variable beyond the dimension)"; op = d.str(); both1(x, [&](LE& e) { e += Coefficient(v) * Variable(n); }); grow(x.v, n + 2); x.v[n + 1] += v; }
      break; }
    case 1: { bool plus = t.chance(50); d << (plus ? "+= " : "-= ") << Y << mx; op = d.str(); both2(x, y, mixed, [&](LE& e, const LE& f) { if (plus) e += f; else e -= f; }); grow(x.v, y.v.size()); for (size_t i = 0; i < y.v.size(); ++i) { if (plus) x.v[i] += y.v[i]; else x.v[i] -= y.v[i]; } break; }
    case 2: { int w = (int) t.range(0, 3); size_t n = t.range(0, (long) x.dim() + 1); Z v = val();
      if (w == 0) { d << "+= x" << n; op = d.str(); both1(x, [&](LE& e) { e += Variable(n); }); grow(x.v, n + 2); x.v[n + 1] += 1; }
      else if (w == 1) { d << "-= x" << n; op = d.str(); both1(x, [&](LE& e) { e -= Variable(n); }); grow(x.v, n + 2); x.v[n + 1] -= 1; }
      else if (w == 2) { d << "+= " << v; op = d.str(); both1(x, [&](LE& e) { e += Coefficient(v); }); x.v[0] += v; }
      else { d << "-= " << v; op = d.str(); both1(x, [&](LE& e) { e -= Coefficient(v); }); x.v[0] -= v; }
      break; }
    case 3: { Z v = val(); d << "*= " << v; op = d.str(); both1(x, [&](LE& e) { e *= Coefficient(v); }); for (Z& a : x.v) a *= v; break; }
    case 4: { Z v = t.chance(60) ? gcd_range(x.v, 0, x.v.size()) : small_nz(); if (v == 0) v = 2; if (t.chance(30)) v = -v; d << "/= " << v; op = d.str(); both1(x, [&](LE& e) { e /= Coefficient(v); }); for (Z& a : x.v) a /= v; break; }
    case 5: { d << "neg_assign"; op = d.str(); both1(x, [&](LE& e) { neg_assign(e); }); for (Z& a : x.v) a = -a; break; }
    case 6: { bool plus = t.chance(50); size_t n = t.range(0, (long) x.dim() + 1); Z v = val(); d << (plus ? "add" : "sub") << "_mul_assign(e, " << v << ", x" << n << ")"; op = d.str();
      both1(x, [&](LE& e) { if (plus) add_mul_assign(e, Coefficient(v), Variable(n)); else sub_mul_assign(e, Coefficient(v), Variable(n)); }); grow(x.v, n + 2); if (plus) x.v[n + 1] += v; else x.v[n + 1] -= v; break; }
    case 7: { bool plus = t.chance(50); Z v = val(); d << (plus ? "add" : "sub") << "_mul_assign(e, " << v << ", " << Y << ")" << mx; op = d.str();
      both2(x, y, mixed, [&](LE& e, const LE& f) { if (plus) add_mul_assign(e, Coefficient(v), f); else sub_mul_assign(e, Coefficient(v), f); });
      // the dimension grows to y's even when the factor is 0?  (documented as e1 += factor * e2): accept either, check both representations agree
      if (v == 0 && x.dim() < y.dim()) { size_t nd = x.d.space_dimension(); ck("op.add_mul_zero_factor", nd == x.s.space_dimension() && (nd == x.dim() || nd == y.dim()), "dimension after add_mul_assign with a zero factor differs between the representations"); x.v.resize(nd + 1, Z(0)); }
      else { grow(x.v, y.v.size()); for (size_t i = 0; i < y.v.size(); ++i) { if (plus) x.v[i] += v * y.v[i]; else x.v[i] -= v * y.v[i]; } }
      break; }
    case 8: { same_dim(x, y, d); if (x.dim() == 0) { d << "linear_combine(y, v): dimension 0, skipped"; op = d.str(); mut = false; break; }
      // precondition (asserted, implied by "so that the coefficient of v is 0"): both coefficients of v non-zero
      size_t n = t.range(0, (long) x.dim() - 1); bool priv = t.chance(40); size_t idx = priv ? (size_t) t.range(0, (long) x.dim()) : n + 1;
      if (x.v[idx] == 0) { Z v = small_nz(); d << "[e" << xi << "[" << idx << "] := " << v << "] "; both1(x, [&](LE& e) { CALL(e, LSet)(idx, Coefficient(v)); }); x.v[idx] = v; }
      if (y.v[idx] == 0) { Z v = small_nz(); d << "[" << Y << "[" << idx << "] := " << v << "] "; both1(y, [&](LE& e) { CALL(e, LSet)(idx, Coefficient(v)); }); y.v[idx] = v; }
      if (priv) d << "linear_combine(" << Y << ", index " << idx << ")" << mx; else d << "linear_combine(" << Y << ", x" << n << ")" << mx; op = d.str();
      // NOTE: the public overload Linear_Expression::linear_combine(const Linear_Expression&, Variable) is declared and documented
      // but defined nowhere in /repo/src (link error), so the index overload (index = variable id + 1) is used for both flavours.
      both2(x, y, mixed, [&](LE& e, const LE& f) { CALL(e, LCombI)(f, idx); });
      // result: a combination c1*x + c2*y with c1 > 0?  The documentation only promises "a linear combination with coefficient 0": check that, with the normalised multipliers
      Z g; Z a = x.v[idx], b = y.v[idx]; mpz_gcd(g.get_mpz_t(), a.get_mpz_t(), b.get_mpz_t()); Z nx = a / g, ny = b / g;   // x*ny - y*nx
      for (size_t i = 0; i < x.v.size(); ++i) x.v[i] = x.v[i] * ny - y.v[i] * nx;
      break; }
    case 9: { bool lax = t.chance(40); Z c1 = lax ? val() : val(true), c2 = lax ? val() : val(true); if (t.chance(30)) c1 = 1; if (t.chance(20)) c2 = t.chance(50) ? 1 : -1;
      d << (lax ? "linear_combine_lax(" : "linear_combine(") << Y << ", " << c1 << ", " << c2 << ")" << mx; op = d.str();
      both2(x, y, mixed, [&](LE& e, const LE& f) { if (lax) e.linear_combine_lax(f, Coefficient(c1), Coefficient(c2)); else e.linear_combine(f, Coefficient(c1), Coefficient(c2)); });
      grow(x.v, y.v.size());
      if (lax && mixed && c1 == 0 && c2 != 0 && !x.s.OK()) {   // separate check id: the sparse target stores the zeroes of the dense operand
        Vec got = vec_of(x.s);
        if (muted().count("op.linear_combine_lax.sparse_from_dense")) { LE fix = from_model(got, SPARSE); x.s.m_swap(fix); }
        else ck("op.linear_combine_lax.sparse_from_dense", false, [&] { return "sparse x.linear_combine_lax(dense y, 0, c2): OK() is false afterwards, x prints as `" + text_of(x.s) + "' (explicit zeroes stored in the sparse row); y = " + show(y.v); }); }
      // "*this = *this * c1 + y * c2": every coefficient of *this is scaled, also beyond y's dimension
      { Vec alt = x.v; bool tail = false; for (size_t i = 0; i < x.v.size(); ++i) { if (i < y.v.size()) alt[i] = x.v[i] * c1 + y.v[i] * c2; else if (x.v[i] != 0 && c1 != 1) tail = true; x.v[i] = x.v[i] * c1 + (i < y.v.size() ? y.v[i] : Z(0)) * c2; }
        if (tail) {   // separate check id: both representations leave the coefficients beyond y's dimension unscaled
          bool as_doc = vec_of(x.d) == x.v && vec_of(x.s) == x.v; bool as_alt = vec_of(x.d) == alt && vec_of(x.s) == alt;
          // Dense and sparse agree on the alternative reading (coefficients beyond y's dimension left alone): this is a mismatch with the
          // documentation of linear_combine, identical in both representations, hence not a C16 matter: tagged, model follows the library.
          if (!as_doc && as_alt) { c.tag("linear_combine on a longer target: coefficients beyond y's dimension not scaled (doc mismatch, both representations)"); x.v = alt; }
          else ck("op.linear_combine.longer_target", as_doc, [&] { return "documented as *this = *this*c1 + y*c2; expected " + show(x.v) + ", dense " + show(vec_of(x.d)) + ", sparse " + show(vec_of(x.s)) + " (coefficients beyond y's dimension are not multiplied by c1); y = " + show(y.v); }); } }
      break; }
    case 10: { same_dim(x, y, d); bool lax = t.chance(40); Z c1 = lax ? val() : val(true), c2 = lax ? val() : val(true); if (t.chance(30)) c1 = 1; if (t.chance(20)) c2 = t.chance(50) ? 1 : -1; size_t a, b; range_of(x.v.size(), a, b);
      d << (lax ? "linear_combine_lax(" : "linear_combine(") << Y << ", " << c1 << ", " << c2 << ", " << a << ", " << b << ")" << mx; op = d.str();
      both2(x, y, mixed, [&](LE& e, const LE& f) { if (lax) CALL(e, LCombLax)(f, Coefficient(c1), Coefficient(c2), a, b); else CALL(e, LComb)(f, Coefficient(c1), Coefficient(c2), a, b); });
      if (lax && mixed && c1 == 0 && c2 != 0 && !x.s.OK()) {
        Vec got = vec_of(x.s);
        if (muted().count("op.linear_combine_lax.sparse_from_dense")) { LE fix = from_model(got, SPARSE); x.s.m_swap(fix); }
        else ck("op.linear_combine_lax.sparse_from_dense", false, [&] { return "sparse x.linear_combine_lax(dense y, 0, c2, start, end): OK() is false afterwards, x prints as `" + text_of(x.s) + "' (explicit zeroes stored in the sparse row); y = " + show(y.v); }); }
      for (size_t i = a; i < b; ++i) x.v[i] = x.v[i] * c1 + y.v[i] * c2;
      break; }
    case 11: { if (x.dim() == 0) { d << "swap_space_dimensions: dimension 0"; op = d.str(); mut = false; break; } size_t a = t.range(0, (long) x.dim() - 1), b = t.range(0, (long) x.dim() - 1); d << "swap_space_dimensions(x" << a << ", x" << b << ")"; op = d.str();
      both1(x, [&](LE& e) { e.swap_space_dimensions(Variable(a), Variable(b)); }); std::swap(x.v[a + 1], x.v[b + 1]); break; }
    case 12: { Variables_Set vs; Vec nv(1, x.v[0]); d << "remove_space_dimensions({"; for (size_t i = 0; i < x.dim(); ++i) { if (t.chance(30)) { vs.insert(Variable(i)); d << " x" << i; } else nv.push_back(x.v[i + 1]); } d << " })"; op = d.str();
      both1(x, [&](LE& e) { e.remove_space_dimensions(vs); }); x.v = nv; break; }
    case 13: { if (x.dim() < 2) { d << "permute_space_dimensions: dimension < 2"; op = d.str(); mut = false; break; }
      std::vector<size_t> ids; for (size_t i = 0; i < x.dim(); ++i) ids.push_back(i); size_t len = t.range(2, (long) std::min<size_t>(x.dim(), 5)); std::vector<Variable> cyc; std::vector<size_t> cid; d << "permute_space_dimensions(cycle";
      for (size_t i = 0; i < len; ++i) { size_t p = t.range(0, (long) ids.size() - 1); cid.push_back(ids[p]); cyc.push_back(Variable(ids[p])); d << " x" << ids[p]; ids.erase(ids.begin() + p); } d << ")"; op = d.str();
      both1(x, [&](LE& e) { e.permute_space_dimensions(cyc); });
      // x_{c[i]} is mapped to x_{c[i+1]}: the coefficient of c[i] becomes the coefficient of c[i+1]
      Vec nv = x.v; for (size_t i = 0; i < len; ++i) nv[cid[(i + 1) % len] + 1] = x.v[cid[i] + 1]; x.v = nv; break; }
    case 14: { size_t v = t.range(0, (long) x.dim()); size_t n = t.range(0, 4); d << "shift_space_dimensions(x" << v << ", " << n << ")"; op = d.str(); both1(x, [&](LE& e) { e.shift_space_dimensions(Variable(v), n); }); x.v.insert(x.v.begin() + v + 1, n, Z(0)); break; }
    case 15: { size_t n = t.chance(50) ? t.range(0, (long) x.dim()) : x.dim() + t.range(0, 5); d << "set_space_dimension(" << n << ")"; op = d.str(); both1(x, [&](LE& e) { e.set_space_dimension(n); }); x.v.resize(n + 1, Z(0)); break; }
    case 16: { d << "normalize()"; op = d.str(); both1(x, [&](LE& e) { e.normalize(); }); Z g = gcd_range(x.v, 0, x.v.size()); if (g != 0) for (Z& a : x.v) a /= g; break; }
    case 17: { d << "sign_normalize()"; op = d.str(); both1(x, [&](LE& e) { e.sign_normalize(); }); size_t f = 1; while (f < x.v.size() && x.v[f] == 0) ++f; if (f < x.v.size() && x.v[f] < 0) for (Z& a : x.v) a = -a; break; }
    case 18: { int w = (int) t.range(0, 5);
      if (w == 0) { d << "dense := LE(sparse, DENSE); sparse := LE(dense, SPARSE)"; op = d.str(); LE nd(x.s, DENSE), ns(x.d, SPARSE); x.d.m_swap(nd); x.s.m_swap(ns); }
      else if (w == 1) { d << "set_representation round trip (dense->SPARSE->DENSE, sparse->DENSE->SPARSE)"; op = d.str(); x.d.set_representation(SPARSE); ck("conv.set_representation", x.d.representation() == SPARSE && vec_of(x.d) == x.v && x.d.OK(), [&] { return "dense expression converted to SPARSE is " + show(vec_of(x.d)) + ", model " + show(x.v); }); x.d.set_representation(DENSE);
        x.s.set_representation(DENSE); ck("conv.set_representation", x.s.representation() == DENSE && vec_of(x.s) == x.v && x.s.OK(), [&] { return "sparse expression converted to DENSE is " + show(vec_of(x.s)) + ", model " + show(x.v); }); x.s.set_representation(SPARSE); }
      else if (w == 2 || w == 3) { size_t n = t.chance(55) ? t.range(0, (long) x.dim()) : x.dim() + t.range(0, 4); bool cross = w == 3; d << "= LE(" << (cross ? "other representation" : "same representation") << " copy, space_dim " << n << ", rep)"; op = d.str();
        // "Copy constructor with a specified space dimension [and representation]": the first space_dim coefficients are kept
        LE nd(cross ? x.s : x.d, n, DENSE), ns(cross ? x.d : x.s, n, SPARSE); LE n2(x.d, n), n3(x.s, n);
        Vec nv = x.v; nv.resize(n + 1, Z(0));
        ck("conv.copy_space_dim", n2.representation() == DENSE && n3.representation() == SPARSE, "LE(e, space_dim) must keep e's representation");
        const LE* all[4] = { &nd, &ns, &n2, &n3 }; const char* nm[4] = { "LE(., n, DENSE)", "LE(., n, SPARSE)", "LE(dense, n)", "LE(sparse, n)" };
        for (int q = 0; q < 4; ++q) if (!(cross && q < 2 && muted().count("conv.copy_space_dim_cross"))) ck(cross && q < 2 ? "conv.copy_space_dim_cross" : "conv.copy_space_dim", faithful(*all[q], nv),
            [&] { return std::string(nm[q]) + " from " + show(x.v) + " with n = " + std::to_string(n) + (cross && q < 2 ? " (source in the other representation)" : "") + " gives dimension " + std::to_string(all[q]->space_dimension()) + ", OK() = " + (all[q]->OK() ? "true" : "false") + ", value " + show(vec_of(*all[q])) + ", printed `" + text_of(*all[q]) + "', expected " + show(nv); });
        bool good = true; for (int q = 0; q < 2; ++q) good = good && faithful(*all[q], nv);
        if (good) { x.d.m_swap(nd); x.s.m_swap(ns); } else { both1(x, [&](LE& e) { e.set_space_dimension(n); }); }    // muted finding: continue from sane objects
        x.v = nv; }
      else if (w == 4) { d << "copy constructor / assignment keep the representation"; op = d.str(); LE a(x.d), b(x.s); LE cc(SPARSE), dd(DENSE); cc = x.d; dd = x.s;
        ck("conv.copy_rep", a.representation() == DENSE && b.representation() == SPARSE && cc.representation() == DENSE && dd.representation() == SPARSE, "copy/assignment must take the representation of the source");
        ck("conv.copy_rep", vec_of(a) == x.v && vec_of(b) == x.v && vec_of(cc) == x.v && vec_of(dd) == x.v, "copy differs from its source"); x.d.m_swap(dd); x.s.m_swap(cc); std::swap(x.d, x.s);
        ck("conv.copy_rep", x.d.representation() == DENSE && x.s.representation() == SPARSE, "swap of expressions must exchange the representations"); }
      else { d << "ascii_dump / ascii_load round trip"; op = d.str(); both1(x, [&](LE& e) { std::stringstream s; e.ascii_dump(s); LE n(e.representation()); bool ok = n.ascii_load(s); ck("conv.ascii", ok && n.representation() == e.representation() && vec_of(n) == vec_of(e), [&] { return "ascii_load(ascii_dump) fails or differs: `" + dump_norep(e) + "'"; }); e.m_swap(n); }); }
      mut = false; break; }
    case 19: { int w = (int) t.range(0, 6); Z n = val(); size_t vi = t.range(0, (long) x.dim() + 1); Vec nv; LE r1, r2, r3, r4;
      const LE& xd = x.d; const LE& xs = x.s; const LE& yd = y.d; const LE& ys = y.s; size_t m = std::max(x.v.size(), y.v.size()); Vec xv = x.v, yv = y.v; xv.resize(m, Z(0)); yv.resize(m, Z(0));
      if (w == 0) { d << "e" << xi << " + " << Y; r1 = xd + yd; r2 = xd + ys; r3 = xs + yd; r4 = xs + ys; nv = xv; for (size_t i = 0; i < m; ++i) nv[i] += yv[i]; }
      else if (w == 1) { d << "e" << xi << " - " << Y; r1 = xd - yd; r2 = xd - ys; r3 = xs - yd; r4 = xs - ys; nv = xv; for (size_t i = 0; i < m; ++i) nv[i] -= yv[i]; }
      else if (w == 2) { d << n << " * e" << xi; r1 = Coefficient(n) * xd; r2 = xd * Coefficient(n); r3 = Coefficient(n) * xs; r4 = xs * Coefficient(n); nv = x.v; for (Z& a : nv) a *= n; }
      else if (w == 3) { d << "x" << vi << " - e" << xi << " / e - x"; r1 = Variable(vi) - xd; r2 = Variable(vi) - xs; r3 = -(xd - Variable(vi)); r4 = -(xs - Variable(vi)); nv = x.v; grow(nv, vi + 2); for (Z& a : nv) a = -a; nv[vi + 1] += 1; }
      else if (w == 4) { d << "x" << vi << " + e" << xi << " / e + x"; r1 = Variable(vi) + xd; r2 = Variable(vi) + xs; r3 = xd + Variable(vi); r4 = xs + Variable(vi); nv = x.v; grow(nv, vi + 2); nv[vi + 1] += 1; }
      else if (w == 5) { d << n << " - e" << xi << " / -(e - n)"; r1 = Coefficient(n) - xd; r2 = Coefficient(n) - xs; r3 = -(xd - Coefficient(n)); r4 = -(xs - Coefficient(n)); nv = x.v; for (Z& a : nv) a = -a; nv[0] += n; }
      else { d << "+e" << xi << " / -e / n + e / e + n"; r1 = +xd; r2 = -(-xs); r3 = (Coefficient(n) + xd) - Coefficient(n); r4 = (xs + Coefficient(n)) - Coefficient(n); nv = x.v; }
      op = d.str(); const LE* all[4] = { &r1, &r2, &r3, &r4 };
      for (int q = 0; q < 4; ++q) ck("op.new_expression", all[q]->OK() && vec_of(*all[q]) == nv, [&] { return "variant " + std::to_string(q) + " gives " + show(vec_of(*all[q])) + ", expected " + show(nv) + "; x = " + show(x.v) + " y = " + show(y.v); });
      mut = false; break; }
    case 20: { size_t a, b; range_of(x.v.size(), a, b); mut = false; d << "range queries on [" << a << ", " << b << ")"; op = d.str();
      bool az = true; size_t nz = 0, first = b, last = b; for (size_t i = a; i < b; ++i) { if (x.v[i] == 0) ++nz; else { az = false; if (first == b) first = i; last = i; } }
      ck("query.all_zeroes_range", query1<bool>("query.all_zeroes_range", x, [&](const LE& e) { return CALL(e, LAllZ)(a, b); }, "all_zeroes(start,end)") == az, [&] { return "all_zeroes(" + std::to_string(a) + "," + std::to_string(b) + ") wrong for " + show(x.v); });
      ck("query.num_zeroes", query1<dimension_type>("query.num_zeroes", x, [&](const LE& e) { return CALL(e, LNumZ)(a, b); }, "num_zeroes(start,end)") == nz, [&] { return "num_zeroes(" + std::to_string(a) + "," + std::to_string(b) + ") wrong for " + show(x.v) + ", expected " + std::to_string(nz); });
      ck("query.gcd", query1<Z>("query.gcd", x, [&](const LE& e) { return zv(CALL(e, LGcd)(a, b)); }, "gcd(start,end)") == gcd_range(x.v, a, b), [&] { return "gcd(" + std::to_string(a) + "," + std::to_string(b) + ") wrong for " + show(x.v) + ", expected " + gcd_range(x.v, a, b).get_str(); });
      ck("query.first_nonzero", query1<dimension_type>("query.first_nonzero", x, [&](const LE& e) { return CALL(e, LFirst)(a, b); }, "first_nonzero(first,last)") == first, [&] { return "first_nonzero(" + std::to_string(a) + "," + std::to_string(b) + ") wrong for " + show(x.v) + ", expected " + std::to_string(first); });
      ck("query.last_nonzero_range", query1<dimension_type>("query.last_nonzero_range", x, [&](const LE& e) { return CALL(e, LLast)(a, b); }, "last_nonzero(first,last)") == last, [&] { return "last_nonzero(" + std::to_string(a) + "," + std::to_string(b) + ") wrong for " + show(x.v) + ", expected " + std::to_string(last); });
      size_t l0 = 0; for (size_t i = 0; i < x.v.size(); ++i) if (x.v[i] != 0) l0 = i;
      ck("query.last_nonzero", query1<dimension_type>("query.last_nonzero", x, [&](const LE& e) { return CALL(e, LLast0)(); }, "last_nonzero()") == l0, [&] { return "last_nonzero() wrong for " + show(x.v) + ", expected " + std::to_string(l0); });
      Variables_Set vs; bool azv = true, aze = true; for (size_t i = 0; i < x.dim(); ++i) if (t.chance(35)) { vs.insert(Variable(i)); azv = azv && x.v[i + 1] == 0; }
      for (size_t i = a; i < b; ++i) if (x.v[i] != 0 && (i == 0 || !vs.count(i - 1))) aze = false;
      ck("query.all_zeroes_vars", query1<bool>("query.all_zeroes_vars", x, [&](const LE& e) { return e.all_zeroes(vs); }, "all_zeroes(Variables_Set)") == azv, [&] { return "all_zeroes(" + text_of(vs) + ") wrong for " + show(x.v); });
      const char* aze_id = (a == 0 && b == 0) ? "query.all_zeroes_except.empty_range" : "query.all_zeroes_except";
      ck(aze_id, query1<bool>(aze_id, x, [&](const LE& e) { return CALL(e, LAllZEx)(vs, a, b); }, "all_zeroes_except") == aze, [&] { return "all_zeroes_except(" + text_of(vs) + ", " + std::to_string(a) + ", " + std::to_string(b) + ") wrong for " + show(x.v); });
      for (size_t i = 0; i < x.v.size(); ++i) ck("query.get", query1<Z>("query.get", x, [&](const LE& e) { return zv(CALL(e, LGet)(i)); }, "get(i)") == x.v[i], "get(i) differs from the model");
      if (x.dim() > 0) { size_t v = t.range(0, (long) x.dim() - 1); size_t e = v; while (e < x.dim() && x.v[e + 1] == 0) ++e;
        both1(x, [&](LE& ex) { LE::const_iterator it = ex.lower_bound(Variable(v)); ck("query.lower_bound", e == x.dim() ? it == ex.end() : (it != ex.end() && it.variable().id() == e && zv(*it) == x.v[e + 1]), [&] { return "lower_bound(x" + std::to_string(v) + ") wrong for " + show(x.v); }); }); }
      break; }
    case 21: { mut = false; same_dim(x, y, d); size_t a, b; range_of(x.v.size(), a, b); Z c1 = val(), c2 = val(); d << "binary queries with " << Y << " on [" << a << ", " << b << "), c1 = " << c1 << ", c2 = " << c2; op = d.str();
      Z sp = 0, spr = 0, hsp = 0; for (size_t i = 0; i < x.v.size(); ++i) { sp += x.v[i] * y.v[i]; if (i >= a && i < b) spr += x.v[i] * y.v[i]; if (i > 0) hsp += x.v[i] * y.v[i]; }
      bool eqr = true, eqc = true, common = false; for (size_t i = a; i < b; ++i) { eqr = eqr && x.v[i] == y.v[i]; eqc = eqc && x.v[i] * c1 == y.v[i] * c2; }
      size_t va = a == 0 ? 1 : a, vb = std::max(va, b); for (size_t i = va; i < vb; ++i) common = common || (x.v[i] != 0 && y.v[i] != 0);
      auto msg = [&](const char* w) { return [=] { return std::string(w) + " wrong; x = " + show(x.v) + " y = " + show(y.v); }; };
      ck("query.scalar_product", query2<Z>("query.scalar_product", x, y, [&](const LE& e, const LE& f) { Coefficient z; Scalar_Products::assign(z, e, f); return zv(z); }, "Scalar_Products::assign") == sp, msg("Scalar_Products::assign"));
      ck("query.scalar_product", query2<int>("query.scalar_product", x, y, [&](const LE& e, const LE& f) { return Scalar_Products::sign(e, f); }, "Scalar_Products::sign") == sgnz(sp), msg("Scalar_Products::sign"));
      ck("query.scalar_product", query2<Z>("query.scalar_product", x, y, [&](const LE& e, const LE& f) { Coefficient z; Scalar_Products::homogeneous_assign(z, e, f); return zv(z); }, "Scalar_Products::homogeneous_assign") == hsp, msg("Scalar_Products::homogeneous_assign"));
      ck("query.scalar_product", query2<int>("query.scalar_product", x, y, [&](const LE& e, const LE& f) { return Scalar_Products::homogeneous_sign(e, f); }, "Scalar_Products::homogeneous_sign") == sgnz(hsp), msg("Scalar_Products::homogeneous_sign"));
      ck("query.scalar_product_assign", query2<Z>("query.scalar_product_assign", x, y, [&](const LE& e, const LE& f) { Coefficient z; CALL(e, LSp)(z, f); return zv(z); }, "scalar_product_assign") == sp, msg("scalar_product_assign"));
      ck("query.scalar_product_assign", query2<Z>("query.scalar_product_assign", x, y, [&](const LE& e, const LE& f) { Coefficient z = 7; CALL(e, LSpR)(z, f, a, b); return zv(z); }, "scalar_product_assign(range)") == spr, msg("scalar_product_assign(range)"));
      ck("query.scalar_product_assign", query2<int>("query.scalar_product_assign", x, y, [&](const LE& e, const LE& f) { return CALL(e, LSpS)(f); }, "scalar_product_sign") == sgnz(sp), msg("scalar_product_sign"));
      ck("query.scalar_product_assign", query2<int>("query.scalar_product_assign", x, y, [&](const LE& e, const LE& f) { return CALL(e, LSpSR)(f, a, b); }, "scalar_product_sign(range)") == sgnz(spr), msg("scalar_product_sign(range)"));
      ck("query.is_equal_to_range", query2<bool>("query.is_equal_to_range", x, y, [&](const LE& e, const LE& f) { return CALL(e, LEqR)(f, a, b); }, "is_equal_to(range)") == eqr, msg("is_equal_to(range)"));
      ck("query.is_equal_to_scaled", query2<bool>("query.is_equal_to_scaled", x, y, [&](const LE& e, const LE& f) { return CALL(e, LEqC)(f, Coefficient(c1), Coefficient(c2), a, b); }, "is_equal_to(c1,c2,range)") == eqc, msg("is_equal_to(c1,c2,range)"));
      ck("query.have_a_common_variable", query2<bool>("query.have_a_common_variable", x, y, [&](const LE& e, const LE& f) { return CALL(e, LCommon)(f, Variable(va - 1), Variable(vb - 1)); }, "have_a_common_variable") == common, msg("have_a_common_variable"));
      ck("query.is_equal_to", query2<bool>("query.is_equal_to", x, y, [&](const LE& e, const LE& f) { return e.is_equal_to(f); }, "is_equal_to") == (x.v == y.v), msg("is_equal_to"));
      { int mc = model_compare(x.v, y.v); ck("query.compare", query2<int>("query.compare", x, y, [&](const LE& e, const LE& f) { return compare(e, f); }, "compare") == mc, [&] { return "compare gives " + std::to_string(compare(x.d, y.d)) + ", model " + std::to_string(mc) + "; x = " + show(x.v) + " y = " + show(y.v); }); }
      break; }
    case 22: { int w = (int) t.range(0, 3); size_t a, b; range_of(x.v.size(), a, b);
      if (w == 0) { size_t i = t.range(0, (long) x.dim()); Z v = val(); d << "set(index " << i << ", " << v << ")"; op = d.str(); both1(x, [&](LE& e) { CALL(e, LSet)(i, Coefficient(v)); }); x.v[i] = v; }
      else if (w == 1) { Z v = val(); d << "mul_assign(" << v << ", " << a << ", " << b << ")"; op = d.str(); both1(x, [&](LE& e) { CALL(e, LMul)(Coefficient(v), a, b); }); for (size_t i = a; i < b; ++i) x.v[i] *= v; }
      else if (w == 2) { d << "negate(" << a << ", " << b << ")"; op = d.str(); both1(x, [&](LE& e) { CALL(e, LNeg)(a, b); }); for (size_t i = a; i < b; ++i) x.v[i] = -x.v[i]; }
      else { Z g = gcd_range(x.v, a, b); if (g == 0) g = 3; if (t.chance(30)) g = -g; d << "exact_div_assign(" << g << ", " << a << ", " << b << ")"; op = d.str(); both1(x, [&](LE& e) { CALL(e, LExDiv)(Coefficient(g), a, b); }); for (size_t i = a; i < b; ++i) x.v[i] /= g; }
      break; }
    case 23: { if (t.chance(50)) { d << "m_swap(" << Y << ")" << mx; op = d.str();
        if (mixed) { x.d.m_swap(y.s); x.s.m_swap(y.d); ck("conv.m_swap", x.d.representation() == SPARSE && y.s.representation() == DENSE, "m_swap must exchange the representations"); std::swap(x.d, x.s); std::swap(y.d, y.s); } else { x.d.m_swap(y.d); swap(x.s, y.s); }
        x.v.swap(y.v); std::swap(x.muts, y.muts); }
      else { d << "= " << Y << " (assignment)" << mx; op = d.str(); if (mixed) { x.d = LE(y.s, DENSE); x.s = LE(y.d, SPARSE); } else { x.d = y.d; x.s = y.s; } x.v = y.v; x.muts = y.muts; }
      mut = false; break; }
    case 24: { mut = false; objects(x, y, d); break; }
    default: { mut = false; systems(x, y, d); break; }
    }
    if (mut) ++x.muts;
    c.log << "  " << op << "\n";
  }

  // ------------------------------------------------------------ Constraint / Generator / Congruence / Grid_Generator
  template <typename T> Vec vec_of_obj(const T& o) { Vec v(o.space_dimension() + 1); for (dimension_type i = 0; i < o.space_dimension(); ++i) v[i + 1] = zv(o.coefficient(Variable(i))); return v; }
  template <typename T> void cmp_objs(const char* id, const T& a, const T& b, const char* what, bool need_ok = true) {
    if (need_ok) ck(id, a.OK() && b.OK(), [&] { return std::string(what) + ": OK() false"; });
    ck(id, a.space_dimension() == b.space_dimension() && vec_of_obj(a) == vec_of_obj(b), [&] { return std::string(what) + ": coefficients differ: DENSE " + text_of(a) + " vs SPARSE " + text_of(b); });
    ck(id, text_of(a) == text_of(b), [&] { return std::string(what) + ": printed forms differ: DENSE `" + text_of(a) + "' vs SPARSE `" + text_of(b) + "'"; });
    ck(id, dump_norep(a) == dump_norep(b), [&] { return std::string(what) + ": ascii_dump differs: DENSE `" + dump_norep(a) + "' vs SPARSE `" + dump_norep(b) + "'"; });
  }
  void objects(Slot& x, Slot& y, std::ostringstream& d) {
    int w = (int) t.range(0, 3); int rel = (int) t.range(0, 2); Z den = Z(t.range(1, 4)); size_t n2 = t.chance(50) ? x.dim() + t.range(0, 3) : (size_t) t.range(0, (long) x.dim());
    same_dim(x, y, d);
    if (w == 0) { d << "Constraint from e" << (&x - sl) << (rel == 0 ? " == 0" : rel == 1 ? " >= 0" : " > 0") << " and from the other slot, both representations"; op = d.str();
      auto mk = [&](const LE& e) { return rel == 0 ? Constraint(e == 0) : rel == 1 ? Constraint(e >= 0) : Constraint(e > 0); };
      Constraint xd(mk(x.d), DENSE), xs(mk(x.s), SPARSE), yd(mk(y.d), DENSE), ys(mk(y.s), SPARSE);
      ck("obj.constraint", xd.representation() == DENSE && xs.representation() == SPARSE, "Constraint(c, r) has the wrong representation");
      cmp_objs("obj.constraint", xd, xs, "Constraint"); ck("obj.constraint", zv(xd.inhomogeneous_term()) == zv(xs.inhomogeneous_term()) && xd.type() == xs.type(), "inhomogeneous term / type differ");
      ck("obj.constraint.is_equal_to", xd.is_equal_to(xs) && xs.is_equal_to(xd) && (xd.is_equal_to(yd) == xs.is_equal_to(ys)) && (xd.is_equal_to(ys) == xs.is_equal_to(yd)) && (xd.is_equal_to(yd) == xd.is_equal_to(ys)), [&] { return "is_equal_to depends on the representation: " + text_of(xd) + " / " + text_of(yd); });
      int cdd = compare(xd, yd), cds = compare(xd, ys), csd = compare(xs, yd), css = compare(xs, ys);
      ck("obj.constraint.compare", cdd == cds && cdd == csd && cdd == css && compare(xd, xs) == 0, [&] { std::ostringstream q; q << "compare(" << text_of(xd) << ", " << text_of(yd) << "): d/d " << cdd << " d/s " << cds << " s/d " << csd << " s/s " << css << ", compare(dense x, sparse x) = " << compare(xd, xs); return q.str(); });
      ck("obj.constraint.queries", xd.is_tautological() == xs.is_tautological() && xd.is_inconsistent() == xs.is_inconsistent() && (xd == yd) == (xs == ys) && (xd == ys) == (xs == yd), "is_tautological / is_inconsistent / operator== depend on the representation");
      CALL(xd, CStrong)(); CALL(xs, CStrong)(); cmp_objs("obj.constraint.strong_normalize", xd, xs, "Constraint after strong_normalize"); ck("obj.constraint.strong_normalize", zv(xd.inhomogeneous_term()) == zv(xs.inhomogeneous_term()) && xd.is_equal_to(xs), "strong_normalize results differ");
      Constraint t1(xd); t1.set_representation(SPARSE); Constraint t2(xs); t2.set_representation(DENSE); cmp_objs("obj.constraint.set_representation", t2, t1, "Constraint after set_representation"); ck("obj.constraint.set_representation", t1.representation() == SPARSE && t2.representation() == DENSE && t1.is_equal_to(xs) && t2.is_equal_to(xd), "set_representation changed the constraint");
      Constraint u1(xs, n2, DENSE), u2(xd, n2, SPARSE), u3(xd, n2), u4(xs, n2); // shrinking may legitimately leave a non-normalized constraint (OK() false in both representations): then only the two results are compared
      bool grow_only = n2 >= x.dim();
      cmp_objs("obj.constraint.copy_space_dim_cross", u1, u2, "Constraint(c in the other representation, space_dim, r)", grow_only); cmp_objs("obj.constraint.copy_space_dim", u3, u4, "Constraint(c, space_dim)", grow_only);
      Vec ev = vec_of_obj(xd); ev.resize(n2 + 1, Z(0)); if (rel == 2) { if (!(vec_of_obj(u1) == ev)) c.tag("Constraint(c, space_dim) of a strict constraint does not move the epsilon coefficient (both representations alike)");
        ck("obj.constraint.copy_space_dim_nnc.same_in_both", vec_of_obj(u1) == vec_of_obj(u2) && vec_of_obj(u1) == vec_of_obj(u3) && u1.type() == u2.type() && u1.type() == u3.type(), [&] { return "Constraint(c, " + std::to_string(n2) + ", r) differs between representations: " + text_of(u1) + " / " + text_of(u2) + " from " + text_of(xd); }); }
      else ck("obj.constraint.copy_space_dim_cross", vec_of_obj(u1) == ev && vec_of_obj(u2) == ev && u1.type() == xd.type() && u2.type() == xd.type() && vec_of_obj(u3) == ev && u3.type() == xd.type(), [&] { return "Constraint(c, " + std::to_string(n2) + ", r) = " + text_of(u1) + " / " + text_of(u2) + " from " + text_of(xd); });
    }
    else if (w == 1) { int kind = (int) t.range(0, 3); d << "Generator (" << (kind == 0 ? "line" : kind == 1 ? "ray" : kind == 2 ? "point" : "closure_point") << ") from both slots, both representations"; op = d.str();
      auto hom_zero = [&](const Vec& v) { for (size_t i = 1; i < v.size(); ++i) if (v[i] != 0) return false; return true; };
      if (kind <= 1 && (hom_zero(x.v) || hom_zero(y.v))) kind = 2;
      auto mk = [&](const LE& e, Representation r) { return kind == 0 ? Generator::line(e, r) : kind == 1 ? Generator::ray(e, r) : kind == 2 ? Generator::point(e, Coefficient(den), r) : Generator::closure_point(e, Coefficient(den), r); };
      Generator xd = mk(x.d, DENSE), xs = mk(x.s, SPARSE), xm = mk(x.s, DENSE), xn = mk(x.d, SPARSE), yd = mk(y.d, DENSE), ys = mk(y.s, SPARSE);
      ck("obj.generator", xd.representation() == DENSE && xs.representation() == SPARSE, "generator has the wrong representation");
      cmp_objs("obj.generator", xd, xs, "Generator"); cmp_objs("obj.generator", xm, xn, "Generator built from the expression in the other representation"); cmp_objs("obj.generator", xd, xn, "Generator (dense from dense vs sparse from dense)");
      Vec ev = x.v; ev[0] = 0; if (kind >= 2) { ck("obj.generator", zv(xd.divisor()) == zv(xs.divisor()), "divisors differ"); }
      ck("obj.generator.is_equal_to", xd.is_equal_to(xs) && xs.is_equal_to(xd) && (xd.is_equal_to(yd) == xs.is_equal_to(ys)) && (xd.is_equal_to(ys) == xs.is_equal_to(yd)), "is_equal_to depends on the representation");
      int cdd = compare(xd, yd), cds = compare(xd, ys), csd = compare(xs, yd), css = compare(xs, ys);
      ck("obj.generator.compare", cdd == cds && cdd == csd && cdd == css && compare(xd, xs) == 0, [&] { std::ostringstream q; q << "compare(" << text_of(xd) << ", " << text_of(yd) << "): d/d " << cdd << " d/s " << cds << " s/d " << csd << " s/s " << css; return q.str(); });
      ck("obj.generator.queries", (xd == yd) == (xs == ys) && (xd == ys) == (xs == yd) && xd.type() == xs.type(), "operator== / type depend on the representation");
      CALL(xd, GStrong)(); CALL(xs, GStrong)(); cmp_objs("obj.generator.strong_normalize", xd, xs, "Generator after strong_normalize"); ck("obj.generator.strong_normalize", xd.is_equal_to(xs), "strong_normalize results differ");
      Generator t1(xd); t1.set_representation(SPARSE); Generator t2(xs); t2.set_representation(DENSE); cmp_objs("obj.generator.set_representation", t2, t1, "Generator after set_representation");
      if (n2 >= x.dim()) { Generator u1(xs, n2, DENSE), u2(xd, n2, SPARSE); cmp_objs("obj.generator.copy_space_dim_cross", u1, u2, "Generator(g in the other representation, space_dim, r)"); }
      // scalar products with a constraint in each representation
      if (kind != 3) {   // a closure point has an extra (epsilon) coefficient: not dimension-compatible with a C constraint
      Constraint cd(Constraint(y.d >= 0), DENSE), cs(Constraint(y.s >= 0), SPARSE); Coefficient z1, z2, z3, z4; Scalar_Products::assign(z1, cd, xd); Scalar_Products::assign(z2, cd, xs); Scalar_Products::assign(z3, cs, xd); Scalar_Products::assign(z4, xs, cs);
      ck("obj.scalar_product", z1 == z2 && z1 == z3 && z1 == z4 && Scalar_Products::sign(cd, xs) == sgn(z1) && Scalar_Products::sign(xd, cs) == sgn(z1), [&] { std::ostringstream q; q << "Scalar_Products::assign(constraint, generator) depends on the representation: " << z1 << " " << z2 << " " << z3 << " " << z4; return q.str(); }); }
    }
    else if (w == 2) { Z mod = Z(t.range(0, 5)); d << "Congruence e = 0 (mod " << mod << ") from both slots, both representations"; op = d.str();
      auto mk = [&](const LE& e, Representation r) { return Congruence((e %= 0) / Coefficient(mod), r); };
      Congruence xd = mk(x.d, DENSE), xs = mk(x.s, SPARSE), yd = mk(y.d, DENSE), ys = mk(y.s, SPARSE);
      ck("obj.congruence", xd.representation() == DENSE && xs.representation() == SPARSE, "Congruence(cg, r) has the wrong representation");
      cmp_objs("obj.congruence", xd, xs, "Congruence"); ck("obj.congruence", zv(xd.inhomogeneous_term()) == zv(xs.inhomogeneous_term()) && zv(xd.modulus()) == zv(xs.modulus()), "inhomogeneous term / modulus differ");
      ck("obj.congruence.queries", xd.is_tautological() == xs.is_tautological() && xd.is_inconsistent() == xs.is_inconsistent() && (xd == yd) == (xs == ys) && (xd == ys) == (xs == yd) && (xd == xs), "is_tautological / is_inconsistent / operator== depend on the representation");
      xd.strong_normalize(); xs.strong_normalize(); cmp_objs("obj.congruence.strong_normalize", xd, xs, "Congruence after strong_normalize"); ck("obj.congruence.strong_normalize", zv(xd.inhomogeneous_term()) == zv(xs.inhomogeneous_term()) && zv(xd.modulus()) == zv(xs.modulus()), "strong_normalize results differ");
      Congruence t1(xd); t1.set_representation(SPARSE); Congruence t2(xs); t2.set_representation(DENSE); cmp_objs("obj.congruence.set_representation", t2, t1, "Congruence after set_representation");
      if (mod == 0) { Constraint c1(xd, SPARSE), c2(xs, DENSE); cmp_objs("obj.congruence.to_constraint", c2, c1, "Constraint(equality congruence, r)"); }
      Constraint eq(x.s == 0); Congruence e1(eq, DENSE), e2(eq, SPARSE); cmp_objs("obj.congruence.from_constraint", e1, e2, "Congruence(constraint, r)");
    }
    else { int kind = (int) t.range(0, 2); d << "Grid_Generator (" << (kind == 0 ? "grid_line" : kind == 1 ? "parameter" : "grid_point") << ") from both slots, both representations"; op = d.str();
      auto hom_zero = [&](const Vec& v) { for (size_t i = 1; i < v.size(); ++i) if (v[i] != 0) return false; return true; };
      if (kind == 0 && (hom_zero(x.v) || hom_zero(y.v))) kind = 2;
      auto mk = [&](const LE& e, Representation r) { return kind == 0 ? Grid_Generator::grid_line(e, r) : kind == 1 ? Grid_Generator::parameter(e, Coefficient(den), r) : Grid_Generator::grid_point(e, Coefficient(den), r); };
      Grid_Generator xd = mk(x.d, DENSE), xs = mk(x.s, SPARSE), xm = mk(x.s, DENSE), xn = mk(x.d, SPARSE), yd = mk(y.d, DENSE), ys = mk(y.s, SPARSE);
      ck("obj.grid_generator", xd.representation() == DENSE && xs.representation() == SPARSE, "grid generator has the wrong representation");
      cmp_objs("obj.grid_generator", xd, xs, "Grid_Generator"); cmp_objs("obj.grid_generator", xm, xn, "Grid_Generator built from the expression in the other representation");
      if (kind >= 1) ck("obj.grid_generator", zv(xd.divisor()) == zv(xs.divisor()), "divisors differ");
      ck("obj.grid_generator.is_equal_to", xd.is_equal_to(xs) && xs.is_equal_to(xd) && (xd.is_equal_to(yd) == xs.is_equal_to(ys)) && (xd.is_equal_to(ys) == xs.is_equal_to(yd)), "is_equal_to depends on the representation");
      int cdd = compare(xd, yd), cds = compare(xd, ys), csd = compare(xs, yd), css = compare(xs, ys);
      ck("obj.grid_generator.compare", cdd == cds && cdd == csd && cdd == css && compare(xd, xs) == 0, [&] { std::ostringstream q; q << "compare(" << text_of(xd) << ", " << text_of(yd) << "): d/d " << cdd << " d/s " << cds << " s/d " << csd << " s/s " << css; return q.str(); });
      ck("obj.grid_generator.queries", (xd == yd) == (xs == ys) && (xd == ys) == (xs == yd), "operator== depends on the representation");
      if (kind != 1) { CALL(xd, GGStrong)(); CALL(xs, GGStrong)(); } cmp_objs("obj.grid_generator.strong_normalize", xd, xs, "Grid_Generator after strong_normalize"); ck("obj.grid_generator.strong_normalize", xd.is_equal_to(xs), "strong_normalize results differ");
      Grid_Generator t1(xd); t1.set_representation(SPARSE); Grid_Generator t2(xs); t2.set_representation(DENSE); cmp_objs("obj.grid_generator.set_representation", t2, t1, "Grid_Generator after set_representation");
      Congruence cd((y.d %= 0) / 3, DENSE), cs((y.s %= 0) / 3, SPARSE); Coefficient z1, z2, z3, z4; Scalar_Products::assign(z1, xd, cd); Scalar_Products::assign(z2, xd, cs); Scalar_Products::assign(z3, xs, cd); Scalar_Products::assign(z4, cs, xs);
      ck("obj.scalar_product", z1 == z2 && z1 == z3 && z1 == z4, [&] { std::ostringstream q; q << "Scalar_Products::assign(grid generator, congruence) depends on the representation: " << z1 << " " << z2 << " " << z3 << " " << z4; return q.str(); });
    }
  }

  // ------------------------------------------------------------ systems
  template <typename S> std::vector<std::string> rows_of(const S& s) { std::vector<std::string> r; for (typename S::const_iterator i = s.begin(), e = s.end(); i != e; ++i) r.push_back(text_of(*i)); return r; }
  template <typename S> void cmp_sys(const char* id, const S& a, const S& b, const char* what) {
    ck(id, a.OK() && b.OK(), [&] { return std::string(what) + ": OK() false"; });
    ck(id, a.space_dimension() == b.space_dimension() && rows_of(a) == rows_of(b), [&] { return std::string(what) + ": rows differ: DENSE {" + text_of(a) + "} vs SPARSE {" + text_of(b) + "}"; });
    ck(id, dump_norep(a) == dump_norep(b), [&] { return std::string(what) + ": ascii_dump differs:\nDENSE\n" + dump_norep(a) + "SPARSE\n" + dump_norep(b); });
  }
  void systems(Slot& x, Slot& y, std::ostringstream& d) {
    int w = (int) t.range(0, 3); int n = (int) t.range(1, 5); d << (w == 0 ? "Constraint_System" : w == 1 ? "Generator_System" : w == 2 ? "Congruence_System" : "Grid_Generator_System") << " with " << n << " rows derived from the slots, DENSE vs SPARSE"; op = d.str();
    // rows: small integer combinations a*x + b*y + k
    std::vector<LE> ed, es; for (int i = 0; i < n; ++i) { long a = t.range(-2, 2), b = t.range(-2, 2), k2 = t.range(-3, 3); LE fd = Coefficient(a) * x.d + Coefficient(b) * y.d + Coefficient(k2); LE fs = Coefficient(a) * x.s + Coefficient(b) * y.s + Coefficient(k2); ed.push_back(LE(fd, DENSE)); es.push_back(LE(fs, SPARSE)); }
    auto hom_zero = [&](const LE& e) { return e.all_homogeneous_terms_are_zero(); };
    if (w == 0) { Constraint_System a(DENSE), b(SPARSE); for (int i = 0; i < n; ++i) { int rel = (int) t.range(0, 2); bool cross = t.chance(50);
        auto mk = [&](const LE& e) { return rel == 0 ? Constraint(e == 0) : rel == 1 ? Constraint(e >= 0) : Constraint(e > 0); };
        a.insert(Constraint(mk(cross ? es[i] : ed[i]), cross ? SPARSE : DENSE)); b.insert(Constraint(mk(cross ? ed[i] : es[i]), cross ? DENSE : SPARSE)); }
      ck("sys.constraint", a.representation() == DENSE && b.representation() == SPARSE, "representation changed by insert"); cmp_sys("sys.constraint", a, b, "Constraint_System");
      Constraint_System a2(b, DENSE), b2(a, SPARSE); cmp_sys("sys.constraint.convert", a2, b2, "Constraint_System(cs, r)"); a.set_representation(SPARSE); b.set_representation(DENSE); cmp_sys("sys.constraint.convert", b, a, "Constraint_System after set_representation");
      if (!a.has_strict_inequalities()) { C_Polyhedron pa(a2), pb(b2); ck("sys.constraint.polyhedron", pa == pb && rows_of(pa.minimized_constraints()) == rows_of(pb.minimized_constraints()) && rows_of(pa.minimized_generators()) == rows_of(pb.minimized_generators()), [&] { return "polyhedra built from the DENSE and the SPARSE system differ (minimized, sorted descriptions): {" + text_of(pa.minimized_constraints()) + "} vs {" + text_of(pb.minimized_constraints()) + "}"; }); } }
    else if (w == 1) { Generator_System a(DENSE), b(SPARSE); a.insert(Generator::point(LE(0 * Variable(x.dim() ? x.dim() - 1 : 0)), Coefficient_one(), DENSE)); b.insert(Generator::point(LE(0 * Variable(x.dim() ? x.dim() - 1 : 0)), Coefficient_one(), SPARSE));
      for (int i = 0; i < n; ++i) { int kind = (int) t.range(0, 2); bool cross = t.chance(50); if (kind <= 1 && hom_zero(ed[i])) kind = 2; long den = t.range(1, 3);
        auto mk = [&](const LE& e, Representation r) { return kind == 0 ? Generator::line(e, r) : kind == 1 ? Generator::ray(e, r) : Generator::point(e, Coefficient(den), r); };
        a.insert(mk(cross ? es[i] : ed[i], cross ? SPARSE : DENSE)); b.insert(mk(cross ? ed[i] : es[i], cross ? DENSE : SPARSE)); }
      ck("sys.generator", a.representation() == DENSE && b.representation() == SPARSE, "representation changed by insert"); cmp_sys("sys.generator", a, b, "Generator_System");
      Generator_System a2(b, DENSE), b2(a, SPARSE); cmp_sys("sys.generator.convert", a2, b2, "Generator_System(gs, r)"); a.set_representation(SPARSE); b.set_representation(DENSE); cmp_sys("sys.generator.convert", b, a, "Generator_System after set_representation");
      C_Polyhedron pa(a2), pb(b2); ck("sys.generator.polyhedron", pa == pb && rows_of(pa.minimized_constraints()) == rows_of(pb.minimized_constraints()) && rows_of(pa.minimized_generators()) == rows_of(pb.minimized_generators()), [&] { return "polyhedra built from the DENSE and the SPARSE system differ (minimized, sorted descriptions): {" + text_of(pa.minimized_generators()) + "} vs {" + text_of(pb.minimized_generators()) + "}"; }); }
    else if (w == 2) { Congruence_System a(DENSE), b(SPARSE); for (int i = 0; i < n; ++i) { long mod = t.range(0, 4); bool cross = t.chance(50);
        a.insert(Congruence(((cross ? es[i] : ed[i]) %= 0) / mod, cross ? SPARSE : DENSE)); b.insert(Congruence(((cross ? ed[i] : es[i]) %= 0) / mod, cross ? DENSE : SPARSE)); }
      ck("sys.congruence", a.representation() == DENSE && b.representation() == SPARSE, "representation changed by insert"); cmp_sys("sys.congruence", a, b, "Congruence_System");
      Congruence_System a2(b, DENSE), b2(a, SPARSE); cmp_sys("sys.congruence.convert", a2, b2, "Congruence_System(cgs, r)"); a.set_representation(SPARSE); b.set_representation(DENSE); cmp_sys("sys.congruence.convert", b, a, "Congruence_System after set_representation");
      Grid ga(a2), gb(b2); ck("sys.congruence.grid", ga == gb && rows_of(ga.minimized_congruences()) == rows_of(gb.minimized_congruences()), [&] { return "grids built from the DENSE and the SPARSE system differ: {" + text_of(ga.minimized_congruences()) + "} vs {" + text_of(gb.minimized_congruences()) + "}"; }); }
    else { Grid_Generator_System a(DENSE), b(SPARSE); a.insert(Grid_Generator::grid_point(LE(0 * Variable(x.dim() ? x.dim() - 1 : 0)), Coefficient_one(), DENSE)); b.insert(Grid_Generator::grid_point(LE(0 * Variable(x.dim() ? x.dim() - 1 : 0)), Coefficient_one(), SPARSE));
      for (int i = 0; i < n; ++i) { int kind = (int) t.range(0, 2); bool cross = t.chance(50); if (kind == 0 && hom_zero(ed[i])) kind = 2; long den = t.range(1, 3);
        auto mk = [&](const LE& e, Representation r) { return kind == 0 ? Grid_Generator::grid_line(e, r) : kind == 1 ? Grid_Generator::parameter(e, Coefficient(den), r) : Grid_Generator::grid_point(e, Coefficient(den), r); };
        a.insert(mk(cross ? es[i] : ed[i], cross ? SPARSE : DENSE)); b.insert(mk(cross ? ed[i] : es[i], cross ? DENSE : SPARSE)); }
      ck("sys.grid_generator", a.representation() == DENSE && b.representation() == SPARSE, "representation changed by insert"); cmp_sys("sys.grid_generator", a, b, "Grid_Generator_System");
      Grid_Generator_System a2(b, DENSE), b2(a, SPARSE); cmp_sys("sys.grid_generator.convert", a2, b2, "Grid_Generator_System(gs, r)"); a.set_representation(SPARSE); b.set_representation(DENSE); cmp_sys("sys.grid_generator.convert", b, a, "Grid_Generator_System after set_representation");
      Grid ga(a2), gb(b2); ck("sys.grid_generator.grid", ga == gb && rows_of(ga.minimized_grid_generators()) == rows_of(gb.minimized_grid_generators()), [&] { return "grids built from the DENSE and the SPARSE system differ: {" + text_of(ga.minimized_grid_generators()) + "} vs {" + text_of(gb.minimized_grid_generators()) + "}"; }); }
  }

  void run() {
    for (int i = 0; i < 2; ++i) { size_t n = t.weighted({15, 50, 35}) == 0 ? 0 : t.range(1, 10); Slot& o = sl[i]; o.v.assign(n + 1, Z(0));
      for (size_t j = 0; j <= n; ++j) o.v[j] = t.chance(45) ? Z(0) : val();
      // build the two library copies in different ways
      LE d(DENSE), s(SPARSE); d.set_space_dimension(n); for (size_t j = n; j-- > 0; ) s += Coefficient(o.v[j + 1]) * Variable(j); if (s.space_dimension() < n) s.set_space_dimension(n);
      for (size_t j = 0; j < n; ++j) d.set_coefficient(Variable(j), Coefficient(o.v[j + 1])); d.set_inhomogeneous_term(Coefficient(o.v[0])); s += Coefficient(o.v[0]);
      o.d.m_swap(d); o.s.m_swap(s); c.log << "e" << i << " = " << show(o.v) << "\n"; }
    op = "initial state"; verify(0); verify(1);
    int steps = 0;
    while (!t.exhausted() && steps < 120) { ++steps; try { step(); verify(0); verify(1); } catch (...) { c.log << "  " << op << "   <-- stopped in or after this step\n"; throw; } }
    for (int i = 0; i < 2; ++i) { size_t nz = 0; for (size_t j = 1; j < sl[i].v.size(); ++j) if (sl[i].v[j] != 0) ++nz; if (sl[i].dim() >= 4 && nz >= 3 && sl[i].muts >= 3) c.nt(); }
    c.tag(steps >= 40 ? "steps >= 40" : steps >= 10 ? "steps 10..39" : "steps < 10");
  }
};

void vf_case(vf::Ctx& c) { Prog p(c); p.run(); }
VF_MAIN
