// C01 / C02: generated programs over a pool of C_ or NNC_Polyhedron objects,
// each carrying a reference model (ref::Sys).  Compile with -DVF_C01 or -DVF_C02.
//   C01: every description and every query agrees with the one point set,
//        whatever the history (mutators only move the lazy state).
//   C02: every mutator yields exactly the documented point set.
#include "poly_common.hh"

#if defined(VF_C01)
const vf::Info vf_info = { "C01", "poly_prog@C01", 3.0 };
static const bool MODE_C01 = true;
#elif defined(VF_C02)
const vf::Info vf_info = { "C02", "poly_prog@C02", 3.0 };
static const bool MODE_C01 = false;
#else
#error "define VF_C01 or VF_C02"
#endif

using namespace vf;

static Relation_Symbol RS(int s) { static const Relation_Symbol t[5] = { LESS_THAN, LESS_OR_EQUAL, EQUAL, GREATER_OR_EQUAL, GREATER_THAN }; return t[s]; }
static const char* RSN(int s) { static const char* t[5] = { "<", "<=", "=", ">=", ">" }; return t[s]; }

// relation  den*lhs(w)  sym  rhs(v)  over (v: 0..n-1, w: n..2n-1), with frame w_i = v_i where lhs.a[i]==0
static void add_rel(Sys& s, size_t n, const LE& lhs, int sym, const LE& rhs, const mpz_class& den, bool with_frame) {
  Con c; c.a.assign(2 * n, Q(0));
  for (size_t j = 0; j < n; ++j) { c.a[n + j] += Q(den) * Q(lhs.a[j]); c.a[j] -= Q(rhs.a[j]); }
  c.b = Q(den) * Q(lhs.b) - Q(rhs.b);
  int sy = sym; if (den < 0) sy = 4 - sym;
  if (sy == 2) c.r = ref::EQ; else if (sy == 3) c.r = ref::GE; else if (sy == 4) c.r = ref::GT;
  else { for (size_t t = 0; t < c.a.size(); ++t) c.a[t] = -c.a[t]; c.b = -c.b; c.r = (sy == 1) ? ref::GE : ref::GT; }
  s.add(c);
  if (with_frame) for (size_t i = 0; i < n; ++i) if (lhs.a[i] == 0) { Con f; f.a.assign(2 * n, Q(0)); f.a[i] = 1; f.a[n + i] = -1; f.b = 0; f.r = ref::EQ; s.add(f); }
}
static Sys rel_apply(const Sys& p, size_t n, const std::vector<Con>& rel, bool image) {
  if (ref::is_empty(p)) return ref::empty_sys(n);
  Sys s(2 * n);
  for (size_t i = 0; i < p.cs.size(); ++i) { Con c; c.a.assign(2 * n, Q(0)); for (size_t j = 0; j < n; ++j) c.a[(image ? 0 : n) + j] = p.cs[i].a[j]; c.b = p.cs[i].b; c.r = p.cs[i].r; s.add(c); }
  for (size_t i = 0; i < rel.size(); ++i) s.add(rel[i]);
  if (image) for (size_t i = 0; i < s.cs.size(); ++i) { Vec a(2 * n); for (size_t j = 0; j < n; ++j) { a[j] = s.cs[i].a[n + j]; a[n + j] = s.cs[i].a[j]; } s.cs[i].a = a; }
  return ref::project_last(s, n);
}

template <typename PH> struct Prog {
  Ctx& c; Tape& t; const bool nnc;
  struct Obj { PH ph; Sys m; size_t n; std::set<std::string> states; bool lazy_query = false; Obj(size_t n_, Degenerate_Element k) : ph(n_, k), m(n_), n(n_) {} };
  std::vector<Obj> pool;
  std::vector<long> wit;
  int nt_steps = 0;

  Prog(Ctx& c_, bool nnc_) : c(c_), t(c_.t), nnc(nnc_) {}
  const char* tn() const { return nnc ? "NNC" : "C"; }

  std::string status(const PH& p) { std::string d = dump_of(p); size_t a = d.find('\n'); size_t b = d.find('\n', a + 1); std::string st = d.substr(a + 1, b - a - 1);
    st += d.find("(not_sorted)") != std::string::npos ? " ns" : ""; return st; }
  void note_state(Obj& o) { std::string s = status(o.ph); o.states.insert(s); c.tag("state " + s); }
  bool is_lazy(const PH& p) { std::string s = status(p); return s.find("+CP") != std::string::npos || s.find("+GP") != std::string::npos || s.find("-CM") != std::string::npos || s.find("-GM") != std::string::npos; }

  // ------------------------------------------------------------ verification of all descriptions against the model
  void verify(Obj& o, const char* where) {
    bool on_copy = t.chance(65);
    PH cp(o.ph);
    const PH& p = on_copy ? cp : o.ph;
    int order = (int) t.range(0, 3);
    Sys sc(o.n), smc(o.n), sg(o.n), smg(o.n);
    for (int k = 0; k < 4; ++k) {
      int w = (k + order) % 4;
      if (w == 0) sc = to_ref(p.constraints(), o.n);
      else if (w == 1) sg = ref::from_gens(to_ref(p.generators(), o.n));
      else if (w == 2) smc = to_ref(p.minimized_constraints(), o.n);
      else smg = ref::from_gens(to_ref(p.minimized_generators(), o.n));
    }
    std::string pre = std::string("desc.") + where;
    c.check("desc.constraints", ref::equal(sc, o.m), [&] { return pre + ": constraints() " + show_sys(sc) + " differ from the model " + show_sys(o.m); });
    c.check("desc.generators", ref::equal(sg, o.m), [&] { return pre + ": generators() denote " + show_sys(sg) + ", model " + show_sys(o.m); });
    c.check("desc.minimized_constraints", ref::equal(smc, o.m), [&] { return pre + ": minimized_constraints() " + show_sys(smc) + " differ from the model " + show_sys(o.m); });
    c.check("desc.minimized_generators", ref::equal(smg, o.m), [&] { return pre + ": minimized_generators() denote " + show_sys(smg) + ", model " + show_sys(o.m); });
    c.check("desc.OK", p.OK(), pre + ": OK() is false");
  }

  // ------------------------------------------------------------ object creation
  std::vector<RCon> gen_consys(size_t n, int maxrows, bool strict_ok, bool hostile) {
    std::vector<RCon> v; int m = (int) t.range(0, maxrows);
    for (int i = 0; i < m; ++i) v.push_back(gen_con(t, n, wit, strict_ok, hostile));
    return v;
  }
  void make_obj(size_t n) {
    int kind = t.weighted({70, 8, 8, 14});
    Obj o(n, kind == 2 ? EMPTY : UNIVERSE);
    if (kind == 2) { o.m = ref::empty_sys(n); c.log << "  new " << tn() << "(dim " << n << ", EMPTY)\n"; }
    else if (kind == 1) { c.log << "  new " << tn() << "(dim " << n << ", UNIVERSE)\n"; }
    else {
      std::vector<RCon> cs = gen_consys(n, 5, nnc, kind == 3 && t.chance(40));
      Constraint_System pcs; pcs.set_space_dimension(n);
      for (size_t i = 0; i < cs.size(); ++i) { pcs.insert(to_ppl(cs[i])); o.m.add(to_refcon(cs[i])); }
      c.log << "  new " << tn() << "(dim " << n << ") from constraints {";
      for (size_t i = 0; i < cs.size(); ++i) c.log << (i ? ", " : "") << str(cs[i]);
      c.log << "}\n";
      if (kind == 3 && t.chance(50)) {
        // build from the library's own generators of a scratch object: generator-first representation
        PH tmp(pcs); Generator_System gs = t.chance(50) ? tmp.generators() : tmp.minimized_generators();
        if (!tmp.is_empty()) { o.ph = PH(gs); c.log << "    (rebuilt from its generator system)\n"; } else o.ph = PH(pcs);
      }
      else o.ph = PH(pcs);
    }
    pool.push_back(o);
  }

  // ------------------------------------------------------------ model after a mutator
  // C02: `expected' is the reference result, the library's value must equal it.
  // C01: the model is read back from the library (through a copy, so the lazy state stays).
  void settle(Obj& o, const char* op, const Sys* expected) {
    if (!MODE_C01 && expected) {
      bool direct = t.chance(25);
      PH cp(o.ph); const PH& p = direct ? o.ph : cp;
      Sys got = t.chance(50) ? to_ref(p.constraints(), o.n) : to_ref(p.minimized_constraints(), o.n);
      c.check(std::string("op.") + op, ref::equal(*expected, got), [&] { return std::string(op) + ": expected " + show_sys(*expected) + " got " + show_sys(got); });
      c.check(std::string("op.") + op + ".OK", p.OK(), "OK() false after the operation");
      o.m = *expected; ref::simplify(o.m, true);
    }
    else {
      PH cp(o.ph);
      o.m = to_ref(cp.minimized_constraints(), o.n);
    }
    note_state(o);
  }
  bool interesting(const Sys& m) { return !ref::is_empty(m) && !ref::is_universe(m); }

  // "smallest polyhedron of this topology containing S = union of pieces" (DESIGN.md C02)
  void check_smallest(Obj& o, const char* op, const ref::Union& pieces) {
    PH R(o.ph);
    Sys sr = to_ref(R.minimized_constraints(), o.n);
    size_t n = o.n;
    if (!MODE_C01) {
      std::string id = std::string("op.") + op;
      for (size_t i = 0; i < pieces.size(); ++i)
        c.check(id + ".sound", ref::included(pieces[i], sr), [&] { return std::string(op) + ": piece " + show_sys(pieces[i]) + " of S not included in result " + show_sys(sr); });
      bool s_empty = true; for (size_t i = 0; i < pieces.size(); ++i) if (!ref::is_empty(pieces[i])) s_empty = false;
      if (s_empty) c.check(id + ".empty", ref::is_empty(sr), [&] { return std::string(op) + ": S is empty but result is " + show_sys(sr); });
      else {
        const Generator_System& gs = R.minimized_generators();
        for (Generator_System::const_iterator g = gs.begin(); g != gs.end(); ++g) {
          Vec v = gen_vec(*g, n); bool pt = g->is_point() || g->is_closure_point();
          for (int rep = 0; rep < (g->is_line() ? 2 : 1); ++rep) {
            if (rep == 1) for (size_t j = 0; j < n; ++j) v[j] = -v[j];
            c.check(id + ".closure_minimal", ref::in_clconv(pieces, v, !pt, n), [&] { std::ostringstream s; s << op << ": generator " << *g << " of the result lies outside cl conv(S); result " << show_sys(sr); return s.str(); });
          }
        }
        if (nnc) {
          std::vector<size_t> ns; for (size_t k = 0; k < sr.cs.size(); ++k) if (sr.cs[k].r == ref::GE) ns.push_back(k);
          size_t m = std::min<size_t>(ns.size(), 5);
          for (unsigned mask = 1; mask < (1u << m); ++mask) {
            Sys face(sr); Con sum; sum.a.assign(n, Q(0)); sum.b = 0; sum.r = ref::GT;
            for (size_t k = 0; k < m; ++k) if (mask & (1u << k)) { Con e = sr.cs[ns[k]]; e.r = ref::EQ; face.add(e); for (size_t j = 0; j < n; ++j) sum.a[j] += sr.cs[ns[k]].a[j]; sum.b += sr.cs[ns[k]].b; }
            if (ref::is_empty(face)) continue;
            bool S_in_T = true; for (size_t i = 0; i < pieces.size() && S_in_T; ++i) S_in_T = ref::included_in_con(pieces[i], sum);
            c.check(id + ".strict_minimal", !S_in_T, [&] { return std::string(op) + ": the face " + ref::show(sum) + " (as equality) of the result contains no point of S; result " + show_sys(sr); });
          }
        }
      }
    }
    o.m = sr; note_state(o);
  }

  // ------------------------------------------------------------ mutators
  // An object of the same dimension, never the receiver itself (aliased calls x.op(x) are C13's
  // subject); when there is none, a copy of the receiver is appended to the pool.
  Obj& partner(Obj& o) {
    size_t self = &o - &pool[0];
    std::vector<size_t> cand; for (size_t i = 0; i < pool.size(); ++i) if (i != self && pool[i].n == o.n) cand.push_back(i);
    if (cand.empty()) { size_t i = pick_spare(self); Obj& src = pool[self]; pool[i].ph = src.ph; pool[i].m = src.m; pool[i].n = src.n; c.log << "  (obj" << i << " := copy of obj" << self << ")\n"; return pool[i]; }
    return pool[cand[t.range(0, (long) cand.size() - 1)]];
  }
  size_t pick_spare(size_t self) { return self == 0 ? 1 : 0; }
  Generator gen_generator(size_t n, int& kind, Vec& v, std::string& txt) {
    if (n == 0) kind = 2;
    LE e(n); for (size_t j = 0; j < n; ++j) e.a[j] = t.range(-3, 3);
    long d = kind >= 2 ? t.pick(std::vector<long>{1, 1, 2, 3}) : 1;
    if (kind < 2 && e.all_zero() && n > 0) e.a[t.range(0, (long) n - 1)] = 1;
    Linear_Expression le = e.ppl(); v = e.vec();
    std::ostringstream s;
    Generator g = Generator::zero_dim_point();
    if (kind == 0) { g = Generator::line(le); s << "line(" << e.str() << ")"; }
    else if (kind == 1) { g = Generator::ray(le); s << "ray(" << e.str() << ")"; }
    else { for (size_t j = 0; j < n; ++j) v[j] = mkq(e.a[j], d); if (kind == 2) g = Generator::point(le, d); else g = Generator::closure_point(le, d); s << (kind == 2 ? "point((" : "closure_point((") << e.str() << ")/" << d << ")"; }
    txt = s.str(); return g;
  }

  void mutate(Obj& o) {
    size_t n = o.n;
    bool was_interesting = interesting(o.m);
    int op = t.weighted({12, 6, 6, 8, 8, 6, 6, 10, 10, 6, 5, 4, 4, 6, 4, 4, 3, 3, 3, 3, 3, 2, 3});
    switch (op) {
    case 0: { // add_constraint / refine_with_constraint
      RCon rc = gen_con(t, n, wit, nnc, t.chance(15));
      bool refine = t.chance(30);
      c.log << "  " << (refine ? "refine_with_constraint " : "add_constraint ") << str(rc) << "\n";
      if (refine) o.ph.refine_with_constraint(to_ppl(rc)); else o.ph.add_constraint(to_ppl(rc));
      Sys e = o.m; e.add(to_refcon(rc)); settle(o, "add_constraint", &e); break; }
    case 1: { // add_constraints / add_recycled_constraints / refine_with_constraints
      std::vector<RCon> cs = gen_consys(n, 3, nnc, t.chance(10));
      Constraint_System pcs; pcs.set_space_dimension(n); Sys e = o.m;
      for (size_t i = 0; i < cs.size(); ++i) { pcs.insert(to_ppl(cs[i])); e.add(to_refcon(cs[i])); }
      int how = (int) t.range(0, 2);
      c.log << "  " << (how == 0 ? "add_constraints {" : how == 1 ? "add_recycled_constraints {" : "refine_with_constraints {");
      for (size_t i = 0; i < cs.size(); ++i) c.log << (i ? ", " : "") << str(cs[i]); c.log << "}\n";
      if (how == 0) o.ph.add_constraints(pcs); else if (how == 1) o.ph.add_recycled_constraints(pcs); else o.ph.refine_with_constraints(pcs);
      settle(o, "add_constraints", &e); break; }
    case 2: { // C polyhedron refined with a strict constraint: sandwich
      if (nnc) { mutate_image(o); break; }
      RCon rc = gen_con(t, n, wit, true, t.chance(15)); rc.kind = 2;
      c.log << "  refine_with_constraint " << str(rc) << "   (strict, on a C polyhedron)\n";
      o.ph.refine_with_constraint(to_ppl(rc));
      if (!MODE_C01) {
        PH cp(o.ph); Sys got = to_ref(cp.constraints(), n); Sys lo = o.m; lo.add(to_refcon(rc));
        c.check("op.refine_strict.lower", ref::included(lo, got), [&] { return "refine_with_constraint cut points of P /\\ c: " + show_sys(got); });
        c.check("op.refine_strict.upper", ref::included(got, o.m), [&] { return "refine_with_constraint result not included in P: " + show_sys(got); });
      }
      settle(o, "refine_strict", 0); break; }
    case 3: { // add_generator(s)
      bool emp = ref::is_empty(o.m);
      int cnt = (int) t.range(1, 2); Generator_System gs; ref::Union pieces; pieces.push_back(o.m);
      std::vector<Vec> pts, cpts, rays, lines; std::string all; Generator first_gen = Generator::zero_dim_point();
      for (int i = 0; i < cnt; ++i) {
        int kind = (emp && i == 0) ? 2 : t.weighted({10, 25, 50, nnc ? 15 : 0});
        Vec v; std::string txt; Generator g = gen_generator(n, kind, v, txt);
        gs.insert(g); if (i == 0) first_gen = g; all += (i ? ", " : "") + txt;
        (kind == 0 ? lines : kind == 1 ? rays : kind == 2 ? pts : cpts).push_back(v);
      }
      if (gs.space_dimension() < n) gs.set_space_dimension(n);
      // S = NNC.hull of (P's generators + new ones): expressed as union pieces via lifted sets:
      //   each new point is a piece; rays/lines/closure points are handled by the Minkowski pieces below.
      int how = cnt == 1 ? 0 : (int) t.range(1, 2);
      c.log << "  " << (how == 0 ? "add_generator " : how == 1 ? "add_generators {" : "add_recycled_generators {") << all << (how ? "}" : "") << "\n";
      if (how == 0) o.ph.add_generator(first_gen); else if (how == 1) o.ph.add_generators(gs); else o.ph.add_recycled_generators(gs);
      if (MODE_C01) { settle(o, "add_generator", 0); break; }
      // Reference: R must equal from_gens(generators of the model + new), where the model's own
      // generators are obtained *from the reference*, by describing P as pieces: we use the lifted
      // hull instead:  R == NNC.hull means (a) P and the points in R, rays/lines in rec(R), closure
      // points in cl(R); (b) every generator of R in cl conv(P u pts u cpts) + cone(rays, lines).
      {
        PH R(o.ph); Sys sr = to_ref(R.minimized_constraints(), n);
        c.check("op.add_generator.sound.P", ref::included(o.m, sr), [&] { return "add_generator lost points of the receiver: " + show_sys(sr); });
        for (size_t i = 0; i < pts.size(); ++i) c.check("op.add_generator.sound.point", sr.sat(pts[i]), [&] { return "added point not in result " + show_sys(sr); });
        Sys cl = ref::closure(sr);
        for (size_t i = 0; i < cpts.size(); ++i) c.check("op.add_generator.sound.cpoint", cl.sat(cpts[i]), [&] { return "added closure point not in the closure of result " + show_sys(sr); });
        for (size_t i = 0; i < rays.size(); ++i) c.check("op.add_generator.sound.ray", ref::in_recession_cone(sr, rays[i]), [&] { return "added ray not in recession cone of " + show_sys(sr); });
        for (size_t i = 0; i < lines.size(); ++i) { Vec m(lines[i]); for (size_t j = 0; j < n; ++j) m[j] = -m[j];
          c.check("op.add_generator.sound.line", ref::in_recession_cone(sr, lines[i]) && ref::in_recession_cone(sr, m), [&] { return "added line not in lineality space of " + show_sys(sr); }); }
        // minimality: generators of R in cl conv(P u points u cpoints) + cone(rays, +-lines):
        // encode each ray r as the piece {lambda r : lambda >= 0} shifted to any point? use: pieces = P, {pt}..., and
        // cone directions as pieces "apex + cone" for each existing point-like piece is overkill: in_clconv with
        // homogeneous rows handles directions if we add, for each direction d, the piece {w + s d : s >= 0} for a witness w of S.
        Vec w0; bool have = false;
        if (!ref::is_empty(o.m, &w0)) have = true; else if (!pts.empty()) { w0 = pts[0]; have = true; }
        if (have) {
          ref::Union pcs; pcs.push_back(o.m);
          for (size_t i = 0; i < pts.size(); ++i) { Sys s(n); for (size_t j = 0; j < n; ++j) { Con e; e.a.assign(n, Q(0)); e.a[j] = 1; e.b = -pts[i][j]; e.r = ref::EQ; s.add(e); } pcs.push_back(s); }
          for (size_t i = 0; i < cpts.size(); ++i) { Sys s(n); for (size_t j = 0; j < n; ++j) { Con e; e.a.assign(n, Q(0)); e.a[j] = 1; e.b = -cpts[i][j]; e.r = ref::EQ; s.add(e); } pcs.push_back(s); }
          std::vector<Vec> dirs(rays); for (size_t i = 0; i < lines.size(); ++i) { dirs.push_back(lines[i]); Vec m(lines[i]); for (size_t j = 0; j < n; ++j) m[j] = -m[j]; dirs.push_back(m); }
          for (size_t i = 0; i < dirs.size(); ++i) {
            // piece { w0 + s d, s >= 0 } written with one extra variable projected away is costly; use n+1 dims then project
            Sys s(n + 1); for (size_t j = 0; j < n; ++j) { Con e; e.a.assign(n + 1, Q(0)); e.a[j] = 1; e.a[n] = -dirs[i][j]; e.b = -w0[j]; e.r = ref::EQ; s.add(e); }
            { Con e; e.a.assign(n + 1, Q(0)); e.a[n] = 1; e.b = 0; e.r = ref::GE; s.add(e); }
            pcs.push_back(ref::project_last(s, 1));
          }
          const Generator_System& rg = R.minimized_generators();
          for (Generator_System::const_iterator g = rg.begin(); g != rg.end(); ++g) {
            Vec v = gen_vec(*g, n); bool pt = g->is_point() || g->is_closure_point();
            for (int rep = 0; rep < (g->is_line() ? 2 : 1); ++rep) { if (rep == 1) for (size_t j = 0; j < n; ++j) v[j] = -v[j];
              c.check("op.add_generator.closure_minimal", ref::in_clconv(pcs, v, !pt, n), [&] { std::ostringstream s; s << "generator " << *g << " of the result outside cl conv(P u new generators); result " << show_sys(sr); return s.str(); }); }
          }
          // strictness (NNC): a point of R that is a *point* must come from points: R's points lie in conv hull where
          // at least one true point (of P or added) has positive weight: checked through face cuts against the pieces
          if (nnc) {
            ref::Union strictS; strictS.push_back(o.m);
            for (size_t i = 0; i < pts.size(); ++i) strictS.push_back(pcs[1 + i]);
            std::vector<size_t> ns; for (size_t k = 0; k < sr.cs.size(); ++k) if (sr.cs[k].r == ref::GE) ns.push_back(k);
            size_t m = std::min<size_t>(ns.size(), 5);
            for (unsigned mask = 1; mask < (1u << m); ++mask) {
              Sys face(sr); Con sum; sum.a.assign(n, Q(0)); sum.b = 0; sum.r = ref::GT;
              for (size_t k = 0; k < m; ++k) if (mask & (1u << k)) { Con e = sr.cs[ns[k]]; e.r = ref::EQ; face.add(e); for (size_t j = 0; j < n; ++j) sum.a[j] += sr.cs[ns[k]].a[j]; sum.b += sr.cs[ns[k]].b; }
              if (ref::is_empty(face)) continue;
              bool S_in_T = true; for (size_t i = 0; i < strictS.size() && S_in_T; ++i) S_in_T = ref::included_in_con(strictS[i], sum);
              c.check("op.add_generator.strict_minimal", !S_in_T, [&] { return "face " + ref::show(sum) + " of the result contains no point of P or added point; result " + show_sys(sr); });
            }
          }
        }
        o.m = sr; note_state(o);
      }
      break; }
    case 4: { Obj& q = partner(o); c.log << "  intersection_assign obj" << (&q - &pool[0]) << "\n"; Sys e = ref::meet(o.m, q.m); Sys qm = q.m; o.ph.intersection_assign(q.ph); settle(o, "intersection_assign", &e); arg_unchanged(q, qm, "intersection_assign"); break; }
    case 5: { Obj& q = partner(o); bool ub = t.chance(40); c.log << "  " << (ub ? "upper_bound_assign" : "poly_hull_assign") << " obj" << (&q - &pool[0]) << "\n";
      ref::Union S; S.push_back(o.m); S.push_back(q.m); Sys qm = q.m; bool self = &q == &o;
      if (ub) o.ph.upper_bound_assign(q.ph); else o.ph.poly_hull_assign(q.ph);
      check_smallest(o, "poly_hull_assign", S); if (!self) arg_unchanged(q, qm, "poly_hull_assign"); break; }
    case 6: { Obj& q = partner(o); bool d2 = t.chance(40); c.log << "  " << (d2 ? "difference_assign" : "poly_difference_assign") << " obj" << (&q - &pool[0]) << "\n";
      ref::Union S = ref::difference(o.m, q.m); Sys qm = q.m; bool self = &q == &o;
      if (d2) o.ph.difference_assign(q.ph); else o.ph.poly_difference_assign(q.ph);
      check_smallest(o, "poly_difference_assign", S); if (!self) arg_unchanged(q, qm, "poly_difference_assign"); break; }
    case 7: case 8: mutate_image(o); break;
    case 9: { // unconstrain
      if (n == 0) { mutate_image(o); break; }
      Sys e = o.m;
      if (t.chance(60)) { size_t k = t.range(0, (long) n - 1); c.log << "  unconstrain x" << k << "\n"; o.ph.unconstrain(Variable(k)); e = ref::unconstrain(e, k); }
      else { Variables_Set vs; c.log << "  unconstrain {"; for (size_t k = 0; k < n; ++k) if (t.chance(40)) { vs.insert(Variable(k)); e = ref::unconstrain(e, k); c.log << " x" << k; } c.log << " }\n"; o.ph.unconstrain(vs); }
      settle(o, "unconstrain", &e); break; }
    case 10: { // time_elapse_assign
      Obj& q = partner(o); c.log << "  time_elapse_assign obj" << (&q - &pool[0]) << "\n"; Sys pm = o.m, qm = q.m; bool self = &q == &o;
      o.ph.time_elapse_assign(q.ph);
      check_time_elapse(o, pm, qm, false); if (!self) arg_unchanged(q, qm, "time_elapse_assign"); break; }
    case 11: { c.log << "  topological_closure_assign\n"; o.ph.topological_closure_assign(); Sys e = ref::closure(o.m); if (ref::is_empty(o.m)) e = ref::empty_sys(n); settle(o, "topological_closure_assign", &e); break; }
    case 12: { // add_space_dimensions
      if (n >= 5) { mutate_image(o); break; }
      size_t m = t.range(1, 2); bool emb = t.chance(50); c.log << "  add_space_dimensions_and_" << (emb ? "embed " : "project ") << m << "\n";
      Sys e = emb ? ref::embed(o.m, m) : ref::project(o.m, m);
      if (emb) o.ph.add_space_dimensions_and_embed(m); else o.ph.add_space_dimensions_and_project(m);
      o.n = n + m; settle(o, "add_space_dimensions", &e); break; }
    case 13: { // remove dimensions
      if (n == 0) { mutate_image(o); break; }
      std::set<size_t> rm; Variables_Set vs;
      bool higher = t.chance(30);
      if (higher) { size_t nd = t.range(0, (long) n); for (size_t k = nd; k < n; ++k) rm.insert(k); c.log << "  remove_higher_space_dimensions " << nd << "\n"; }
      else { c.log << "  remove_space_dimensions {"; for (size_t k = 0; k < n; ++k) if (t.chance(35)) { rm.insert(k); vs.insert(Variable(k)); c.log << " x" << k; } c.log << " }\n"; }
      Sys e = ref::remove_dims(o.m, rm);
      if (higher) o.ph.remove_higher_space_dimensions(n - rm.size()); else o.ph.remove_space_dimensions(vs);
      o.n = n - rm.size(); settle(o, "remove_space_dimensions", &e); break; }
    case 14: { // map_space_dimensions (partial injective, contiguous codomain)
      if (n == 0) { mutate_image(o); break; }
      Partial_Function pf; std::vector<long> img(n, -1); std::vector<size_t> keep;
      for (size_t k = 0; k < n; ++k) if (t.chance(75)) keep.push_back(k);
      std::vector<size_t> perm(keep.size()); for (size_t i = 0; i < perm.size(); ++i) perm[i] = i;
      for (size_t i = perm.size(); i > 1; --i) std::swap(perm[i - 1], perm[t.range(0, (long) i - 1)]);
      c.log << "  map_space_dimensions {";
      for (size_t i = 0; i < keep.size(); ++i) { pf.insert(keep[i], perm[i]); img[keep[i]] = (long) perm[i]; c.log << " x" << keep[i] << "->x" << perm[i]; }
      c.log << " }\n";
      std::set<size_t> rm; for (size_t k = 0; k < n; ++k) if (img[k] < 0) rm.insert(k);
      Sys pr = ref::remove_dims(o.m, rm);
      std::vector<size_t> mp; for (size_t k = 0; k < n; ++k) if (img[k] >= 0) mp.push_back((size_t) img[k]);
      Sys e = ref::rename(pr, mp, keep.size());
      o.ph.map_space_dimensions(pf); o.n = keep.size(); settle(o, "map_space_dimensions", &e); break; }
    case 15: { // expand_space_dimension: m independent copies
      if (n == 0 || n >= 4) { mutate_image(o); break; }
      size_t k = t.range(0, (long) n - 1), m = t.range(1, 2); c.log << "  expand_space_dimension x" << k << " by " << m << "\n";
      Sys e = ref::embed(o.m, m);
      for (size_t j = 0; j < m; ++j) { std::vector<size_t> mp(n); for (size_t i = 0; i < n; ++i) mp[i] = i; mp[k] = n + j; Sys cpy = ref::rename(o.m, mp, n + m); e = ref::meet(e, cpy); }
      if (ref::is_empty(o.m)) e = ref::empty_sys(n + m);
      o.ph.expand_space_dimension(Variable(k), m); o.n = n + m; settle(o, "expand_space_dimension", &e); break; }
    case 16: { // fold_space_dimensions
      if (n < 2) { mutate_image(o); break; }
      size_t dest = t.range(0, (long) n - 1); Variables_Set vs; std::set<size_t> fold;
      for (size_t k = 0; k < n; ++k) if (k != dest && t.chance(45)) { vs.insert(Variable(k)); fold.insert(k); }
      c.log << "  fold_space_dimensions {"; for (size_t k : fold) c.log << " x" << k; c.log << " } into x" << dest << "\n";
      // S = union over v in fold u {dest} of  (exists all fold vars except v renamed to dest)
      ref::Union S; size_t n2 = n - fold.size();
      std::vector<size_t> srcs(fold.begin(), fold.end()); srcs.push_back(dest);
      for (size_t si = 0; si < srcs.size(); ++si) {
        size_t v = srcs[si];
        // project away all of (fold u {dest}) \ {v}, then rename v to dest's new index
        std::set<size_t> rm; for (size_t u : srcs) if (u != v) rm.insert(u);
        Sys pr = ref::remove_dims(o.m, rm);           // dims: remaining in increasing order
        // build mapping of remaining old dims -> new index in folded space
        std::vector<size_t> remaining; for (size_t k = 0; k < n; ++k) if (!rm.count(k)) remaining.push_back(k);
        std::vector<size_t> newidx(n, 0); { size_t idx = 0; for (size_t k = 0; k < n; ++k) if (!fold.count(k)) newidx[k] = idx++; }
        std::vector<size_t> mp(remaining.size()); for (size_t i = 0; i < remaining.size(); ++i) mp[i] = (remaining[i] == v) ? newidx[dest] : newidx[remaining[i]];
        S.push_back(ref::rename(pr, mp, n2));
      }
      o.ph.fold_space_dimensions(vs, Variable(dest)); o.n = n2;
      check_smallest(o, "fold_space_dimensions", S); break; }
    case 17: { // concatenate_assign
      Obj& q = pool[t.range(0, (long) pool.size() - 1)];
      if (n + q.n > 6 || &q == &o) { mutate_image(o); break; }
      c.log << "  concatenate_assign obj" << (&q - &pool[0]) << "\n"; Sys e = ref::concatenate(o.m, q.m); Sys qm = q.m; size_t qn = q.n; bool self = &q == &o;
      o.ph.concatenate_assign(q.ph); o.n = n + qn; settle(o, "concatenate_assign", &e); if (!self) arg_unchanged(q, qm, "concatenate_assign"); break; }
    case 18: { // poly_hull_assign_if_exact
      Obj& q = partner(o); c.log << "  poly_hull_assign_if_exact obj" << (&q - &pool[0]) << "\n"; Sys pm = o.m, qm = q.m;
      bool r = t.chance(50) ? o.ph.poly_hull_assign_if_exact(q.ph) : o.ph.upper_bound_assign_if_exact(q.ph);
      if (!MODE_C01) {
        PH hull = make_from(pm, n); { PH qq = make_from(qm, n); hull.poly_hull_assign(qq); }
        Sys sh = to_ref(hull.minimized_constraints(), n);
        { Obj chk(n, UNIVERSE); chk.ph = hull; chk.m = sh; ref::Union S; S.push_back(pm); S.push_back(qm); check_smallest(chk, "poly_hull_assign", S); }
        ref::Union u; u.push_back(pm); u.push_back(qm);
        bool exact = ref::covered(sh, u);
        c.check("op.poly_hull_assign_if_exact.verdict", r == exact, [&] { return std::string("returned ") + (r ? "true" : "false") + " but the union " + (exact ? "is" : "is not") + " convex: P=" + show_sys(pm) + " Q=" + show_sys(qm); });
        Sys e = r ? sh : pm; settle(o, "poly_hull_assign_if_exact", &e);
      } else settle(o, "poly_hull_assign_if_exact", 0);
      break; }
    case 19: { // simplify_using_context_assign
      Obj& q = partner(o); c.log << "  simplify_using_context_assign obj" << (&q - &pool[0]) << "\n"; Sys pm = o.m, qm = q.m;
      size_t before = 0; { PH cp(o.ph); const Constraint_System& mc = cp.minimized_constraints(); for (Constraint_System::const_iterator i = mc.begin(); i != mc.end(); ++i) ++before; }
      bool r = o.ph.simplify_using_context_assign(q.ph);
      if (!MODE_C01) {
        PH cp(o.ph); Sys got = to_ref(cp.minimized_constraints(), n);
        bool meet_empty = ref::is_empty(ref::meet(pm, qm));
        c.check("op.simplify_using_context.verdict", r == !meet_empty, [&] { return std::string("returned ") + (r ? "true" : "false") + " but P /\\ Q is " + (meet_empty ? "empty" : "non-empty"); });
        if (r) {
          c.check("op.simplify_using_context.meet", ref::equal(ref::meet(got, qm), ref::meet(pm, qm)), [&] { return "meet with the context not preserved: result " + show_sys(got) + " P=" + show_sys(pm) + " Q=" + show_sys(qm); });
          c.check("op.simplify_using_context.enlarges", ref::included(pm, got), [&] { return "result does not contain P: " + show_sys(got); });
          size_t after = 0; const Constraint_System& mc = cp.minimized_constraints(); for (Constraint_System::const_iterator i = mc.begin(); i != mc.end(); ++i) ++after;
          c.check("op.simplify_using_context.size", after <= before, "more constraints than before");
        }
        else c.check("op.simplify_using_context.disjoint", ref::is_empty(ref::meet(got, qm)), [&] { return "returned false but result meets the context: " + show_sys(got); });
      }
      settle(o, "simplify_using_context_assign", 0); break; }
    case 20: { // add_congruence / refine_with_congruence (equalities are exact; proper ones: sandwich via refine)
      RCon rc = gen_con(t, n, wit, false, t.chance(15)); rc.kind = 0; long mod = t.pick(std::vector<long>{0, 0, 2, 3});
      Congruence cg = (rc.e.ppl() %= 0) / mod; c.log << "  " << (mod == 0 ? "add_congruence " : "refine_with_congruence ") << rc.e.str() << " = 0 (mod " << mod << ")\n";
      if (mod == 0) { if (t.chance(50)) o.ph.add_congruence(cg); else { Congruence_System cgs(cg); if (t.chance(50)) o.ph.add_congruences(cgs); else o.ph.refine_with_congruences(cgs); } Sys e = o.m; e.add(to_refcon(rc)); settle(o, "add_congruence", &e); }
      else { o.ph.refine_with_congruence(cg);
        if (!MODE_C01) { PH cp(o.ph); Sys got = to_ref(cp.constraints(), n); Sys lo = o.m; lo.add(to_refcon(rc));
          c.check("op.refine_congruence.lower", ref::included(lo, got), "refine_with_congruence cut points satisfying the congruence");
          c.check("op.refine_congruence.upper", ref::included(got, o.m), "refine_with_congruence result not included in P"); }
        settle(o, "refine_with_congruence", 0); }
      break; }
    case 21: { // positive_time_elapse_assign
      Obj& q = partner(o); c.log << "  positive_time_elapse_assign obj" << (&q - &pool[0]) << "\n"; Sys pm = o.m, qm = q.m; bool self = &q == &o;
      o.ph.positive_time_elapse_assign(q.ph);
      check_time_elapse(o, pm, qm, true); if (!self) arg_unchanged(q, qm, "positive_time_elapse_assign"); break; }
    default: { // conversion through the other topology
      c.log << "  rebuild through the other topology\n";
      if (nnc) { C_Polyhedron cph(o.ph); o.ph = PH(cph); Sys e = ref::is_empty(o.m) ? ref::empty_sys(n) : ref::closure(o.m); settle(o, "C_Polyhedron(NNC)", &e); }
      else { NNC_Polyhedron np(o.ph); o.ph = PH(np); Sys e = o.m; settle(o, "NNC_Polyhedron(C)", &e); }
      break; }
    }
    if (was_interesting) ++nt_steps;
  }
  PH make_from(const Sys& m, size_t n) {
    Constraint_System cs; cs.set_space_dimension(n);
    for (size_t i = 0; i < m.cs.size(); ++i) {
      // scale to integers
      mpz_class l = 1; for (size_t j = 0; j < n; ++j) l = lcm(l, m.cs[i].a[j].get_den()); l = lcm(l, m.cs[i].b.get_den());
      Linear_Expression e; for (size_t j = n; j-- > 0; ) { Q v = m.cs[i].a[j] * l; if (v != 0) e += Coefficient(v.get_num()) * Variable(j); }
      { Q v = m.cs[i].b * l; e += Coefficient(v.get_num()); }
      if (m.cs[i].r == ref::EQ) cs.insert(e == 0); else if (m.cs[i].r == ref::GE || !nnc) cs.insert(e >= 0); else cs.insert(e > 0);
    }
    return PH(cs);
  }
  void arg_unchanged(Obj& q, const Sys& before, const char* op) {
    if (MODE_C01) return;
    PH cp(q.ph); Sys got = to_ref(cp.constraints(), q.n);
    c.check(std::string("op.") + op + ".const_arg", ref::equal(got, before), [&] { return std::string(op) + " changed its const argument: now " + show_sys(got) + " was " + show_sys(before); });
  }
  // time elapse:  S = { p + l q : p in P, q in Q, l >= 0 (l > 0 if positive) }
  //  is S included in the open half-space  h.x + h0 > 0 ?
  bool elapse_in_strict(const Sys& pm, const Sys& qm, const Con& h, bool positive) {
    size_t n = pm.n; Vec neg(n); for (size_t j = 0; j < n; ++j) neg[j] = -h.a[j];
    Q v; bool att;
    if (!ref::sup(ref::closure(qm), neg, Q(0), v, att) || v > 0) return false;       // some direction of Q decreases h
    Con hs(h.a, h.b, ref::GT), hw(h.a, h.b, ref::GE);
    if (!positive) return ref::included_in_con(pm, hs);
    if (!ref::included_in_con(pm, hw)) return false;
    if (ref::included_in_con(pm, hs)) return true;
    Con qs(h.a, Q(0), ref::GT);                                                     // every q strictly increases h
    return ref::included_in_con(qm, qs);
  }
  void check_time_elapse(Obj& o, const Sys& pm, const Sys& qm, bool positive) {
    size_t n = o.n; PH R(o.ph); Sys sr = to_ref(R.minimized_constraints(), n);
    if (!MODE_C01) {
      std::string id = positive ? "op.positive_time_elapse" : "op.time_elapse";
      bool pe = ref::is_empty(pm), qe = ref::is_empty(qm);
      if (pe || qe) c.check(id + ".empty", ref::is_empty(sr), [&] { return "an operand is empty but the result is " + show_sys(sr); });
      else {
        // (a) every constraint of R holds on cl(S): on P, and its linear part is non-negative (zero for equalities) on Q
        Sys cq = ref::closure(qm), cpm = ref::closure(pm);
        for (size_t k = 0; k < sr.cs.size(); ++k) {
          Con w(sr.cs[k].a, sr.cs[k].b, sr.cs[k].r == ref::EQ ? ref::EQ : ref::GE);
          Con dir(sr.cs[k].a, Q(0), w.r);
          c.check(id + ".sound", ref::included_in_con(cpm, w) && ref::included_in_con(cq, dir), [&] { return "constraint " + ref::show(sr.cs[k]) + " of the result cuts points of {p + l q}  P=" + show_sys(pm) + " Q=" + show_sys(qm); });
        }
        // (b) closure-minimality: every generator of R lies in cl(S) = cl(P) + closed homogenisation cone of Q
        {
          const Generator_System& gs = R.minimized_generators();
          for (Generator_System::const_iterator g = gs.begin(); g != gs.end(); ++g) {
            Vec v = gen_vec(*g, n); bool pt = g->is_point() || g->is_closure_point();
            for (int rep = 0; rep < (g->is_line() ? 2 : 1); ++rep) {
              if (rep == 1) for (size_t j = 0; j < n; ++j) v[j] = -v[j];
              size_t N = 2 * n + 1; Sys L(N);   // p (n), y (n), t
              for (size_t i = 0; i < cpm.cs.size(); ++i) { Con r; r.a.assign(N, Q(0)); for (size_t j = 0; j < n; ++j) r.a[j] = cpm.cs[i].a[j]; r.b = pt ? cpm.cs[i].b : Q(0); r.r = cpm.cs[i].r; L.add(r); }
              for (size_t i = 0; i < cq.cs.size(); ++i) { Con r; r.a.assign(N, Q(0)); for (size_t j = 0; j < n; ++j) r.a[n + j] = cq.cs[i].a[j]; r.a[2 * n] = cq.cs[i].b; r.b = 0; r.r = cq.cs[i].r; L.add(r); }
              { Con r; r.a.assign(N, Q(0)); r.a[2 * n] = 1; r.b = 0; r.r = ref::GE; L.add(r); }
              for (size_t j = 0; j < n; ++j) { Con e; e.a.assign(N, Q(0)); e.a[j] = 1; e.a[n + j] = 1; e.b = -v[j]; e.r = ref::EQ; L.add(e); }
              c.check(id + ".closure_minimal", !ref::is_empty(L), [&] { std::ostringstream o; o << "generator " << *g << " of the result lies outside the closure of {p + l q}; result " << show_sys(sr) << "  P=" << show_sys(pm) << " Q=" << show_sys(qm); return o.str(); });
            }
          }
        }
        if (nnc) {
          // soundness of the strict constraints of R
          for (size_t k = 0; k < sr.cs.size(); ++k) if (sr.cs[k].r == ref::GT)
            c.check(id + ".sound_strict", elapse_in_strict(pm, qm, sr.cs[k], positive), [&] { return "strict constraint " + ref::show(sr.cs[k]) + " of the result cuts points of {p + l q}  P=" + show_sys(pm) + " Q=" + show_sys(qm); });
          // strictness-minimality: no non-empty face of R may be free of points of S
          std::vector<size_t> ns; for (size_t k = 0; k < sr.cs.size(); ++k) if (sr.cs[k].r == ref::GE) ns.push_back(k);
          size_t m = std::min<size_t>(ns.size(), 5);
          for (unsigned mask = 1; mask < (1u << m); ++mask) {
            Sys face(sr); Con sum; sum.a.assign(n, Q(0)); sum.b = 0; sum.r = ref::GT;
            for (size_t k = 0; k < m; ++k) if (mask & (1u << k)) { Con e = sr.cs[ns[k]]; e.r = ref::EQ; face.add(e); for (size_t j = 0; j < n; ++j) sum.a[j] += sr.cs[ns[k]].a[j]; sum.b += sr.cs[ns[k]].b; }
            if (ref::is_empty(face)) continue;
            c.check(id + ".strict_minimal", !elapse_in_strict(pm, qm, sum, positive), [&] { return "face " + ref::show(sum) + " of the result contains no point of S; result " + show_sys(sr) + "  P=" + show_sys(pm) + " Q=" + show_sys(qm); });
          }
        }
      }
    }
    o.m = sr; note_state(o);
  }

  void mutate_image(Obj& o) {
    size_t n = o.n;
    if (n == 0) { c.log << "  (dim 0: no image operator)\n"; return; }
    int op = (int) t.range(0, 7);
    bool emp = ref::is_empty(o.m);
    size_t k = t.range(0, (long) n - 1);
    LE rhs = gen_le(t, n, false), rhs2 = gen_le(t, n, false);
    for (size_t j = 0; j < n; ++j) { if (t.chance(40)) rhs.a[j] = 0; if (t.chance(40)) rhs2.a[j] = 0; }
    mpz_class den = t.pick(std::vector<long>{1, 1, -1, 2, -2, 3, -3});
    int sym = (int) t.range(nnc ? 0 : 1, nnc ? 4 : 3);
    LE var(n); var.a[k] = 1;
    Sys tmp(2 * n); bool image = true; const char* name = "";
    switch (op) {
    case 0: name = "affine_image"; c.log << "  affine_image x" << k << " := (" << rhs.str() << ")/" << den << "\n"; o.ph.affine_image(Variable(k), rhs.ppl(), Coefficient(den)); add_rel(tmp, n, var, 2, rhs, den, true); break;
    case 1: name = "affine_preimage"; c.log << "  affine_preimage x" << k << " := (" << rhs.str() << ")/" << den << "\n"; o.ph.affine_preimage(Variable(k), rhs.ppl(), Coefficient(den)); add_rel(tmp, n, var, 2, rhs, den, true); image = false; break;
    case 2: name = "generalized_affine_image"; c.log << "  generalized_affine_image x" << k << " " << RSN(sym) << " (" << rhs.str() << ")/" << den << "\n"; o.ph.generalized_affine_image(Variable(k), RS(sym), rhs.ppl(), Coefficient(den)); add_rel(tmp, n, var, sym, rhs, den, true); break;
    case 3: name = "generalized_affine_preimage"; c.log << "  generalized_affine_preimage x" << k << " " << RSN(sym) << " (" << rhs.str() << ")/" << den << "\n"; o.ph.generalized_affine_preimage(Variable(k), RS(sym), rhs.ppl(), Coefficient(den)); add_rel(tmp, n, var, sym, rhs, den, true); image = false; break;
    case 4: { name = "generalized_affine_image_lhs"; LE lhs = gen_le(t, n, false); c.log << "  generalized_affine_image " << lhs.str() << " " << RSN(sym) << " " << rhs.str() << "\n"; o.ph.generalized_affine_image(lhs.ppl(), RS(sym), rhs.ppl()); add_rel(tmp, n, lhs, sym, rhs, 1, true); break; }
    case 5: { name = "generalized_affine_preimage_lhs"; LE lhs = gen_le(t, n, false); c.log << "  generalized_affine_preimage " << lhs.str() << " " << RSN(sym) << " " << rhs.str() << "\n"; o.ph.generalized_affine_preimage(lhs.ppl(), RS(sym), rhs.ppl()); add_rel(tmp, n, lhs, sym, rhs, 1, true); image = false; break; }
    case 6: name = "bounded_affine_image"; c.log << "  bounded_affine_image (" << rhs.str() << ")/" << den << " <= x" << k << " <= (" << rhs2.str() << ")/" << den << "\n";
      if (emp && kf("KF-C02-1")) { c.excluded("KF-C02-1"); return; }
      o.ph.bounded_affine_image(Variable(k), rhs.ppl(), rhs2.ppl(), Coefficient(den)); add_rel(tmp, n, var, 3, rhs, den, true); { Sys t2(2 * n); add_rel(t2, n, var, 1, rhs2, den, false); tmp.cs.push_back(t2.cs[0]); } break;
    default: name = "bounded_affine_preimage"; c.log << "  bounded_affine_preimage (" << rhs.str() << ")/" << den << " <= x" << k << " <= (" << rhs2.str() << ")/" << den << "\n";
      o.ph.bounded_affine_preimage(Variable(k), rhs.ppl(), rhs2.ppl(), Coefficient(den)); add_rel(tmp, n, var, 3, rhs, den, true); { Sys t2(2 * n); add_rel(t2, n, var, 1, rhs2, den, false); tmp.cs.push_back(t2.cs[0]); } image = false; break;
    }
    c.tag(std::string("op ") + name + (den < 0 ? " den<0" : " den>0"));
    if (MODE_C01) { settle(o, name, 0); return; }
    Sys e = rel_apply(o.m, n, tmp.cs, image);
    settle(o, name, &e);
  }

  // ------------------------------------------------------------ observers (C01 oracles)
  void observe(Obj& o) {
    size_t n = o.n; const PH& p = o.ph; const Sys& m = o.m;
    bool lazy = is_lazy(p);
    bool emp = ref::is_empty(m);
    int q = (int) t.range(0, 21);
    auto ck = [&](const char* id, bool ok, const std::function<std::string()>& msg) { if (MODE_C01) c.check(id, ok, [&] { return msg() + "  [model " + show_sys(m) + "]"; }); };
    if (lazy) o.lazy_query = true;
    switch (q) {
    case 0: { bool r = p.is_empty(); c.log << "  ? is_empty -> " << r << "\n"; ck("q.is_empty", r == emp, [&] { return std::string("is_empty() wrong"); }); break; }
    case 1: { bool r = p.is_universe(); c.log << "  ? is_universe -> " << r << "\n"; ck("q.is_universe", r == (!emp && ref::is_universe(m)), [&] { return std::string("is_universe() wrong"); }); break; }
    case 2: { bool r = p.is_bounded(); c.log << "  ? is_bounded -> " << r << "\n"; ck("q.is_bounded", r == ref::is_bounded(m), [&] { return std::string("is_bounded() wrong"); }); break; }
    case 3: { bool r = p.is_topologically_closed(); c.log << "  ? is_topologically_closed -> " << r << "\n"; ck("q.is_topologically_closed", r == ref::is_closed(m), [&] { return std::string("is_topologically_closed() wrong"); }); break; }
    case 4: { bool r = p.is_discrete(); c.log << "  ? is_discrete -> " << r << "\n"; ck("q.is_discrete", r == (emp || ref::affine_dim(m) == 0), [&] { return std::string("is_discrete() wrong"); }); break; }
    case 5: { size_t r = p.affine_dimension(); c.log << "  ? affine_dimension -> " << r << "\n"; ck("q.affine_dimension", r == (emp ? 0 : ref::affine_dim(m)), [&] { return "affine_dimension() = " + std::to_string(r); }); break; }
    case 6: case 7: case 8: case 9: { // binary predicates
      Obj& y = partner(o); int which = q - 6; bool r, e; const char* nm;
      if (which == 0) { nm = "contains"; r = p.contains(y.ph); e = ref::included(y.m, m); }
      else if (which == 1) { nm = "strictly_contains"; r = p.strictly_contains(y.ph); e = ref::included(y.m, m) && !ref::included(m, y.m); }
      else if (which == 2) { nm = "is_disjoint_from"; r = p.is_disjoint_from(y.ph); e = ref::disjoint(m, y.m); }
      else { nm = "=="; r = (p == y.ph); e = ref::equal(m, y.m); }
      c.log << "  ? " << nm << " obj" << (&y - &pool[0]) << " -> " << r << "\n";
      ck((std::string("q.") + nm).c_str(), r == e, [&] { return std::string(nm) + " answered " + (r ? "true" : "false") + " for argument " + show_sys(y.m); });
      break; }
    case 10: case 11: { // relation_with(constraint)
      RCon rc = gen_con(t, n, wit, true, t.chance(50));
      if (t.chance(25) && !m.cs.empty()) { // a constraint related to the set itself: saturation cases
        const Con& mc = m.cs[t.range(0, (long) m.cs.size() - 1)]; mpz_class l = 1; for (size_t j = 0; j < n; ++j) l = lcm(l, mc.a[j].get_den()); l = lcm(l, mc.b.get_den());
        for (size_t j = 0; j < n; ++j) rc.e.a[j] = Q(mc.a[j] * l).get_num(); rc.e.b = Q(mc.b * l).get_num(); if (t.chance(30)) rc.e.b += t.range(-1, 1);
        if (rc.e.a.size() && t.chance(30)) { for (size_t j = 0; j < n; ++j) rc.e.a[j] = -rc.e.a[j]; rc.e.b = -rc.e.b; }
      }
      Constraint pc = to_ppl(rc); Poly_Con_Relation r = p.relation_with(pc);
      Con cc = to_refcon(rc); Con hyp = cc; hyp.r = ref::EQ;
      Poly_Con_Relation e = Poly_Con_Relation::nothing();
      Sys mc(m); mc.add(cc);
      bool dis = ref::is_empty(mc), inc = ref::included_in_con(m, cc), sat = ref::included_in_con(m, hyp);
      if (dis) e = e && Poly_Con_Relation::is_disjoint();
      if (inc) e = e && Poly_Con_Relation::is_included();
      if (sat) e = e && Poly_Con_Relation::saturates();
      if (!dis && !inc) e = e && Poly_Con_Relation::strictly_intersects();
      std::ostringstream rs, es; rs << r; es << e;
      c.log << "  ? relation_with " << str(rc) << " -> " << rs.str() << "\n";
      ck("q.relation_with_constraint", r == e, [&] { return "relation_with(" + str(rc) + ") = " + rs.str() + ", expected " + es.str(); });
      break; }
    case 12: { // relation_with(generator)
      int kind = t.weighted({15, 25, 45, nnc ? 15 : 0}); Vec v; std::string txt; Generator g = gen_generator(n, kind, v, txt);
      if (kind >= 2 && !emp && t.chance(40)) { // a point of the set itself (vertex-ish): use the emptiness witness
        Vec w; ref::is_empty(m, &w); mpz_class l = 1; for (size_t j = 0; j < n; ++j) l = lcm(l, w[j].get_den());
        Linear_Expression le; for (size_t j = n; j-- > 0; ) le += Coefficient(Q(w[j] * l).get_num()) * Variable(j);
        g = kind == 2 ? Generator::point(le, Coefficient(l)) : Generator::closure_point(le, Coefficient(l)); v = w; std::ostringstream s; s << g; txt = s.str();
      }
      Poly_Gen_Relation r = p.relation_with(g);
      bool sub;
      if (emp) sub = false;
      else if (kind == 2) sub = m.sat(v);
      else if (kind == 3) sub = ref::closure(m).sat(v);
      else if (kind == 1) sub = ref::in_recession_cone(m, v);
      else { Vec mv(v); for (size_t j = 0; j < n; ++j) mv[j] = -mv[j]; sub = ref::in_recession_cone(m, v) && ref::in_recession_cone(m, mv); }
      c.log << "  ? relation_with " << txt << " -> " << (r == Poly_Gen_Relation::subsumes() ? "subsumes" : "nothing") << "\n";
      ck("q.relation_with_generator", (r == Poly_Gen_Relation::subsumes()) == sub, [&] { return "relation_with(" + txt + ") wrong, expected " + (sub ? "subsumes" : "nothing"); });
      break; }
    case 13: { // relation_with(congruence)
      LE e = gen_le(t, n, false); long mod = t.pick(std::vector<long>{0, 1, 2, 3, 5});
      Congruence cg = (e.ppl() %= 0) / mod; Poly_Con_Relation r = p.relation_with(cg);
      Poly_Con_Relation ex = Poly_Con_Relation::nothing();
      if (emp) ex = Poly_Con_Relation::saturates() && Poly_Con_Relation::is_included() && Poly_Con_Relation::is_disjoint();
      else if (mod == 0) { Con cc(e.vec(), Q(e.b), ref::EQ); Sys mc(m); mc.add(cc); bool dis = ref::is_empty(mc), inc = ref::included_in_con(m, cc);
        if (dis) ex = ex && Poly_Con_Relation::is_disjoint(); if (inc) ex = ex && Poly_Con_Relation::is_included() && Poly_Con_Relation::saturates(); if (!dis && !inc) ex = ex && Poly_Con_Relation::strictly_intersects(); }
      else {
        Q lo, hi; bool loa = false, hia = false; bool hasl = ref::inf(m, e.vec(), Q(e.b), lo, loa), hash = ref::sup(m, e.vec(), Q(e.b), hi, hia);
        // does the range of e on P contain a multiple of mod ?
        bool hit, only;
        if (!hasl || !hash) { hit = true; only = false; }
        else {
          mpz_class k = lo.get_num() / lo.get_den(); // trunc; find smallest multiple >= lo (or > lo if not attained)
          mpz_class fl; mpz_fdiv_q(fl.get_mpz_t(), lo.get_num().get_mpz_t(), lo.get_den().get_mpz_t());
          mpz_class base; mpz_cdiv_q(base.get_mpz_t(), lo.get_num().get_mpz_t(), mpz_class(lo.get_den() * mod).get_mpz_t()); // ceil(lo/mod)
          Q cand = Q(base * mod);
          if (cand == lo && !loa) cand += mod;
          hit = cand < hi || (cand == hi && hia);
          only = (lo == hi) && hit;
          (void) k; (void) fl;
        }
        if (!hit) ex = Poly_Con_Relation::is_disjoint();
        else if (only) ex = Poly_Con_Relation::is_included() && Poly_Con_Relation::saturates();
        else ex = Poly_Con_Relation::strictly_intersects();
      }
      std::ostringstream rs, es; rs << r; es << ex;
      c.log << "  ? relation_with " << e.str() << " = 0 (mod " << mod << ") -> " << rs.str() << "\n";
      bool ok = (r == ex);
      if (!ok && mod != 0 && !emp && ex == (Poly_Con_Relation::is_included() && Poly_Con_Relation::saturates()) && r == Poly_Con_Relation::is_included()) ok = true; // saturation of a proper congruence is not claimed by the documentation
      ck("q.relation_with_congruence", ok, [&] { return "relation_with(" + e.str() + " = 0 mod " + std::to_string(mod) + ") = " + rs.str() + ", expected " + es.str(); });
      break; }
    case 14: { if (n == 0) break; size_t k = t.range(0, (long) n - 1); bool r = p.constrains(Variable(k)); c.log << "  ? constrains x" << k << " -> " << r << "\n";
      ck("q.constrains", r == ref::constrains(m, k), [&] { return "constrains(x" + std::to_string(k) + ") wrong"; }); break; }
    case 15: case 16: case 17: case 18: { // bounds / maximize / minimize
      LE e = gen_le(t, n, false); bool maxi = t.chance(50);
      Q v; bool att = false; bool fin = emp ? false : (maxi ? ref::sup(m, e.vec(), Q(e.b), v, att) : ref::inf(m, e.vec(), Q(e.b), v, att));
      if (q == 15) { bool r = maxi ? p.bounds_from_above(e.ppl()) : p.bounds_from_below(e.ppl()); c.log << "  ? bounds_from_" << (maxi ? "above " : "below ") << e.str() << " -> " << r << "\n";
        ck("q.bounds", r == (emp || fin), [&] { return "bounds_from_" + std::string(maxi ? "above(" : "below(") + e.str() + ") wrong"; }); break; }
      Coefficient num, dn; bool mx; Generator g = Generator::zero_dim_point(); bool withg = q >= 17;
      bool r = withg ? (maxi ? p.maximize(e.ppl(), num, dn, mx, g) : p.minimize(e.ppl(), num, dn, mx, g)) : (maxi ? p.maximize(e.ppl(), num, dn, mx) : p.minimize(e.ppl(), num, dn, mx));
      c.log << "  ? " << (maxi ? "maximize " : "minimize ") << e.str() << " -> " << r; if (r) c.log << " " << num << "/" << dn << (mx ? " attained" : " not attained"); c.log << "\n";
      ck("q.optimize.bounded", r == fin, [&] { return std::string(maxi ? "maximize(" : "minimize(") + e.str() + ") returned " + (r ? "true" : "false"); });
      if (r && fin) {
        Q got = mkq(mpz_class(num), mpz_class(dn));
        ck("q.optimize.value", got == v, [&] { return std::string(maxi ? "maximize(" : "minimize(") + e.str() + ") = " + got.get_str() + ", exact " + v.get_str(); });
        ck("q.optimize.attained", mx == att, [&] { return std::string("attained flag wrong for ") + e.str(); });
        if (withg) {
          Vec gv = gen_vec(g, n); Q ev = Q(e.b); for (size_t j = 0; j < n; ++j) ev += Q(e.a[j]) * gv[j];
          ck("q.optimize.witness_value", ev == v, [&] { std::ostringstream s; s << "witness " << g << " has objective " << ev << " not " << v; return s.str(); });
          ck("q.optimize.witness_member", (g.is_point() || g.is_closure_point()) && ref::closure(m).sat(gv) && (!att || (g.is_point() && m.sat(gv))), [&] { std::ostringstream s; s << "witness " << g << " not a valid point"; return s.str(); });
        }
      }
      break; }
    case 19: { // frequency
      LE e = gen_le(t, n, false); if (t.chance(40)) for (size_t j = 0; j < n; ++j) if (ref::constrains(m, j) == false) e.a[j] = 0;
      Coefficient fn, fd, vn, vd; bool r = p.frequency(e.ppl(), fn, fd, vn, vd);
      Q lo, hi; bool a1, a2; bool cst = !emp && ref::inf(m, e.vec(), Q(e.b), lo, a1) && ref::sup(m, e.vec(), Q(e.b), hi, a2) && lo == hi;
      c.log << "  ? frequency " << e.str() << " -> " << r << "\n";
      ck("q.frequency", r == cst, [&] { return "frequency(" + e.str() + ") returned " + (r ? "true" : "false"); });
      if (r && cst) ck("q.frequency.value", fn == 0 && mkq(mpz_class(vn), mpz_class(vd)) == lo, [&] { return "frequency value wrong for " + e.str(); });
      break; }
    case 20: { // congruences / minimized_congruences: equalities of the affine hull
      Congruence_System cgs = t.chance(50) ? p.congruences() : p.minimized_congruences();
      // each congruence must be satisfied by every point: equalities hold on the set; proper ones are not produced by polyhedra
      bool ok = true; Sys hull(n);
      for (Congruence_System::const_iterator i = cgs.begin(); i != cgs.end(); ++i) {
        Con cc; cc.a.assign(n, Q(0)); for (size_t j = 0; j < i->space_dimension(); ++j) cc.a[j] = Q(mpz_class(i->coefficient(Variable(j)))); cc.b = Q(mpz_class(i->inhomogeneous_term())); cc.r = ref::EQ;
        if (i->is_equality()) { hull.add(cc); if (!ref::included_in_con(m, cc)) ok = false; }
        else if (!(cc.is_const() && mpz_class(i->inhomogeneous_term()) % mpz_class(i->modulus()) == 0)) ok = false;
      }
      c.log << "  ? congruences\n";
      ck("q.congruences.sound", ok, [&] { return std::string("congruences() not satisfied by the set"); });
      if (!emp) ck("q.congruences.hull", ref::affine_dim(hull) == ref::affine_dim(m), [&] { return std::string("congruences() do not describe the affine hull"); });
      else ck("q.congruences.empty", ref::is_empty(hull), [&] { return std::string("congruences() of an empty polyhedron are satisfiable"); });
      break; }
    default: { // cheap observers that must not disturb anything
      (void) p.hash_code(); (void) p.total_memory_in_bytes(); (void) p.space_dimension(); bool ok = p.OK(); c.log << "  ? OK -> " << ok << "\n";
      ck("q.OK", ok, [&] { return std::string("OK() false"); }); break; }
    }
    note_state(o);
  }

  // ------------------------------------------------------------ main loop
  void run() {
    size_t n = (size_t) t.weighted({5, 25, 40, 25, 5});   // dimension 0..4
    wit.resize(8); for (size_t j = 0; j < 8; ++j) wit[j] = t.range(-2, 2);
    c.log << "program " << tn() << " dim " << n << " mode " << (MODE_C01 ? "C01" : "C02") << "\n";
    size_t k = (size_t) t.range(2, 3); pool.reserve(4);
    for (size_t i = 0; i < k; ++i) { c.log << " obj" << i << ":\n"; make_obj(n); note_state(pool.back()); }
    int steps = 0;
    while (!t.exhausted() && steps < 14) {
      ++steps;
      size_t i = t.range(0, (long) pool.size() - 1);
      Obj& o = pool[i];
      int what = MODE_C01 ? t.weighted({30, 50, 8, 12}) : t.weighted({60, 22, 8, 10});
      c.log << " step " << steps << " obj" << i << ":\n";
      if (what == 0) mutate(o);
      else if (what == 1) observe(o);
      else if (what == 2) { // copy / assign / swap
        size_t j = t.range(0, (long) pool.size() - 1); int h = (int) t.range(0, 2);
        if (h == 0) { c.log << "  obj" << i << " = obj" << j << "\n"; o.ph = pool[j].ph; o.m = pool[j].m; o.n = pool[j].n; }
        else if (h == 1) { c.log << "  swap obj" << i << " obj" << j << "\n"; if (i != j) { o.ph.m_swap(pool[j].ph); std::swap(o.m, pool[j].m); std::swap(o.n, pool[j].n); } else o.ph.m_swap(o.ph); }
        else { c.log << "  obj" << i << " = copy-constructed obj" << j << "\n"; PH cp(pool[j].ph); Sys mm = pool[j].m; size_t nn = pool[j].n; o.ph.m_swap(cp); o.m = mm; o.n = nn; }
        note_state(o);
      }
      else { c.log << "  verify\n"; if (MODE_C01) verify(o, "mid"); else { (void) o.ph.minimized_generators(); note_state(o); } }
    }
    c.log << " final:\n";
    for (size_t i = 0; i < pool.size(); ++i) {
      Obj& o = pool[i];
      if (MODE_C01) {
        verify(o, "final");
        // indistinguishability: the same set rebuilt from the model through a different route
        PH alt = make_from(o.m, o.n);
        c.check("q.indistinguishable", alt == o.ph && alt.contains(o.ph) && o.ph.contains(alt) && alt.is_empty() == o.ph.is_empty() && alt.affine_dimension() == o.ph.affine_dimension(),
                [&] { return "object differs from an equal set rebuilt from constraints " + show_sys(o.m); });
        if (o.states.size() >= 3 && o.lazy_query) c.nt();
      }
    }
    if (!MODE_C01 && nt_steps >= 1) c.nt();
  }
};


void vf_case(Ctx& c) {
  bool nnc = c.t.chance(50);
  if (nnc) { Prog<NNC_Polyhedron> p(c, true); p.run(); }
  else { Prog<C_Polyhedron> p(c, false); p.run(); }
}
VF_MAIN
