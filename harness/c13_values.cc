// C13: every library object behaves as an independent value.
//
// Pool programs (3-4 objects, 4-14 steps, dimension 1-4) over
//   semantic domains  C_Polyhedron, NNC_Polyhedron, Grid, BD_Shape<mpq_class>, BD_Shape<double>, Octagonal_Shape<mpz_class>,
//                     Rational_Box, Pointset_Powerset<C_Polyhedron>, Pointset_Powerset<NNC_Polyhedron>,
//                     Constraints_Product<C_Polyhedron, Grid>
//   value classes     Linear_Expression (dense and sparse), Constraint, Generator, Congruence, Grid_Generator,
//                     Constraint_System, Generator_System, Congruence_System, Grid_Generator_System
//   solvers           MIP_Problem, PIP_Problem
// Steps: copy construction into a slot (the old object is destroyed), operator=, swap / m_swap, self-assignment, self-swap,
// mutators and lazy-state changing const queries on one object while copies are alive, binary / ternary operations with
// every aliasing pattern between receiver, argument and the object an auxiliary argument (constraint system, ...) is a
// reference into, recycling operations with donors, temporaries that are mutated and destroyed.
//
// MODEL.  Every pool object carries a model of its VALUE that shares no storage with the library:
//   polyhedra / shapes / boxes   ref::Sys built from constraints() (exact conversion), compared by exact LP (ref::equal)
//   grids                        rl::Grid built from congruences() (or grid_generators()), own Hermite form
//   powersets                    the list of the disjuncts' ref::Sys, compared as point sets (exact covering test)
//   product                      (ref::Sys, rl::Grid) compared after the greatest mutual reduction N (equalities of the grid into
//                                the polyhedron, affine hull of the polyhedron into the grid, to a fixpoint): the library's lazy
//                                reduce() is one step of that iteration, so N is invariant under it
//   rows / systems / expressions canonical text built from the public accessors (systems: sorted rows)
//   MIP / PIP problems           plain data (rows, objective, mode, integer / parameter dimensions)
// The model of an object is TRANSFERRED (not re-read) by copy / assignment / swap and re-read after a mutation of that object.
//
// ORACLES (check ids: <class>.<oracle>[.<op>])
//   frame.<step>     after every step every object NOT written by it still denotes its model's value (lazy state may change);
//                    in particular const arguments of binary operations and sources of copies are unchanged
//   value.<step>     after copy / assign / swap / self-assign / self-swap the target denotes exactly the transferred model
//   alias.<op>       f(recv, arg, src) run on pool objects with any aliasing (x.op(x), x.op(y, cs-of-x), same object in two
//                    argument positions) gives the same value / answer / exception type as the same call on three independent
//                    copies made before the call
//   arg.<op>         in that reference run the copies standing for const arguments keep their value
//   recycle.*        x.add_recycled_*(donor) == x'.add_*(copy of donor); the donor is then assignable, usable and destructible
//   temp.*           a temporary copy keeps the old value while its source is mutated
//   OK               OK() on every pool object after every step (not for the product: its OK() demands an idempotent reduction)
//
// NON-TRIVIAL case: a copy made earlier was still alive when its source (or the copy) was mutated, or an aliased call was made
// on a value that is neither empty nor universe (rows: not zero).
//
// Known-finding candidates (a guard is active only with VERIF_KF_ACTIVE=<id>,...; with no id active the named check fails / the case crashes):
//   KF-C13-1  Polyhedron::limited_H79_extrapolation_assign / limited_BHRZ03_extrapolation_assign (hence bounded_*) (Polyhedron_widenings.cc:305-376,
//             844-915) read cs.num_rows() first, then minimize y and x, then index cs[i] up to the OLD row count: with cs a reference into x's
//             or y's own constraint system (x.limited_H79_extrapolation_assign(y, x.constraints())) rows past the end are read: SIGSEGV.
//             Guard: those calls get a copy of the system (the crash cannot be turned into a check).
//   KF-C13-2  the same in Grid::limited_{congruence_,generator_,}extrapolation_assign(y, cgs) (Grid_widenings.cc:160-230, 369-, 470-): SIGSEGV.
//   KF-C13-3  Pointset_Powerset::BGP99_extrapolation_assign(y, wf, max) (Pointset_Powerset_templates.hh:1384) pairwise-reduces / collapses *this
//             before reading y: x.BGP99(x) differs from x.BGP99(copy of x).  Check <powerset>.alias.BGP99_extrapolation_assign.
//   KF-C13-4  BD_Shape::simplify_using_context_assign(y) (BD_Shape_templates.hh:2583-2588) swaps x with the universe and then reads
//             y.marked_empty(): for an empty x, x.simplify_using_context_assign(x) returns true.  Check BD_Shape<*>.alias.simplify_using_context_assign.
//   KF-C13-5  sparse Linear_Expression: e -= e, add_mul_assign(e, -1, e), sub_mul_assign(e, 1, e) (Sparse_Row::linear_combine(y, 1, -1),
//             Sparse_Row.cc:530-541, resets elements of the row it iterates on as y): -3A + 4B + C + 3 becomes 4B + C.  Checks Linear_Expression.alias.x -= y,
//             .alias.add_mul_assign(x, c, y), .alias.sub_mul_assign(x, c, y).
//   KF-C13-6  Linear_Expression::linear_combine(y, c1, c2) / linear_combine_lax with y == *this, both representations: *this is scaled in place and
//             then read as y: c1 (1 + c2) e instead of (c1 + c2) e.  Checks Linear_Expression.alias.x.linear_combine(y, c1, c2), ...linear_combine_lax...
//   KF-C13-7  Pointset_Powerset::simplify_using_context_assign(y) (Pointset_Powerset_templates.hh:777-826) rewrites the disjuncts of *this in place
//             while y is the context: x.simplify(x) differs from x.simplify(copy of x).  Check <powerset>.alias.simplify_using_context_assign.
//   KF-C13-8  Polyhedron::add_generator(g) (Polyhedron_public.cc:1463-1469) reads g again after gen_sys.insert(g): with g a reference into the
//             receiver's own generator system (x.add_generator(*x.generators().begin())) the insertion reallocates the rows: use after free.
//             Guard: the call gets a generator of a copy.
//   KF-C13-9  Octagonal_Shape<integer>::strong_reduction_assign() const (Octagonal_Shape_templates.hh:3037; called by minimized_constraints() and on
//             the const argument of BHMZ05_widening_assign) changes the VALUE when two variables are pinned to constants one of which is a
//             half-integer: {A = -2, 2B = -3}.minimized_constraints() leaves {2B = -3}.  Checks Octagonal_Shape<mpz_class>.frame.* / .value.* / .alias.* /
//             .arg.* / .temp.value; guard: no reducing call on such values.
//
// Avoided known classes: Box bounded_affine_(pre)image / generalized_affine_preimage / lhs-rhs generalized images (KF-C03-1,2,4,5,7),
// Octagonal_Shape::simplify_using_context_assign (KF-C03-3), Product add_constraint(s) / add_recycled_* with anything but equalities
// (the Grid component throws), two constraints pending on a solved MIP_Problem and dimension / integrality changes after a solve
// (KF-C06-1), Linear_Expression::linear_combine(y, Variable) (declared, never defined), Congruence::scale with a negative factor (negative
// modulus), BD_Shape / Octagonal_Shape limited extrapolations with a constraint system holding a CONSTANT constraint (the constraints() of an
// empty shape): get_limiting_shape / get_limiting_octagon do not skip it and read dbm[dim + 1] / divide by zero - a defect outside C13.
// Tolerated (tagged): Pointset_Powerset contains / strictly_contains / definitely_entails answer differently when the argument still holds
// undropped empty disjuncts (x.pred(x) omega-reduces both operands, x.pred(copy) only the receiver), as accepted by C09.
#include "poly_common.hh"
#include "reflattice_x.hh"
#include <memory>
#include <typeinfo>
#include <type_traits>

const vf::Info vf_info = { "C13", "c13_values", 4.0 };
using namespace vf;
typedef ref::Union Union;
typedef Pointset_Powerset<C_Polyhedron> PSC;
typedef Pointset_Powerset<NNC_Polyhedron> PSN;
typedef Partially_Reduced_Product<C_Polyhedron, Grid, Constraints_Reduction<C_Polyhedron, Grid> > PROD;

// ---------------------------------------------------------------- exact unions (as in c09_powerset.cc)
static bool same_syntax(const Union& a, const Union& b) { if (a.size() != b.size()) return false; for (size_t i = 0; i < a.size(); ++i) if (ref::show(a[i]) != ref::show(b[i])) return false; return true; }
static bool cov(const Sys& p, const Union& u, size_t from, int depth) {
  if (ref::is_empty(p)) return true;
  while (from < u.size() && ref::is_empty(ref::meet(p, u[from]))) ++from;
  if (from == u.size()) return false;
  if (depth > 14) throw ref::Budget_Exceeded();
  Union rest = ref::difference(p, u[from]);
  for (size_t i = 0; i < rest.size(); ++i) if (!cov(rest[i], u, from + 1, depth + 1)) return false;
  return true;
}
static bool u_included(const Union& a, const Union& b) { for (size_t i = 0; i < a.size(); ++i) if (!cov(a[i], b, 0, 0)) return false; return true; }
static bool u_equal(const Union& a, const Union& b) { return same_syntax(a, b) || (u_included(a, b) && u_included(b, a)); }

// ---------------------------------------------------------------- grids (as in grid_prog.cc)
static rl::Grid model_of_congruences(const Congruence_System& cgs, size_t n) {
  rl::Grid g(n);
  for (Congruence_System::const_iterator i = cgs.begin(); i != cgs.end(); ++i) {
    rl::Vec a(n, rl::Q(0)); for (size_t j = 0; j < i->space_dimension() && j < n; ++j) a[j] = rl::Q(mpz_class(i->coefficient(Variable(j))));
    g.add_congruence(a, rl::Q(mpz_class(-i->inhomogeneous_term())), rl::Q(mpz_class(i->modulus())));
  }
  return g;
}
static rl::Grid model_of_generators(const Grid_Generator_System& gs, size_t n) {
  rl::Grid g = rl::Grid::make_empty(n);
  for (Grid_Generator_System::const_iterator i = gs.begin(); i != gs.end(); ++i) if (i->is_point()) {
    rl::Vec v(n, rl::Q(0)); for (size_t j = 0; j < i->space_dimension() && j < n; ++j) v[j] = mkq(mpz_class(i->coefficient(Variable(j))), mpz_class(i->divisor())); g.add_point(v); }
  if (g.empty) return g;
  for (Grid_Generator_System::const_iterator i = gs.begin(); i != gs.end(); ++i) if (!i->is_point()) {
    rl::Vec v(n, rl::Q(0)); for (size_t j = 0; j < i->space_dimension() && j < n; ++j) v[j] = rl::Q(mpz_class(i->coefficient(Variable(j))));
    if (i->is_parameter()) { for (size_t j = 0; j < n; ++j) v[j] = mkq(v[j].get_num(), mpz_class(i->divisor())); g.add_param(v); } else g.add_line(v); }
  return g;
}

// ---------------------------------------------------------------- value models of semantic objects
struct Val { int kind = 0; size_t n = 0; Union ps; std::vector<rl::Grid> gs; };   // kind 0 Sys, 1 grid, 2 union, 3 product
static std::string show(const Val& v) {
  std::ostringstream o; o << "dim " << v.n << " ";
  if (v.kind == 2) o << "[" << v.ps.size() << ":";
  for (size_t i = 0; i < v.ps.size(); ++i) o << (i ? " U " : " ") << ref::show(v.ps[i]);
  if (v.kind == 2) o << " ]";
  for (size_t i = 0; i < v.gs.size(); ++i) o << (v.kind == 3 ? " x grid{" : " grid{") << v.gs[i].show() << "}";
  return o.str();
}
// greatest mutual reduction of (P, G): P <- P /\ equalities(G), G <- G /\ affine hull(P), to a fixpoint
static void nform(Sys& P, rl::Grid& G) {
  size_t n = P.n;
  for (int it = 0; it < 8; ++it) {
    if (G.empty || ref::is_empty(P)) { P = ref::empty_sys(n); G = rl::Grid::make_empty(n); return; }
    std::vector<rl::Cong> cs = rl::congruences_of(G); bool ch = false;
    for (size_t i = 0; i < cs.size(); ++i) if (cs[i].f == 0) { Con k(cs[i].a, -cs[i].b, ref::EQ); if (!ref::included_in_con(P, k)) { P.add(k); ch = true; } }
    if (ref::is_empty(P)) continue;
    Sys cl = ref::closure(P);
    for (size_t i = 0; i < cl.cs.size(); ++i) { if (cl.cs[i].is_const()) continue; Con e = cl.cs[i]; e.r = ref::EQ;
      if (cl.cs[i].r == ref::EQ || ref::included_in_con(cl, e)) { rl::Grid g2 = G; g2.add_congruence(e.a, -e.b, rl::Q(0)); if (!g2.equals(G)) { G = g2; ch = true; } } }
    if (!ch) return;
  }
}
static bool val_equal(const Val& a, const Val& b) {
  if (a.kind != b.kind || a.n != b.n) return false;
  switch (a.kind) {
  case 0: return ref::show(a.ps[0]) == ref::show(b.ps[0]) || ref::equal(a.ps[0], b.ps[0]);
  case 1: return a.gs[0].equals(b.gs[0]);
  case 2: return u_equal(a.ps, b.ps);
  default: { if (ref::show(a.ps[0]) == ref::show(b.ps[0]) && a.gs[0].equals(b.gs[0])) return true;
    Sys p1 = a.ps[0], p2 = b.ps[0]; rl::Grid g1 = a.gs[0], g2 = b.gs[0]; nform(p1, g1); nform(p2, g2); return ref::equal(p1, p2) && g1.equals(g2); }
  }
}
static bool val_trivial(const Val& v) {   // empty or universe
  bool all_empty = true, some_univ = false;
  for (size_t i = 0; i < v.ps.size(); ++i) { bool e = ref::is_empty(v.ps[i]); if (!e) { all_empty = false; if (ref::is_universe(v.ps[i])) some_univ = true; } }
  if (v.kind == 0 || v.kind == 2) return all_empty || some_univ;
  bool ge = v.gs[0].empty, gu = !ge && v.gs[0].lines.size() == v.n;
  if (v.kind == 1) return ge || gu;
  return ge || all_empty || (gu && some_univ);
}

// KF-C13-9 class: two coordinates pinned to constants, one integral and one half-integral (see Prog::oct9)
static bool pinned_int_and_half(const Sys& s) {
  if (ref::is_empty(s)) return false; bool has_int = false, has_half = false;
  for (size_t j = 0; j < s.n; ++j) { Vec c(s.n, Q(0)); c[j] = 1; Q hi, lo; bool at; if (!ref::sup(s, c, Q(0), hi, at) || !ref::inf(s, c, Q(0), lo, at) || hi != lo) continue; if (hi.get_den() == 1) has_int = true; else has_half = true; }
  return has_int && has_half;
}

// ---------------------------------------------------------------- domain traits
template <typename D> struct K { static constexpr bool poly = false, strict = false, grid = false, bds = false, oct = false, box = false, ps = false, prod = false; static const char* name() { return "?"; } };
#define VF_K(T, NM, POLY, STRICT, GRID, BDS, OCT, BOX, PS, PROD) template <> struct K<T > { static constexpr bool poly = POLY, strict = STRICT, grid = GRID, bds = BDS, oct = OCT, box = BOX, ps = PS, prod = PROD; static const char* name() { return NM; } };
VF_K(C_Polyhedron, "C_Polyhedron", true, false, false, false, false, false, false, false)
VF_K(NNC_Polyhedron, "NNC_Polyhedron", true, true, false, false, false, false, false, false)
VF_K(Grid, "Grid", false, false, true, false, false, false, false, false)
VF_K(BD_Shape<mpq_class>, "BD_Shape<mpq_class>", false, false, false, true, false, false, false, false)
VF_K(BD_Shape<double>, "BD_Shape<double>", false, false, false, true, false, false, false, false)
VF_K(Octagonal_Shape<mpz_class>, "Octagonal_Shape<mpz_class>", false, false, false, false, true, false, false, false)
VF_K(Rational_Box, "Rational_Box", false, true, false, false, false, true, false, false)
VF_K(PSC, "Pointset_Powerset<C_Polyhedron>", false, false, false, false, false, false, true, false)
VF_K(PSN, "Pointset_Powerset<NNC_Polyhedron>", false, true, false, false, false, false, true, false)
VF_K(PROD, "Constraints_Product<C_Polyhedron,Grid>", false, false, false, false, false, false, false, true)
template <typename D> struct Elem { typedef D type; };
template <> struct Elem<PSC> { typedef C_Polyhedron type; };
template <> struct Elem<PSN> { typedef NNC_Polyhedron type; };

// mode 0: constraints()/congruences(); 1: generators (polyhedra, grids) or minimized constraints; 2: minimized descriptions
template <typename D> static Val read_val(const D& d, int mode = 0) {
  Val v; v.n = d.space_dimension(); size_t n = v.n;
  if constexpr (K<D>::ps) { v.kind = 2; for (typename D::const_iterator i = d.begin(), e = d.end(); i != e; ++i) v.ps.push_back(to_ref(mode == 2 ? i->pointset().minimized_constraints() : i->pointset().constraints(), n)); }
  else if constexpr (K<D>::prod) { v.kind = 3; v.ps.push_back(to_ref(mode == 2 ? d.domain1().minimized_constraints() : d.domain1().constraints(), n)); v.gs.push_back(model_of_congruences(mode == 2 ? d.domain2().minimized_congruences() : d.domain2().congruences(), n)); }
  else if constexpr (K<D>::grid) { v.kind = 1; v.gs.push_back(mode == 1 ? model_of_generators(d.grid_generators(), n) : mode == 2 ? model_of_congruences(d.minimized_congruences(), n) : model_of_congruences(d.congruences(), n)); }
  else { v.kind = 0; bool done = false;
    if constexpr (K<D>::poly) if (mode == 1) { const Generator_System& gs = d.generators(); if (gs.begin() == gs.end()) v.ps.push_back(ref::empty_sys(n)); else { D tmp(gs); v.ps.push_back(to_ref(tmp.constraints(), n)); } done = true; }
    if (!done) v.ps.push_back(to_ref(mode == 0 ? d.constraints() : d.minimized_constraints(), n)); }
  return v;
}

// ---------------------------------------------------------------- small generators
static LE small_le(Tape& t, size_t n, int zero_pct = 40) { LE e(n); for (size_t j = 0; j < n; ++j) e.a[j] = t.chance(zero_pct) ? 0 : t.range(-2, 2); e.b = t.range(-3, 3); return e; }
// a constraint the domain represents exactly (add_constraint does not throw)
template <typename D> static RCon rep_con(Tape& t, size_t n) {
  typedef typename Elem<D>::type E; RCon r; r.e = LE(n); r.kind = t.weighted({15, 60, K<D>::strict ? 25 : 0});
  size_t j = t.range(0, (long) n - 1), k = n >= 2 ? (j + 1 + t.range(0, (long) n - 2)) % n : j;
  if constexpr (K<E>::poly || K<D>::prod) { r.e = small_le(t, n); if (K<D>::prod) r.kind = 0; }
  else if constexpr (K<E>::grid) { r.e = small_le(t, n); r.kind = 0; }
  else if constexpr (K<E>::box) { r.e.a[j] = t.chance(50) ? 1 : -1; r.e.b = t.range(-3, 3); }
  else if constexpr (K<E>::bds) { r.e.a[j] = t.chance(50) ? 1 : -1; if (k != j && t.chance(50)) r.e.a[k] = -r.e.a[j]; r.e.b = t.range(-3, 3); }
  else { r.e.a[j] = t.chance(50) ? 1 : -1; if (k != j && t.chance(50)) r.e.a[k] = t.chance(50) ? 1 : -1; r.e.b = t.range(-3, 3); }
  return r;
}
static Congruence gen_cg(Tape& t, size_t n, std::ostream& log) { LE e = small_le(t, n, 50); long m = t.pick(std::vector<long>{0, 1, 2, 2, 3, 4}); log << e.str() << " = 0 (mod " << m << ")"; return (e.ppl() %= 0) / Coefficient(m); }
template <typename E> static E gen_elem(Tape& t, size_t n, std::ostream& log) {
  int shape = t.weighted({70, 7, 7, 16});      // box-like, empty, universe, partly unbounded
  if (shape == 1) { log << "EMPTY"; return E(n, EMPTY); }
  E d(n, UNIVERSE); if (shape == 2) { log << "UNIVERSE"; return d; }
  log << "{";
  if constexpr (K<E>::grid || K<E>::prod) { for (size_t j = 0; j < n; ++j) if (t.chance(shape == 3 ? 40 : 75)) { long m = t.pick(std::vector<long>{0, 1, 2, 3}), r = t.range(-2, 2); log << " x" << j << "=" << r << " (mod " << m << ")"; d.refine_with_congruence((Variable(j) %= r) / m); }
    if (t.chance(35)) { log << " "; d.refine_with_congruence(gen_cg(t, n, log)); } }
  if constexpr (!K<E>::grid) { for (size_t j = 0; j < n; ++j) { long lo = t.range(-2, 2), len = t.weighted({15, 40, 30, 15}); int keep = shape == 3 ? 50 : 92;
      bool sl = K<E>::strict && t.chance(25), su = K<E>::strict && t.chance(25);
      if (t.chance(keep)) { log << " x" << j << (sl ? ">" : ">=") << lo; if (sl) d.refine_with_constraint(Variable(j) > lo); else d.refine_with_constraint(Variable(j) >= lo); }
      if (t.chance(keep)) { log << " x" << j << (su ? "<" : "<=") << lo + len; if (su) d.refine_with_constraint(Variable(j) < lo + len); else d.refine_with_constraint(Variable(j) <= lo + len); } }
    if (t.chance(40)) { RCon r; r.e = small_le(t, n); r.kind = t.weighted({10, 65, K<E>::strict ? 25 : 0}); log << " " << str(r); d.refine_with_constraint(to_ppl(r)); } }
  log << " }"; return d;
}
template <typename D> static D gen_dom(Tape& t, size_t n, std::ostream& log) {
  if constexpr (K<D>::ps) { typedef typename Elem<D>::type E; D d(n, EMPTY); int k = t.weighted({10, 35, 35, 20}); log << "powerset[";
    for (int i = 0; i < k; ++i) { log << (i ? " U " : ""); E e = gen_elem<E>(t, n, log); if (t.chance(30)) (void) e.minimized_generators(); d.add_disjunct(e); } log << "]"; return d; }
  else return gen_elem<D>(t, n, log);
}
static Relation_Symbol RS(int s) { static const Relation_Symbol r[5] = { EQUAL, LESS_OR_EQUAL, GREATER_OR_EQUAL, LESS_THAN, GREATER_THAN }; return r[s]; }
static const char* RSN(int s) { static const char* r[5] = { "=", "<=", ">=", "<", ">" }; return r[s]; }
static std::string exn_name(const std::exception& e) { return std::string("throws ") + typeid(e).name(); }

// ---------------------------------------------------------------- binary / ternary operation tables
struct Arg { unsigned tok = 0; bool use_tok = false; unsigned maxd = 2; size_t v = 0; int rel = 0; long den = 1, mod = 0; };
// pre: 0 none, 1 arg must be contained in recv (widenings), 2 arg must contain recv (narrowing), 3 concatenation (dimension grows)
template <typename D> struct BinOp { const char* name; int pre; bool pred; std::function<long(D&, const D&, const D&, const Arg&)> f; };
template <typename D> struct TerOp { const char* name; std::function<void(D&, const Linear_Expression&, const Linear_Expression&, const Arg&)> f; };
// a constraint system that is a reference INTO z whenever the domain hands one out
template <typename D> static decltype(auto) CS(const D& z) {
  if constexpr (K<D>::ps) { static const Constraint_System none; return (z.begin() != z.end()) ? z.begin()->pointset().constraints() : none; }
  else return z.constraints();
}
#define OP(NM, PRE, PRED, ...) v.push_back(BinOp<D>{NM, PRE, PRED, [](D& x, const D& y, const D& z, const Arg& a) -> long { (void) x; (void) y; (void) z; (void) a; __VA_ARGS__ }});
#define TOK(CALL) unsigned tk = a.tok; unsigned* tp = a.use_tok ? &tk : 0; CALL; return (long) tk;
template <typename D> static std::vector<BinOp<D> > make_ops() {
  std::vector<BinOp<D> > v;
  OP("intersection_assign", 0, false, x.intersection_assign(y); return 0;)
  OP("upper_bound_assign", 0, false, x.upper_bound_assign(y); return 0;)
  OP("difference_assign", 0, false, x.difference_assign(y); return 0;)
  OP("time_elapse_assign", 0, false, x.time_elapse_assign(y); return 0;)
  OP("concatenate_assign", 3, false, x.concatenate_assign(y); return 0;)
  OP("upper_bound_assign_if_exact", 0, false, return x.upper_bound_assign_if_exact(y);)
  OP("contains", 0, true, return x.contains(y);)
  OP("strictly_contains", 0, true, return x.strictly_contains(y);)
  OP("is_disjoint_from", 0, true, return x.is_disjoint_from(y);)
  OP("operator==", 0, true, return (x == y) + 2 * (x != y);)
  OP("refine_with_constraints(cs of z)", 0, false, x.refine_with_constraints(CS(z)); return 0;)
  if constexpr (!K<D>::prod) {
    OP("add_constraints(cs of z)", 0, false, x.add_constraints(CS(z)); return 0;)
    OP("add_constraint(first of z)", 0, false, { decltype(auto) cs = CS(z); Constraint_System::const_iterator i = cs.begin(); if (i == cs.end()) return -1; x.add_constraint(*i); return 0; }) }
  if constexpr (!K<D>::ps) {
    OP("refine_with_congruences(cgs of z)", 0, false, x.refine_with_congruences(z.congruences()); return 0;)
    OP("refine_with_constraints(minimized cs of z)", 0, false, x.refine_with_constraints(z.minimized_constraints()); return 0;) }
  if constexpr (!K<D>::ps && !K<D>::prod) { OP("add_congruences(cgs of z)", 0, false, x.add_congruences(z.congruences()); return 0;) }
  if constexpr (!K<D>::oct && !K<D>::prod) { OP("simplify_using_context_assign", 0, false, return x.simplify_using_context_assign(y);) }
  if constexpr (K<D>::poly) {
    OP("poly_hull_assign", 0, false, x.poly_hull_assign(y); return 0;)
    OP("poly_difference_assign", 0, false, x.poly_difference_assign(y); return 0;)
    OP("H79_widening_assign", 1, false, TOK(x.H79_widening_assign(y, tp)))
    OP("BHRZ03_widening_assign", 1, false, TOK(x.BHRZ03_widening_assign(y, tp)))
    OP("widening_assign", 1, false, TOK(x.widening_assign(y, tp)))
    OP("limited_H79_extrapolation_assign(y, cs of z)", 1, false, TOK(x.limited_H79_extrapolation_assign(y, z.constraints(), tp)))
    OP("limited_BHRZ03_extrapolation_assign(y, cs of z)", 1, false, TOK(x.limited_BHRZ03_extrapolation_assign(y, z.constraints(), tp)))
    OP("bounded_H79_extrapolation_assign(y, cs of z)", 1, false, TOK(x.bounded_H79_extrapolation_assign(y, z.constraints(), tp)))
    OP("bounded_BHRZ03_extrapolation_assign(y, cs of z)", 1, false, TOK(x.bounded_BHRZ03_extrapolation_assign(y, z.constraints(), tp)))
    OP("add_generators(gs of z)", 0, false, x.add_generators(z.generators()); return 0;)
    OP("add_generators(minimized gs of z)", 0, false, x.add_generators(z.minimized_generators()); return 0;)
    OP("add_generator(first of z)", 0, false, { const Generator_System& gs = z.generators(); Generator_System::const_iterator i = gs.begin(); if (i == gs.end() || !i->is_point()) return -1; x.add_generator(*i); return 0; }) }
  if constexpr (K<D>::grid) {
    // Grid::widening_assign and limited_extrapolation_assign are documented to use the congruence or the generator widening "depending on
    // which of the systems describing x and y are up to date": their result and token consumption legitimately depend on the lazy state,
    // which differs between an object and a fresh copy of it.  Only the two representation-specific variants are compared.
    OP("congruence_widening_assign", 1, false, TOK(x.congruence_widening_assign(y, tp)))
    OP("generator_widening_assign", 1, false, TOK(x.generator_widening_assign(y, tp)))
    OP("limited_congruence_extrapolation_assign(y, cgs of z)", 1, false, TOK(x.limited_congruence_extrapolation_assign(y, z.congruences(), tp)))
    OP("limited_generator_extrapolation_assign(y, cgs of z)", 1, false, TOK(x.limited_generator_extrapolation_assign(y, z.congruences(), tp)))
    OP("add_grid_generators(gs of z)", 0, false, x.add_grid_generators(z.grid_generators()); return 0;)
    OP("add_congruences(minimized cgs of z)", 0, false, x.add_congruences(z.minimized_congruences()); return 0;)
    // (with z == x the argument is a row of the receiver's own generator system, which the insertion reallocates)
    OP("add_grid_generator(first of z)", 0, false, { const Grid_Generator_System& gs = z.grid_generators(); Grid_Generator_System::const_iterator i = gs.begin(); if (i == gs.end()) return -1; x.add_grid_generator(*i); return 0; }) }
  if constexpr (K<D>::bds || K<D>::oct) {
    OP("CC76_extrapolation_assign", 1, false, TOK(x.CC76_extrapolation_assign(y, tp)))
    OP("BHMZ05_widening_assign", 1, false, TOK(x.BHMZ05_widening_assign(y, tp)))
    OP("widening_assign", 1, false, TOK(x.widening_assign(y, tp)))
    OP("limited_BHMZ05_extrapolation_assign(y, cs of z)", 1, false, TOK(x.limited_BHMZ05_extrapolation_assign(y, z.constraints(), tp)))
    OP("limited_CC76_extrapolation_assign(y, cs of z)", 1, false, TOK(x.limited_CC76_extrapolation_assign(y, z.constraints(), tp)))
    OP("CC76_narrowing_assign", 2, false, x.CC76_narrowing_assign(y); return 0;) }
  if constexpr (K<D>::bds) {
    OP("H79_widening_assign", 1, false, TOK(x.H79_widening_assign(y, tp)))
    OP("limited_H79_extrapolation_assign(y, cs of z)", 1, false, TOK(x.limited_H79_extrapolation_assign(y, z.constraints(), tp))) }
  if constexpr (K<D>::box) {
    OP("CC76_widening_assign", 1, false, TOK(x.CC76_widening_assign(y, tp)))
    OP("widening_assign", 1, false, TOK(x.widening_assign(y, tp)))
    OP("limited_CC76_extrapolation_assign(y, cs of z)", 1, false, TOK(x.limited_CC76_extrapolation_assign(y, z.constraints(), tp)))
    OP("CC76_narrowing_assign", 2, false, x.CC76_narrowing_assign(y); return 0;) }
  if constexpr (K<D>::ps) {
    OP("BHZ03_widening_assign", 1, false, x.template BHZ03_widening_assign<BHRZ03_Certificate>(y, widen_fun_ref(&Polyhedron::H79_widening_assign)); return 0;)
    OP("BGP99_extrapolation_assign", 1, false, x.BGP99_extrapolation_assign(y, widen_fun_ref(&Polyhedron::H79_widening_assign), a.maxd); return 0;)
    OP("geometrically_covers", 0, true, return x.geometrically_covers(y);)
    OP("geometrically_equals", 0, true, return x.geometrically_equals(y);)
    OP("definitely_entails", 0, true, return x.definitely_entails(y);)
    OP("meet_assign", 0, false, x.meet_assign(y); return 0;)
    OP("least_upper_bound_assign", 0, false, x.least_upper_bound_assign(y); return 0;)
    OP("add_disjunct(first of z)", 0, false, if (z.begin() == z.end()) return -1; x.add_disjunct(z.begin()->pointset()); return 0;) }
  if constexpr (K<D>::prod) { OP("widening_assign", 1, false, TOK(x.widening_assign(y, tp))) }
  return v;
}
#define TOP(NM, ...) v.push_back(TerOp<D>{NM, [](D& x, const Linear_Expression& e1, const Linear_Expression& e2, const Arg& a) { (void) a; __VA_ARGS__ }});
template <typename D> static std::vector<TerOp<D> > make_ter() {
  std::vector<TerOp<D> > v;
  if constexpr (!K<D>::box) {      // Box: KF-C03-1, -2, -4, -5, -7
    TOP("bounded_affine_image(v, e, e)", x.bounded_affine_image(Variable(a.v), e1, e2, Coefficient(a.den));)
    TOP("bounded_affine_preimage(v, e, e)", x.bounded_affine_preimage(Variable(a.v), e1, e2, Coefficient(a.den));)
    if constexpr (K<D>::grid) {
      TOP("generalized_affine_image(e, =, e, m)", x.generalized_affine_image(e1, EQUAL, e2, Coefficient(a.mod));)
      TOP("generalized_affine_preimage(e, =, e, m)", x.generalized_affine_preimage(e1, EQUAL, e2, Coefficient(a.mod));) }
    else {
      TOP("generalized_affine_image(e, rel, e)", x.generalized_affine_image(e1, RS(a.rel), e2);)
      TOP("generalized_affine_preimage(e, rel, e)", x.generalized_affine_preimage(e1, RS(a.rel), e2);) } }
  return v;
}

// ---------------------------------------------------------------- pool programs over a semantic domain
template <typename D> struct Prog {
  typedef typename Elem<D>::type E;
  Ctx& c; Tape& t; std::string nm;
  struct Obj { std::unique_ptr<D> d; Val m; int grp; };
  std::vector<Obj> pool; std::vector<int> role;   // per step: 0 untouched (frame), 1 mutated (model re-read), 2 value transferred (exact)
  int next_grp = 0;
  static constexpr size_t MAXD = 4;
  Prog(Ctx& c_) : c(c_), t(c_.t), nm(K<D>::name()) {}
  std::string id(const std::string& s) const { return nm + "." + s; }
  D& at(size_t i) { return *pool[i].d; }
  size_t pick() { return (size_t) t.range(0, (long) pool.size() - 1); }
  size_t other(size_t a) { return (a + 1 + (size_t) t.range(0, (long) pool.size() - 2)) % pool.size(); }
  // KF-C13-9: Octagonal_Shape<integer>::strong_reduction_assign() const (called by minimized_constraints() and, on the const argument, by
  // BHMZ05_widening_assign) CHANGES THE VALUE when two variables are pinned to constants whose difference is a half-integer: the
  // singular equivalence class keeps the unary constraint of its leader only and re-links the others by binary constraints, which
  // cannot express the difference ({A = -2, 2B = -3} becomes {2B = -3}).  Under the finding the reducing calls are not made on such values.
  bool oct9(const Val& m) { if constexpr (K<D>::oct) { if (m.kind == 0 && pinned_int_and_half(m.ps[0])) { if (kf("KF-C13-9")) { c.excluded("KF-C13-9"); return true; } } } return false; }
  Val read_obj(const D& d) { int how = (int) t.range(0, 5); if (how == 0) return read_val(d, 0);
    if (how >= 4) { if constexpr (K<D>::oct) { Val v0 = read_val(D(d), 0); if (oct9(v0)) return v0; } }
    if (how == 5) return read_val(d, 2);
    D cp(d); return read_val(cp, how == 4 ? 1 : 0); }
  // object i is about to be mutated in place: non-trivial if a copy of it / its source is alive
  void touch(size_t i) { for (size_t j = 0; j < pool.size(); ++j) if (j != i && pool[j].grp == pool[i].grp) c.nt(); pool[i].grp = next_grp++; role[i] = 1; }
  void transfer(size_t dst, size_t src) { pool[dst].m = pool[src].m; pool[dst].grp = pool[src].grp; role[dst] = 2; }

  void settle(const std::string& kind, const std::string& desc) {
    for (size_t i = 0; i < pool.size(); ++i) {
      Val got = read_obj(at(i));
      if (role[i] != 1) c.check(id((role[i] == 2 ? "value." : "frame.") + kind), val_equal(got, pool[i].m), [&] { return "after `" + desc + "': object #" + std::to_string(i) + (role[i] == 2 ? " should hold the transferred value " : " was not written but changed from ") + show(pool[i].m) + " to " + show(got); });
      c.check(id("space_dimension"), at(i).space_dimension() == got.n, "space_dimension() inconsistent");
      pool[i].m = got; role[i] = 0;
      if constexpr (!K<D>::prod) c.check(id("OK"), at(i).OK(), [&] { return "after `" + desc + "': OK() is false on object #" + std::to_string(i) + " = " + show(got); });
    }
  }
  // an object of the same dimension as a (made by assignment when there is none)
  size_t partner(size_t a) {
    std::vector<size_t> cand; for (size_t i = 0; i < pool.size(); ++i) if (i != a && pool[i].m.n == pool[a].m.n) cand.push_back(i);
    if (!cand.empty()) return cand[(size_t) t.range(0, (long) cand.size() - 1)];
    size_t b = other(a); c.log << "  (#" << b << " = #" << a << ")\n"; at(b) = at(a); transfer(b, a); role[b] = 0; return b;
  }

  // ------------------------------------------------------------ unary mutators (on any object of the class)
  void mutate_obj(D& d, std::ostream& log) {
    size_t n = d.space_dimension(); Variable v((size_t) t.range(0, (long) n - 1));
    int k = t.weighted({10, 10, 6, 8, 6, 6, 5, 6, 5, 5, 4, 3, 8, 6, 4, 8});
    switch (k) {
    case 0: { RCon r; r.e = small_le(t, n); r.kind = t.weighted({15, 60, 25}); log << "refine_with_constraint " << str(r); d.refine_with_constraint(to_ppl(r)); break; }
    case 1: { RCon r = rep_con<D>(t, n); log << "add_constraint " << str(r); d.add_constraint(to_ppl(r)); break; }
    case 2: { log << "refine_with_congruence "; d.refine_with_congruence(gen_cg(t, n, log)); break; }
    case 3: case 4: { LE e = small_le(t, n); long den = t.pick(std::vector<long>{1, 1, 2, -1}); log << (k == 3 ? "affine_image x" : "affine_preimage x") << v.id() << " := (" << e.str() << ")/" << den;
      if (k == 3) d.affine_image(v, e.ppl(), Coefficient(den)); else d.affine_preimage(v, e.ppl(), Coefficient(den)); break; }
    case 5: { LE e = small_le(t, n); long den = t.pick(std::vector<long>{1, 1, 2, -1}); int rel = (K<D>::grid || K<D>::prod) ? 0 : (int) t.range(0, K<D>::strict ? 4 : 2);
      log << "generalized_affine_image x" << v.id() << " " << RSN(rel) << " (" << e.str() << ")/" << den;
      if constexpr (K<D>::grid) { long m = t.pick(std::vector<long>{0, 1, 2}); log << " mod " << m; d.generalized_affine_image(v, EQUAL, e.ppl(), Coefficient(den), Coefficient(m)); }
      else d.generalized_affine_image(v, RS(rel), e.ppl(), Coefficient(den)); break; }
    case 6: { log << "unconstrain x" << v.id(); if (t.chance(30)) { Variables_Set vs; vs.insert(v); d.unconstrain(vs); } else d.unconstrain(v); break; }
    case 7: case 8: { bool grow = k == 7 ? n < MAXD : n < 2;
      if (grow) { bool emb = t.chance(50); log << (emb ? "add_space_dimensions_and_embed 1" : "add_space_dimensions_and_project 1"); if (emb) d.add_space_dimensions_and_embed(1); else d.add_space_dimensions_and_project(1); }
      else if (t.chance(40)) { log << "remove_higher_space_dimensions " << n - 1; d.remove_higher_space_dimensions(n - 1); }
      else { log << "remove_space_dimensions {x" << v.id() << "}"; Variables_Set vs; vs.insert(v); d.remove_space_dimensions(vs); } break; }
    case 9: { if (n >= 2 && (n >= MAXD || t.chance(50))) { Variable w((v.id() + 1 + (size_t) t.range(0, (long) n - 2)) % n); log << "fold_space_dimensions {x" << v.id() << "} into x" << w.id(); Variables_Set vs; vs.insert(v); d.fold_space_dimensions(vs, w); }
      else { log << "expand_space_dimension x" << v.id() << " by 1"; d.expand_space_dimension(v, 1); } break; }
    case 10: { Partial_Function pf; for (size_t i = 0; i < n; ++i) pf.insert(i, (i + 1) % n); log << "map_space_dimensions (rotation)"; d.map_space_dimensions(pf); break; }
    case 11: log << "topological_closure_assign"; d.topological_closure_assign(); break;
    case 12: {
      if constexpr (K<D>::poly) { LE e = small_le(t, n, 30); e.b = 0; int gk = d.is_empty() ? 0 : t.weighted({40, 25, 15, K<D>::strict ? 20 : 0}); if (gk != 0 && gk != 3 && e.all_zero()) e.a[0] = 1; long den = t.pick(std::vector<long>{1, 1, 2, 3});
        Generator g = gk == 0 ? point(e.ppl(), den) : gk == 1 ? ray(e.ppl()) : gk == 2 ? line(e.ppl()) : closure_point(e.ppl(), den); log << "add_generator " << g; d.add_generator(g); }
      else if constexpr (K<D>::grid) { LE e = small_le(t, n, 30); e.b = 0; int gk = d.is_empty() ? 0 : t.weighted({40, 40, 20}); if (gk != 0 && e.all_zero()) e.a[0] = 1; long den = gk == 2 ? 1 : t.pick(std::vector<long>{1, 1, 2, 3});
        Grid_Generator g = gk == 0 ? grid_point(e.ppl(), den) : gk == 1 ? parameter(e.ppl(), den) : grid_line(e.ppl()); log << "add_grid_generator " << g; d.add_grid_generator(g); }
      else if constexpr (K<D>::ps) { log << "add_disjunct "; d.add_disjunct(gen_elem<E>(t, n, log)); }
      else { Constraint_System cs; RCon r1; r1.e = small_le(t, n); r1.kind = 1; RCon r2; r2.e = small_le(t, n); r2.kind = 0; cs.insert(to_ppl(r1)); cs.insert(to_ppl(r2)); log << "refine_with_constraints {" << str(r1) << ", " << str(r2) << "}"; d.refine_with_constraints(cs); }
      break; }
    case 13: { Constraint_System cs; RCon r1 = rep_con<D>(t, n), r2 = rep_con<D>(t, n); cs.insert(to_ppl(r1)); cs.insert(to_ppl(r2)); log << "add_constraints {" << str(r1) << ", " << str(r2) << "}"; d.add_constraints(cs); break; }
    case 14: { log << "= temporary "; d = gen_dom<D>(t, n, log); break; }
    default: {
      if constexpr (K<D>::ps) { int w = (int) t.range(0, 3);
        if (w == 0) { log << "omega_reduce"; d.omega_reduce(); } else if (w == 1) { log << "pairwise_reduce"; d.pairwise_reduce(); } else if (w == 2) { log << "collapse"; d.collapse(); }
        else if (d.begin() != d.end()) { log << "drop_disjunct(begin)"; d.drop_disjunct(d.begin()); } else log << "(nothing to drop)"; }
      else { Congruence_System cgs; log << "refine_with_congruences {"; cgs.insert(gen_cg(t, n, log)); log << ", "; cgs.insert(gen_cg(t, n, log)); log << "}"; d.refine_with_congruences(cgs); }
      break; }
    }
  }
  // ------------------------------------------------------------ const queries (may change the lazy state only)
  void query_obj(const D& d, std::ostream& log, bool no_reduction = false) {
    size_t n = d.space_dimension(); Variable v((size_t) t.range(0, (long) n - 1)); int q = (int) t.range(0, 15);
    switch (q) {
    case 0: log << "is_empty -> " << d.is_empty(); break;
    case 1: log << "is_universe -> " << d.is_universe(); break;
    case 2: log << "is_bounded -> " << d.is_bounded(); break;
    case 3: log << "is_topologically_closed -> " << d.is_topologically_closed(); break;
    case 4: log << "is_discrete -> " << d.is_discrete(); break;
    case 5: log << "affine_dimension -> " << d.affine_dimension(); break;
    case 6: log << "constrains x" << v.id() << " -> " << d.constrains(v); break;
    case 7: { LE e = small_le(t, n); log << "bounds_from_above " << e.str() << " -> " << d.bounds_from_above(e.ppl()); break; }
    case 8: { LE e = small_le(t, n); Coefficient nu, de; bool mx; bool r = t.chance(50) ? d.maximize(e.ppl(), nu, de, mx) : d.minimize(e.ppl(), nu, de, mx); log << "maximize/minimize " << e.str() << " -> " << r; break; }
    case 9: { RCon r; r.e = small_le(t, n); r.kind = t.weighted({20, 60, 20}); (void) d.relation_with(to_ppl(r)); log << "relation_with " << str(r); break; }
    case 10: { if constexpr (!K<D>::ps) { if (no_reduction) { (void) d.constraints(); log << "constraints"; } else { (void) d.minimized_constraints(); log << "minimized_constraints"; } } else { d.omega_reduce(); log << "omega_reduce (const) size " << d.size(); } break; }
    case 11: { if constexpr (!K<D>::ps) { (void) d.congruences(); (void) d.minimized_congruences(); log << "congruences, minimized_congruences"; } else { log << "total_memory_in_bytes " << (d.total_memory_in_bytes() > 0); } break; }
    case 12: { if constexpr (K<D>::poly) { (void) d.minimized_generators(); log << "minimized_generators"; } else if constexpr (K<D>::grid) { (void) d.minimized_grid_generators(); log << "minimized_grid_generators"; }
      else if constexpr (K<D>::prod) { (void) d.domain1(); (void) d.domain2(); log << "domain1, domain2"; } else { (void) d.is_empty(); log << "is_empty"; } break; }
    case 13: { if constexpr (K<D>::poly) { (void) d.generators(); log << "generators"; } else if constexpr (K<D>::grid) { (void) d.grid_generators(); log << "grid_generators"; }
      else if constexpr (!K<D>::ps) { (void) d.constraints(); log << "constraints"; } else { log << "size " << d.size(); } break; }
    case 14: { if constexpr (!K<D>::prod) { if (d.is_bounded()) log << "contains_integer_point -> " << d.contains_integer_point(); else log << "is_bounded -> 0"; }   // (the branch-and-bound behind contains_integer_point() need not terminate on unbounded sets: a liveness matter, out of reach here)
      else { (void) d.relation_with((Variable(v.id()) %= 1) / 2); log << "relation_with congruence"; } break; }
    default: log << "OK -> " << d.OK() << ", hash/memory " << (d.total_memory_in_bytes() > 0); break;
    }
  }

  // ------------------------------------------------------------ steps
  void step_copy() { size_t a = pick(), b = other(a); bool first_destroy = t.chance(30); std::string desc = "#" + std::to_string(b) + " := new copy of #" + std::to_string(a) + (first_destroy ? " (old object destroyed first)" : "");
    c.log << "  " << desc << "\n"; c.tag(nm + " copy-construct");
    if (first_destroy) pool[b].d.reset(); pool[b].d.reset(new D(at(a))); transfer(b, a); settle("copy", desc); }
  void step_assign() { size_t a = pick(), b = other(a); std::string desc = "#" + std::to_string(b) + " = #" + std::to_string(a); c.log << "  " << desc << "\n"; c.tag(nm + " assign");
    D& r = (at(b) = at(a)); c.check(id("value.assign.returns_self"), &r == &at(b), "operator= does not return *this"); transfer(b, a); settle("assign", desc); }
  void step_swap() { size_t a = pick(), b = other(a); int how = (int) t.range(0, 2); std::string desc = std::string(how == 0 ? "m_swap" : how == 1 ? "swap" : "std::swap") + "(#" + std::to_string(a) + ", #" + std::to_string(b) + ")"; c.log << "  " << desc << "\n"; c.tag(nm + " swap");
    // behavioural side of "swap exchanges the values": each object must answer like a copy of the other one taken before the swap
    // (the models are built from the components; a lazy flag that is not exchanged - e.g. the `reduced' flag of a product - only shows here)
    const bool behave = K<D>::prod && t.chance(60); std::unique_ptr<D> ca, cb; if (behave) { ca.reset(new D(at(a))); cb.reset(new D(at(b))); }
    if (how == 0) at(a).m_swap(at(b)); else if (how == 1) { using std::swap; swap(at(a), at(b)); } else std::swap(at(a), at(b));
    if (behave) { bool ea = at(a).is_empty(), eb = at(b).is_empty(), eca = ca->is_empty(), ecb = cb->is_empty();
      c.check(nm + ".value.swap.behaviour", ea == ecb && eb == eca, [&] { return desc + ": after the swap is_empty() answers " + (ea ? "1" : "0") + "/" + (eb ? "1" : "0") + " but copies of the exchanged values answer " + (ecb ? "1" : "0") + "/" + (eca ? "1" : "0"); }); }
    std::swap(pool[a].m, pool[b].m); std::swap(pool[a].grp, pool[b].grp); role[a] = role[b] = 2; settle("swap", desc); }
  void step_self() { size_t a = pick(); D& x = at(a); D& same = *pool[a].d; int how = (int) t.range(0, 2); std::string desc = std::string(how == 0 ? "self-assignment of #" : how == 1 ? "self m_swap of #" : "self swap of #") + std::to_string(a); c.log << "  " << desc << "\n"; c.tag(nm + (how == 0 ? " self-assign" : " self-swap"));
    if (how == 0) x = same; else if (how == 1) x.m_swap(same); else { using std::swap; swap(x, same); }
    role[a] = 2; settle(how == 0 ? "selfassign" : "selfswap", desc); }
  void step_mutate() { size_t a = pick(); std::ostringstream d; d << "#" << a << "."; touch(a); c.tag(nm + " mutate"); mutate_obj(at(a), d); c.log << "  " << d.str() << "\n"; settle("mutate", d.str()); }
  void step_query() { size_t a = pick(); std::ostringstream d; d << "#" << a << " ? "; const D& k = at(a); c.tag(nm + " query"); query_obj(k, d, oct9(pool[a].m)); c.log << "  " << d.str() << "\n"; settle("query", d.str()); }
  // a temporary copy is mutated and destroyed / keeps the old value while the source is mutated
  void step_temp() { size_t a = pick(); std::ostringstream d; c.tag(nm + " temporary");
    if (t.chance(50)) { d << "temporary copy of #" << a << " ."; { D tmp(at(a)); mutate_obj(tmp, d); c.check(id("OK"), K<D>::prod || tmp.OK(), "OK() false on a mutated temporary"); } d << " then destroyed"; c.log << "  " << d.str() << "\n"; c.nt(); settle("temp", d.str()); }
    else { d << "temporary copy of #" << a << " kept while #" << a << "."; D tmp(at(a)); Val old = pool[a].m; touch(a); mutate_obj(at(a), d); c.log << "  " << d.str() << "\n"; c.nt();
      Val got = read_obj(tmp); c.check(id("temp.value"), val_equal(got, old), [&] { return "`" + d.str() + "': the temporary copy changed from " + show(old) + " to " + show(got); }); settle("temp", d.str()); } }

  template <typename F> std::string guarded(F f) { try { return f(); } catch (vf::PplAssert&) { throw; } catch (vf::Fail&) { throw; } catch (std::exception& e) { if (std::string(e.what()).find("budget") != std::string::npos) throw; return exn_name(e); } }

  void step_binop() {
    static const std::vector<BinOp<D> > ops = make_ops<D>();
    size_t a = pick(); const BinOp<D>* op = &ops[(size_t) t.range(0, (long) ops.size() - 1)];
    int pat = t.weighted({35, 25, 15, 10, 15});      // (x,x,x)  (x,y,y)  (x,y,x)  (x,x,y)  (x,y,w)
    size_t y = a, z = a;
    if (pat != 0) { size_t b = partner(a); if (pat == 1) { y = z = b; } else if (pat == 2) y = b; else if (pat == 3) z = b; else { y = b; z = partner(a); } }
    if (op->pre == 3 && pool[a].m.n + pool[y].m.n > MAXD) op = &ops[0];
    // Outside C13 (reported separately): BD_Shape::get_limiting_shape does not skip constant constraints of cs (extract_bounded_difference
    // answers true with num_vars == 0 and first variable index dim + 1): dbm[dim + 1] is read.  The constraints() of an EMPTY shape are such
    // a system, so limited extrapolations are not generated with an empty z.
    // Octagonal_Shape::get_limiting_octagon likewise divides by the zero coefficient of a constant constraint.
    if ((K<D>::bds || K<D>::oct) && std::strstr(op->name, "limited_") && ref::is_empty(pool[z].m.ps[0])) op = &ops[0];
    if (K<D>::oct && ((std::strstr(op->name, "minimized cs of z") && oct9(pool[z].m)) || ((std::strstr(op->name, "BHMZ05") || std::strcmp(op->name, "widening_assign") == 0) && (oct9(pool[y].m) || oct9(pool[a].m))))) op = &ops[0];
    Arg arg; arg.tok = (unsigned) t.range(0, 2); arg.use_tok = t.chance(40); arg.maxd = (unsigned) t.range(1, 4);
    std::ostringstream d;
    if (op->pre == 1 && y != a) { d << "[#" << a << ".upper_bound_assign(#" << y << ")] "; touch(a); at(a).upper_bound_assign(at(y)); pool[a].m = read_val(D(at(a))); }
    if (op->pre == 2 && y != a) { d << "[#" << a << ".intersection_assign(#" << y << ")] "; touch(a); at(a).intersection_assign(at(y)); pool[a].m = read_val(D(at(a))); }
    d << "#" << a << "." << op->name << "  with y = #" << y << ", z = #" << z; if (arg.use_tok) d << ", tokens " << arg.tok;
    bool aliased = y == a || z == a; c.tag(nm + (aliased ? " aliased " : " binary ") + op->name); c.log << "  " << d.str() << "\n";
    if (aliased && !val_trivial(pool[a].m)) c.nt();
    D x1(at(a)), y1(at(y)), z1(at(z));                    // three independent copies made before the call
    Val my = pool[y].m, mz = pool[z].m;
    // KF-C13-1: Polyhedron::limited_{H79,BHRZ03}_extrapolation_assign(y, cs) (hence bounded_*) read cs.num_rows() first, then minimize
    // y and x, then index cs[i] up to the OLD row count: when cs is a reference into x's or y's own constraint system the
    // minimization shrinks / reorders it and rows past its end are read (SIGSEGV or garbage constraints).
    std::unique_ptr<D> zc; const D* zp = &at(z);
    // KF-C13-2: the same in Grid::limited_{congruence,generator,}_extrapolation_assign(y, cgs) (Grid_widenings.cc).
    if ((K<D>::poly || K<D>::grid) && (z == a || z == y) && std::strstr(op->name, "extrapolation_assign(y, c")) {
      const char* k = K<D>::poly ? "KF-C13-1" : "KF-C13-2";
      if (kf(k)) { c.excluded(k); zc.reset(new D(at(z))); zp = zc.get(); } }
    // KF-C13-8: Polyhedron::add_generator(g) with g a reference into the receiver's own generator system: gen_sys.insert(g) may
    // reallocate the rows and g is read again afterwards (NNC: `g.is_point()' at Polyhedron_public.cc:1469, then inserted a second time).
    if (K<D>::poly && z == a && std::strcmp(op->name, "add_generator(first of z)") == 0 && kf("KF-C13-8")) { c.excluded("KF-C13-8"); zc.reset(new D(at(z))); zp = zc.get(); }
    std::string r0 = guarded([&] { return std::to_string(op->f(at(a), at(y), *zp, arg)); });
    std::string r1 = guarded([&] { return std::to_string(op->f(x1, y1, z1, arg)); });
    c.log << "    -> " << r0 << "\n";
    if (!op->pred) touch(a);
    Val got = read_obj(at(a)), ref = read_val(x1);
    bool same = r0 == r1 && val_equal(got, ref);
    if (!same) {
      const char* k = 0; std::string onm = op->name;
      // KF-C13-3: Pointset_Powerset::BGP99_extrapolation_assign(y, wf, max) pairwise-reduces / collapses *this BEFORE reading y:
      // x.BGP99(x) widens the reduced x with its reduced self (nothing happens), x.BGP99(copy of x) widens with the original disjuncts.
      if (K<D>::ps && y == a && onm == "BGP99_extrapolation_assign") k = "KF-C13-3";
      // KF-C13-4: BD_Shape::simplify_using_context_assign(y): `if (x.contains(y)) { x.m_swap(universe); return !y.marked_empty(); }'
      // reads y after the swap: for an empty x, x.simplify_using_context_assign(x) returns true (copy: false, "the intersection is empty").
      if (K<D>::bds && y == a && onm == "simplify_using_context_assign" && r0 != r1) k = "KF-C13-4";
      // KF-C13-7: Pointset_Powerset::simplify_using_context_assign(y) simplifies the disjuncts of *this in place while iterating over y as
      // the context: with y aliasing *this the context changes under way (later disjuncts are simplified against already enlarged ones).
      if (K<D>::ps && y == a && onm == "simplify_using_context_assign") k = "KF-C13-7";
      if (k && kf(k)) { c.excluded(k); same = true; }
      // Powerset entailment predicates are defined disjunct-wise on the omega-reduced receiver and the RAW argument: an undropped empty
      // disjunct of y changes the answer (tolerated by C09 as well); x.pred(x) reduces both.  Not a matter of aliasing: tagged.
      if (!same && K<D>::ps && op->pred && r0 != r1 && (onm == "contains" || onm == "strictly_contains" || onm == "definitely_entails")) {
        bool has_empty = false; for (size_t i = 0; i < my.ps.size(); ++i) if (ref::is_empty(my.ps[i])) has_empty = true;
        if (has_empty) { c.tag("powerset predicate answer depends on undropped empty disjuncts of the argument"); same = true; } }
    }
    c.check(id(std::string("alias.") + op->name), same, [&] { return "`" + d.str() + "' returned " + r0 + " and left " + show(got) + "; the same call on independent copies returned " + r1 + " and left " + show(ref) + "  (y was " + show(my) + ", z was " + show(mz) + ")"; });
    Val gy = read_val(y1), gz = read_val(z1);
    c.check(id(std::string("arg.") + op->name), val_equal(gy, my) && val_equal(gz, mz), [&] { return "`" + d.str() + "' on independent copies changed a const argument: y " + show(my) + " -> " + show(gy) + ", z " + show(mz) + " -> " + show(gz); });
    c.check(id("OK"), K<D>::prod || (x1.OK() && y1.OK() && z1.OK()), "OK() false on a copy after a binary operation");
    settle(op->pred ? "predicate" : "binop", d.str());
  }
  void step_ternary() {
    static const std::vector<TerOp<D> > ops = make_ter<D>(); if (ops.empty()) { step_query(); return; }
    size_t a = pick(); size_t n = pool[a].m.n; const TerOp<D>& op = ops[(size_t) t.range(0, (long) ops.size() - 1)];
    LE le = small_le(t, n); Linear_Expression e(le.ppl(), t.chance(50) ? DENSE : SPARSE); if (t.chance(50)) e.set_space_dimension(n);
    Arg arg; arg.v = (size_t) t.range(0, (long) n - 1); arg.rel = (int) t.range(0, K<D>::strict ? 4 : 2); arg.den = t.pick(std::vector<long>{1, 1, 2, -1}); arg.mod = t.pick(std::vector<long>{0, 1, 2});
    std::ostringstream d; d << "#" << a << "." << op.name << "  e = " << le.str() << ", v = x" << arg.v << ", rel " << RSN(arg.rel) << ", den " << arg.den << ", mod " << arg.mod; c.tag(nm + " ternary " + op.name); c.log << "  " << d.str() << "\n";
    if (!val_trivial(pool[a].m) && !le.all_zero()) c.nt();
    D x1(at(a)); Linear_Expression ea(e), eb(e); std::ostringstream before; before << e << " dim " << e.space_dimension();
    std::string r0 = guarded([&] { op.f(at(a), e, e, arg); return std::string("ok"); });
    std::string r1 = guarded([&] { op.f(x1, ea, eb, arg); return std::string("ok"); });
    touch(a); Val got = read_obj(at(a)), ref = read_val(x1);
    c.check(id(std::string("alias.") + op.name), r0 == r1 && val_equal(got, ref), [&] { return "`" + d.str() + "' (" + r0 + ") left " + show(got) + "; with two separate copies of the expression (" + r1 + ") " + show(ref); });
    std::ostringstream after; after << e << " dim " << e.space_dimension();
    c.check(id("arg.expression"), before.str() == after.str() && e.OK(), [&] { return "`" + d.str() + "' changed its const expression argument from " + before.str() + " to " + after.str(); });
    settle("ternary", d.str());
  }
  // x.add_recycled_*(donor) == x'.add_*(copy of donor); afterwards the donor is assignable, usable, destructible
  template <typename S, typename FR, typename FA> void recycle(const char* what, size_t a, const S& source, FR fr, FA fa) {
    std::ostringstream d; d << "#" << a << ".add_recycled_" << what; c.log << "  " << d.str() << "\n";
    S donor(source), keep(source); D x1(at(a)); touch(a);
    std::string r0 = guarded([&] { fr(at(a), donor); return std::string("ok"); });
    std::string r1 = guarded([&] { fa(x1, keep); return std::string("ok"); });
    Val got = read_obj(at(a)), ref = read_val(x1);
    c.check(id(std::string("recycle.") + what), r0 == r1 && val_equal(got, ref), [&] { return "`" + d.str() + "' (" + r0 + ") left " + show(got) + "; add_" + what + " of a copy (" + r1 + ") left " + show(ref); });
    donor = keep; c.check(id("recycle.donor.OK"), donor.OK(), "a recycled donor is not OK() after being assigned to");
    D w0(at(a)), w1(at(a)); std::string s0 = guarded([&] { fa(w0, donor); return std::string("ok"); }), s1 = guarded([&] { fa(w1, keep); return std::string("ok"); });
    Val g0 = read_val(w0), g1 = read_val(w1);
    c.check(id("recycle.donor.value"), s0 == s1 && val_equal(g0, g1), [&] { return std::string("a recycled donor of ") + what + " that was assigned a system does not behave as that system: " + show(g0) + " vs " + show(g1); });
    settle("recycle", d.str());
  }
  void step_recycle() {
    if constexpr (K<D>::ps || K<D>::prod) { step_temp(); return; }
    else {
      size_t a = pick(), s = t.chance(50) ? a : partner(a); int what = (int) t.range(0, 2); c.tag(nm + " recycle"); if (pool[s].grp == pool[a].grp && s != a) c.nt();
      if (what == 0) recycle("constraints", a, Constraint_System(at(s).constraints()), [](D& x, Constraint_System& cs) { x.add_recycled_constraints(cs); }, [](D& x, const Constraint_System& cs) { x.add_constraints(cs); });
      else if (what == 1) recycle("congruences", a, Congruence_System(at(s).congruences()), [](D& x, Congruence_System& cs) { x.add_recycled_congruences(cs); }, [](D& x, const Congruence_System& cs) { x.add_congruences(cs); });
      else if constexpr (K<D>::poly) recycle("generators", a, Generator_System(at(s).generators()), [](D& x, Generator_System& gs) { x.add_recycled_generators(gs); }, [](D& x, const Generator_System& gs) { x.add_generators(gs); });
      else if constexpr (K<D>::grid) recycle("grid_generators", a, Grid_Generator_System(at(s).grid_generators()), [](D& x, Grid_Generator_System& gs) { x.add_recycled_grid_generators(gs); }, [](D& x, const Grid_Generator_System& gs) { x.add_grid_generators(gs); });
      else recycle("constraints", a, oct9(pool[s].m) ? Constraint_System(at(s).constraints()) : Constraint_System(at(s).minimized_constraints()), [](D& x, Constraint_System& cs) { x.add_recycled_constraints(cs); }, [](D& x, const Constraint_System& cs) { x.add_constraints(cs); });
    }
  }

  void run() {
    size_t n = (size_t) t.range(1, 3); size_t k = (size_t) t.range(3, 4); c.log << nm << ", " << k << " objects\n"; c.tag(nm);
    for (size_t i = 0; i < k; ++i) { Obj o; size_t ni = t.chance(80) ? n : (size_t) t.range(1, 3); std::ostringstream d; o.d.reset(new D(gen_dom<D>(t, ni, d))); o.grp = next_grp++; c.log << "  #" << i << " dim " << ni << " " << d.str() << "\n"; pool.push_back(std::move(o)); }
    role.assign(k, 1); settle("init", "construction");
    int steps = (int) t.range(4, 14);
    for (int s = 0; s < steps && !t.exhausted(); ++s) {
      switch (t.weighted({9, 9, 8, 5, 17, 8, 26, 7, 5, 6})) {
      case 0: step_copy(); break; case 1: step_assign(); break; case 2: step_swap(); break; case 3: step_self(); break;
      case 4: step_mutate(); break; case 5: step_query(); break; case 6: step_binop(); break; case 7: step_ternary(); break;
      case 8: step_recycle(); break; default: step_temp(); break; }
    }
    // objects are destroyed one by one; the survivors keep their values
    while (pool.size() > 1) { size_t a = pick(); c.log << "  destroy #" << a << " (the others are renumbered)\n"; pool.erase(pool.begin() + a); role.assign(pool.size(), 0); settle("destroy", "destruction of a pool object"); }
  }
};

// ================================================================ value classes (expressions, rows, systems)
// canonical texts built from the public accessors ("<header>:" then data; systems: sorted rows)
static void coefs(std::ostream& o, const Linear_Expression& e) { for (size_t j = 0; j < e.space_dimension(); ++j) o << " " << e.coefficient(Variable(j)); }
template <typename R> static void coefs(std::ostream& o, const R& r) { for (size_t j = 0; j < r.space_dimension(); ++j) o << " " << r.coefficient(Variable(j)); }
static std::string vs(const Linear_Expression& e) { std::ostringstream o; o << "LE dim " << e.space_dimension() << ":"; coefs(o, e); o << " | " << e.inhomogeneous_term(); return o.str(); }
static std::string vs(const Constraint& r) { std::ostringstream o; o << "C dim " << r.space_dimension() << ":"; coefs(o, r); o << " | " << r.inhomogeneous_term() << (r.is_equality() ? " = 0" : r.is_strict_inequality() ? " > 0" : " >= 0"); return o.str(); }
static std::string vs(const Generator& r) { std::ostringstream o; o << "G dim " << r.space_dimension() << ":" << (r.is_line() ? " line" : r.is_ray() ? " ray" : r.is_point() ? " point" : " closure_point"); coefs(o, r); if (r.is_point() || r.is_closure_point()) o << " / " << r.divisor(); return o.str(); }
static std::string vs(const Congruence& r) { std::ostringstream o; o << "CG dim " << r.space_dimension() << ":"; coefs(o, r); o << " | " << r.inhomogeneous_term() << " mod " << r.modulus(); return o.str(); }
static std::string vs(const Grid_Generator& r) { std::ostringstream o; o << "GG dim " << r.space_dimension() << ":" << (r.is_line() ? " line" : r.is_parameter() ? " parameter" : " point"); coefs(o, r); if (!r.is_line()) o << " / " << r.divisor(); return o.str(); }
template <typename S> static std::string vs_sys(const S& s, const char* h) { std::vector<std::string> rows; for (typename S::const_iterator i = s.begin(), e = s.end(); i != e; ++i) rows.push_back(vs(*i)); std::sort(rows.begin(), rows.end());
  std::ostringstream o; o << h << " dim " << s.space_dimension() << ":"; for (size_t i = 0; i < rows.size(); ++i) o << " {" << rows[i] << "}"; return o.str(); }
static std::string vs(const Constraint_System& s) { return vs_sys(s, "CS"); }
static std::string vs(const Generator_System& s) { return vs_sys(s, "GS"); }
static std::string vs(const Congruence_System& s) { return vs_sys(s, "CGS"); }
static std::string vs(const Grid_Generator_System& s) { return vs_sys(s, "GGS"); }
static bool vs_nonzero(const std::string& m) { size_t p = m.find(':'); std::string d = m.substr(p == std::string::npos ? 0 : p); size_t q; while ((q = d.find("dim ")) != std::string::npos) d.erase(q, d.find(':', q) == std::string::npos ? 4 : d.find(':', q) - q); return d.find_first_of("123456789") != std::string::npos; }

struct RArg { long c1 = 1, c2 = 1, m = 0; size_t v = 0, w = 0, k = 0; Representation r = DENSE; };
// roles: 1 f(x), 2 f(x, y), 3 f(x, y, z); the returned text is part of the observation (predicates, derived objects)
template <typename T> struct ROp { const char* name; int roles; bool pred; std::function<std::string(T&, const T&, const T&, const RArg&)> f; };
#define ROP(NM, ROLES, PRED, ...) v.push_back(ROp<T>{NM, ROLES, PRED, [](T& x, const T& y, const T& z, const RArg& a) -> std::string { (void) x; (void) y; (void) z; (void) a; __VA_ARGS__ return ""; }});
static Representation gen_rep(Tape& t) { return t.chance(50) ? DENSE : SPARSE; }
static Generator gen_generator(Tape& t, size_t n, bool first) { LE e(n); for (size_t j = 0; j < n; ++j) e.a[j] = gen_coef(t, false); int k = first ? 2 : (int) t.range(0, 3); if (k < 2 && e.all_zero()) k = 2; Linear_Expression le = e.ppl_dim(n);
  return k == 0 ? line(le) : k == 1 ? ray(le) : k == 2 ? point(le, t.range(1, 3)) : closure_point(le, t.range(1, 3)); }
static Grid_Generator gen_grid_generator(Tape& t, size_t n, bool first) { LE e(n); for (size_t j = 0; j < n; ++j) e.a[j] = gen_coef(t, false); int k = first ? 0 : (int) t.range(0, 2); if (k == 2 && e.all_zero()) k = 0; Linear_Expression le = e.ppl_dim(n);
  return k == 0 ? grid_point(le, t.range(1, 3)) : k == 1 ? parameter(le, t.range(1, 3)) : grid_line(le); }
static Constraint gen_constraint(Tape& t, size_t n) { RCon r; r.e = gen_le(t, n, false); r.kind = (int) t.range(0, 2); return Constraint(to_ppl(r), n, DENSE); }
static Congruence gen_congruence(Tape& t, size_t n) { LE e = gen_le(t, n, false); return (e.ppl_dim(n) %= 0) / Coefficient(t.pick(std::vector<long>{0, 1, 2, 3, 6})); }

template <typename T> struct RT;
// common dimension-manipulating operations of expressions and rows
#define ROW_DIM_OPS(GROW_ONLY) \
  ROP("set_representation", 1, false, x.set_representation(a.r);) \
  ROP("set_space_dimension", 1, false, x.set_space_dimension(GROW_ONLY ? x.space_dimension() + a.k % 3 : a.k);) \
  ROP("swap_space_dimensions", 1, false, if (a.v >= x.space_dimension() || a.w >= x.space_dimension()) return "skip"; x.swap_space_dimensions(Variable(a.v), Variable(a.w));) \
  ROP("shift_space_dimensions", 1, false, if (a.v >= x.space_dimension()) return "skip"; x.shift_space_dimensions(Variable(a.v), a.k % 3);) \
  ROP("permute_space_dimensions", 1, false, if (a.v >= x.space_dimension() || a.w >= x.space_dimension() || a.v == a.w) return "skip"; std::vector<Variable> cy; cy.push_back(Variable(a.v)); cy.push_back(Variable(a.w)); x.permute_space_dimensions(cy);)
template <> struct RT<Linear_Expression> { typedef Linear_Expression T; static const char* name() { return "Linear_Expression"; }
  static T gen(Tape& t, size_t n) { T e(gen_le(t, n).ppl(), gen_rep(t)); if (t.chance(60)) e.set_space_dimension(n); return e; }
  static void ops(std::vector<ROp<T> >& v) {
    ROW_DIM_OPS(false)
    ROP("e *= c", 1, false, x *= Coefficient(a.c1);)
    ROP("e += c", 1, false, x += Coefficient(a.c1);)
    ROP("e -= c", 1, false, x -= Coefficient(a.c1);)
    ROP("e += v", 1, false, x += Variable(a.v);)
    ROP("e -= v", 1, false, x -= Variable(a.v);)
    ROP("neg_assign", 1, false, neg_assign(x);)
    ROP("set_coefficient", 1, false, if (a.v >= x.space_dimension()) return "skip"; x.set_coefficient(Variable(a.v), Coefficient(a.c1));)
    ROP("set_inhomogeneous_term", 1, false, x.set_inhomogeneous_term(Coefficient(a.c2));)
    ROP("remove_space_dimensions", 1, false, if (a.v >= x.space_dimension()) return "skip"; Variables_Set vs_; vs_.insert(Variable(a.v)); x.remove_space_dimensions(vs_);)
    ROP("add_mul_assign(e, c, v)", 1, false, if (a.c1 == 0) return "skip"; add_mul_assign(x, Coefficient(a.c1), Variable(a.v));)
    ROP("sub_mul_assign(e, c, v)", 1, false, if (a.c1 == 0) return "skip"; sub_mul_assign(x, Coefficient(a.c1), Variable(a.v));)
    ROP("x += y", 2, false, x += y;)
    ROP("x -= y", 2, false, x -= y;)
    ROP("add_mul_assign(x, c, y)", 2, false, if (a.c1 == 0) return "skip"; add_mul_assign(x, Coefficient(a.c1), y);)
    ROP("sub_mul_assign(x, c, y)", 2, false, if (a.c1 == 0) return "skip"; sub_mul_assign(x, Coefficient(a.c1), y);)
    ROP("x.linear_combine(y, c1, c2)", 2, false, if (a.c1 == 0 || a.c2 == 0 || x.space_dimension() != y.space_dimension()) return "skip"; x.linear_combine(y, Coefficient(a.c1), Coefficient(a.c2));)
    ROP("x.linear_combine_lax(y, c1, c2)", 2, false, if (x.space_dimension() != y.space_dimension()) return "skip"; x.linear_combine_lax(y, Coefficient(a.c1), Coefficient(a.c2));)
    ROP("x.is_equal_to(y)", 2, true, return x.is_equal_to(y) ? "true" : "false";)
    ROP("compare(x, y)", 2, true, return std::to_string(compare(x, y));)
    ROP("x = -y", 2, false, x = -y;)
    ROP("x = c * y", 2, false, x = Coefficient(a.c1) * y;)
    ROP("x = y + c", 2, false, x = y + Coefficient(a.c2);)
    ROP("x = Linear_Expression(y, r)", 2, false, x = T(y, a.r);)
    ROP("x = y + z", 3, false, x = y + z;)
    ROP("x = y - z", 3, false, x = y - z;)
    ROP("Constraint(y == z)", 3, true, return vs(Constraint(y == z));)
    ROP("Constraint(y >= z)", 3, true, return vs(Constraint(y >= z));)
    ROP("Constraint(y < z)", 3, true, return vs(Constraint(y < z));)
    ROP("Congruence(y %= z)", 3, true, return vs(Congruence(y %= z));)
  } };
template <> struct RT<Constraint> { typedef Constraint T; static const char* name() { return "Constraint"; }
  static T gen(Tape& t, size_t n) { return T(gen_constraint(t, n), gen_rep(t)); }
  static void ops(std::vector<ROp<T> >& v) {
    ROW_DIM_OPS(true)
    ROP("x.is_equivalent_to(y)", 2, true, return x.is_equivalent_to(y) ? "true" : "false";)
    ROP("x.is_equal_to(y)", 2, true, return x.is_equal_to(y) ? "true" : "false";)
    ROP("x = Constraint(y, r)", 2, false, x = T(y, a.r);)
    ROP("x = Constraint(y, dim + k)", 2, false, x = T(y, y.space_dimension() + a.k % 3);)
    ROP("x = (expr(y) >= expr(z))", 3, false, Linear_Expression e1(y.expression()); Linear_Expression e2(z.expression()); x = (e1 >= e2);)
    ROP("queries", 1, true, return std::string(x.is_tautological() ? "T" : "") + (x.is_inconsistent() ? "F" : "") + (x.total_memory_in_bytes() > 0 ? "m" : "");)
  } };
template <> struct RT<Generator> { typedef Generator T; static const char* name() { return "Generator"; }
  static T gen(Tape& t, size_t n) { return T(gen_generator(t, n, false), gen_rep(t)); }
  static void ops(std::vector<ROp<T> >& v) {
    ROW_DIM_OPS(true)
    ROP("x.is_equivalent_to(y)", 2, true, return x.is_equivalent_to(y) ? "true" : "false";)
    ROP("x.is_equal_to(y)", 2, true, return x.is_equal_to(y) ? "true" : "false";)
    ROP("x = Generator(y, r)", 2, false, x = T(y, a.r);)
    ROP("x = Generator(y, dim + k)", 2, false, x = T(y, y.space_dimension() + a.k % 3);)
    ROP("x = point(expr(y) + expr(z))", 3, false, Linear_Expression e1(y.expression()); Linear_Expression e2(z.expression()); x = point(e1 + e2, 2);)
  } };
template <> struct RT<Congruence> { typedef Congruence T; static const char* name() { return "Congruence"; }
  static T gen(Tape& t, size_t n) { return T(gen_congruence(t, n), gen_rep(t)); }
  static void ops(std::vector<ROp<T> >& v) {
    ROP("set_representation", 1, false, x.set_representation(a.r);)
    ROP("permute_space_dimensions", 1, false, if (a.v >= x.space_dimension() || a.w >= x.space_dimension() || a.v == a.w) return "skip"; std::vector<Variable> cy; cy.push_back(Variable(a.v)); cy.push_back(Variable(a.w)); x.permute_space_dimensions(cy);)
    ROP("set_modulus", 1, false, x.set_modulus(Coefficient(a.m));)
    ROP("scale", 1, false, if (a.c1 == 0) return "skip"; x.scale(Coefficient(a.c1 < 0 ? -a.c1 : a.c1));)
    ROP("x /= k", 1, false, x /= Coefficient(a.m);)
    ROP("x == y", 2, true, return std::string(x == y ? "true" : "false") + (x != y ? "!" : "");)
    ROP("x = Congruence(y, r)", 2, false, x = T(y, a.r);)
    ROP("x = y / k", 2, false, x = y / Coefficient(a.m);)
    ROP("x = Congruence(Constraint(y))", 2, false, if (!y.is_equality()) return "skip"; Constraint k(y); x = T(k);)
    ROP("x = (expr(y) %= expr(z)) / m", 3, false, Linear_Expression e1(y.expression()); Linear_Expression e2(z.expression()); x = (e1 %= e2) / Coefficient(a.m);)
    ROP("queries", 1, true, return std::string(x.is_tautological() ? "T" : "") + (x.is_inconsistent() ? "F" : "") + (x.is_proper_congruence() ? "p" : "e");)
  } };
template <> struct RT<Grid_Generator> { typedef Grid_Generator T; static const char* name() { return "Grid_Generator"; }
  static T gen(Tape& t, size_t n) { return T(gen_grid_generator(t, n, false), gen_rep(t)); }
  static void ops(std::vector<ROp<T> >& v) {
    ROW_DIM_OPS(true)
    ROP("scale_to_divisor", 1, false, if (x.is_line() || a.c1 == 0) return "skip"; Coefficient d = x.divisor() * (a.c1 < 0 ? -a.c1 : a.c1); x.scale_to_divisor(d);)
    ROP("x.is_equivalent_to(y)", 2, true, return x.is_equivalent_to(y) ? "true" : "false";)
    ROP("x.is_equal_to(y)", 2, true, return x.is_equal_to(y) ? "true" : "false";)
    ROP("x = Grid_Generator(y, r)", 2, false, x = T(y, a.r);)
    ROP("x = grid_point(expr(y) + expr(z))", 3, false, Linear_Expression e1(y.expression()); Linear_Expression e2(z.expression()); x = grid_point(e1 + e2, 3);)
  } };
// systems: insertion of a row that is a reference INTO a system (possibly the receiver), of whole systems, recycling insertions
#define SYS_OPS(ROWT) \
  ROP("set_representation", 1, false, x.set_representation(a.r);) \
  ROP("clear", 1, false, x.clear();) \
  ROP("x.insert(first row of y)", 2, false, T::const_iterator i = y.begin(); if (i == y.end()) return "skip"; x.insert(*i);) \
  ROP("x.insert(last row of y)", 2, false, T::const_iterator i = y.begin(), l = i; if (i == y.end()) return "skip"; for (; i != y.end(); ++i) l = i; x.insert(*l);) \
  ROP("x.insert(every row of y)", 2, false, T cp(y); for (T::const_iterator i = cp.begin(); i != cp.end(); ++i) x.insert(*i);) \
  ROP("x = System(first row of y)", 2, false, T::const_iterator i = y.begin(); if (i == y.end()) return "skip"; x = T(*i);) \
  ROP("x = System(y, r)", 2, false, x = T(y, a.r);) \
  ROP("row copies outlive x.clear()", 2, false, std::vector<ROWT> rows; for (T::const_iterator i = y.begin(); i != y.end(); ++i) rows.push_back(*i); x.clear(); std::string s; for (size_t i = 0; i < rows.size(); ++i) s += vs(rows[i]) + (rows[i].OK() ? ";" : "!OK;"); return s;)
template <> struct RT<Constraint_System> { typedef Constraint_System T; static const char* name() { return "Constraint_System"; }
  static T gen(Tape& t, size_t n) { T s(gen_rep(t)); int m = (int) t.range(0, 4); for (int i = 0; i < m; ++i) s.insert(gen_constraint(t, n)); return s; }
  static void ops(std::vector<ROp<T> >& v) {
    SYS_OPS(Constraint)
    ROP("set_space_dimension", 1, false, x.set_space_dimension(x.space_dimension() + a.k % 3);)
    ROP("insert(c)", 1, false, Linear_Expression e = a.c1 * Variable(a.v) + a.c2; if (a.m % 2) x.insert(e >= 0); else x.insert(e == 0);)
    ROP("queries", 1, true, return std::string(x.has_equalities() ? "e" : "") + (x.has_strict_inequalities() ? "s" : "") + (x.empty() ? "0" : "");)
  } };
template <> struct RT<Generator_System> { typedef Generator_System T; static const char* name() { return "Generator_System"; }
  static T gen(Tape& t, size_t n) { T s(gen_rep(t)); int m = (int) t.range(0, 4); for (int i = 0; i < m; ++i) s.insert(gen_generator(t, n, i == 0)); return s; }
  static void ops(std::vector<ROp<T> >& v) {
    SYS_OPS(Generator)
    ROP("set_space_dimension", 1, false, x.set_space_dimension(x.space_dimension() + a.k % 3);)
    ROP("insert(g)", 1, false, Linear_Expression e = a.c1 * Variable(a.v); if (a.m % 2 || a.c1 == 0) x.insert(point(e, 2)); else x.insert(ray(e));)
    ROP("insert(g, Recycle_Input)", 2, false, T::const_iterator i = y.begin(); if (i == y.end()) return "skip"; Generator g(*i); x.insert(g, Recycle_Input()); g = *y.begin(); return std::string(vs(g) == vs(*y.begin()) ? "donor reusable" : "donor differs") + (g.OK() ? "" : " !OK");)
  } };
template <> struct RT<Congruence_System> { typedef Congruence_System T; static const char* name() { return "Congruence_System"; }
  static T gen(Tape& t, size_t n) { T s(gen_rep(t)); int m = (int) t.range(0, 4); for (int i = 0; i < m; ++i) s.insert(gen_congruence(t, n)); return s; }
  static void ops(std::vector<ROp<T> >& v) {
    SYS_OPS(Congruence)
    ROP("insert(cg)", 1, false, Linear_Expression e = a.c1 * Variable(a.v) + a.c2; x.insert((e %= 0) / Coefficient(a.m));)
    ROP("insert(constraint)", 1, false, Linear_Expression e = a.c1 * Variable(a.v) + a.c2; x.insert(e == 0);)
    ROP("x.insert(y)", 2, false, x.insert(y);)
    ROP("x.insert(copy of y, Recycle_Input)", 2, false, T donor(y); x.insert(donor, Recycle_Input()); donor = y; return std::string(vs(donor) == vs(y) ? "donor reusable" : "donor differs from the system assigned to it") + (donor.OK() ? "" : " !OK");)
    ROP("x.insert(cg, Recycle_Input)", 2, false, T::const_iterator i = y.begin(); if (i == y.end()) return "skip"; Congruence g(*i); x.insert(g, Recycle_Input()); g = *y.begin(); return std::string(vs(g) == vs(*y.begin()) ? "donor reusable" : "donor differs") + (g.OK() ? "" : " !OK");)
    ROP("x.is_equal_to(y)", 2, true, return x.is_equal_to(y) ? "true" : "false";)
    ROP("queries", 1, true, return std::to_string(x.num_equalities()) + "/" + std::to_string(x.num_proper_congruences()) + (x.has_linear_equalities() ? "e" : "") + (x.empty() ? "0" : "");)
  } };
template <> struct RT<Grid_Generator_System> { typedef Grid_Generator_System T; static const char* name() { return "Grid_Generator_System"; }
  static T gen(Tape& t, size_t n) { T s(gen_rep(t)); int m = (int) t.range(0, 4); for (int i = 0; i < m; ++i) s.insert(gen_grid_generator(t, n, i == 0)); return s; }
  static void ops(std::vector<ROp<T> >& v) {
    SYS_OPS(Grid_Generator)
    ROP("insert(g)", 1, false, Linear_Expression e = a.c1 * Variable(a.v); if (a.m % 2) x.insert(grid_point(e, 2)); else x.insert(parameter(e, 3));)
    ROP("x.insert(copy of y, Recycle_Input)", 2, false, T donor(y); x.insert(donor, Recycle_Input()); donor = y; return std::string(vs(donor) == vs(y) ? "donor reusable" : "donor differs from the system assigned to it") + (donor.OK() ? "" : " !OK");)
    ROP("x.insert(g, Recycle_Input)", 2, false, T::const_iterator i = y.begin(); if (i == y.end()) return "skip"; Grid_Generator g(*i); x.insert(g, Recycle_Input()); g = *y.begin(); return std::string(vs(g) == vs(*y.begin()) ? "donor reusable" : "donor differs") + (g.OK() ? "" : " !OK");)
    ROP("x.is_equal_to(y)", 2, true, return x.is_equal_to(y) ? "true" : "false";)
    ROP("queries", 1, true, return std::to_string(x.num_rows()) + "/" + std::to_string(x.num_parameters()) + "/" + std::to_string(x.num_lines()) + (x.has_points() ? "p" : "");)
  } };

template <typename T> struct RowProg {
  Ctx& c; Tape& t; std::string nm;
  struct Obj { std::unique_ptr<T> d; std::string m; int grp; };
  std::vector<Obj> pool; std::vector<int> role; int next_grp = 0;
  RowProg(Ctx& c_) : c(c_), t(c_.t), nm(RT<T>::name()) {}
  std::string id(const std::string& s) const { return nm + "." + s; }
  T& at(size_t i) { return *pool[i].d; }
  size_t pick() { return (size_t) t.range(0, (long) pool.size() - 1); }
  size_t other(size_t a) { return (a + 1 + (size_t) t.range(0, (long) pool.size() - 2)) % pool.size(); }
  void touch(size_t i) { for (size_t j = 0; j < pool.size(); ++j) if (j != i && pool[j].grp == pool[i].grp) c.nt(); pool[i].grp = next_grp++; role[i] = 1; }
  void transfer(size_t dst, size_t src) { pool[dst].m = pool[src].m; pool[dst].grp = pool[src].grp; role[dst] = 2; }
  void settle(const std::string& kind, const std::string& desc) {
    for (size_t i = 0; i < pool.size(); ++i) {
      std::string got = vs(at(i));
      if (role[i] != 1) c.check(id((role[i] == 2 ? "value." : "frame.") + kind), got == pool[i].m, [&] { return "after `" + desc + "': object #" + std::to_string(i) + (role[i] == 2 ? " should hold the transferred value " : " was not written but changed from ") + pool[i].m + " to " + got; });
      pool[i].m = got; role[i] = 0;
      c.check(id("OK"), at(i).OK(), [&] { return "after `" + desc + "': OK() is false on object #" + std::to_string(i) + " = " + got; });
    }
  }
  template <typename F> std::string guarded(F f) { try { return f(); } catch (vf::PplAssert&) { throw; } catch (vf::Fail&) { throw; } catch (std::exception& e) { return exn_name(e); } }
  void step_op() {
    static const std::vector<ROp<T> > ops = [] { std::vector<ROp<T> > v; RT<T>::ops(v); return v; }();
    const ROp<T>& op = ops[(size_t) t.range(0, (long) ops.size() - 1)]; size_t a = pick(), y = a, z = a;
    if (op.roles == 2) { if (!t.chance(45)) y = z = other(a); }
    else if (op.roles == 3) { int pat = t.weighted({30, 30, 15, 15, 10}); size_t b = other(a); if (pat == 1) y = z = b; else if (pat == 2) z = b; else if (pat == 3) y = b; else if (pat == 4) { y = b; z = other(a); } }
    RArg arg; arg.c1 = t.range(-3, 3); arg.c2 = t.range(-3, 3); arg.m = t.range(0, 4); arg.v = (size_t) t.range(0, 3); arg.w = (size_t) t.range(0, 3); arg.k = (size_t) t.range(0, 5); arg.r = gen_rep(t);
    std::ostringstream d; d << "#" << a << ": " << op.name; if (op.roles >= 2) d << "  with y = #" << y; if (op.roles == 3) d << ", z = #" << z; d << "  [c1 " << arg.c1 << ", c2 " << arg.c2 << ", m " << arg.m << ", v x" << arg.v << ", w x" << arg.w << ", k " << arg.k << ", r " << (arg.r == DENSE ? "DENSE" : "SPARSE") << "]";
    bool aliased = op.roles >= 2 && (y == a || z == a || (op.roles == 3 && y == z)); c.tag(nm + (aliased ? " aliased " : " op ") + op.name); c.log << "  " << d.str() << "\n";
    if (aliased && vs_nonzero(pool[a].m)) c.nt();
    T x1(at(a)), y1(at(y)), z1(at(z)); std::string my = pool[y].m, mz = pool[z].m; bool was_sparse = at(a).representation() == SPARSE; (void) was_sparse;
    std::string r0 = guarded([&] { return op.f(at(a), at(y), at(z), arg); }), r1 = guarded([&] { return op.f(x1, y1, z1, arg); });
    if (!op.pred && r0 != "skip") touch(a);
    std::string got = vs(at(a)), ref = vs(x1);
    bool same = r0 == r1 && got == ref;
    if (!same && std::is_same<T, Linear_Expression>::value && y == a) {
      const char* k = 0; std::string onm = op.name;
      // KF-C13-5: sparse `e -= e' (Sparse_Row::linear_combine(y, 1, -1) with y == *this resets elements of the row it is iterating on as
      // `y'; PPL_ASSERT(this != &y) at Sparse_Row.cc:514): -3A + 4B + C + 3 becomes 4B + C instead of 0.
      // add_mul_assign(e, -1, e) and sub_mul_assign(e, 1, e) take the same path (linear_combine(y, 1, -1)).
      if (was_sparse && (onm == "x -= y" || (onm == "add_mul_assign(x, c, y)" && arg.c1 == -1) || (onm == "sub_mul_assign(x, c, y)" && arg.c1 == 1))) k = "KF-C13-5";
      // KF-C13-6: e.linear_combine(e, c1, c2) / linear_combine_lax (documented "*this = *this * c1 + y * c2") scale *this in place and then
      // read the scaled row as y: the result is c1 * (1 + c2) * e instead of (c1 + c2) * e, in both representations.
      if (onm.compare(0, 16, "x.linear_combine") == 0) k = "KF-C13-6";
      if (k && kf(k)) { c.excluded(k); same = true; }
    }
    c.check(id(std::string("alias.") + op.name), same, [&] { return "`" + d.str() + "' returned `" + r0 + "' and left " + got + "; the same call on independent copies returned `" + r1 + "' and left " + ref + "  (y was " + my + ", z was " + mz + ")"; });
    c.check(id("OK"), x1.OK() && y1.OK() && z1.OK(), [&] { return "`" + d.str() + "' on independent copies: OK() is false afterwards on " + vs(x1) + " / " + vs(y1) + " / " + vs(z1); });
    c.check(id(std::string("arg.") + op.name), vs(y1) == my && vs(z1) == mz, [&] { return "`" + d.str() + "' on independent copies changed a const argument: y " + my + " -> " + vs(y1) + ", z " + mz + " -> " + vs(z1); });
    settle(op.pred ? "predicate" : "op", d.str());
  }
  void run(size_t n) {
    size_t k = (size_t) t.range(3, 4); c.log << nm << ", " << k << " objects\n"; c.tag(nm);
    for (size_t i = 0; i < k; ++i) { Obj o; o.d.reset(new T(RT<T>::gen(t, t.chance(75) ? n : (size_t) t.range(0, 3)))); o.grp = next_grp++; o.m = vs(*o.d); c.log << "  #" << i << " " << o.m << "\n"; pool.push_back(std::move(o)); }
    role.assign(k, 1); settle("init", "construction");
    int steps = (int) t.range(4, 14);
    for (int s = 0; s < steps && !t.exhausted(); ++s) {
      size_t a = pick(), b = other(a); std::string A = "#" + std::to_string(a), B = "#" + std::to_string(b), desc;
      switch (t.weighted({10, 10, 9, 6, 55, 10})) {
      case 0: { bool with_r = t.chance(40); Representation r = gen_rep(t); desc = B + " := new copy of " + A + (with_r ? (r == DENSE ? " (DENSE)" : " (SPARSE)") : ""); c.log << "  " << desc << "\n"; c.tag(nm + " copy-construct");
        pool[b].d.reset(with_r ? new T(at(a), r) : new T(at(a))); transfer(b, a); settle("copy", desc); break; }
      case 1: { desc = B + " = " + A; c.log << "  " << desc << "\n"; c.tag(nm + " assign"); T& r = (at(b) = at(a)); c.check(id("value.assign.returns_self"), &r == &at(b), "operator= does not return *this"); transfer(b, a); settle("assign", desc); break; }
      case 2: { int how = (int) t.range(0, 2); desc = std::string(how == 0 ? "m_swap(" : how == 1 ? "swap(" : "std::swap(") + A + ", " + B + ")"; c.log << "  " << desc << "\n"; c.tag(nm + " swap");
        if (how == 0) at(a).m_swap(at(b)); else if (how == 1) { using std::swap; swap(at(a), at(b)); } else std::swap(at(a), at(b));
        std::swap(pool[a].m, pool[b].m); std::swap(pool[a].grp, pool[b].grp); role[a] = role[b] = 2; settle("swap", desc); break; }
      case 3: { int how = (int) t.range(0, 2); T& x = at(a); T& same = *pool[a].d; desc = std::string(how == 0 ? "self-assignment of " : how == 1 ? "self m_swap of " : "self swap of ") + A; c.log << "  " << desc << "\n"; c.tag(nm + (how == 0 ? " self-assign" : " self-swap"));
        if (how == 0) x = same; else if (how == 1) x.m_swap(same); else { using std::swap; swap(x, same); } role[a] = 2; settle(how == 0 ? "selfassign" : "selfswap", desc); break; }
      case 4: step_op(); break;
      default: { desc = "temporary copy of " + A + " assigned from " + B + " and destroyed"; c.log << "  " << desc << "\n"; c.tag(nm + " temporary"); { T tmp(at(a)); tmp = at(b); c.check(id("temp.value"), vs(tmp) == pool[b].m && tmp.OK(), "a temporary assigned from an object does not hold its value"); } settle("temp", desc); break; }
      }
    }
    while (pool.size() > 1) { size_t a = pick(); pool.erase(pool.begin() + a); role.assign(pool.size(), 0); settle("destroy", "destruction of a pool object"); }
  }
};

// ================================================================ MIP_Problem / PIP_Problem
// Model: plain data (rows, objective, mode, integer / parameter dimensions).  Observations: the data read back through the const
// interface must equal the model's text; solve() on the object (or on a copy) must give the status (MIP: and optimal value) of a
// FRESH problem built from the plain data; a PIP clone solves to the same tree text as its source.
template <typename P> struct SolverProg {
  static constexpr bool mip = std::is_same<P, MIP_Problem>::value;
  Ctx& c; Tape& t; std::string nm;
  struct Model { size_t n = 0; std::vector<RCon> rows; LE obj; bool maxim = true; std::set<size_t> special; std::string text; bool solved = false; int pending = 0; int grp = 0; };
  struct Obj { std::unique_ptr<P> d; Model m; };
  std::vector<Obj> pool; std::vector<int> role; int next_grp = 0;
  SolverProg(Ctx& c_) : c(c_), t(c_.t), nm(mip ? "MIP_Problem" : "PIP_Problem") {}
  std::string id(const std::string& s) const { return nm + "." + s; }
  P& at(size_t i) { return *pool[i].d; }
  size_t pick() { return (size_t) t.range(0, (long) pool.size() - 1); }
  size_t other(size_t a) { return (a + 1 + (size_t) t.range(0, (long) pool.size() - 2)) % pool.size(); }
  static std::string text(const P& p) {
    std::ostringstream o; o << "dim " << p.space_dimension() << "; special {";
    if constexpr (mip) { const Variables_Set& s = p.integer_space_dimensions(); for (Variables_Set::const_iterator i = s.begin(); i != s.end(); ++i) o << " " << *i; o << " }; " << (p.optimization_mode() == MAXIMIZATION ? "max " : "min ") << vs(p.objective_function()); }
    else { const Variables_Set& s = p.parameter_space_dimensions(); for (Variables_Set::const_iterator i = s.begin(); i != s.end(); ++i) o << " " << *i; o << " }"; }
    o << "; rows"; for (typename P::const_iterator i = p.constraints_begin(), e = p.constraints_end(); i != e; ++i) o << " {" << vs(*i) << "}"; return o.str();
  }
  static P fresh(const Model& m) {
    P p(m.n); Variables_Set s; for (std::set<size_t>::const_iterator i = m.special.begin(); i != m.special.end(); ++i) s.insert(Variable(*i));
    if constexpr (mip) { if (!s.empty()) p.add_to_integer_space_dimensions(s); } else { if (!s.empty()) p.add_to_parameter_space_dimensions(s); }
    for (size_t i = 0; i < m.rows.size(); ++i) p.add_constraint(to_ppl(m.rows[i]));
    if constexpr (mip) { p.set_objective_function(m.obj.ppl()); p.set_optimization_mode(m.maxim ? MAXIMIZATION : MINIMIZATION); }
    return p;
  }
  static std::string outcome(const P& p) {
    std::ostringstream o;
    if constexpr (mip) { MIP_Problem_Status s = p.solve(); o << (s == UNFEASIBLE_MIP_PROBLEM ? "UNFEASIBLE" : s == UNBOUNDED_MIP_PROBLEM ? "UNBOUNDED" : "OPTIMIZED"); if (s == OPTIMIZED_MIP_PROBLEM) { Coefficient nu, de; p.optimal_value(nu, de); o << " " << mkq(mpz_class(nu), mpz_class(de)); } }
    else { PIP_Problem_Status s = p.solve(); o << (s == UNFEASIBLE_PIP_PROBLEM ? "UNFEASIBLE" : "OPTIMIZED"); }
    return o.str();
  }
  static std::string tree(const PIP_Problem& p) { std::ostringstream s; const PIP_Tree_Node* r = p.solution(); if (r == 0) s << "_|_"; else r->print(s); return s.str(); }
  RCon gen_row(size_t n) { RCon r; r.e = LE(n); for (size_t j = 0; j < n; ++j) r.e.a[j] = t.chance(35) ? 0 : t.range(-3, 3); r.e.b = t.range(-5, 5); r.kind = t.chance(15) ? 0 : 1; return r; }
  static RCon bound(size_t n, size_t j, long v, bool lower) { RCon r; r.e = LE(n); r.e.a[j] = lower ? 1 : -1; r.e.b = lower ? -v : v; r.kind = 1; return r; }
  void touch(size_t i) { for (size_t j = 0; j < pool.size(); ++j) if (j != i && pool[j].m.grp == pool[i].m.grp) c.nt(); pool[i].m.grp = next_grp++; role[i] = 1; }
  // KF-C06-1 (MIP): never two constraints pending on a solved problem
  void add_row(size_t i, const RCon& r) { Model& m = pool[i].m; if (mip && m.solved && m.pending >= 1) { (void) at(i).is_satisfiable(); m.pending = 0; } at(i).add_constraint(to_ppl(r)); m.rows.push_back(r); if (m.solved) ++m.pending; }
  void settle(const std::string& kind, const std::string& desc) {
    for (size_t i = 0; i < pool.size(); ++i) {
      std::string got = text(at(i));
      if (role[i] != 1) c.check(id((role[i] == 2 ? "value." : "frame.") + kind), got == pool[i].m.text, [&] { return "after `" + desc + "': problem #" + std::to_string(i) + (role[i] == 2 ? " should hold the transferred data " : " was not written but changed from ") + pool[i].m.text + " to " + got; });
      pool[i].m.text = got; c.check(id("OK"), at(i).OK(), [&] { return "after `" + desc + "': OK() is false on problem #" + std::to_string(i); });
      if (t.chance(45)) { bool direct = t.chance(30); std::string lib; if (direct) { lib = outcome(at(i)); pool[i].m.solved = true; pool[i].m.pending = 0; } else { P cp(at(i)); lib = outcome(cp); c.check(id("OK"), cp.OK(), "OK() false on a solved copy"); }
        std::string exp = outcome(fresh(pool[i].m));
        c.check(id((role[i] == 1 ? "solve.mutated." : role[i] == 2 ? "solve.value." : "solve.frame.") + kind), lib == exp, [&] { return "after `" + desc + "': problem #" + std::to_string(i) + (direct ? "" : " (a copy of it)") + " solves to " + lib + ", a fresh problem with the same data " + pool[i].m.text + " to " + exp; });
        c.check(id("frame.solve"), text(at(i)) == got, "solve() changed the data of the problem"); }
      role[i] = 0;
    }
  }
  void run() {
    size_t n = (size_t) t.range(1, 3), k = 3; c.log << nm << " dim " << n << "\n"; c.tag(nm);
    for (size_t i = 0; i < k; ++i) { Obj o; Model& m = o.m; m.n = n; m.grp = next_grp++;
      for (size_t j = 0; j < n; ++j) if (t.chance(mip ? 35 : 30)) m.special.insert(j);
      if (!mip && m.special.size() == n) m.special.erase(0);
      for (size_t j = 0; j < n; ++j) if (mip || !m.special.count(j)) { m.rows.push_back(bound(n, j, mip ? -4 : 0, true)); m.rows.push_back(bound(n, j, mip ? 4 : 5, false)); }
      int r = (int) t.range(0, 3); for (int q = 0; q < r; ++q) m.rows.push_back(gen_row(n));
      m.obj = small_le(t, n); m.maxim = t.chance(50); o.d.reset(new P(fresh(m))); m.text = text(*o.d); c.log << "  #" << i << " " << m.text << "\n"; pool.push_back(std::move(o)); }
    role.assign(k, 1); settle("init", "construction");
    int steps = (int) t.range(4, 12);
    for (int s = 0; s < steps && !t.exhausted(); ++s) {
      size_t a = pick(), b = other(a); std::string A = "#" + std::to_string(a), B = "#" + std::to_string(b); std::ostringstream d;
      switch (t.weighted({10, 10, 10, 6, 25, 8, 14, 7, 10})) {
      case 0: d << B << " := new copy of " << A; c.tag(nm + " copy-construct"); pool[b].d.reset(new P(at(a))); pool[b].m = pool[a].m; role[b] = 2; c.log << "  " << d.str() << "\n"; settle("copy", d.str()); break;
      case 1: d << B << " = " << A; c.tag(nm + " assign"); at(b) = at(a); pool[b].m = pool[a].m; role[b] = 2; c.log << "  " << d.str() << "\n"; settle("assign", d.str()); break;
      case 2: { int how = (int) t.range(0, 1); d << (how ? "swap(" : "m_swap(") << A << ", " << B << ")"; c.tag(nm + " swap"); if (how) { using std::swap; swap(at(a), at(b)); } else at(a).m_swap(at(b)); std::swap(pool[a].m, pool[b].m); role[a] = role[b] = 2; c.log << "  " << d.str() << "\n"; settle("swap", d.str()); break; }
      case 3: { int how = (int) t.range(0, 1); P& x = at(a); P& same = *pool[a].d; d << (how ? "self m_swap of " : "self-assignment of ") << A; c.tag(nm + (how ? " self-swap" : " self-assign")); if (how) x.m_swap(same); else x = same; role[a] = 2; c.log << "  " << d.str() << "\n"; settle(how ? "selfswap" : "selfassign", d.str()); break; }
      case 4: { RCon r = gen_row(pool[a].m.n); d << A << ".add_constraint " << str(r); c.tag(nm + " mutate"); touch(a); add_row(a, r); c.log << "  " << d.str() << "\n"; settle("mutate", d.str()); break; }
      case 5: { if constexpr (mip) { Model& m = pool[a].m; touch(a); if (t.chance(50)) { m.obj = small_le(t, m.n); d << A << ".set_objective_function " << m.obj.str(); at(a).set_objective_function(m.obj.ppl()); } else { m.maxim = !m.maxim; d << A << ".set_optimization_mode " << (m.maxim ? "MAX" : "MIN"); at(a).set_optimization_mode(m.maxim ? MAXIMIZATION : MINIMIZATION); } }
        else { int cp = (int) t.range(0, 2); d << A << ".set_control_parameter cutting " << cp; at(a).set_control_parameter(cp == 0 ? PIP_Problem::CUTTING_STRATEGY_FIRST : cp == 1 ? PIP_Problem::CUTTING_STRATEGY_DEEPEST : PIP_Problem::CUTTING_STRATEGY_ALL); }
        c.tag(nm + " mutate"); c.log << "  " << d.str() << "\n"; settle("mutate", d.str()); break; }
      case 6: { d << A << ".solve() -> "; c.tag(nm + " solve"); const P& k = at(a); std::string lib; P clone(k);
        lib = outcome(k); pool[a].m.solved = true; pool[a].m.pending = 0; d << lib; c.log << "  " << d.str() << "\n"; for (size_t j = 0; j < pool.size(); ++j) if (j != a && pool[j].m.grp == pool[a].m.grp) c.nt();
        if constexpr (!mip) { std::string lc = outcome(clone); c.check(id("clone.solve"), lc == lib && tree(clone) == tree(k), [&] { return "a copy made before solve() solves differently: " + lc + "\n" + tree(clone) + "--- original " + lib + "\n" + tree(k); }); }
        settle("solve", d.str()); break; }
      case 7: { Model& m = pool[a].m; if (m.solved || m.n >= 4) { d << A << ".clear()"; touch(a); at(a).clear(); Model e; e.grp = m.grp; m = e; } else if (t.chance(50)) { d << A << ".add_space_dimensions_and_embed 1"; touch(a); if constexpr (mip) at(a).add_space_dimensions_and_embed(1); else at(a).add_space_dimensions_and_embed(1, 0); m.n += 1; m.obj.a.resize(m.n, 0); for (size_t q = 0; q < m.rows.size(); ++q) m.rows[q].e.a.resize(m.n, 0); add_row(a, bound(m.n, m.n - 1, mip ? -4 : 0, true)); add_row(a, bound(m.n, m.n - 1, mip ? 4 : 5, false)); }
        else { std::vector<size_t> cand; for (size_t j = 0; j < m.n; ++j) if (!m.special.count(j)) cand.push_back(j); if (cand.size() <= (mip ? 0u : 1u)) { d << "(no dimension left to convert)"; } else { size_t j = cand[(size_t) t.range(0, (long) cand.size() - 1)]; Variables_Set s; s.insert(Variable(j)); touch(a); m.special.insert(j);
            if constexpr (mip) { d << A << ".add_to_integer_space_dimensions {" << j << "}"; at(a).add_to_integer_space_dimensions(s); } else { d << A << ".add_to_parameter_space_dimensions {" << j << "}"; at(a).add_to_parameter_space_dimensions(s); } } }
        c.tag(nm + " mutate"); c.log << "  " << d.str() << "\n"; settle("mutate", d.str()); break; }
      default: { RCon r = gen_row(pool[a].m.n); d << "temporary copy of " << A << " gets " << str(r) << ", is solved and destroyed"; c.tag(nm + " temporary"); c.nt(); { P tmp(at(a)); if (mip && pool[a].m.solved && pool[a].m.pending >= 1) (void) tmp.is_satisfiable(); tmp.add_constraint(to_ppl(r)); Model m2 = pool[a].m; m2.rows.push_back(r); std::string lib = outcome(tmp), exp = outcome(fresh(m2)); c.check(id("temp.solve"), lib == exp, [&] { return "a mutated temporary copy solves to " + lib + ", a fresh problem with the same data to " + exp; }); }
        c.log << "  " << d.str() << "\n"; settle("temp", d.str()); break; }
      }
    }
    while (pool.size() > 1) { size_t a = pick(); pool.erase(pool.begin() + a); role.assign(pool.size(), 0); settle("destroy", "destruction of a pool object"); }
  }
};

void vf_case(Ctx& c) {
  Tape& t = c.t;
  switch (t.weighted({10, 10, 9, 6, 4, 6, 7, 10, 8, 8, 36, 5, 5})) {
  case 0: { Prog<C_Polyhedron> p(c); p.run(); break; }
  case 1: { Prog<NNC_Polyhedron> p(c); p.run(); break; }
  case 2: { Prog<Grid> p(c); p.run(); break; }
  case 3: { Prog<BD_Shape<mpq_class> > p(c); p.run(); break; }
  case 4: { Prog<BD_Shape<double> > p(c); p.run(); break; }
  case 5: { Prog<Octagonal_Shape<mpz_class> > p(c); p.run(); break; }
  case 6: { Prog<Rational_Box> p(c); p.run(); break; }
  case 7: { Prog<PSC> p(c); p.run(); break; }
  case 8: { Prog<PSN> p(c); p.run(); break; }
  case 9: { Prog<PROD> p(c); p.run(); break; }
  case 10: { size_t n = (size_t) t.range(0, 4);
    switch (t.weighted({20, 10, 10, 10, 10, 10, 10, 10, 10})) {
    case 0: { RowProg<Linear_Expression> p(c); p.run(n); break; }
    case 1: { RowProg<Constraint> p(c); p.run(n); break; }
    case 2: { RowProg<Generator> p(c); p.run(n); break; }
    case 3: { RowProg<Congruence> p(c); p.run(n); break; }
    case 4: { RowProg<Grid_Generator> p(c); p.run(n); break; }
    case 5: { RowProg<Constraint_System> p(c); p.run(n); break; }
    case 6: { RowProg<Generator_System> p(c); p.run(n); break; }
    case 7: { RowProg<Congruence_System> p(c); p.run(n); break; }
    default: { RowProg<Grid_Generator_System> p(c); p.run(n); break; }
    }
    break; }
  case 11: { SolverProg<MIP_Problem> p(c); p.run(); break; }
  default: { SolverProg<PIP_Problem> p(c); p.run(); break; }
  }
}
VF_MAIN
