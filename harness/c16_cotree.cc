// C16 (a): stateful model test of CO_Tree and Sparse_Row against std::map<dimension_type, mpz_class>.
//
// The model of a row is (size, map of STORED entries): a stored zero is an entry of the map with value 0
// (Sparse_Row::insert / operator[] store zeroes, reset()/combine*/linear_combine drop them).  Reads use the
// value (unstored == 0), iteration uses the stored entries.
//
// One case = a pool of two Sparse_Rows (each with a model) and one raw CO_Tree (with a model) + a sequence of
// operations drawn from the tape.  After EVERY step every object is verified: forward / backward iteration
// equals the model, size()/num_stored_elements(), OK() (Sparse_Row) and CO_Tree::OK()/structure_OK()
// (private: reached through the explicit-instantiation access idiom), sampled get().
//
// Non-trivial rule: the case saw >= 1 change of a tree's reserved size caused by an insertion/erasure
// (rebuild_bigger_tree / rebuild_smaller_tree) on a tree with reserved size >= 31, or used a stale-but-valid
// iterator (obtained >= 1 step earlier, only non-invalidating operations in between) as a hint.
#include "ppl-config.h"
#include "ppl_include_files.hh"
#include "common.hh"

using namespace Parma_Polyhedra_Library;
using namespace vf;

const vf::Info vf_info = { "C16", "c16_cotree", 10.0 };

typedef mpz_class Z;
typedef std::map<dimension_type, Z> Map;

// ---- access to private members (legal: explicit instantiation ignores access)
namespace rob {
template <typename Tag, typename Tag::type M> struct Rob { friend typename Tag::type get(Tag) { return M; } };
struct TreeOK { typedef bool (CO_Tree::*type)() const; friend type get(TreeOK); };
template struct Rob<TreeOK, &CO_Tree::OK>;
struct TreeSOK { typedef bool (CO_Tree::*type)() const; friend type get(TreeSOK); };
template struct Rob<TreeSOK, &CO_Tree::structure_OK>;
struct TreeRes { typedef dimension_type CO_Tree::*type; friend type get(TreeRes); };
template struct Rob<TreeRes, &CO_Tree::reserved_size>;
struct RowTree { typedef CO_Tree Sparse_Row::*type; friend type get(RowTree); };
template struct Rob<RowTree, &Sparse_Row::tree>;
}
static bool tree_ok(const CO_Tree& t) { return (t.*get(rob::TreeOK()))(); }
static bool tree_sok(const CO_Tree& t) { return (t.*get(rob::TreeSOK()))(); }
static dimension_type tree_reserved(const CO_Tree& t) { return t.*get(rob::TreeRes()); }
static const CO_Tree& row_tree(const Sparse_Row& r) { return r.*get(rob::RowTree()); }

static Z zv(Coefficient_traits::const_reference c) { return Z(c); }
static Z getv(const Map& m, dimension_type k) { Map::const_iterator i = m.find(k); return i == m.end() ? Z(0) : i->second; }
static std::string show(const Map& m, size_t lim = 24) {
  std::ostringstream o; o << "{"; size_t n = 0;
  for (Map::const_iterator i = m.begin(); i != m.end() && n < lim; ++i, ++n) o << (n ? ", " : "") << i->first << ":" << i->second;
  if (m.size() > lim) o << ", ... (" << m.size() << " entries)";
  o << "}"; return o.str();
}
template <typename R> static std::string show_row(const R& r, size_t lim = 24) {
  std::ostringstream o; o << "{"; size_t n = 0;
  for (typename R::const_iterator i = r.begin(), e = r.end(); i != e && n < lim; ++i, ++n) o << (n ? ", " : "") << i.index() << ":" << *i;
  o << (n == lim ? ", ...}" : "}"); return o.str();
}

// an input iterator over a model map, as required by CO_Tree(Iterator, n)
struct MapIt {
  Map::const_iterator i; Coefficient cur;
  explicit MapIt(Map::const_iterator i_) : i(i_) {}
  dimension_type index() const { return i->first; }
  Coefficient_traits::const_reference operator*() { cur = Coefficient(i->second); return cur; }
  MapIt& operator++() { ++i; return *this; }
  MapIt operator++(int) { MapIt t = *this; ++i; return t; }
};

struct Row {
  Sparse_Row r; Map m; dimension_type sz;
  Sparse_Row::iterator saved; bool saved_ok; dimension_type saved_key; int saved_age;
  Row() : sz(0), saved_ok(false), saved_key(0), saved_age(0) {}
};

struct Prog {
  Ctx& c; Tape& t;
  Row rows[2];
  CO_Tree T; Map TM; CO_Tree::iterator tsaved; bool tsaved_ok = false; dimension_type tsaved_key = 0; int tsaved_age = 0;
  dimension_type tbound = 64;                // keys of T are drawn below this bound
  std::string op;                            // description of the running step
  int rebuilds = 0, stale_used = 0; size_t max_stored = 0;
  Prog(Ctx& c_) : c(c_), t(c_.t) {}

  // a failing check that is muted (--survey / --mute) ends the case: the state is no longer trustworthy
  void ck(const char* id, bool ok, const std::function<std::string()>& msg) { if (!ok && muted().count(id)) throw Inconclusive(std::string("muted ") + id); c.check(id, ok, [&] { return op + ": " + msg(); }); }
  void ck(const char* id, bool ok, const char* msg) { if (!ok && muted().count(id)) throw Inconclusive(std::string("muted ") + id); c.check(id, ok, [&] { return op + ": " + msg; }); }

  // a rebuild that matters for the non-trivial rule: the reserved size changed and one side is a tree of depth >= 5
  static bool big_change(dimension_type a, dimension_type b) { return a != b && std::max(a, b) >= 31; }
  // ------------------------------------------------------------ generators
  Z val(bool nonzero = false) {
    int w = t.weighted({60, 15, 15, 10}); Z v;
    if (w == 0) v = t.range(-5, 5); else if (w == 1) v = 0; else if (w == 2) v = t.range(-1000, 1000);
    else { v = 1; v <<= 70; v += t.range(0, 9); if (t.chance(50)) v = -v; }
    if (nonzero && v == 0) v = 1;
    return v;
  }
  Z small_nz() { long v = t.range(-3, 3); return Z(v == 0 ? 1 : v); }
  dimension_type nth_key(const Map& m, size_t n) { Map::const_iterator i = m.begin(); std::advance(i, n); return i->first; }
  // a key < bound (bound > 0)
  dimension_type key(const Map& m, dimension_type bound) {
    int w = t.weighted({40, 30, 12, 6, 6, 6}); dimension_type k;
    if ((w == 1 || w == 2 || w == 5) && !m.empty()) {
      k = nth_key(m, t.range(0, (long) m.size() - 1));
      if (w == 2) ++k; else if (w == 5 && k > 0) --k;
    }
    else if (w == 3) k = 0; else if (w == 4) k = bound - 1; else k = t.range(0, (long) bound - 1);
    return k < bound ? k : bound - 1;
  }
  // deterministic key stream for bulk phases (seeded from the tape)
  struct Lcg { uint64_t s; explicit Lcg(uint64_t s_) : s(s_ * 2654435761ULL + 12345) {} uint64_t next() { s = s * 6364136223846793005ULL + 1442695040888963407ULL; return s >> 20; } };

  // ------------------------------------------------------------ verification
  template <typename It> void at(const char* id, const It& it, const It& end, const Map& m, dimension_type k, const char* what) {
    ck(id, it != end && it.index() == k && m.count(k) && zv(*it) == m.find(k)->second, [&] {
      std::ostringstream o; o << what << ": iterator should point at stored entry " << k << ":" << getv(m, k) << " but ";
      if (it == end) o << "is end()"; else o << "points at " << it.index() << ":" << *it; o << "; model " << show(m); return o.str(); });
  }
  // iterator expected at lower_bound(k) of the model
  template <typename It> void at_lb(const char* id, const It& it, const It& end, const Map& m, dimension_type k, const char* what) {
    Map::const_iterator e = m.lower_bound(k);
    if (e == m.end()) ck(id, it == end, [&] { std::ostringstream o; o << what << ": expected end() (no stored key >= " << k << "), got index " << it.index() << "; model " << show(m); return o.str(); });
    else at(id, it, end, m, e->first, what);
  }
  // bisect-style result: the key if stored, else immediate predecessor or successor; end() iff empty
  template <typename It> void at_bisect(const char* id, const It& it, const It& end, const Map& m, dimension_type k, const char* what) {
    if (m.empty()) { ck(id, it == end, [&] { return std::string(what) + ": empty tree must give end()"; }); return; }
    ck(id, it != end, [&] { return std::string(what) + ": end() returned on a non-empty tree"; });
    dimension_type got = it.index();
    bool ok;
    if (m.count(k)) ok = got == k;
    else { Map::const_iterator s = m.lower_bound(k); ok = (s != m.end() && s->first == got); if (s != m.begin()) { --s; ok = ok || s->first == got; } }
    ck(id, ok && m.count(got) && zv(*it) == m.find(got)->second, [&] { std::ostringstream o; o << what << ": searched " << k << ", got " << got << ":" << *it << "; model " << show(m); return o.str(); });
  }

  template <typename R> void same_entries(const char* id, R& r, const Map& m, const char* what) {
    Map::const_iterator j = m.begin(); size_t n = 0;
    typename R::const_iterator i = const_cast<const R&>(r).begin(); const typename R::const_iterator& e = const_cast<const R&>(r).end();
    for (; i != e; ++i, ++j, ++n) {
      ck(id, j != m.end() && i.index() == j->first && zv(*i) == j->second, [&] {
        std::ostringstream o; o << what << ": forward iteration, stored element #" << n << " is " << i.index() << ":" << *i << ", model has ";
        if (j == m.end()) o << "no more entries"; else o << j->first << ":" << j->second; o << "; object " << show_row(r) << " model " << show(m); return o.str(); });
      ck(id, n <= m.size(), "iteration does not terminate");
    }
    ck(id, j == m.end(), [&] { std::ostringstream o; o << what << ": iteration ended after " << n << " elements, model has " << m.size() << "; object " << show_row(r) << " model " << show(m); return o.str(); });
    // backward, with the non-const iterator
    Map::const_reverse_iterator q = m.rbegin();
    typename R::iterator b = r.begin(); typename R::iterator p = r.end(); n = 0;
    while (p != b) { --p; ck("iter.backward", q != m.rend() && p.index() == q->first && zv(*p) == q->second, [&] {
        std::ostringstream o; o << what << ": backward iteration, element #" << n << " from the end is " << p.index() << ":" << *p << "; model " << show(m); return o.str(); });
      ++q; ++n; ck("iter.backward", n <= m.size(), "backward iteration does not terminate"); }
    ck("iter.backward", q == m.rend(), [&] { std::ostringstream o; o << what << ": backward iteration visited " << n << " elements, model has " << m.size(); return o.str(); });
  }

  void verify_row(int idx) {
    Row& o = rows[idx]; std::string w = "row" + std::to_string(idx); const Sparse_Row& r = o.r;
    ck("row.size", r.size() == o.sz, [&] { return w + ".size() = " + std::to_string(r.size()) + ", model " + std::to_string(o.sz); });
    ck("row.num_stored", r.num_stored_elements() == o.m.size(), [&] { return w + ".num_stored_elements() = " + std::to_string(r.num_stored_elements()) + ", model " + std::to_string(o.m.size()) + " " + show(o.m); });
    same_entries("row.iter", o.r, o.m, w.c_str());
    ck("row.OK", r.OK(), [&] { return w + ".OK() is false; model size " + std::to_string(o.sz) + " " + show(o.m); });
    ck("row.tree_structure_OK", tree_sok(row_tree(r)), [&] { return w + ": CO_Tree::structure_OK() is false; model " + show(o.m); });
    ck("row.tree_OK", tree_ok(row_tree(r)), [&] { return w + ": CO_Tree::OK() is false (densities); stored " + std::to_string(o.m.size()) + " reserved " + std::to_string(tree_reserved(row_tree(r))); });
    if (o.sz > 0) {
      for (int s = 0; s < 4; ++s) {
        dimension_type k;
        if (s == 0 || o.m.empty()) k = (dimension_type) (((uint64_t) o.sz * 2654435761ULL + s * 40503u + o.m.size()) % o.sz);
        else { Map::const_iterator i = o.m.begin(); std::advance(i, (s * 7919 + o.m.size() / 2) % o.m.size()); k = i->first + (s == 3 ? 1 : 0); if (k >= o.sz) k = o.sz - 1; }
        ck("row.get", zv(r.get(k)) == getv(o.m, k), [&] { std::ostringstream q; q << w << ".get(" << k << ") = " << r.get(k) << ", model " << getv(o.m, k) << (o.m.count(k) ? " (stored)" : " (unstored)"); return q.str(); });
        ck("row.get", zv(r[k]) == getv(o.m, k), [&] { std::ostringstream q; q << w << " const operator[](" << k << ") = " << r[k] << ", model " << getv(o.m, k); return q.str(); });
      }
    }
    if (o.saved_ok) {   // iterators that the documentation keeps valid must still designate their element
      ck("iter.stale_valid", o.saved != o.r.end() && o.saved.index() == o.saved_key && o.m.count(o.saved_key) && zv(*o.saved) == o.m[o.saved_key],
         [&] { std::ostringstream q; q << w << ": iterator kept across non-invalidating operations should designate " << o.saved_key << ":" << getv(o.m, o.saved_key) << "; model " << show(o.m); return q.str(); });
      ++o.saved_age;
    }
    max_stored = std::max(max_stored, o.m.size());
  }
  void verify_tree() {
    ck("tree.size", T.size() == TM.size() && T.empty() == TM.empty(), [&] { return "T.size() = " + std::to_string(T.size()) + ", model " + std::to_string(TM.size()); });
    same_entries("tree.iter", T, TM, "T");
    ck("tree.structure_OK", tree_sok(T), [&] { return "T.structure_OK() is false; model " + show(TM); });
    ck("tree.OK", tree_ok(T), [&] { return "T.OK() is false (densities); stored " + std::to_string(TM.size()) + " reserved " + std::to_string(tree_reserved(T)); });
    if (tsaved_ok) {
      ck("iter.stale_valid", tsaved != T.end() && tsaved.index() == tsaved_key && TM.count(tsaved_key) && zv(*tsaved) == TM[tsaved_key],
         [&] { std::ostringstream q; q << "T: iterator kept across non-invalidating operations should designate " << tsaved_key << ":" << getv(TM, tsaved_key) << "; model " << show(TM); return q.str(); });
      ++tsaved_age;
    }
    max_stored = std::max(max_stored, TM.size());
  }

  // ------------------------------------------------------------ Sparse_Row steps
  Sparse_Row::iterator row_hint(Row& o, std::string& d) {
    int w = t.weighted({25, 20, 35, 20});
    if (w == 3 && o.saved_ok) { d = "stale hint@" + std::to_string(o.saved_key) + "(age " + std::to_string(o.saved_age) + ")"; if (o.saved_age > 0) { ++stale_used; c.tag("stale hint used (row)"); } return o.saved; }
    if (w == 1) { d = "hint begin()"; return o.r.begin(); }
    if (w == 2 && o.sz > 0) { dimension_type k = key(o.m, o.sz); d = "hint lower_bound(" + std::to_string(k) + ")"; return o.r.lower_bound(k); }
    d = "hint end()"; return o.r.end();
  }
  void shift_model(Map& m, dimension_type from, dimension_type n) { Map m2; for (Map::iterator i = m.begin(); i != m.end(); ++i) m2[i->first < from ? i->first : i->first + n] = i->second; m.swap(m2); }
  void delete_shift_model(Map& m, dimension_type k) { Map m2; for (Map::iterator i = m.begin(); i != m.end(); ++i) { if (i->first < k) m2[i->first] = i->second; else if (i->first > k) m2[i->first - 1] = i->second; } m.swap(m2); }

  // a second operand with the same size as x; it overlaps x's stored keys with probability ~1/2 per entry
  void gen_operand(const Row& x, Sparse_Row& y, Map& my, std::ostringstream& d) {
    y = Sparse_Row(x.sz); my.clear();
    if (x.sz == 0) { d << "y={}"; return; }
    int mode = t.weighted({60, 25, 15});
    if (mode == 1) {        // bulk operand
      long n = t.range(10, 300); Lcg g(t.range(0, 1 << 30)); bool overlap = t.chance(50);
      for (long i = 0; i < n; ++i) { dimension_type k = (overlap && !x.m.empty() && (g.next() & 1)) ? nth_key(x.m, g.next() % x.m.size()) : (dimension_type) (g.next() % x.sz); Z v = (long) (g.next() % 7) - 3; if (v == 0 && (g.next() % 4)) v = 1; my[k] = v; }
      d << "y=bulk(" << my.size() << " entries)";
    }
    else if (mode == 2) { const Row& other = rows[&x == &rows[0] ? 1 : 0]; for (Map::const_iterator i = other.m.begin(); i != other.m.end() && i->first < x.sz; ++i) my[i->first] = i->second; d << "y=other row truncated (" << my.size() << " entries)"; }
    else { int n = (int) t.range(0, 6); for (int i = 0; i < n; ++i) { dimension_type k = key(x.m, x.sz); my[k] = t.chance(12) ? Z(0) : Z(t.range(-3, 3)); } d << "y=" << show(my); }
    if (t.chance(50)) { for (Map::iterator i = my.begin(); i != my.end(); ++i) y.insert(i->first, Coefficient(i->second)); }
    else { Sparse_Row::iterator h = y.end(); for (Map::iterator i = my.begin(); i != my.end(); ++i) h = y.insert(h, i->first, Coefficient(i->second)); }
  }
  // after an operation whose treatment of stored zeroes is unspecified: values must match, every non-zero must be stored,
  // every stored entry must come from one of the operands; then adopt the row's stored-zero set.
  void sync_stored_zeroes(Row& o, const Map& expect_values, const Map& allowed, const char* id) {
    Map now;
    for (Sparse_Row::const_iterator i = const_cast<const Sparse_Row&>(o.r).begin(), e = const_cast<const Sparse_Row&>(o.r).end(); i != e; ++i) {
      ck(id, now.empty() || now.rbegin()->first < i.index(), "iteration keys not increasing");
      now[i.index()] = zv(*i);
      ck(id, now.size() <= allowed.size() + 1, "more stored entries than both operands together");
    }
    for (Map::const_iterator i = expect_values.begin(); i != expect_values.end(); ++i)
      ck(id, getv(now, i->first) == i->second && (i->second == 0 || now.count(i->first)), [&] { std::ostringstream q; q << "entry " << i->first << " is " << getv(now, i->first) << (now.count(i->first) ? "" : " (unstored)") << ", expected " << i->second << "; row " << show(now) << " expected values " << show(expect_values); return q.str(); });
    for (Map::const_iterator i = now.begin(); i != now.end(); ++i)
      ck(id, getv(expect_values, i->first) == i->second && allowed.count(i->first), [&] { std::ostringstream q; q << "row stores " << i->first << ":" << i->second << ", expected value " << getv(expect_values, i->first) << (allowed.count(i->first) ? "" : " (key stored in neither operand)") << "; row " << show(now) << " expected values " << show(expect_values); return q.str(); });
    o.m.swap(now);
  }

  void step_row(int idx) {
    Row& o = rows[idx]; Row& other = rows[1 - idx]; std::ostringstream d; d << "row" << idx << ".";
    bool keep_saved = false;       // the step is documented not to invalidate iterators
    int k = t.weighted({ /*0 insert(i,x)*/ 10, /*1 insert(i)*/ 4, /*2 insert(hint,i,x)*/ 10, /*3 insert(hint,i)*/ 5, /*4 operator[]*/ 5,
                         /*5 reset(i)*/ 6, /*6 reset(it)*/ 4, /*7 reset(range)*/ 4, /*8 reset_after*/ 2, /*9 erase while iterating*/ 3,
                         /*10 delete_element_and_shift*/ 4, /*11 add_zeroes_and_shift*/ 4, /*12 resize*/ 4, /*13 swap_coefficients(i,j)*/ 5,
                         /*14 swap_coefficients(it,it)*/ 2, /*15 fast_swap*/ 3, /*16 find/lower_bound*/ 8, /*17 combine family*/ 7,
                         /*18 linear_combine*/ 7, /*19 ranged linear_combine*/ 7, /*20 normalize*/ 3, /*21 copies/assign/swap*/ 6,
                         /*22 dense interplay*/ 5, /*23 bulk insert*/ 7, /*24 bulk erase*/ 4, /*25 clear*/ 1, /*26 save iterator*/ 5, /*27 ascii*/ 1 });
    if (o.sz == 0 && k != 11 && k != 12 && k != 21 && k != 25) k = 12;
    switch (k) {
    case 0: { dimension_type i = key(o.m, o.sz); Z v = val(); d << "insert(" << i << ", " << v << ")"; op = d.str();
      Sparse_Row::iterator it = o.r.insert(i, Coefficient(v)); o.m[i] = v; at("row.insert.result", it, o.r.end(), o.m, i, "insert(i,x)"); break; }
    case 1: { dimension_type i = key(o.m, o.sz); d << "insert(" << i << ")"; op = d.str();
      Sparse_Row::iterator it = o.r.insert(i); if (!o.m.count(i)) o.m[i] = 0; at("row.insert.result", it, o.r.end(), o.m, i, "insert(i)"); break; }
    case 2: { dimension_type i = key(o.m, o.sz); Z v = val(); std::string hd; Sparse_Row::iterator h = row_hint(o, hd); d << "insert(" << hd << ", " << i << ", " << v << ")"; op = d.str();
      Sparse_Row::iterator it = o.r.insert(h, i, Coefficient(v)); o.m[i] = v; at("row.insert_hint.result", it, o.r.end(), o.m, i, "insert(hint,i,x)"); break; }
    case 3: { dimension_type i = key(o.m, o.sz); std::string hd; Sparse_Row::iterator h = row_hint(o, hd); d << "insert(" << hd << ", " << i << ")"; op = d.str();
      Sparse_Row::iterator it = o.r.insert(h, i); if (!o.m.count(i)) o.m[i] = 0; at("row.insert_hint.result", it, o.r.end(), o.m, i, "insert(hint,i)"); break; }
    case 4: { dimension_type i = key(o.m, o.sz);
      if (t.chance(70)) { Z v = val(); d << "operator[](" << i << ") = " << v; op = d.str(); o.r[i] = Coefficient(v); o.m[i] = v; }
      else { d << "read through non-const operator[](" << i << ")"; op = d.str(); Z got = zv(o.r[i]); ck("row.subscript", got == getv(o.m, i), [&] { std::ostringstream q; q << "got " << got << ", model " << getv(o.m, i); return q.str(); }); if (!o.m.count(i)) o.m[i] = 0; }
      break; }
    case 5: { dimension_type i = key(o.m, o.sz); d << "reset(" << i << ")"; op = d.str(); o.r.reset(i); o.m.erase(i); break; }
    case 6: { if (o.m.empty()) { d << "reset(it): nothing stored"; op = d.str(); keep_saved = true; break; }
      dimension_type i = nth_key(o.m, t.range(0, (long) o.m.size() - 1)); d << "reset(find(" << i << "))"; op = d.str();
      Sparse_Row::iterator it = o.r.find(i); at("row.find", it, o.r.end(), o.m, i, "find"); it = o.r.reset(it); o.m.erase(i);
      at_lb("row.reset.result", it, o.r.end(), o.m, i, "reset(it) result"); break; }
    case 7: { dimension_type a = key(o.m, o.sz), b = t.chance(15) ? o.sz : key(o.m, o.sz); if (a > b) std::swap(a, b); d << "reset(lower_bound(" << a << "), lower_bound(" << b << "))"; op = d.str();
      Sparse_Row::iterator i1 = o.r.lower_bound(a), i2 = o.r.lower_bound(b); Sparse_Row::iterator it = o.r.reset(i1, i2);
      o.m.erase(o.m.lower_bound(a), o.m.lower_bound(b)); at_lb("row.reset_range.result", it, o.r.end(), o.m, b, "reset(first,last) result"); break; }
    case 8: { dimension_type i = key(o.m, o.sz); d << "reset_after(" << i << ")"; op = d.str(); o.r.reset_after(i); o.m.erase(o.m.lower_bound(i), o.m.end()); break; }
    case 9: { long mod = t.range(1, 4), rem = t.range(0, 3) % mod; d << "erase while iterating (rank % " << mod << " == " << rem << ")"; op = d.str();
      Map m2; long rank = 0; Sparse_Row::iterator i = o.r.begin();
      for (Map::iterator j = o.m.begin(); j != o.m.end(); ++j, ++rank) {
        ck("row.erase_iter", i != o.r.end() && i.index() == j->first, [&] { std::ostringstream q; q << "while erasing: iterator at " << (i == o.r.end() ? std::string("end()") : std::to_string(i.index())) << ", model key " << j->first; return q.str(); });
        if (rank % mod == rem) i = o.r.reset(i); else { m2.insert(*j); ++i; } }
      ck("row.erase_iter", i == o.r.end(), "iterator should be end() after the last element"); o.m.swap(m2); break; }
    case 10: { dimension_type i = key(o.m, o.sz); d << "delete_element_and_shift(" << i << ")"; op = d.str(); o.r.delete_element_and_shift(i); delete_shift_model(o.m, i); --o.sz; break; }
    case 11: { dimension_type i = t.chance(15) ? o.sz : (o.sz ? key(o.m, o.sz) : 0); dimension_type n = t.chance(80) ? t.range(0, 5) : t.range(0, 5000); d << "add_zeroes_and_shift(" << n << ", " << i << ")"; op = d.str();
      o.r.add_zeroes_and_shift(n, i); shift_model(o.m, i, n); o.sz += n; keep_saved = true; if (o.saved_ok && o.saved_key >= i) o.saved_key += n; break; }
    case 12: { int w = t.weighted({30, 25, 15, 15, 15}); dimension_type n;
      if (w == 0) n = o.sz + t.range(0, 30); else if (w == 1) n = o.sz ? t.range(0, (long) o.sz) : 0; else if (w == 2) n = t.range(1, 20); else if (w == 3) n = t.range(100, 3000); else n = t.range(100000, 1000000);
      bool viaShrink = n <= o.sz && t.chance(30), viaExpand = n >= o.sz && t.chance(30);
      d << (viaShrink ? "shrink(" : viaExpand ? "expand_within_capacity(" : "resize(") << n << ")"; op = d.str();
      if (viaShrink) o.r.shrink(n); else if (viaExpand) o.r.expand_within_capacity(n); else o.r.resize(n);
      keep_saved = n >= o.sz; o.m.erase(o.m.lower_bound(n), o.m.end()); o.sz = n; break; }
    case 13: { dimension_type i = key(o.m, o.sz), j = key(o.m, o.sz); d << "swap_coefficients(" << i << ", " << j << ")"; op = d.str(); o.r.swap_coefficients(i, j);
      bool hi = o.m.count(i), hj = o.m.count(j); Z vi = getv(o.m, i), vj = getv(o.m, j);
      if (i != j) { if (hj) o.m[i] = vj; else o.m.erase(i); if (hi) o.m[j] = vi; else o.m.erase(j); } break; }
    case 14: { if (o.m.empty()) { d << "swap_coefficients(it,it): nothing stored"; op = d.str(); keep_saved = true; break; }
      dimension_type i = nth_key(o.m, t.range(0, (long) o.m.size() - 1)), j = nth_key(o.m, t.range(0, (long) o.m.size() - 1)); d << "swap_coefficients(find(" << i << "), find(" << j << "))"; op = d.str();
      o.r.swap_coefficients(o.r.find(i), o.r.find(j)); std::swap(o.m[i], o.m[j]); keep_saved = true; break; }
    case 15: { if (o.m.empty()) { d << "fast_swap: nothing stored"; op = d.str(); keep_saved = true; break; }
      // pick a stored element e and a target i <= e with no stored key in [i, e): then lower_bound(i) == find(e)
      size_t n = t.range(0, (long) o.m.size() - 1); dimension_type e = nth_key(o.m, n); dimension_type lo = n == 0 ? 0 : nth_key(o.m, n - 1) + 1;
      dimension_type i = t.chance(20) ? e : (dimension_type) t.range((long) lo, (long) e); d << "fast_swap(" << i << ", find(" << e << "))"; op = d.str();
      Sparse_Row::iterator it = o.r.find(e); at("row.find", it, o.r.end(), o.m, e, "find"); o.r.fast_swap(i, it);
      Z v = o.m[e]; o.m.erase(e); o.m[i] = v; at("row.fast_swap.iter", it, o.r.end(), o.m, i, "iterator after fast_swap");
      keep_saved = true; if (o.saved_ok && o.saved_key == e) o.saved_key = i; break; }
    case 16: { dimension_type i = key(o.m, o.sz); int w = (int) t.range(0, 7); std::string hd; const Sparse_Row& cr = o.r; keep_saved = true;
      switch (w) {
      case 0: { d << "find(" << i << ")"; op = d.str(); Sparse_Row::iterator it = o.r.find(i); if (o.m.count(i)) at("row.find", it, o.r.end(), o.m, i, "find"); else ck("row.find", it == o.r.end(), "find of an unstored index must be end()"); break; }
      case 1: { d << "const find(" << i << ")"; op = d.str(); Sparse_Row::const_iterator it = cr.find(i); if (o.m.count(i)) at("row.find", it, cr.end(), o.m, i, "const find"); else ck("row.find", it == cr.end(), "const find of an unstored index must be end()"); break; }
      case 2: { Sparse_Row::iterator h = row_hint(o, hd); d << "find(" << hd << ", " << i << ")"; op = d.str(); Sparse_Row::iterator it = o.r.find(h, i); if (o.m.count(i)) at("row.find_hint", it, o.r.end(), o.m, i, "find(hint)"); else ck("row.find_hint", it == o.r.end(), "find(hint) of an unstored index must be end()"); break; }
      case 3: { Sparse_Row::const_iterator h = row_hint(o, hd); d << "const find(" << hd << ", " << i << ")"; op = d.str(); Sparse_Row::const_iterator it = cr.find(h, i); if (o.m.count(i)) at("row.find_hint", it, cr.end(), o.m, i, "const find(hint)"); else ck("row.find_hint", it == cr.end(), "const find(hint) of an unstored index must be end()"); break; }
      case 4: { if (t.chance(10)) i = o.sz; d << "lower_bound(" << i << ")"; op = d.str(); at_lb("row.lower_bound", o.r.lower_bound(i), o.r.end(), o.m, i, "lower_bound"); break; }
      case 5: { if (t.chance(10)) i = o.sz; d << "const lower_bound(" << i << ")"; op = d.str(); at_lb("row.lower_bound", cr.lower_bound(i), cr.end(), o.m, i, "const lower_bound"); break; }
      case 6: { if (t.chance(10)) i = o.sz; Sparse_Row::iterator h = row_hint(o, hd); d << "lower_bound(" << hd << ", " << i << ")"; op = d.str(); at_lb("row.lower_bound_hint", o.r.lower_bound(h, i), o.r.end(), o.m, i, "lower_bound(hint)"); break; }
      default: { if (t.chance(10)) i = o.sz; Sparse_Row::const_iterator h = row_hint(o, hd); d << "const lower_bound(" << hd << ", " << i << ")"; op = d.str(); at_lb("row.lower_bound_hint", cr.lower_bound(h, i), cr.end(), o.m, i, "const lower_bound(hint)"); break; }
      }
      break; }
    case 17: { int w = t.weighted({35, 30, 35}); bool self = t.chance(8); Sparse_Row y; Map my;
      long a = t.range(-2, 3), b = t.range(-2, 3);
      if (w == 0) {     // combine_needs_first: x[i] = x[i] * (a*y[i] + b)   [g(0,c2) does nothing; f(c1) = g(c1,0) = c1*b]
        d << "combine_needs_first(x *= " << a << "*y+" << b << ", "; if (self) d << "y=self"; else gen_operand(o, y, my, d); d << ")"; op = d.str();
        auto f = [&](Coefficient& c1) { c1 *= b; };
        auto g = [&](Coefficient& c1, Coefficient_traits::const_reference c2) { Coefficient k2 = a * c2 + b; c1 *= k2; };
        if (self) { o.r.combine_needs_first(o.r, f, g); Map m2; for (Map::iterator i = o.m.begin(); i != o.m.end(); ++i) m2[i->first] = i->second * (a * i->second + b); sync_stored_zeroes(o, m2, o.m, "row.combine_needs_first"); }
        else { o.r.combine_needs_first(y, f, g); Map m2; for (Map::iterator i = o.m.begin(); i != o.m.end(); ++i) { Z v = i->second * (a * getv(my, i->first) + b); if (v != 0) m2[i->first] = v; } o.m.swap(m2); }
      }
      else if (w == 1) { // combine_needs_second: x[i] += a*y[i]   [g(c1,0) does nothing; h == g]
        d << "combine_needs_second(x += " << a << "*y, "; if (self) d << "y=self"; else gen_operand(o, y, my, d); d << ")"; op = d.str();
        auto g = [&](Coefficient& c1, Coefficient_traits::const_reference c2) { Coefficient k2 = a * c2; c1 += k2; };
        if (self) { Sparse_Row cp(o.r); my = o.m; o.r.combine_needs_second(cp, g, g); } else o.r.combine_needs_second(y, g, g);
        for (Map::iterator i = my.begin(); i != my.end(); ++i) { Z v = getv(o.m, i->first) + a * i->second; if (v != 0) o.m[i->first] = v; else o.m.erase(i->first); }
      }
      else {            // combine: x[i] = a*x[i] + b*y[i]
        d << "combine(x = " << a << "*x+" << b << "*y, "; if (self) d << "y=self"; else gen_operand(o, y, my, d); d << ")"; op = d.str();
        auto f = [&](Coefficient& c1) { c1 *= a; };
        auto g = [&](Coefficient& c1, Coefficient_traits::const_reference c2) { Coefficient k2 = b * c2; c1 *= a; c1 += k2; };   // c2 may alias c1 (self-combination)
        auto h = [&](Coefficient& c1, Coefficient_traits::const_reference c2) { c1 = b * c2; };
        if (self) { o.r.combine(o.r, f, g, h); Map m2; for (Map::iterator i = o.m.begin(); i != o.m.end(); ++i) m2[i->first] = (a + b) * i->second; sync_stored_zeroes(o, m2, o.m, "row.combine"); }
        else { o.r.combine(y, f, g, h); Map m2; for (Map::iterator i = o.m.begin(); i != o.m.end(); ++i) m2[i->first] = a * i->second; for (Map::iterator i = my.begin(); i != my.end(); ++i) m2[i->first] += b * i->second;
          for (Map::iterator i = m2.begin(); i != m2.end(); ) { if (i->second == 0) m2.erase(i++); else ++i; } o.m.swap(m2); }
      }
      break; }
    case 18: case 19: { Sparse_Row y; Map my; Z c1 = t.chance(35) ? Z(1) : small_nz(), c2 = t.chance(25) ? Z(1) : t.chance(25) ? Z(-1) : small_nz(); if (t.chance(5)) c2 = val(true);
      dimension_type s = 0, e = o.sz; bool ranged = k == 19;
      if (ranged) { s = t.range(0, (long) o.sz); e = t.range(0, (long) o.sz); if (s > e) std::swap(s, e); if (t.chance(20)) { s = 0; e = o.sz; } }
      d << (t.chance(50) ? "linear_combine(" : "PPL::linear_combine(x, "); bool freefn = d.str().find("PPL::") != std::string::npos;
      gen_operand(o, y, my, d); d << ", " << c1 << ", " << c2; if (ranged) d << ", " << s << ", " << e; d << ")"; op = d.str();
      if (ranged) { if (freefn) linear_combine(o.r, y, Coefficient(c1), Coefficient(c2), s, e); else o.r.linear_combine(y, Coefficient(c1), Coefficient(c2), s, e); }
      else { if (freefn) linear_combine(o.r, y, Coefficient(c1), Coefficient(c2)); else o.r.linear_combine(y, Coefficient(c1), Coefficient(c2)); }
      Map m2 = o.m, allowed = o.m;
      for (Map::iterator i = m2.lower_bound(s); i != m2.end() && i->first < e; ++i) i->second *= c1;
      for (Map::iterator i = my.lower_bound(s); i != my.end() && i->first < e; ++i) { m2[i->first] += c2 * i->second; allowed[i->first]; }
      sync_stored_zeroes(o, m2, allowed, ranged ? "row.linear_combine_range" : "row.linear_combine"); break; }
    case 20: { d << "normalize()"; op = d.str(); o.r.normalize(); Z g = 0; for (Map::iterator i = o.m.begin(); i != o.m.end(); ++i) { Z a = abs(i->second); mpz_gcd(g.get_mpz_t(), g.get_mpz_t(), a.get_mpz_t()); }
      if (g != 0) for (Map::iterator i = o.m.begin(); i != o.m.end(); ++i) i->second /= g; keep_saved = true; break; }
    case 21: { int w = (int) t.range(0, 7);
      switch (w) {
      case 0: { d << "= copy of itself (copy ctor + m_swap)"; op = d.str(); Sparse_Row cp(o.r); ck("row.copy.eq", cp == o.r && !(cp != o.r), "copy differs from the original (operator==)"); o.r.m_swap(cp); break; }
      case 1: { d << "= row" << 1 - idx << " (assignment)"; op = d.str(); o.r = other.r; o.m = other.m; o.sz = other.sz; break; }
      case 2: { d << "m_swap(row" << 1 - idx << ")"; op = d.str(); o.r.m_swap(other.r); o.m.swap(other.m); std::swap(o.sz, other.sz); other.saved_ok = false; break; }
      case 3: { d << "swap(row" << idx << ", row" << 1 - idx << ")"; op = d.str(); swap(o.r, other.r); o.m.swap(other.m); std::swap(o.sz, other.sz); other.saved_ok = false; break; }
      case 4: { dimension_type cap = o.sz + t.range(0, 10); d << "= Sparse_Row(self, capacity " << cap << ")"; op = d.str(); Sparse_Row cp(o.r, cap); o.r.m_swap(cp); break; }
      case 5: { dimension_type n = t.chance(50) ? o.sz + t.range(0, 10) : (dimension_type) t.range(0, (long) o.sz); d << "= Sparse_Row(self, size " << n << ", capacity " << n + 3 << ")"; op = d.str();
        Sparse_Row cp(o.r, n, n + 3); o.r.m_swap(cp); o.m.erase(o.m.lower_bound(n), o.m.end()); o.sz = n; break; }
      case 6: { d << "self-assignment"; op = d.str(); Sparse_Row& alias = o.r; o.r = alias; break; }
      default: { d << "compare with row" << 1 - idx; op = d.str(); bool eq = o.sz == other.sz;
        if (eq) { for (Map::iterator i = o.m.begin(); i != o.m.end() && eq; ++i) eq = i->second == getv(other.m, i->first); for (Map::iterator i = other.m.begin(); i != other.m.end() && eq; ++i) eq = i->second == getv(o.m, i->first); }
        ck("row.eq", (o.r == other.r) == eq && (o.r != other.r) == !eq, [&] { return std::string("operator== gives ") + (o.r == other.r ? "true" : "false") + ", model " + (eq ? "true" : "false") + "; " + show(o.m) + " vs " + show(other.m); });
        keep_saved = true; break; }
      }
      break; }
    case 22: { if (o.sz > 4000) { d << "resize(" << 200 << ") [for the dense interplay]"; op = d.str(); o.r.resize(200); o.m.erase(o.m.lower_bound(200), o.m.end()); o.sz = 200; break; }
      int w = (int) t.range(0, 7);
      Dense_Row dr(o.sz, o.sz + 1); std::vector<Z> dv(o.sz, Z(0));
      auto fill = [&]() { int n = (int) t.range(0, 8); for (int i = 0; i < n && o.sz; ++i) { dimension_type kx = key(o.m, o.sz); dv[kx] = t.range(-3, 3); dr[kx] = Coefficient(dv[kx]); } };
      auto from_dense = [&](Map& m) { m.clear(); for (dimension_type i = 0; i < dv.size(); ++i) if (dv[i] != 0) m[i] = dv[i]; };
      switch (w) {
      case 0: { fill(); d << "= Sparse_Row(Dense_Row)"; op = d.str(); Sparse_Row n(dr); o.r.m_swap(n); from_dense(o.m); break; }
      case 1: { fill(); d << "= Dense_Row (assignment)"; op = d.str(); o.r = dr; from_dense(o.m); break; }
      case 2: { fill(); bool trunc = t.chance(30); dimension_type n = trunc ? (dimension_type) t.range(0, (long) o.sz) : o.sz + t.range(0, 5); d << "= Sparse_Row(Dense_Row, size " << n << ", capacity " << n + 2 << ")"; op = d.str(); Sparse_Row nr(dr, n, n + 2);
        // by analogy with Dense_Row(y, sz, capacity) and Sparse_Row(const Sparse_Row&, sz, capacity): a smaller size truncates (separate check id)
        if (trunc) { ck("row.ctor_dense_truncate", nr.size() == n && nr.OK(), [&] { std::ostringstream q; q << "Sparse_Row(Dense_Row of size " << o.sz << ", sz " << n << ", capacity): size() = " << nr.size() << ", OK() = " << nr.OK() << ", stored " << show_row(nr); return q.str(); }); }
        from_dense(o.m); o.m.erase(o.m.lower_bound(n), o.m.end()); o.sz = n;
        if (trunc && !(nr.size() == n && nr.OK())) { Sparse_Row fixed(n); for (Map::iterator i = o.m.begin(); i != o.m.end(); ++i) fixed.insert(i->first, Coefficient(i->second)); nr.m_swap(fixed); }   // muted finding (survey): continue from a sane row
        o.r.m_swap(nr); break; }
      case 3: { d << "Dense_Row(self) and comparisons"; op = d.str(); Dense_Row dd(o.r); ck("row.to_dense", dd.size() == o.sz, "Dense_Row(Sparse_Row) has a different size");
        for (dimension_type i = 0; i < o.sz; ++i) ck("row.to_dense", zv(dd[i]) == getv(o.m, i), [&] { std::ostringstream q; q << "Dense_Row(Sparse_Row)[" << i << "] = " << dd[i] << ", model " << getv(o.m, i); return q.str(); });
        ck("row.eq_dense", dd == o.r && o.r == dd && !(dd != o.r) && !(o.r != dd), "Dense_Row(Sparse_Row) compares different from its source");
        if (o.sz) { dimension_type kx = key(o.m, o.sz); dd[kx] += 1; ck("row.eq_dense", !(dd == o.r) && (o.r != dd), "operator==(Dense,Sparse) true after changing one coefficient"); }
        keep_saved = true; break; }
      case 4: { fill(); Z c1 = t.chance(35) ? Z(1) : small_nz(), c2 = t.chance(25) ? Z(1) : t.chance(25) ? Z(-1) : small_nz(); bool ranged = t.chance(50); dimension_type s = 0, e = o.sz;
        if (ranged) { s = t.range(0, (long) o.sz); e = t.range(0, (long) o.sz); if (s > e) std::swap(s, e); }
        d << "linear_combine(x, dense y, " << c1 << ", " << c2; if (ranged) d << ", " << s << ", " << e; d << ")"; op = d.str();
        if (ranged) linear_combine(o.r, dr, Coefficient(c1), Coefficient(c2), s, e); else linear_combine(o.r, dr, Coefficient(c1), Coefficient(c2));
        Map m2 = o.m, allowed = o.m; for (Map::iterator i = m2.lower_bound(s); i != m2.end() && i->first < e; ++i) i->second *= c1;
        for (dimension_type i = s; i < e; ++i) if (dv[i] != 0) { m2[i] += c2 * dv[i]; allowed[i]; }
        sync_stored_zeroes(o, m2, allowed, "row.linear_combine_dense"); break; }
      case 5: { fill(); Z c1 = t.chance(35) ? Z(1) : small_nz(), c2 = t.chance(25) ? Z(1) : t.chance(25) ? Z(-1) : small_nz(); bool ranged = t.chance(50); dimension_type s = 0, e = o.sz;
        if (ranged) { s = t.range(0, (long) o.sz); e = t.range(0, (long) o.sz); if (s > e) std::swap(s, e); }
        d << "linear_combine(dense x, sparse self, " << c1 << ", " << c2; if (ranged) d << ", " << s << ", " << e; d << ")"; op = d.str();
        if (ranged) linear_combine(dr, o.r, Coefficient(c1), Coefficient(c2), s, e); else linear_combine(dr, o.r, Coefficient(c1), Coefficient(c2));
        for (dimension_type i = 0; i < o.sz; ++i) { Z ex = (i >= s && i < e) ? dv[i] * c1 + getv(o.m, i) * c2 : dv[i];
          ck("row.linear_combine_into_dense", zv(dr[i]) == ex, [&] { std::ostringstream q; q << "dense x[" << i << "] = " << dr[i] << ", expected " << ex << " (was " << dv[i] << ", sparse y[i] = " << getv(o.m, i) << ")"; return q.str(); }); }
        keep_saved = true; break; }
      case 6: { // assignment onto a LIVE dense row that is shorter / as long / longer than the sparse one, with or without spare capacity
        dimension_type dsz = (dimension_type) t.range(0, (long) o.sz + 6), cap = dsz + (dimension_type) t.range(0, 8);
        Dense_Row dd(dsz, cap); for (dimension_type i = 0; i < dsz; ++i) dd[i] = Coefficient((long) ((i * 7 + 3) % 5) - 2);
        d << "Dense_Row(size " << dsz << ", capacity " << cap << ", non-zero pattern) = self"; op = d.str();
        dd = o.r;
        ck("row.assign_to_dense", dd.size() == o.sz && dd.OK(), [&] { std::ostringstream q; q << "after dense = sparse: size() = " << dd.size() << " (sparse " << o.sz << "), OK() = " << dd.OK(); return q.str(); });
        for (dimension_type i = 0; i < o.sz && i < dd.size(); ++i) ck("row.assign_to_dense", zv(dd[i]) == getv(o.m, i), [&] { std::ostringstream q; q << "after dense = sparse (dense row had size " << dsz << ", capacity " << cap << "): dense[" << i << "] = " << dd[i] << ", sparse row has " << getv(o.m, i); return q.str(); });
        keep_saved = true; break; }
      default: { fill(); d << "swap(self, Dense_Row)"; op = d.str(); if (t.chance(50)) swap(o.r, dr); else swap(dr, o.r);
        ck("row.swap_dense", dr.size() == o.sz, "dense row has the wrong size after swap(Sparse, Dense)");
        for (dimension_type i = 0; i < o.sz && i < dr.size(); ++i) ck("row.swap_dense", zv(dr[i]) == getv(o.m, i), [&] { std::ostringstream q; q << "after swap, dense[" << i << "] = " << dr[i] << ", sparse row had " << getv(o.m, i); return q.str(); });
        from_dense(o.m); break; }
      }
      break; }
    case 23: { long n = t.range(20, 400); int pat = t.weighted({50, 20, 20, 10}); Lcg g(t.range(0, 1 << 30)); bool hinted = t.chance(50);
      d << "bulk insert " << n << (pat == 0 ? " random" : pat == 1 ? " ascending" : pat == 2 ? " descending" : " clustered") << (hinted ? " hinted" : "") << " keys"; op = d.str();
      o.saved_ok = false; dimension_type base = g.next() % o.sz; dimension_type res0 = tree_reserved(row_tree(o.r)); Sparse_Row::iterator h = o.r.end();
      for (long i = 0; i < n; ++i) {
        dimension_type kx = pat == 0 ? g.next() % o.sz : pat == 1 ? (base + i) % o.sz : pat == 2 ? (base + o.sz - (i % o.sz)) % o.sz : (base + g.next() % 64) % o.sz;
        Z v = (long) (g.next() % 9) - 4;
        if (hinted) { h = o.r.insert(h, kx, Coefficient(v)); ck("row.bulk_insert", h != o.r.end() && h.index() == kx && zv(*h) == v, "hinted insert returned a wrong iterator"); }
        else o.r.insert(kx, Coefficient(v));
        o.m[kx] = v;
        if (i % 64 == 63) verify_row(idx);
      }
      if (big_change(res0, tree_reserved(row_tree(o.r)))) { ++rebuilds; c.tag("row rebuilt bigger"); }
      break; }
    case 24: { long pct = t.range(30, 100); Lcg g(t.range(0, 1 << 30)); int how = (int) t.range(0, 2); d << "bulk erase ~" << pct << "% (" << (how == 0 ? "reset(i)" : how == 1 ? "reset(it) while iterating" : "reset(find)") << ")"; op = d.str();
      o.saved_ok = false; dimension_type res0 = tree_reserved(row_tree(o.r)); long cnt = 0;
      if (how == 1) { Map m2; Sparse_Row::iterator i = o.r.begin(); for (Map::iterator j = o.m.begin(); j != o.m.end(); ++j) { if ((long) (g.next() % 100) < pct) i = o.r.reset(i); else { m2.insert(*j); ++i; } } o.m.swap(m2); }
      else { std::vector<dimension_type> ks; for (Map::iterator j = o.m.begin(); j != o.m.end(); ++j) if ((long) (g.next() % 100) < pct) ks.push_back(j->first);
        for (size_t q = ks.size(); q-- > 0; ) { size_t p = g.next() % (q + 1); std::swap(ks[p], ks[q]); if (how == 0) o.r.reset(ks[q]); else o.r.reset(o.r.find(ks[q])); o.m.erase(ks[q]); if (++cnt % 64 == 0) verify_row(idx); } }
      if (big_change(res0, tree_reserved(row_tree(o.r)))) { ++rebuilds; c.tag("row rebuilt smaller"); }
      break; }
    case 25: { d << "clear()"; op = d.str(); o.r.clear(); o.m.clear(); break; }
    case 26: { keep_saved = true; if (o.m.empty()) { d << "save iterator: nothing stored"; op = d.str(); break; }
      dimension_type i = nth_key(o.m, t.range(0, (long) o.m.size() - 1)); d << "save iterator find(" << i << ")"; op = d.str();
      o.saved = o.r.find(i); at("row.find", o.saved, o.r.end(), o.m, i, "find"); o.saved_ok = true; o.saved_key = i; o.saved_age = 0; break; }
    default: { d << "ascii_dump / ascii_load round trip"; op = d.str(); std::stringstream s; o.r.ascii_dump(s); Sparse_Row n; bool ok = n.ascii_load(s); ck("row.ascii", ok, "ascii_load failed on ascii_dump output"); o.r.m_swap(n); break; }
    }
    if (!keep_saved) o.saved_ok = false;
    c.log << "  " << op << "\n";
  }

  // ------------------------------------------------------------ CO_Tree steps
  CO_Tree::iterator tree_hint(std::string& d) {
    int w = t.weighted({25, 20, 35, 20});
    if (w == 3 && tsaved_ok) { d = "stale hint@" + std::to_string(tsaved_key) + "(age " + std::to_string(tsaved_age) + ")"; if (tsaved_age > 0) { ++stale_used; c.tag("stale hint used (tree)"); } return tsaved; }
    if (w == 1) { d = "hint begin()"; return T.begin(); }
    if (w == 2 && !TM.empty()) { dimension_type k = key(TM, tbound); d = "hint bisect(" + std::to_string(k) + ")"; return T.bisect(k); }
    d = "hint end()"; return T.end();
  }
  void step_tree() {
    std::ostringstream d; d << "T."; bool keep = false; dimension_type res0 = tree_reserved(T); bool count_rebuild = true;
    int k = t.weighted({ /*0 insert(k)*/ 6, /*1 insert(k,d)*/ 12, /*2 insert(h,k)*/ 6, /*3 insert(h,k,d)*/ 12, /*4 erase(k)*/ 8, /*5 erase(it)*/ 6, /*6 erase iterating*/ 3,
                         /*7 erase_element_and_shift_left*/ 5, /*8 increase_keys_from*/ 5, /*9 fast_shift*/ 3, /*10 bisect*/ 6, /*11 bisect_in*/ 6, /*12 bisect_near*/ 8,
                         /*13 copy/assign/swap/clear*/ 6, /*14 ctor from sequence*/ 3, /*15 bulk insert*/ 7, /*16 bulk erase*/ 4, /*17 save iterator*/ 5, /*18 rebound*/ 3, /*19 write through iterator*/ 3 });
    switch (k) {
    case 0: { dimension_type i = key(TM, tbound); d << "insert(" << i << ")"; op = d.str(); CO_Tree::iterator it = T.insert(i); if (!TM.count(i)) TM[i] = 0; at("tree.insert.result", it, T.end(), TM, i, "insert(key)"); break; }
    case 1: { dimension_type i = key(TM, tbound); Z v = val(); d << "insert(" << i << ", " << v << ")"; op = d.str(); CO_Tree::iterator it = T.insert(i, Coefficient(v)); TM[i] = v; at("tree.insert.result", it, T.end(), TM, i, "insert(key,data)"); break; }
    case 2: { dimension_type i = key(TM, tbound); std::string hd; CO_Tree::iterator h = tree_hint(hd); d << "insert(" << hd << ", " << i << ")"; op = d.str(); CO_Tree::iterator it = T.insert(h, i); if (!TM.count(i)) TM[i] = 0; at("tree.insert_hint.result", it, T.end(), TM, i, "insert(hint,key)"); break; }
    case 3: { dimension_type i = key(TM, tbound); Z v = val(); std::string hd; CO_Tree::iterator h = tree_hint(hd); d << "insert(" << hd << ", " << i << ", " << v << ")"; op = d.str(); CO_Tree::iterator it = T.insert(h, i, Coefficient(v)); TM[i] = v; at("tree.insert_hint.result", it, T.end(), TM, i, "insert(hint,key,data)"); break; }
    case 4: { dimension_type i = key(TM, tbound); d << "erase(" << i << ")"; op = d.str(); CO_Tree::iterator it = T.erase(i); TM.erase(i); at_lb("tree.erase.result", it, T.end(), TM, i, "erase(key) result"); break; }
    case 5: { if (TM.empty()) { d << "erase(it): empty"; op = d.str(); keep = true; break; } dimension_type i = nth_key(TM, t.range(0, (long) TM.size() - 1)); d << "erase(bisect(" << i << "))"; op = d.str();
      CO_Tree::iterator it = T.bisect(i); at("tree.bisect", it, T.end(), TM, i, "bisect of a stored key"); it = T.erase(it); TM.erase(i); at_lb("tree.erase.result", it, T.end(), TM, i, "erase(it) result"); break; }
    case 6: { long mod = t.range(1, 4), rem = t.range(0, 3) % mod; d << "erase while iterating (rank % " << mod << " == " << rem << ")"; op = d.str(); Map m2; long rank = 0; CO_Tree::iterator i = T.begin();
      for (Map::iterator j = TM.begin(); j != TM.end(); ++j, ++rank) { ck("tree.erase_iter", i != T.end() && i.index() == j->first, [&] { std::ostringstream q; q << "while erasing: iterator at " << (i == T.end() ? std::string("end()") : std::to_string(i.index())) << ", model key " << j->first; return q.str(); });
        if (rank % mod == rem) i = T.erase(i); else { m2.insert(*j); ++i; } }
      ck("tree.erase_iter", i == T.end(), "iterator should be end() after the last element"); TM.swap(m2); break; }
    case 7: { dimension_type i = key(TM, tbound); d << "erase_element_and_shift_left(" << i << ")"; op = d.str(); T.erase_element_and_shift_left(i); delete_shift_model(TM, i); break; }
    case 8: { dimension_type i = key(TM, tbound); dimension_type n = t.chance(80) ? t.range(0, 5) : t.range(0, 100000); d << "increase_keys_from(" << i << ", " << n << ")"; op = d.str(); T.increase_keys_from(i, n); shift_model(TM, i, n);
      keep = true; if (tsaved_ok && tsaved_key >= i) tsaved_key += n; break; }
    case 9: { if (TM.empty()) { d << "fast_shift: empty"; op = d.str(); keep = true; break; } size_t n = t.range(0, (long) TM.size() - 1); dimension_type e = nth_key(TM, n), lo = n == 0 ? 0 : nth_key(TM, n - 1) + 1;
      dimension_type i = t.chance(20) ? e : (dimension_type) t.range((long) lo, (long) e); d << "fast_shift(" << i << ", bisect(" << e << "))"; op = d.str(); CO_Tree::iterator it = T.bisect(e); at("tree.bisect", it, T.end(), TM, e, "bisect of a stored key");
      T.fast_shift(i, it); Z v = TM[e]; TM.erase(e); TM[i] = v; at("tree.fast_shift.iter", it, T.end(), TM, i, "iterator after fast_shift"); keep = true; if (tsaved_ok && tsaved_key == e) tsaved_key = i; break; }
    case 10: { dimension_type i = key(TM, tbound); keep = true; const CO_Tree& cT = T;
      if (!TM.empty() && t.chance(30)) { size_t n = t.range(0, (long) TM.size() - 1); dimension_type e = nth_key(TM, n); d << "iterator algebra at " << e; op = d.str();
        CO_Tree::iterator a = T.bisect(e); at("tree.bisect", a, T.end(), TM, e, "bisect of a stored key"); CO_Tree::iterator b = a; CO_Tree::iterator old = b++; CO_Tree::const_iterator ca = a, cb = ca; CO_Tree::const_iterator cold = cb++;
        ck("tree.iter_algebra", old == a && cold == ca && !(old != a), "post-increment must return the old position");
        Map::const_iterator nx = TM.upper_bound(e);
        if (nx == TM.end()) ck("tree.iter_algebra", b == T.end() && cb == cT.end(), "increment of the last element must give end()"); else { at("tree.iter_algebra", b, T.end(), TM, nx->first, "it++"); at("tree.iter_algebra", cb, cT.end(), TM, nx->first, "const it++"); }
        CO_Tree::iterator b2 = b; CO_Tree::iterator old2 = b2--; CO_Tree::const_iterator cb2 = cb; CO_Tree::const_iterator cold2 = cb2--; ck("tree.iter_algebra", old2 == b && b2 == a && cold2 == cb && cb2 == ca, "post-decrement must undo the increment");
        CO_Tree::iterator x = T.begin(), y = a; swap(x, y); ck("tree.iter_algebra", x == a && y == T.begin(), "swap of iterators"); CO_Tree::const_iterator cx = cT.begin(), cy = ca; cx.m_swap(cy); ck("tree.iter_algebra", cx == ca && cy == cT.begin(), "m_swap of const_iterators");
        CO_Tree::const_iterator z; z = a; ck("tree.iter_algebra", z == ca && z.index() == e, "const_iterator assigned from iterator"); break; }
      if (t.chance(50)) { d << "bisect(" << i << ")"; op = d.str(); at_bisect("tree.bisect", T.bisect(i), T.end(), TM, i, "bisect"); } else { d << "const bisect(" << i << ")"; op = d.str(); at_bisect("tree.bisect", cT.bisect(i), cT.end(), TM, i, "const bisect"); } break; }
    case 11: { keep = true; if (TM.empty()) { d << "bisect_in: empty"; op = d.str(); break; } size_t a = t.range(0, (long) TM.size() - 1), b = t.range(0, (long) TM.size() - 1); if (a > b) std::swap(a, b); dimension_type ka = nth_key(TM, a), kb = nth_key(TM, b);
      dimension_type i = t.chance(70) ? (dimension_type) t.range((long) ka, (long) kb) : key(TM, tbound); bool cst = t.chance(50); d << (cst ? "const " : "") << "bisect_in(@" << ka << ", @" << kb << ", " << i << ")"; op = d.str();
      Map sub(TM.find(ka), ++TM.find(kb)); dimension_type got; Z gv; const CO_Tree& cT = T;
      if (cst) { CO_Tree::const_iterator r = cT.bisect_in(cT.bisect(ka), cT.bisect(kb), i); ck("tree.bisect_in", r != cT.end(), "bisect_in returned end()"); got = r.index(); gv = zv(*r); }
      else { CO_Tree::iterator r = T.bisect_in(T.bisect(ka), T.bisect(kb), i); ck("tree.bisect_in", r != T.end(), "bisect_in returned end()"); got = r.index(); gv = zv(*r); }
      bool ok; if (sub.count(i)) ok = got == i; else { Map::const_iterator s = sub.lower_bound(i); ok = s != sub.end() && s->first == got; if (s != sub.begin()) { --s; ok = ok || s->first == got; } }
      ck("tree.bisect_in", ok && sub.count(got) && sub[got] == gv, [&] { std::ostringstream q; q << "searched " << i << " in [" << ka << "," << kb << "], got " << got << ":" << gv << "; range " << show(sub); return q.str(); }); break; }
    case 12: { keep = true; dimension_type i = key(TM, tbound); std::string hd; CO_Tree::iterator h = tree_hint(hd); const CO_Tree& cT = T;
      if (t.chance(50)) { d << "bisect_near(" << hd << ", " << i << ")"; op = d.str(); at_bisect("tree.bisect_near", T.bisect_near(h, i), T.end(), TM, i, "bisect_near"); }
      else { d << "const bisect_near(" << hd << ", " << i << ")"; op = d.str(); CO_Tree::const_iterator ch = h; at_bisect("tree.bisect_near", cT.bisect_near(ch, i), cT.end(), TM, i, "const bisect_near"); } break; }
    case 13: { int w = (int) t.range(0, 4); count_rebuild = false;
      if (w == 0) { d << "= copy (copy ctor + m_swap)"; op = d.str(); CO_Tree cp(T); T.m_swap(cp); }
      else if (w == 1) { d << "= copy (assignment from a copy)"; op = d.str(); CO_Tree cp(T); CO_Tree e; T = e; ck("tree.assign_empty", T.empty() && T.begin() == T.end(), "assignment from an empty tree leaves elements"); T = cp; }
      else if (w == 2) { d << "swap with an empty tree and back"; op = d.str(); CO_Tree e; swap(T, e); ck("tree.swap", T.empty() && e.size() == TM.size(), "swap did not exchange the sizes"); e.m_swap(T); }
      else if (w == 3) { d << "clear()"; op = d.str(); T.clear(); TM.clear(); }
      else { d << "self-assignment"; op = d.str(); CO_Tree& alias = T; T = alias; }
      break; }
    case 14: { count_rebuild = false; long n = t.chance(70) ? t.range(0, 12) : t.range(13, 300); Lcg g(t.range(0, 1 << 30)); Map m; for (long i = 0; i < n; ++i) m[g.next() % tbound] = (long) (g.next() % 9) - 4;
      d << "= CO_Tree(sequence of " << m.size() << " elements)"; op = d.str(); CO_Tree nt(MapIt(m.begin()), m.size()); T.m_swap(nt); TM.swap(m); break; }
    case 15: { long n = t.range(20, 400); int pat = t.weighted({50, 20, 20, 10}); Lcg g(t.range(0, 1 << 30)); bool hinted = t.chance(50);
      d << "bulk insert " << n << (pat == 0 ? " random" : pat == 1 ? " ascending" : pat == 2 ? " descending" : " clustered") << (hinted ? " hinted" : "") << " keys"; op = d.str(); tsaved_ok = false; dimension_type base = g.next() % tbound; CO_Tree::iterator h = T.end();
      for (long i = 0; i < n; ++i) { dimension_type kx = pat == 0 ? g.next() % tbound : pat == 1 ? (base + i) % tbound : pat == 2 ? (base + tbound - (i % tbound)) % tbound : (base + g.next() % 64) % tbound; Z v = (long) (g.next() % 9) - 4;
        if (hinted) { h = T.insert(h, kx, Coefficient(v)); ck("tree.bulk_insert", h != T.end() && h.index() == kx && zv(*h) == v, "hinted insert returned a wrong iterator"); } else T.insert(kx, Coefficient(v));
        TM[kx] = v; if (i % 64 == 63) verify_tree(); }
      break; }
    case 16: { long pct = t.range(30, 100); Lcg g(t.range(0, 1 << 30)); d << "bulk erase ~" << pct << "%"; op = d.str(); tsaved_ok = false; std::vector<dimension_type> ks; long cnt = 0;
      for (Map::iterator j = TM.begin(); j != TM.end(); ++j) if ((long) (g.next() % 100) < pct) ks.push_back(j->first);
      for (size_t q = ks.size(); q-- > 0; ) { size_t p = g.next() % (q + 1); std::swap(ks[p], ks[q]); T.erase(ks[q]); TM.erase(ks[q]); if (++cnt % 64 == 0) verify_tree(); }
      break; }
    case 17: { keep = true; if (TM.empty()) { d << "save iterator: empty"; op = d.str(); break; } dimension_type i = nth_key(TM, t.range(0, (long) TM.size() - 1)); d << "save iterator bisect(" << i << ")"; op = d.str();
      tsaved = T.bisect(i); at("tree.bisect", tsaved, T.end(), TM, i, "bisect of a stored key"); tsaved_ok = true; tsaved_key = i; tsaved_age = 0; break; }
    case 18: { keep = true; int w = (int) t.range(0, 2); tbound = w == 0 ? 64 : w == 1 ? 3000 : 1000000; d << "(keys now drawn below " << tbound << ")"; op = d.str(); break; }
    default: { keep = true; if (TM.empty()) { d << "write: empty"; op = d.str(); break; } dimension_type i = nth_key(TM, t.range(0, (long) TM.size() - 1)); Z v = val(); d << "*bisect(" << i << ") = " << v; op = d.str(); CO_Tree::iterator it = T.bisect(i); at("tree.bisect", it, T.end(), TM, i, "bisect of a stored key"); *it = Coefficient(v); TM[i] = v; break; }
    }
    if (!keep) tsaved_ok = false;
    if (count_rebuild && big_change(res0, tree_reserved(T))) { ++rebuilds; c.tag(tree_reserved(T) > res0 ? "tree rebuilt bigger" : "tree rebuilt smaller"); }
    c.log << "  " << op << "\n";
  }

  void run() {
    for (int i = 0; i < 2; ++i) { int w = t.weighted({40, 35, 25}); rows[i].sz = w == 0 ? t.range(1, 20) : w == 1 ? t.range(20, 3000) : t.range(100000, 1000000); rows[i].r = Sparse_Row(rows[i].sz); c.log << "row" << i << " = Sparse_Row(" << rows[i].sz << ")\n"; }
    { int w = t.weighted({40, 35, 25}); tbound = w == 0 ? 64 : w == 1 ? 3000 : 1000000; c.log << "T = CO_Tree(), keys below " << tbound << "\n"; }
    op = "initial state"; verify_row(0); verify_row(1); verify_tree();
    int steps = 0;
    while (!t.exhausted() && steps < 200) {
      ++steps; int who = t.weighted({45, 15, 40}); try {
      if (who == 2) { step_tree(); verify_tree(); }
      else { dimension_type r0 = tree_reserved(row_tree(rows[0].r)), r1 = tree_reserved(row_tree(rows[1].r)); bool bulk;
        step_row(who); bulk = op.find("bulk") != std::string::npos; verify_row(0); verify_row(1);
        bool structural = op.find("= ") == std::string::npos && op.find("swap(row") == std::string::npos && op.find("clear") == std::string::npos && op.find("ascii") == std::string::npos;
        if (!bulk && structural && (big_change(r0, tree_reserved(row_tree(rows[0].r))) || big_change(r1, tree_reserved(row_tree(rows[1].r))))) { ++rebuilds; c.tag("row rebuilt (single op)"); } }
      } catch (...) { c.log << "  " << op << "   <-- stopped in or after this step\n"; throw; }
    }
    c.tag(max_stored > 256 ? "max stored > 256" : max_stored > 64 ? "max stored 65..256" : max_stored > 8 ? "max stored 9..64" : "max stored <= 8");
    if (rebuilds > 0 || stale_used > 0) c.nt();
    if (rebuilds > 0) c.tag("case with rebuilds"); if (stale_used > 0) c.tag("case with stale hints");
  }
};

void vf_case(vf::Ctx& c) { Prog p(c); p.run(); }
VF_MAIN
