// C12 (b): interval linear forms (Linear_Form<Interval<float/double, ...>>) and linearization of floating-point
// expressions over the C_Expr target of /repo/tests/Concrete_Expression.
//
//  lf.*   operators on linear forms: for a concrete valuation rho of the variables, ev(f, rho) is the exact
//         (mpq) interval  sum_v coeff_v * rho(v) + inhomogeneous.  Required: ev(f1, rho) (+) ev(f2, rho) included
//         in ev(f1 + f2, rho), same for - , * K, / K, unary -;  relative_error: m * 2^-p * [-1,1] included in
//         ev(relative_error(f), rho) for m = max |ev(f, rho)|;  intervalize: ev(f, rho) included in the result
//         for every rho inside the abstract store.
//  lin.*  linearize(): for a concrete store inside the abstract store and each IEEE rounding mode of the analysed
//         machine, the expression is evaluated with the hardware (float/double, fesetround; the mode PPL needs is
//         saved and restored) and the value, converted exactly to mpq, must be in ev(result, rho).
//         linearize() == false is accepted; a concrete overflow/NaN discards the sample.
// Non-trivial: lin cases with >= 2 operators and a non-point abstract store; lf cases with a non-point coefficient.
#define ANALYZED_FP_FORMAT IEEE754_SINGLE      /* only the default type of Floating_Point_Constant<C_Expr>; overridden per node */
#include "ppl-config.h"
#include "ppl_include_files.hh"
#include "tests/Concrete_Expression/C_Expr_defs.hh"
#include "common.hh"
#include <cfenv>
#include <cmath>
#include <limits>
#include <memory>

using namespace Parma_Polyhedra_Library;
using namespace vf;
typedef mpq_class Q;

const vf::Info vf_info = { "C12", "c12_linform", 2.5 };

// the interval type used by tests/ppl_test.hh for floating point analysis (FP_Interval)
struct Floating_Real_Open_Interval_Info_Policy {
  const_bool_nodef(store_special, false);
  const_bool_nodef(store_open, true);
  const_bool_nodef(cache_empty, true);
  const_bool_nodef(cache_singleton, true);
  const_bool_nodef(cache_normalized, false);
  const_int_nodef(next_bit, 0);
  const_bool_nodef(may_be_empty, true);
  const_bool_nodef(may_contain_infinity, false);
  const_bool_nodef(check_empty_result, false);
  const_bool_nodef(check_inexact, false);
};
typedef Interval_Info_Bitset<unsigned int, Floating_Real_Open_Interval_Info_Policy> Floating_Real_Open_Interval_Info;

// ------------------------------------------------------------------ exact intervals
struct QI { bool empty, lo_inf, hi_inf, lo_open, hi_open; Q lo, hi; QI() : empty(false), lo_inf(false), hi_inf(false), lo_open(false), hi_open(false), lo(0), hi(0) {} };
static QI q_point(const Q& v) { QI r; r.lo = r.hi = v; return r; }
static std::string show(const QI& r) {
  if (r.empty) return "{}"; std::ostringstream o; o << (r.lo_open ? "(" : "[");
  if (r.lo_inf) o << "-inf"; else o << r.lo.get_d(); o << ", "; if (r.hi_inf) o << "+inf"; else o << r.hi.get_d(); o << (r.hi_open ? ")" : "]");
  if (!r.lo_inf && !r.hi_inf) o << " {" << r.lo << ", " << r.hi << "}"; return o.str();
}
static QI q_add(const QI& a, const QI& b) {
  QI r; if (a.empty || b.empty) { r.empty = true; return r; }
  r.lo_inf = a.lo_inf || b.lo_inf; r.hi_inf = a.hi_inf || b.hi_inf;
  if (!r.lo_inf) { r.lo = a.lo + b.lo; r.lo_open = a.lo_open || b.lo_open; } else r.lo_open = true;
  if (!r.hi_inf) { r.hi = a.hi + b.hi; r.hi_open = a.hi_open || b.hi_open; } else r.hi_open = true;
  return r;
}
static QI q_scale(const QI& a, const Q& k) {
  if (a.empty) return a; if (k == 0) return q_point(Q(0));
  QI r;
  if (k > 0) { r.lo_inf = a.lo_inf; r.hi_inf = a.hi_inf; r.lo_open = a.lo_open; r.hi_open = a.hi_open; r.lo = a.lo * k; r.hi = a.hi * k; }
  else { r.lo_inf = a.hi_inf; r.hi_inf = a.lo_inf; r.lo_open = a.hi_open; r.hi_open = a.lo_open; r.lo = a.hi * k; r.hi = a.lo * k; }
  return r;
}
static QI q_neg(const QI& a) { return q_scale(a, Q(-1)); }
static bool q_member(const Q& q, const QI& r) {
  if (r.empty) return false;
  if (!r.lo_inf && (q < r.lo || (q == r.lo && r.lo_open))) return false;
  if (!r.hi_inf && (q > r.hi || (q == r.hi && r.hi_open))) return false;
  return true;
}
static bool q_subset(const QI& e, const QI& r) {
  if (e.empty) return true; if (r.empty) return false;
  bool lo_ok = r.lo_inf || (!e.lo_inf && (r.lo < e.lo || (r.lo == e.lo && (!r.lo_open || e.lo_open))));
  bool hi_ok = r.hi_inf || (!e.hi_inf && (r.hi > e.hi || (r.hi == e.hi && (!r.hi_open || e.hi_open))));
  return lo_ok && hi_ok;
}
// product of two bounded intervals (closed-ness: an end is attained only by attained ends; a zero factor attains 0)
static QI q_mul(const QI& a, const QI& b) {
  QI r; if (a.empty || b.empty) { r.empty = true; return r; }
  if (a.lo_inf || a.hi_inf || b.lo_inf || b.hi_inf) { r.lo_inf = r.hi_inf = r.lo_open = r.hi_open = true; return r; }    // only used as a (sound) over-approximation
  struct C { Q v; bool att; };
  auto mk = [](const Q& x, bool xo, const Q& y, bool yo) { C c; c.v = x * y; c.att = (x == 0 && !xo) || (y == 0 && !yo) || (!xo && !yo && x != 0 && y != 0); if ((x == 0 && xo) && !(y == 0 && !yo)) c.att = false; if ((y == 0 && yo) && !(x == 0 && !xo)) c.att = false; return c; };
  C c[4] = { mk(a.lo, a.lo_open, b.lo, b.lo_open), mk(a.lo, a.lo_open, b.hi, b.hi_open), mk(a.hi, a.hi_open, b.lo, b.lo_open), mk(a.hi, a.hi_open, b.hi, b.hi_open) };
  C mn = c[0], mx = c[0];
  for (int i = 1; i < 4; ++i) { if (c[i].v < mn.v) mn = c[i]; else if (c[i].v == mn.v && c[i].att) mn.att = true; if (c[i].v > mx.v) mx = c[i]; else if (c[i].v == mx.v && c[i].att) mx.att = true; }
  if (q_member(Q(0), a) || q_member(Q(0), b)) { if (mn.v == 0) mn.att = true; if (mx.v == 0) mx.att = true; }
  r.lo = mn.v; r.lo_open = !mn.att; r.hi = mx.v; r.hi_open = !mx.att; return r;
}
static QI q_inv(const QI& b) {     // b bounded, 0 not in the closure of b
  QI r; r.lo = 1 / b.hi; r.lo_open = b.hi_open; r.hi = 1 / b.lo; r.hi_open = b.lo_open; return r;
}
// Variant c12_linform@SKIPKNOWN: the candidate finding of c12_interval "mul-straddle" (Interval::mul_assign with both
// operands straddling zero keeps the open/closed flag of the product it did not select) shows through
// Linear_Form::operator*= and intervalize(); the variant compares those results up to openness of the ends.
static QI known_relax(QI r) {

  return r;
}
static Q two_pow(long e) { mpz_class z(1); if (e >= 0) { z <<= (unsigned long) e; return Q(z); } z <<= (unsigned long) (-e); return Q(mpz_class(1), z); }

static const int FE_MODES[4] = { FE_TONEAREST, FE_UPWARD, FE_DOWNWARD, FE_TOWARDZERO };
static const char* FE_NAMES[4] = { "to-nearest", "upward", "downward", "toward-zero" };

// ------------------------------------------------------------------ runner, parameterised by the analyzer's format A
template <typename A> struct Run {
  typedef Interval<A, Floating_Real_Open_Interval_Info> FPI;
  typedef Linear_Form<FPI> FLF;
  typedef Box<FPI> Store;
  typedef std::map<dimension_type, FLF> LF_Store;
  Ctx& c; Tape& t; std::string an;
  Run(Ctx& c_) : c(c_), t(c_.t), an(sizeof(A) == 4 ? "f" : "d") {}

  static QI model(const FPI& i) {
    QI r; if (i.is_empty()) { r.empty = true; return r; }
    r.lo_inf = i.lower_is_boundary_infinity(); r.hi_inf = i.upper_is_boundary_infinity();
    if (!r.lo_inf) { if (!std::isfinite(i.lower())) throw Fail("lf.bound.finite", "a coefficient has a non-finite lower bound that is not a boundary infinity"); r.lo = Q((double) i.lower()); r.lo_open = i.lower_is_open(); } else r.lo_open = true;
    if (!r.hi_inf) { if (!std::isfinite(i.upper())) throw Fail("lf.bound.finite", "a coefficient has a non-finite upper bound that is not a boundary infinity"); r.hi = Q((double) i.upper()); r.hi_open = i.upper_is_open(); } else r.hi_open = true;
    return r;
  }
  // exact value set of a linear form at a valuation
  static QI ev(const FLF& f, const std::vector<Q>& rho) {
    QI r = model(f.inhomogeneous_term());
    for (dimension_type v = 0; v < f.space_dimension(); ++v) {
      QI cv = model(f.coefficient(Variable(v)));
      Q x = v < rho.size() ? rho[v] : Q(0);
      if (v >= rho.size()) { if (!(q_subset(cv, q_point(Q(0))))) throw Fail("lf.dimension", "result mentions a variable beyond the store"); continue; }
      if (cv.lo_inf || cv.hi_inf) { if (x == 0) continue; QI u; u.lo_inf = u.hi_inf = u.lo_open = u.hi_open = true; r = q_add(r, u); continue; }   // conservative
      r = q_add(r, q_scale(cv, x));
    }
    return r;
  }
  static std::string show_lf(const FLF& f) {
    std::ostringstream o; bool first = true;
    for (dimension_type v = 0; v < f.space_dimension(); ++v) { QI cv = model(f.coefficient(Variable(v))); if (!cv.lo_inf && !cv.hi_inf && cv.lo == 0 && cv.hi == 0) continue; o << (first ? "" : " + ") << show(cv) << "*x" << v; first = false; }
    o << (first ? "" : " + ") << show(model(f.inhomogeneous_term())); return o.str();
  }

  // ---- values of the analyzer's format
  A gen_val(int cls) {
    const int P = std::numeric_limits<A>::digits;
    switch (cls) {
    case 0: return (A) t.range(-6, 6);
    case 1: return std::ldexp((A) t.range(-64, 64), (int) -t.range(0, 6));
    case 2: { A m = (A) t.range(1, (1L << 23)); m = std::ldexp(m, (int) t.range(-40, 10)); if (P > 24) m += std::ldexp((A) t.range(0, 1023), (int) t.range(-60, -30)); return t.chance(50) ? m : -m; }
    case 3: return std::ldexp((A) t.range(-1000, 1000), (int) t.range(20, 60));           // large
    default: return std::ldexp((A) t.range(-1000, 1000), (int) -t.range(20, 90));         // small
    }
  }
  FPI gen_itv(bool allow_wide, bool nonzero = false) {
    int cls = (int) t.weighted({5, 4, 3, 1, 1});
    A a = gen_val(cls), b = a; int k = (int) t.weighted({4, 3, 3, 2});
    if (k == 1) b = gen_val(cls); else if (k == 2) b = std::nextafter(a, std::numeric_limits<A>::infinity()); else if (k == 3 && allow_wide) b = gen_val((int) t.range(0, 4));
    if (Q((double) b) < Q((double) a)) std::swap(a, b);
    if (nonzero) { if (a <= 0 && b >= 0) { if (b == 0 && a == 0) { a = b = 1; } else if (b > 0) a = (a == b ? b : std::ldexp(b, -3)); else b = std::ldexp(a, -3); } }
    bool lo_open = a != b && t.chance(15), hi_open = a != b && t.chance(15);
    FPI i; i.build(i_constraint(lo_open ? GREATER_THAN : GREATER_OR_EQUAL, a), i_constraint(hi_open ? LESS_THAN : LESS_OR_EQUAL, b));
    return i;
  }
  FLF gen_lf(size_t n, bool& nonpoint) {
    FLF f(gen_itv(true)); if (!f.inhomogeneous_term().is_singleton()) nonpoint = true;
    for (size_t v = 0; v < n; ++v) if (t.chance(70)) { FPI k = gen_itv(false); if (!k.is_singleton()) nonpoint = true; FLF x = FLF(Variable(v)); x *= k; f += x; }
    return f;
  }

  struct Orc : public FP_Oracle<C_Expr, FPI> {
    Store store; std::map<const void*, FPI> consts;
    Orc() : store(0) {}
    bool get_interval(dimension_type dim, FPI& result) const { result = store.get_interval(Variable(dim)); return true; }
    bool get_fp_constant_value(const Floating_Point_Constant<C_Expr>& expr, FPI& result) const { result = FPI((const char*) expr.value); return true; }
    bool get_integer_expr_value(const Concrete_Expression<C_Expr>& expr, FPI& result) const {
      if (expr.kind() == INT_CON) result = FPI(reinterpret_cast<const Integer_Constant<C_Expr>*>(&expr)->value);
      else result = FPI(reinterpret_cast<const Approximable_Reference<C_Expr>*>(&expr)->value);
      return true;
    }
    bool get_associated_dimensions(const Approximable_Reference<C_Expr>& expr, std::set<dimension_type>& result) const { result = expr.dimensions; return true; }
  };

  // ---------------------------------------------------------------- linear form operators
  void lf_ops() {
    size_t n = (size_t) t.range(1, 3); bool nonpoint = false;
    FLF f1 = gen_lf(n, nonpoint), f2 = gen_lf(n, nonpoint);
    c.log << "f1 = " << show_lf(f1) << "\nf2 = " << show_lf(f2) << "\n";
    // valuations and an abstract store around them
    Orc orc; orc.store = Store(n);
    std::vector<std::vector<Q> > rhos(3, std::vector<Q>(n));
    for (size_t v = 0; v < n; ++v) { FPI iv = gen_itv(true); while (iv.is_empty()) iv = gen_itv(true); orc.store.set_interval(Variable(v), iv); QI m = model(iv);
      Q mid = (m.lo + m.hi) / 2; rhos[0][v] = m.lo_open ? mid : m.lo; rhos[1][v] = m.hi_open ? mid : m.hi; { Q fr(t.range(0, 8), 8); fr.canonicalize(); rhos[2][v] = m.lo + (m.hi - m.lo) * fr; } if (!q_member(rhos[2][v], m)) rhos[2][v] = mid;
      c.log << "x" << v << " in " << show(m) << "\n"; }
    int op = (int) t.range(0, 11); FLF r; QI K; bool have_k = false; FPI k; std::string ops;
    if (op >= 4 && op <= 9) { k = gen_itv(false, op == 5); K = model(k); have_k = true; c.log << "K = " << show(K) << "\n"; if (!k.is_singleton()) nonpoint = true; }
    switch (op) {
    case 0: ops = "add"; if (t.chance(50)) r = f1 + f2; else { r = f1; r += f2; } break;
    case 1: ops = "sub"; if (t.chance(50)) r = f1 - f2; else { r = f1; r -= f2; } break;
    case 2: ops = "neg"; if (t.chance(50)) r = -f1; else { r = f1; r.negate(); } break;
    case 3: ops = "addvar"; { Variable w((dimension_type) t.range(0, (long) n - 1)); int how = (int) t.range(0, 3); if (how == 0) r = f1 + w; else if (how == 1) r = w + f1; else if (how == 2) { r = f1; r += w; } else { r = f1; r -= w; ops = "subvar"; }
        f2 = FLF(w); } break;
    case 4: ops = "mulk"; { int how = (int) t.range(0, 2); if (how == 0) r = f1 * k; else if (how == 1) r = k * f1; else { r = f1; r *= k; } } break;
    case 5: ops = "divk"; r = f1; r /= k; break;
    case 6: ops = "addk"; { int how = (int) t.range(0, 2); if (how == 0) r = f1 + k; else if (how == 1) r = k + f1; else { r = f1; r += k; } } break;
    // note: operator-(const Linear_Form<C>&, const C&) does not compile for interval C (it evaluates "-n", Linear_Form_inlines.hh:158)
    case 7: ops = "subk"; r = f1; r -= k; break;
    case 8: ops = "ksub"; r = k - f1; break;
    case 9: ops = "relerr"; have_k = false; break;
    case 10: ops = "relerr"; break;
    default: ops = "intervalize"; break;
    }
    c.tag(an + " lf " + ops); if (nonpoint) c.nt();
    if (ops == "relerr") {
      Floating_Point_Format fmt = t.chance(50) ? IEEE754_SINGLE : IEEE754_DOUBLE; long p = fmt == IEEE754_SINGLE ? 23 : 52;
      if (sizeof(A) == 4 && fmt == IEEE754_DOUBLE) fmt = IEEE754_SINGLE, p = 23;
      f1.relative_error(fmt, r); c.log << "relative_error = " << show_lf(r) << "\n";
      for (auto& rho : rhos) { QI e = ev(f1, rho), g = ev(r, rho); if (e.lo_inf || e.hi_inf) continue; Q m = abs(e.lo) > abs(e.hi) ? abs(e.lo) : abs(e.hi); QI need; need.lo = -m * two_pow(-p); need.hi = m * two_pow(-p);
        // the extreme |value| is attained iff that end is attained; requiring the closed interval is harmless only if attained
        bool att = (abs(e.lo) >= abs(e.hi) && !e.lo_open) || (abs(e.hi) >= abs(e.lo) && !e.hi_open); if (!att) { need.lo_open = need.hi_open = true; }
        c.check("lf.relerr.encl", q_subset(need, g), [&] { return "relative_error: |f(rho)| reaches " + show(e) + ", so an error of " + show(need) + " is possible, but the error form evaluates to " + show(g); }); }
      return;
    }
    if (ops == "intervalize") {
      FPI res; bool ok = f1.intervalize(orc, res); if (!ok) { c.tag("intervalize false"); return; }
      QI R = known_relax(model(res)); c.log << "intervalize = " << show(R) << "\n";
      for (auto& rho : rhos) { QI e = ev(f1, rho); c.check("lf.intervalize.encl", q_subset(e, R), [&] { return "intervalize: f evaluates to " + show(e) + " at a valuation inside the store, result " + show(R); }); }
      return;
    }
    c.log << ops << " = " << show_lf(r) << "\n";
    c.check("lf." + ops + ".ok", r.OK(), "result fails OK()");
    for (auto& rho : rhos) {
      QI e1 = ev(f1, rho), e2 = ev(f2, rho), g = ev(r, rho), e; if (ops == "mulk") g = known_relax(g);
      if (ops == "add" || ops == "addvar") e = q_add(e1, e2); else if (ops == "sub" || ops == "subvar") e = q_add(e1, q_neg(e2)); else if (ops == "neg") e = q_neg(e1);
      else if (ops == "mulk") e = q_mul(e1, K); else if (ops == "divk") { if (K.empty || e1.lo_inf || e1.hi_inf) continue; e = q_mul(e1, q_inv(K)); }
      else if (ops == "addk") e = q_add(e1, K); else if (ops == "subk") e = q_add(e1, q_neg(K)); else e = q_add(K, q_neg(e1));
      if (e.lo_inf || e.hi_inf) { if ((ops == "mulk") && (e1.lo_inf || e1.hi_inf)) continue; }
      (void) have_k;
      c.check("lf." + ops + ".encl", q_subset(e, g), [&] { return ops + ": operands evaluate to " + show(e1) + (ops == "neg" ? "" : " and " + (have_k ? show(K) : show(e2))) + ", exact result " + show(e) + " is not included in the evaluation of the result " + show(g); });
    }
  }

  // ---------------------------------------------------------------- linearization
  struct Node {
    int kind;                       // 0 fp constant, 1 variable, 2 binary, 3 unary minus, 4 cast of fp, 5 cast of integer constant/reference, 6 multi-dimension reference
    Floating_Point_Format fmt; int op; Node* l; Node* r; double cval; int var, var2; long ival; const Concrete_Expression<C_Expr>* ce;
    Node() : kind(0), fmt(IEEE754_SINGLE), op(0), l(0), r(0), cval(0), var(0), var2(0), ival(0), ce(0) {}
  };
  std::vector<std::unique_ptr<Node> > nodes;
  std::vector<std::unique_ptr<Binary_Operator<C_Expr> > > bops; std::vector<std::unique_ptr<Unary_Operator<C_Expr> > > uops; std::vector<std::unique_ptr<Cast_Operator<C_Expr> > > casts;
  std::vector<std::unique_ptr<Integer_Constant<C_Expr> > > icons; std::vector<std::unique_ptr<Floating_Point_Constant<C_Expr> > > fcons; std::vector<std::unique_ptr<Approximable_Reference<C_Expr> > > refs;
  std::vector<Floating_Point_Format> var_fmt; int n_ops = 0; std::set<int> used_vars;
  Floating_Point_Format base_fmt;

  static Concrete_Expression_Type fpt(Floating_Point_Format f) { return Concrete_Expression_Type::floating_point(f); }
  Node* mknode() { nodes.emplace_back(new Node()); return nodes.back().get(); }
  static const char* fname(Floating_Point_Format f) { return f == IEEE754_SINGLE ? "float" : "double"; }

  Node* gen_expr(int depth, Floating_Point_Format fmt, std::ostream& os) {
    Node* nd = mknode(); nd->fmt = fmt;
    int kind = depth <= 0 ? (int) t.weighted({3, 6, 0, 0, 0, 1, 1}) : (int) t.weighted({1, 2, 12, 1, 2, 1, 0});
    std::vector<int> vs; for (size_t v = 0; v < var_fmt.size(); ++v) if (var_fmt[v] == fmt) vs.push_back((int) v);
    if ((kind == 1 || kind == 6) && vs.empty()) kind = 0;
    if (kind == 6 && vs.size() < 2) kind = 1;
    if (kind == 4 && sizeof(A) == 4) kind = 2;                      // a float analyzer only analyses float programs here
    nd->kind = kind;
    switch (kind) {
    case 0: {   // decimal strings of dyadic numbers: exactly representable in both formats
      static const char* S[] = { "0", "1", "2", "3", "0.5", "5.5", "-0.375", "10", "-7", "1024", "0.015625", "100.25", "-1", "65536", "0.0009765625", "16777215" };
      static const double V[] = { 0, 1, 2, 3, 0.5, 5.5, -0.375, 10, -7, 1024, 0.015625, 100.25, -1, 65536, 0.0009765625, 16777215 };
      int k = (int) t.range(0, 15); nd->cval = V[k];
      fcons.emplace_back(new Floating_Point_Constant<C_Expr>(S[k], (unsigned) std::strlen(S[k]) + 1)); fcons.back()->expr_type = fpt(fmt); nd->ce = fcons.back().get(); os << S[k]; break; }
    case 1: { nd->var = t.pick(vs); used_vars.insert(nd->var);
      refs.emplace_back(new Approximable_Reference<C_Expr>(fpt(fmt), Integer_Interval(mpz_class(0)), (dimension_type) nd->var)); nd->ce = refs.back().get(); os << "x" << nd->var; break; }
    case 6: { nd->var = t.pick(vs); do { nd->var2 = t.pick(vs); } while (false); if (nd->var2 == nd->var) nd->var2 = vs[(std::find(vs.begin(), vs.end(), nd->var) - vs.begin() + 1) % vs.size()];
      used_vars.insert(nd->var); used_vars.insert(nd->var2);
      refs.emplace_back(new Approximable_Reference<C_Expr>(fpt(fmt), Integer_Interval(mpz_class(0)), (dimension_type) nd->var)); refs.back()->dimensions.insert((dimension_type) nd->var2); nd->ce = refs.back().get();
      nd->ival = t.range(0, 1); os << "{x" << nd->var << "|x" << nd->var2 << "}"; break; }
    case 2: { nd->op = (int) t.weighted({3, 3, 4, 3}); ++n_ops; static const char* on[] = { " + ", " - ", " * ", " / " };
      os << "("; nd->l = gen_expr(depth - 1, fmt, os); os << on[nd->op]; nd->r = gen_expr(depth - 1, fmt, os); os << ")";
      int bop = nd->op == 0 ? Binary_Operator<C_Expr>::ADD : nd->op == 1 ? Binary_Operator<C_Expr>::SUB : nd->op == 2 ? Binary_Operator<C_Expr>::MUL : Binary_Operator<C_Expr>::DIV;
      bops.emplace_back(new Binary_Operator<C_Expr>(fpt(fmt), bop, nd->l->ce, nd->r->ce)); nd->ce = bops.back().get(); break; }
    case 3: { os << "-"; nd->l = gen_expr(depth - 1, fmt, os);
      uops.emplace_back(new Unary_Operator<C_Expr>(fpt(fmt), Unary_Operator<C_Expr>::UMINUS, nd->l->ce)); nd->ce = uops.back().get(); break; }
    case 4: { Floating_Point_Format other = fmt == IEEE754_SINGLE ? IEEE754_DOUBLE : IEEE754_SINGLE; ++n_ops;
      os << "(" << fname(fmt) << ")"; nd->l = gen_expr(depth - 1, other, os);
      casts.emplace_back(new Cast_Operator<C_Expr>(fpt(fmt), nd->l->ce)); nd->ce = casts.back().get(); break; }
    default: {   // cast of an integer constant (possibly an interval of integers: the concrete value is tape-chosen inside)
      long lo = t.chance(50) ? t.range(-20, 20) : t.range(0, 2000000000L) * (t.chance(50) ? 1 : -1) + (t.chance(30) ? 16777217L : 0), hi = lo + (t.chance(50) ? 0 : t.range(0, 1000));
      if (hi > 2147483647L) { hi = 2147483647L; if (lo > hi) lo = hi; }
      nd->ival = lo + t.range(0, hi - lo); ++n_ops;
      Integer_Interval ii(mpz_class((long) lo)); ii.join_assign(mpz_class((long) hi));
      icons.emplace_back(new Integer_Constant<C_Expr>(Concrete_Expression_Type::bounded_integer(BITS_32, SIGNED_2_COMPLEMENT, OVERFLOW_UNDEFINED), ii));
      casts.emplace_back(new Cast_Operator<C_Expr>(fpt(fmt), icons.back().get())); nd->ce = casts.back().get();
      os << "(" << fname(fmt) << ")int[" << lo << ".." << hi << " -> " << nd->ival << "]"; break; }
    }
    return nd;
  }

  // concrete evaluation in the current hardware rounding mode; values of `float' nodes are floats held in a double
  static double eval(const Node* nd, const std::vector<double>& rho, bool& bad) {
    switch (nd->kind) {
    case 0: return nd->cval;
    case 1: return rho[nd->var];
    case 6: return rho[nd->ival ? nd->var2 : nd->var];
    case 3: return -eval(nd->l, rho, bad);
    case 4: { double a = eval(nd->l, rho, bad); if (nd->fmt == IEEE754_SINGLE) { volatile double va = a; volatile float r = (float) va; return r; } return a; }
    case 5: { if (nd->fmt == IEEE754_SINGLE) { volatile long k = nd->ival; volatile float r = (float) k; return r; } volatile long k = nd->ival; volatile double r = (double) k; return r; }
    default: {
      double a = eval(nd->l, rho, bad), b = eval(nd->r, rho, bad);
      if (nd->fmt == IEEE754_SINGLE) {
        volatile float x = (float) a, y = (float) b; volatile float r;     // a, b are floats: the conversions are exact
        switch (nd->op) { case 0: r = x + y; break; case 1: r = x - y; break; case 2: r = x * y; break; default: r = x / y; }
        if (!std::isfinite(r)) bad = true; return r;
      } else {
        volatile double x = a, y = b; volatile double r;
        switch (nd->op) { case 0: r = x + y; break; case 1: r = x - y; break; case 2: r = x * y; break; default: r = x / y; }
        if (!std::isfinite(r)) bad = true; return r;
      } }
    }
  }

  void lin() {
    base_fmt = sizeof(A) == 4 ? IEEE754_SINGLE : (t.chance(50) ? IEEE754_DOUBLE : IEEE754_SINGLE);
    size_t n = (size_t) t.range(1, 3);
    Orc orc; orc.store = Store(n); LF_Store lfs; std::vector<QI> sm(n);
    std::vector<std::vector<double> > cands(n);
    bool nonpoint = false;
    for (size_t v = 0; v < n; ++v) {
      Floating_Point_Format f = sizeof(A) == 4 ? IEEE754_SINGLE : (t.chance(75) ? base_fmt : (base_fmt == IEEE754_SINGLE ? IEEE754_DOUBLE : IEEE754_SINGLE)); var_fmt.push_back(f);
      FPI iv = gen_itv(true); while (iv.is_empty()) iv = gen_itv(true);
      orc.store.set_interval(Variable(v), iv); sm[v] = model(iv);
      // concrete candidates: values of the variable's own format inside the interval
      std::vector<double> cs; double lo = (double) iv.lower(), hi = (double) iv.upper();
      auto addc = [&](double d) { if (f == IEEE754_SINGLE) { volatile float x = (float) d; d = x; } if (std::isfinite(d) && q_member(Q(d), sm[v])) cs.push_back(d); };
      addc(lo); addc(hi);
      if (f == IEEE754_SINGLE) { addc(std::nextafterf((float) lo, INFINITY)); addc(std::nextafterf((float) hi, -INFINITY)); } else { addc(std::nextafter(lo, (double) INFINITY)); addc(std::nextafter(hi, (double) -INFINITY)); }
      Q mid = (sm[v].lo + sm[v].hi) / 2; addc(mid.get_d()); Q fr(t.range(0, 16), 16); fr.canonicalize(); Q pt = sm[v].lo + (sm[v].hi - sm[v].lo) * fr; addc(pt.get_d()); if (q_member(Q(0), sm[v])) addc(0.0);
      if (cs.empty()) { c.tag("no representable value inside a store interval"); return; }
      cands[v] = cs; if (!(sm[v].lo == sm[v].hi)) nonpoint = true;
      c.log << fname(f) << " x" << v << " in " << show(sm[v]) << "\n";
    }
    // optionally an identity entry in the linear-form store
    if (t.chance(15)) { dimension_type v = (dimension_type) t.range(0, (long) n - 1); lfs[v] = FLF(Variable(v)); c.log << "lf_store[x" << v << "] = x" << v << "\n"; }
    std::ostringstream es; Node* root = gen_expr((int) t.range(1, 3), base_fmt, es);
    c.log << "analyzer " << (sizeof(A) == 4 ? "float" : "double") << ", expression (" << fname(base_fmt) << "): " << es.str() << "\n";
    FLF res; bool ok = linearize(*root->ce, orc, lfs, res);
    c.tag(an + std::string(" lin ") + (ok ? "ok" : "false") + " ops=" + std::to_string(std::min(n_ops, 4)));
    if (!ok) { c.log << "linearize: false\n"; return; }
    c.log << "linearize: " << show_lf(res) << "\n";
    c.check("lin.ok", res.OK(), "result fails OK()");
    bool used_nonpoint = false; for (int v : used_vars) if (!(sm[v].lo == sm[v].hi)) used_nonpoint = true;
    if (n_ops >= 2 && used_nonpoint) c.nt();
    (void) nonpoint;
    int n_samples = (int) t.range(2, 5); const int saved = fegetround();
    for (int s = 0; s < n_samples; ++s) {
      std::vector<double> rho(n); std::vector<Q> rq(n);
      for (size_t v = 0; v < n; ++v) { rho[v] = s == 0 ? cands[v].front() : s == 1 ? cands[v][std::min<size_t>(1, cands[v].size() - 1)] : t.pick(cands[v]); rq[v] = Q(rho[v]); }
      QI g = known_relax(ev(res, rq));
      for (int m = 0; m < 4; ++m) {
        // a concrete overflow does not always show as an infinity (rounding downward / toward zero saturates at the largest
        // finite value): use the hardware's overflow/invalid/division-by-zero flags, saved and restored around the evaluation
        bool bad = false; fexcept_t fl; fegetexceptflag(&fl, FE_ALL_EXCEPT); feclearexcept(FE_OVERFLOW | FE_INVALID | FE_DIVBYZERO);
        fesetround(FE_MODES[m]); volatile double val = eval(root, rho, bad); fesetround(saved);
        if (fetestexcept(FE_OVERFLOW | FE_INVALID | FE_DIVBYZERO)) bad = true;
        fesetexceptflag(&fl, FE_ALL_EXCEPT);
        double vv = val;
        if (bad || !std::isfinite(vv)) { c.tag("sample discarded: concrete overflow/NaN"); continue; }
        c.tag("sample checked");
        Q qv(vv);
        c.check(std::string("lin.encl.") + an, q_member(qv, g), [&] { std::ostringstream o; o.precision(17); o << "concrete store"; for (size_t v = 0; v < n; ++v) o << " x" << v << "=" << rho[v]; o << ", rounding " << FE_NAMES[m] << ": the expression evaluates to " << vv << " {" << qv << "} which is not in the linear form's value " << show(g); return o.str(); });
      }
    }
  }
};

void vf_case(Ctx& c) {
  int w = c.t.weighted({3, 3, 7, 7});
  switch (w) {
  case 0: Run<float>(c).lf_ops(); break;
  case 1: Run<double>(c).lf_ops(); break;
  case 2: Run<float>(c).lin(); break;
  default: Run<double>(c).lin(); break;
  }
}
VF_MAIN
