// C15: ascii_dump / ascii_load round trip of objects reached through generated histories (lazy internal states),
// loaded into targets that already hold another value; then the same suffix of operations is applied to the original
// and to the clone and all observations must agree.
#include "poly_common.hh"
#include "interfaces/interfaced_boxes.hh"
using namespace vf;
const vf::Info vf_info = { "C15", "c15_dumpload", 2.0 };

// ------------------------------------------------------------------ generated operations, applied identically to two objects
struct Op { int k; LE e, e2; long a, b, c; std::vector<long> v; };
static Op gen_op(Tape& t, size_t n, int nkinds) { Op o; o.k = (int) t.range(0, nkinds - 1); o.e = gen_le(t, n, false); o.e2 = gen_le(t, n, false); o.a = n ? t.range(0, (long) n - 1) : 0; o.b = t.pick(std::vector<long>{1, 1, 2, -1, 3}); o.c = t.range(0, 5); for (int i = 0; i < 4; ++i) o.v.push_back(t.range(-3, 3)); return o; }
static std::string op_str(const Op& o) { return "op" + std::to_string(o.k) + "(" + o.e.str() + "; " + o.e2.str() + "; " + std::to_string(o.a) + "," + std::to_string(o.b) + "," + std::to_string(o.c) + ")"; }

template <typename T> static std::string dump(const T& x) { std::ostringstream s; x.ascii_dump(s); return s.str(); }
template <typename T> static bool load(T& x, const std::string& text) { std::istringstream s(text); return x.ascii_load(s); }
static std::string header_of(const std::string& d) { size_t a = d.find('\n'); size_t b = a == std::string::npos ? a : d.find('\n', a + 1); return d.substr(0, b == std::string::npos ? std::min<size_t>(d.size(), 80) : b); }

// generic semantic domain operations (polyhedra, shapes, boxes, grids): 12 kinds
template <typename D> static void apply_dom(D& d, const Op& o, bool strict_ok, bool is_grid) {
  size_t n = d.space_dimension(); if (n == 0 && o.k >= 2 && o.k <= 5) return;
  Linear_Expression e = o.e.ppl(), e2 = o.e2.ppl(); Variable v(n ? o.a % n : 0);
  switch (o.k) {
  case 0: if (is_grid) d.refine_with_constraint(e == 0); else d.refine_with_constraint(e >= 0); break;
  case 1: d.refine_with_constraint(e == 0); break;
  case 2: d.affine_image(v, e, o.b); break;
  case 3: d.affine_preimage(v, e, o.b); break;
  case 4: { D f(n); if (is_grid) f.refine_with_congruence((e2 %= 0) / 2); else f.refine_with_constraint(e2 >= 0); d.upper_bound_assign(f); break; }
  case 5: d.unconstrain(v); break;
  case 6: (void) d.is_empty(); break;
  case 7: (void) d.minimized_constraints(); break;
  case 8: (void) d.is_universe(); break;
  case 9: { D f(n); if (is_grid) f.refine_with_congruence((e2 %= 0) / 3); else f.refine_with_constraint(e2 >= 0); (void) d.contains(f); break; }
  case 10: if (strict_ok) d.refine_with_constraint(e > 0); else { D f(n); f.refine_with_constraint(e2 == 0); d.intersection_assign(f); } break;
  default: if (n < 4) d.add_space_dimensions_and_embed(1); else d.remove_higher_space_dimensions(n - 1); break;
  }
}
template <typename D> static void observe_dom(const D& a, const D& b, Ctx& c, const char* nm) {
  c.check(std::string(nm) + ".after.space_dimension", a.space_dimension() == b.space_dimension(), "space dimension differs between original and clone");
  c.check(std::string(nm) + ".after.is_empty", a.is_empty() == b.is_empty(), "is_empty differs between original and clone");
  c.check(std::string(nm) + ".after.equal", a == b, "original and clone compare different after the same operations");
}

template <typename D> static void domain_case(Ctx& c, const char* nm, bool strict_ok, bool is_grid, bool value_eq = true) {
  Tape& t = c.t; size_t n = (size_t) t.range(0, 3); D a(n), b((size_t) t.range(0, 3), t.chance(30) ? EMPTY : UNIVERSE);
  c.log << nm << " dim " << n << "\n prefix:";
  int pre = (int) t.range(0, 7); for (int i = 0; i < pre; ++i) { Op o = gen_op(t, a.space_dimension(), 12); c.log << " " << op_str(o); apply_dom(a, o, strict_ok, is_grid); }
  c.log << "\n target prefix:"; int tp = (int) t.range(0, 3); for (int i = 0; i < tp; ++i) { Op o = gen_op(t, b.space_dimension(), 12); c.log << " " << op_str(o); apply_dom(b, o, strict_ok, is_grid); }
  std::string text = dump(a); c.tag(std::string(nm) + " state " + header_of(text).substr(header_of(text).find('\n') == std::string::npos ? 0 : header_of(text).find('\n') + 1));
  c.log << "\n dump:\n" << text.substr(0, 600) << "\n";
  c.check(std::string(nm) + ".load", load(b, text), [&] { return std::string("ascii_load failed on the dump of a ") + nm; });
  // (the library's OK() is stricter than its operations guarantee - e.g. Grid::simplify is not idempotent on some generator systems, so
  //  a grid reached through is_universe() may already fail OK(): the invariant of the copy is only demanded when the original has it)
  if (a.OK()) c.check(std::string(nm) + ".OK", b.OK(), "the loaded object fails OK()"); else c.tag(std::string(nm) + ": the original already fails OK()");
  std::string again = dump(b); c.check(std::string(nm) + ".same_text", again == text, [&] { return "second dump differs from the first:\n--- original\n" + text + "--- reloaded\n" + again; });
  if (value_eq) c.check(std::string(nm) + ".same_value", a == b, "the loaded object compares different from the original");
  D a2(a), b2(b); int more = (int) t.range(1, 4); c.log << " suffix:";
  for (int i = 0; i < more; ++i) { Op o = gen_op(t, a2.space_dimension(), 12); c.log << " " << op_str(o); apply_dom(a2, o, strict_ok, is_grid); apply_dom(b2, o, strict_ok, is_grid);
    std::string da = dump(a2), db = dump(b2); c.check(std::string(nm) + ".same_behaviour", da == db, [&] { return "after " + op_str(o) + " the dumps of original and clone differ:\n--- original\n" + da + "--- clone\n" + db; }); }
  observe_dom(a2, b2, c, nm);
  if (pre >= 2) c.nt();
}

// ------------------------------------------------------------------ powerset / product
static void powerset_case(Ctx& c) {
  Tape& t = c.t; size_t n = (size_t) t.range(1, 2); typedef Pointset_Powerset<C_Polyhedron> PS; PS a(n, EMPTY), b(n, UNIVERSE); c.log << "Pointset_Powerset<C_Polyhedron> dim " << n << "\n";
  int k = (int) t.range(0, 3); for (int i = 0; i < k; ++i) { C_Polyhedron p(n); int m = (int) t.range(0, 3); for (int j = 0; j < m; ++j) p.refine_with_constraint(gen_le(t, n, false).ppl() >= 0); if (t.chance(40)) (void) p.minimized_generators(); a.add_disjunct(p); }
  if (t.chance(40)) a.omega_reduce(); if (t.chance(30)) a.pairwise_reduce();
  std::string text = dump(a); c.check("powerset.load", load(b, text), "ascii_load failed"); c.check("powerset.OK", b.OK(), "loaded powerset fails OK()");
  // KF-C15-1: Pointset_Powerset::ascii_load copies every loaded disjunct, and a copy drops whatever is not up to date
  // (stale saturation matrices and systems); under the finding the texts are compared after that same normalisation.
  auto norm = [&](const PS& x) { PS r(n, EMPTY); for (PS::const_iterator i = x.begin(); i != x.end(); ++i) { C_Polyhedron q(i->pointset()); r.add_disjunct(q); } return r; };
  { std::string again = dump(b); bool same = again == text;
    if (!same && kf("KF-C15-1") && dump(norm(a)) == again) { c.excluded("KF-C15-1"); same = true; }
    c.check("powerset.same_text", same, [&] { return "second dump differs:\n" + text + "---\n" + again; }); }
  c.check("powerset.same_value", a.geometrically_equals(b) && a.size() == b.size(), "loaded powerset differs");
  LE e = gen_le(t, n, false); a.refine_with_constraint(e.ppl() >= 0); b.refine_with_constraint(e.ppl() >= 0); a.omega_reduce(); b.omega_reduce(); { bool same = dump(a) == dump(b);
    if (!same && kf("KF-C15-1") && a.size() == b.size() && dump(norm(a)) == dump(norm(b))) { c.excluded("KF-C15-1"); same = true; }
    c.check("powerset.same_behaviour", same, [&] { return "dumps differ after the same operations:\n" + dump(a) + "---\n" + dump(b); }); }
  if (k >= 2) c.nt();
}
static void product_case(Ctx& c) {
  Tape& t = c.t; size_t n = (size_t) t.range(1, 2); typedef Partially_Reduced_Product<C_Polyhedron, Grid, Constraints_Reduction<C_Polyhedron, Grid> > PR; PR a(n), b(n, EMPTY); c.log << "Constraints_Product<C_Polyhedron, Grid> dim " << n << "\n";
  int k = (int) t.range(0, 4); for (int i = 0; i < k; ++i) { LE e = gen_le(t, n, false); if (t.chance(50)) a.refine_with_constraint(e.ppl() >= 0); else a.refine_with_congruence((e.ppl() %= 0) / t.pick(std::vector<long>{0, 2, 3})); if (t.chance(30)) (void) a.is_empty(); }
  std::string text = dump(a); c.check("product.load", load(b, text), "ascii_load failed"); c.check("product.OK", b.OK(), "loaded product fails OK()");
  c.check("product.same_text", dump(b) == text, [&] { return "second dump differs:\n" + text + "---\n" + dump(b); });
  LE e = gen_le(t, n, false); a.refine_with_constraint(e.ppl() >= 0); b.refine_with_constraint(e.ppl() >= 0); bool ea = a.is_empty(), eb = b.is_empty(); c.check("product.same_behaviour", ea == eb && dump(a) == dump(b), "original and clone differ after the same operations");
  if (k >= 2) c.nt();
}

// ------------------------------------------------------------------ systems and rows
template <typename T> static void rt_simple(Ctx& c, const char* nm, const T& a, T& b) {
  std::string text = dump(a); c.log << nm << ":\n" << text.substr(0, 400) << "\n";
  c.check(std::string(nm) + ".load", load(b, text), [&] { return std::string("ascii_load failed on:\n") + text; });
  c.check(std::string(nm) + ".OK", b.OK(), "loaded object fails OK()");
  std::string again = dump(b); c.check(std::string(nm) + ".same_text", again == text, [&] { return "second dump differs:\n--- original\n" + text + "--- reloaded\n" + again; });
}
static void systems_case(Ctx& c) {
  Tape& t = c.t; size_t n = (size_t) t.range(0, 4); int which = (int) t.range(0, 9); Representation r = t.chance(50) ? DENSE : SPARSE; c.tag("systems kind " + std::to_string(which));
  switch (which) {
  case 0: { Constraint_System a(r), b; int m = (int) t.range(0, 5); for (int i = 0; i < m; ++i) { RCon rc; rc.e = gen_le(t, n); rc.kind = (int) t.range(0, 2); a.insert(to_ppl(rc)); } if (t.chance(30)) b.insert(Variable(0) >= 1); rt_simple(c, "Constraint_System", a, b);
    C_Polyhedron pa(n), pb(n); bool strict = a.has_strict_inequalities(); if (!strict && a.space_dimension() <= n && b.space_dimension() <= n) { pa.add_constraints(a); pb.add_constraints(b); c.check("Constraint_System.same_value", pa == pb, "systems denote different polyhedra"); } if (m >= 2) c.nt(); break; }
  case 1: { Generator_System a(r), b; int m = (int) t.range(1, 5); for (int i = 0; i < m; ++i) { LE e(n); for (size_t j = 0; j < n; ++j) e.a[j] = gen_coef(t); int k = i == 0 ? 2 : (int) t.range(0, 3); if (k < 2 && e.all_zero()) k = 2;
      if (k == 0) a.insert(line(e.ppl())); else if (k == 1) a.insert(ray(e.ppl())); else if (k == 2) a.insert(point(e.ppl(), t.range(1, 3))); else a.insert(closure_point(e.ppl(), t.range(1, 3))); } rt_simple(c, "Generator_System", a, b); if (m >= 2) c.nt(); break; }
  case 2: { Congruence_System a, b; int m = (int) t.range(0, 4); for (int i = 0; i < m; ++i) { LE e = gen_le(t, n); a.insert((e.ppl() %= 0) / t.pick(std::vector<long>{0, 1, 2, 3, 6})); } if (t.chance(30)) b.insert((Variable(1) %= 1) / 2); rt_simple(c, "Congruence_System", a, b); if (m >= 2) c.nt(); break; }
  case 3: { Grid_Generator_System a, b; int m = (int) t.range(1, 4); for (int i = 0; i < m; ++i) { LE e(n); for (size_t j = 0; j < n; ++j) e.a[j] = gen_coef(t, false); int k = i == 0 ? 0 : (int) t.range(0, 2); if (k != 0 && e.all_zero()) k = 0;
      if (k == 0) a.insert(grid_point(e.ppl(), t.range(1, 3))); else if (k == 1) a.insert(parameter(e.ppl(), t.range(1, 3))); else a.insert(grid_line(e.ppl())); } rt_simple(c, "Grid_Generator_System", a, b); if (m >= 2) c.nt(); break; }
  case 4: { Linear_Expression a(gen_le(t, n).ppl(), r), b; rt_simple(c, "Linear_Expression", a, b); c.check("Linear_Expression.same_value", a.is_equal_to(b), "loaded expression differs"); if (n >= 2) c.nt(); break; }
  case 5: { RCon rc; rc.e = gen_le(t, n); rc.kind = (int) t.range(0, 2); Constraint a(to_ppl(rc), r), b = Constraint::zero_dim_positivity(); rt_simple(c, "Constraint", a, b); c.check("Constraint.same_value", a.is_equal_to(b), "loaded constraint differs"); if (n >= 2) c.nt(); break; }
  case 6: { LE e(n); for (size_t j = 0; j < n; ++j) e.a[j] = gen_coef(t); int k = (int) t.range(0, 3); if (k < 2 && e.all_zero()) k = 2; Generator g = k == 0 ? line(e.ppl()) : k == 1 ? ray(e.ppl()) : k == 2 ? point(e.ppl(), t.range(1, 4)) : closure_point(e.ppl(), t.range(1, 4));
    Generator a(g, r), b = point(); rt_simple(c, "Generator", a, b); c.check("Generator.same_value", a.is_equal_to(b), "loaded generator differs"); if (n >= 2) c.nt(); break; }
  case 7: { LE e = gen_le(t, n); Congruence a((e.ppl() %= 0) / t.pick(std::vector<long>{0, 1, 2, 5}), r), b((Linear_Expression(0) %= 0) / 1); rt_simple(c, "Congruence", a, b); c.check("Congruence.same_value", a == b, "loaded congruence differs"); if (n >= 2) c.nt(); break; }
  case 8: { Variables_Set a, b; for (size_t j = 0; j < 8; ++j) if (t.chance(40)) a.insert(j); if (t.chance(50)) b.insert(3); rt_simple(c, "Variables_Set", a, b); c.check("Variables_Set.same_value", a == b, "loaded set differs"); if (a.size() >= 2) c.nt(); break; }
  default: { size_t sz = (size_t) t.range(0, 12); Sparse_Row sa(sz), sb; Dense_Row da(sz), db; for (size_t j = 0; j < sz; ++j) if (t.chance(45)) { Coefficient v = Coefficient(gen_coef(t)); if (v != 0) { sa.insert(j, v); da[j] = v; } }
    rt_simple(c, "Sparse_Row", sa, sb); rt_simple(c, "Dense_Row", da, db); bool same = sb.size() == sa.size(); for (size_t j = 0; j < sz && same; ++j) same = sa.get(j) == sb.get(j) && da[j] == db[j]; c.check("Row.same_value", same, "loaded rows differ"); if (sz >= 4) c.nt(); break; }
  }
}

// ------------------------------------------------------------------ solvers
static void mip_case(Ctx& c) {
  Tape& t = c.t; size_t n = (size_t) t.range(1, 3); MIP_Problem a(n), b(t.range(0, 2)); c.log << "MIP_Problem dim " << n << "\n";
  int m = (int) t.range(0, 4); for (int i = 0; i < m; ++i) { LE e = gen_le(t, n, false); if (t.chance(20)) a.add_constraint(e.ppl() == 0); else a.add_constraint(e.ppl() >= 0); }
  a.set_objective_function(gen_le(t, n, false).ppl()); if (t.chance(50)) a.set_optimization_mode(MINIMIZATION);
  if (t.chance(40)) { Variables_Set iv; iv.insert(t.range(0, (long) n - 1)); a.add_to_integer_space_dimensions(iv); for (size_t j = 0; j < n; ++j) { a.add_constraint(Variable(j) <= 3); a.add_constraint(Variable(j) >= -3); } }
  int solved = 0; if (t.chance(70)) { (void) a.solve(); ++solved; if (t.chance(40)) { a.add_constraint(gen_le(t, n, false).ppl() >= 0); } } else if (t.chance(50)) { (void) a.is_satisfiable(); ++solved; }
  std::string text = dump(a); c.tag(solved ? "MIP dumped after a solve" : "MIP dumped unsolved");
  c.check("MIP_Problem.load", load(b, text), [&] { return "ascii_load failed on:\n" + text; }); c.check("MIP_Problem.OK", b.OK(), "loaded problem fails OK()");
  std::string again = dump(b); c.check("MIP_Problem.same_text", again == text, [&] { return "second dump differs:\n--- original\n" + text + "--- reloaded\n" + again; });
  if (t.chance(50)) { LE e = gen_le(t, n, false); a.add_constraint(e.ppl() >= 0); b.add_constraint(e.ppl() >= 0); }
  MIP_Problem_Status sa = a.solve(), sb = b.solve(); c.check("MIP_Problem.same_behaviour.status", sa == sb, "solve() differs between original and clone");
  if (sa == OPTIMIZED_MIP_PROBLEM && sb == OPTIMIZED_MIP_PROBLEM) { Coefficient n1, d1, n2, d2; a.optimal_value(n1, d1); b.optimal_value(n2, d2); c.check("MIP_Problem.same_behaviour.value", n1 * d2 == n2 * d1, "optimal values differ between original and clone"); }
  if (solved) c.nt();
}
static std::string pip_tree_text(const PIP_Problem& p) { std::ostringstream s; const PIP_Tree_Node* r = p.solution(); if (r == 0) s << "_|_"; else r->print(s); return s.str(); }
static void pip_case(Ctx& c) {
  Tape& t = c.t; size_t n = (size_t) t.range(1, 3); Variables_Set params; if (n >= 2 && t.chance(70)) params.insert(n - 1); PIP_Problem a(n), b(t.range(0, 2)); c.log << "PIP_Problem dim " << n << "\n";
  a.add_to_parameter_space_dimensions(params);
  int m = (int) t.range(0, 4); for (int i = 0; i < m; ++i) { LE e = gen_le(t, n, false); for (size_t j = 0; j < n; ++j) if (e.a[j] > 3 || e.a[j] < -3) e.a[j] = 1; if (t.chance(15)) a.add_constraint(e.ppl() == 0); else a.add_constraint(e.ppl() >= 0); }
  for (size_t j = 0; j < n; ++j) if (!params.count(j)) a.add_constraint(Variable(j) <= 5);
  int solved = 0; if (t.chance(70)) { (void) a.solve(); ++solved; if (t.chance(30)) a.add_constraint(gen_le(t, n, false).ppl() >= 0); }
  std::string text = dump(a); c.tag(solved ? "PIP dumped after a solve" : "PIP dumped unsolved");
  c.check("PIP_Problem.load", load(b, text), [&] { return "ascii_load failed on:\n" + text; }); c.check("PIP_Problem.OK", b.OK(), "loaded problem fails OK()");
  std::string again = dump(b); c.check("PIP_Problem.same_text", again == text, [&] { return "second dump differs:\n--- original\n" + text + "--- reloaded\n" + again; });
  PIP_Problem_Status sa = a.solve(), sb = b.solve(); c.check("PIP_Problem.same_behaviour.status", sa == sb, "solve() differs between original and clone");
  c.check("PIP_Problem.same_behaviour.tree", pip_tree_text(a) == pip_tree_text(b), [&] { return "solution trees differ:\n" + pip_tree_text(a) + "---\n" + pip_tree_text(b); });
  if (solved) c.nt();
}

void vf_case(Ctx& c) {
  switch (c.t.weighted({12, 10, 8, 8, 7, 7, 7, 7, 6, 6, 10, 6, 6})) {
  case 0: domain_case<C_Polyhedron>(c, "C_Polyhedron", false, false); break;
  case 1: domain_case<NNC_Polyhedron>(c, "NNC_Polyhedron", true, false); break;
  case 2: domain_case<Grid>(c, "Grid", false, true); break;
  case 3: domain_case<BD_Shape<mpq_class> >(c, "BD_Shape<mpq_class>", false, false); break;
  case 4: domain_case<BD_Shape<double> >(c, "BD_Shape<double>", false, false, false); break;
  case 5: domain_case<Octagonal_Shape<mpz_class> >(c, "Octagonal_Shape<mpz_class>", false, false, false); break;
  case 6: domain_case<Octagonal_Shape<double> >(c, "Octagonal_Shape<double>", false, false, false); break;
  case 7: domain_case<Rational_Box>(c, "Rational_Box", true, false); break;
  case 8: domain_case<Double_Box>(c, "Double_Box", true, false, false); break;
  case 9: if (c.t.chance(50)) powerset_case(c); else product_case(c); break;
  case 10: systems_case(c); break;
  case 11: mip_case(c); break;
  default: pip_case(c); break;
  }
}
VF_MAIN
