// C12 (a): interval arithmetic and set operations of Interval<Boundary, Info> against an independent exact
// interval arithmetic over mpq_class (image of a connected set under a continuous map; an end is attained
// iff it is attained by closed ends).
//
// Interval instances (the ones the project instantiates, interfaces/interfaced_boxes.hh, Rational_Interval.hh):
//   Q   Rational_Interval                       exact, open/closed ends
//   Z   Z_Box::interval_type   (mpz_class)      closed integer ends, set of reals
//   I8  Int8_Box::interval_type, I32 Int32_Box::interval_type   native integers, closed ends
//   F   Float_Box::interval_type, D Double_Box::interval_type   floating point, open/closed ends
//
// Check ids are "<type>.<op>.<kind>", kind:
//   encl       the exact result (set of reals) is included in the library's result
//   encl.pt    a op b for constructively chosen members is in the library's result (integer members for Z/I8/I32)
//   exact      result == exact result, openness and emptiness included (Q always; Z/In when the exact ends are
//              integers in range; F/D when the exact ends are representable)
//   oracle     self-check of the harness' own arithmetic (a op b must be in the oracle interval)
// Non-trivial (c.nt()): the exact result has an end that is not representable in the bound type, or an operand
// straddles zero in mul/div, or the operands mix open and closed ends, or a set operation cuts an operand.
#include "ppl-config.h"
#include "ppl_include_files.hh"
#include "interfaces/interfaced_boxes.hh"
#include "common.hh"
#include <cmath>
#include <limits>

using namespace Parma_Polyhedra_Library;
using namespace vf;
typedef mpq_class Q;

const vf::Info vf_info = { "C12", "c12_interval", 1.0 };

// ------------------------------------------------------------------ exact model
struct End { int inf; Q v; bool open; End() : inf(0), v(0), open(false) {} };
struct RI { bool empty; End lo, hi; RI() : empty(false) {} };

static End fin(const Q& v, bool open) { End e; e.inf = 0; e.v = v; e.open = open; return e; }
static End minf() { End e; e.inf = -1; e.open = true; return e; }
static End pinf() { End e; e.inf = 1; e.open = true; return e; }
static RI r_empty() { RI r; r.empty = true; return r; }
static RI r_univ() { RI r; r.lo = minf(); r.hi = pinf(); return r; }
static RI r_point(const Q& v) { RI r; r.lo = fin(v, false); r.hi = fin(v, false); return r; }
static void norm(RI& r) {
  if (r.empty) return;
  if (r.lo.inf) { r.lo.inf = -1; r.lo.open = true; r.lo.v = 0; }
  if (r.hi.inf) { r.hi.inf = 1; r.hi.open = true; r.hi.v = 0; }
  if (!r.lo.inf && !r.hi.inf && (r.lo.v > r.hi.v || (r.lo.v == r.hi.v && (r.lo.open || r.hi.open)))) r.empty = true;
}
static RI mk(End lo, End hi) { RI r; r.lo = lo; r.hi = hi; norm(r); return r; }
static std::string show(const RI& r) {
  if (r.empty) return "{}"; std::ostringstream o; o << (r.lo.open ? "(" : "[");
  if (r.lo.inf) o << "-inf"; else o << r.lo.v; o << ", "; if (r.hi.inf) o << "+inf"; else o << r.hi.v; o << (r.hi.open ? ")" : "]"); return o.str();
}
// lower end a admits at least what lower end b admits
static bool lo_le(const End& a, const End& b) { if (a.inf) return true; if (b.inf) return false; if (a.v != b.v) return a.v < b.v; return !a.open || b.open; }
static bool hi_ge(const End& a, const End& b) { if (a.inf) return true; if (b.inf) return false; if (a.v != b.v) return a.v > b.v; return !a.open || b.open; }
static bool end_eq(const End& a, const End& b) { if (a.inf || b.inf) return a.inf == b.inf; return a.v == b.v && a.open == b.open; }
static bool subset(const RI& e, const RI& r) { if (e.empty) return true; if (r.empty) return false; return lo_le(r.lo, e.lo) && hi_ge(r.hi, e.hi); }
static bool same(const RI& a, const RI& b) { if (a.empty || b.empty) return a.empty == b.empty; return end_eq(a.lo, b.lo) && end_eq(a.hi, b.hi); }
static bool member(const Q& q, const RI& r) {
  if (r.empty) return false;
  if (!r.lo.inf && (q < r.lo.v || (q == r.lo.v && r.lo.open))) return false;
  if (!r.hi.inf && (q > r.hi.v || (q == r.hi.v && r.hi.open))) return false;
  return true;
}
static bool is_point(const RI& r) { return !r.empty && !r.lo.inf && !r.hi.inf && r.lo.v == r.hi.v; }
static RI closure(RI r) { if (!r.empty) { if (!r.lo.inf) r.lo.open = false; if (!r.hi.inf) r.hi.open = false; } return r; }

static RI r_neg(const RI& a) {
  if (a.empty) return a; RI r; r.lo = a.hi; r.hi = a.lo; r.lo.inf = -r.lo.inf; r.hi.inf = -r.hi.inf; r.lo.v = -r.lo.v; r.hi.v = -r.hi.v; norm(r); return r;
}
static RI r_add(const RI& a, const RI& b) {
  if (a.empty || b.empty) return r_empty(); RI r;
  if (a.lo.inf || b.lo.inf) r.lo = minf(); else r.lo = fin(a.lo.v + b.lo.v, a.lo.open || b.lo.open);
  if (a.hi.inf || b.hi.inf) r.hi = pinf(); else r.hi = fin(a.hi.v + b.hi.v, a.hi.open || b.hi.open);
  return r;
}
static RI r_sub(const RI& a, const RI& b) { return r_add(a, r_neg(b)); }
// product of two ends as a limit value: 0 * anything = 0 (the other factor ranges over a non-empty set)
struct Cand { int inf; Q v; bool att; };
static Cand mulc(const End& a, const End& b) {
  Cand c; c.inf = 0; c.att = false; bool az = !a.inf && a.v == 0, bz = !b.inf && b.v == 0;
  if (az || bz) { c.v = 0; c.att = (az && !a.open) || (bz && !b.open); return c; }
  int sa = a.inf ? a.inf : sgn(a.v), sb = b.inf ? b.inf : sgn(b.v);
  if (a.inf || b.inf) { c.inf = sa * sb; return c; }
  c.v = a.v * b.v; c.att = !a.open && !b.open; return c;
}
static bool c_lt(const Cand& x, const Cand& y) { if (x.inf != y.inf) return x.inf < y.inf; if (x.inf) return false; return x.v < y.v; }
static bool c_eq(const Cand& x, const Cand& y) { return x.inf == y.inf && (x.inf || x.v == y.v); }
static RI r_mul(const RI& a, const RI& b) {
  if (a.empty || b.empty) return r_empty();
  Cand c[4] = { mulc(a.lo, b.lo), mulc(a.lo, b.hi), mulc(a.hi, b.lo), mulc(a.hi, b.hi) };
  Cand mn = c[0], mx = c[0];
  for (int i = 1; i < 4; ++i) {
    if (c_lt(c[i], mn)) mn = c[i]; else if (c_eq(c[i], mn) && c[i].att) mn.att = true;
    if (c_lt(mx, c[i])) mx = c[i]; else if (c_eq(c[i], mx) && c[i].att) mx.att = true;
  }
  if (member(Q(0), a) || member(Q(0), b)) { if (!mn.inf && mn.v == 0) mn.att = true; if (!mx.inf && mx.v == 0) mx.att = true; }
  RI r; r.lo = mn.inf ? minf() : fin(mn.v, !mn.att); r.hi = mx.inf ? pinf() : fin(mx.v, !mx.att); norm(r); return r;
}
// hull of { a / b : a in A, b in B, b != 0 }; *singular when B has zero in its interior (then the hull is the
// universe unless A = {0}; the library documents UNIVERSE + I_SINGULARITIES: only enclosure is required).
static RI r_div(const RI& a, const RI& b, bool* singular) {
  *singular = false;
  if (a.empty || b.empty) return r_empty();
  if (is_point(b) && b.lo.v == 0) return r_empty();
  bool neg_part = b.lo.inf || b.lo.v < 0, pos_part = b.hi.inf || b.hi.v > 0;
  if (neg_part && pos_part) { *singular = true; if (is_point(a) && a.lo.v == 0) return r_point(Q(0)); return r_univ(); }
  RI inv;      // image of B \ {0} under x -> 1/x (monotone decreasing on each side)
  if (pos_part) {
    inv.lo = b.hi.inf ? fin(Q(0), true) : fin(1 / b.hi.v, b.hi.open);
    inv.hi = (b.lo.v == 0) ? pinf() : fin(1 / b.lo.v, b.lo.open);
  } else {
    inv.hi = b.lo.inf ? fin(Q(0), true) : fin(1 / b.lo.v, b.lo.open);
    inv.lo = (b.hi.v == 0) ? minf() : fin(1 / b.hi.v, b.hi.open);
  }
  norm(inv);
  return r_mul(a, inv);
}
static RI r_join(const RI& a, const RI& b) {
  if (a.empty) return b; if (b.empty) return a; RI r;
  r.lo = lo_le(a.lo, b.lo) ? a.lo : b.lo; r.hi = hi_ge(a.hi, b.hi) ? a.hi : b.hi; return r;
}
static RI r_meet(const RI& a, const RI& b) {
  if (a.empty || b.empty) return r_empty(); RI r;
  r.lo = lo_le(a.lo, b.lo) ? b.lo : a.lo; r.hi = hi_ge(a.hi, b.hi) ? b.hi : a.hi; norm(r); return r;
}
// { x : x below every element of b } and { x : above }
static RI below(const RI& b) { if (b.lo.inf) return r_empty(); return mk(minf(), fin(b.lo.v, !b.lo.open)); }
static RI above(const RI& b) { if (b.hi.inf) return r_empty(); return mk(fin(b.hi.v, !b.hi.open), pinf()); }
static RI r_diff(const RI& a, const RI& b) {      // smallest interval containing A \ B
  if (a.empty || b.empty) return a;
  return r_join(r_meet(a, below(b)), r_meet(a, above(b)));
}
// { a in A : exists b in X . a rel b }
static RI r_ref_ex(const RI& a, Relation_Symbol rel, const RI& x) {
  if (x.empty || a.empty) return r_empty();
  switch (rel) {
  case LESS_THAN: return x.hi.inf ? a : r_meet(a, mk(minf(), fin(x.hi.v, true)));
  case LESS_OR_EQUAL: return x.hi.inf ? a : r_meet(a, mk(minf(), fin(x.hi.v, x.hi.open)));
  case GREATER_THAN: return x.lo.inf ? a : r_meet(a, mk(fin(x.lo.v, true), pinf()));
  case GREATER_OR_EQUAL: return x.lo.inf ? a : r_meet(a, mk(fin(x.lo.v, x.lo.open), pinf()));
  case EQUAL: return r_meet(a, x);
  case NOT_EQUAL: return is_point(x) ? r_diff(a, x) : a;
  default: return a;
  }
}
// { a in A : forall b in X . a rel b }
static RI r_ref_un(const RI& a, Relation_Symbol rel, const RI& x) {
  if (a.empty) return a; if (x.empty) return a;
  switch (rel) {
  case LESS_THAN: return x.lo.inf ? r_empty() : r_meet(a, mk(minf(), fin(x.lo.v, !x.lo.open)));
  case LESS_OR_EQUAL: return x.lo.inf ? r_empty() : r_meet(a, mk(minf(), fin(x.lo.v, false)));
  case GREATER_THAN: return x.hi.inf ? r_empty() : r_meet(a, mk(fin(x.hi.v, !x.hi.open), pinf()));
  case GREATER_OR_EQUAL: return x.hi.inf ? r_empty() : r_meet(a, mk(fin(x.hi.v, false), pinf()));
  case EQUAL: return is_point(x) ? r_meet(a, x) : r_empty();
  case NOT_EQUAL: return r_diff(a, x);
  default: return a;
  }
}

static Q two_pow(long e) { Q r(1); if (e >= 0) { mpz_class z(1); z <<= (unsigned long) e; r = Q(z); } else { mpz_class z(1); z <<= (unsigned long) (-e); r = Q(mpz_class(1), z); } return r; }
static Q floor_q(const Q& q) { mpz_class z; mpz_fdiv_q(z.get_mpz_t(), q.get_num_mpz_t(), q.get_den_mpz_t()); return Q(z); }
static Q ceil_q(const Q& q) { mpz_class z; mpz_cdiv_q(z.get_mpz_t(), q.get_num_mpz_t(), q.get_den_mpz_t()); return Q(z); }
static bool is_int(const Q& q) { return q.get_den() == 1; }

// ------------------------------------------------------------------ per-type traits
enum Kind { KQ, KZ, KI, KF };
template <typename ITV> struct Tr;

template <> struct Tr<Rational_Interval> {
  typedef mpq_class B; static const char* name() { return "Q"; } static const Kind kind = KQ; static const bool has_open = true;
  static bool finite(const B&) { return true; }
  static Q toQ(const B& b) { return b; }
  static bool repr(const Q&) { return true; }
  static B mag(Tape& t, bool nearlim) { if (nearlim) { Q q = two_pow(t.range(60, 70)) + Q(t.range(0, 3)); return q; } Q q(t.range(1, 12), t.range(1, 6)); q.canonicalize(); return q; }
  static B zero() { return Q(0); } static B negate(const B& b) { return -b; }
};
typedef Z_Box::interval_type ZI;
template <> struct Tr<ZI> {
  typedef mpz_class B; static const char* name() { return "Z"; } static const Kind kind = KZ; static const bool has_open = false;
  static bool finite(const B&) { return true; }
  static Q toQ(const B& b) { return Q(b); }
  static bool repr(const Q& q) { return is_int(q); }
  static B mag(Tape& t, bool nearlim) { if (nearlim) { mpz_class z(1); z <<= (unsigned long) t.range(62, 66); z += t.range(-2, 2); return z; } return mpz_class(t.range(1, 12)); }
  static B zero() { return mpz_class(0); } static B negate(const B& b) { return -b; }
};
template <typename N> struct TrNative {
  typedef N B; static const Kind kind = KI; static const bool has_open = false;
  static bool finite(const B&) { return true; }
  static Q toQ(const B& b) { return Q((long) b); }
  static bool repr(const Q& q) { return is_int(q) && q >= Q((long) std::numeric_limits<N>::min()) && q <= Q((long) std::numeric_limits<N>::max()); }
  static B mag(Tape& t, bool nearlim) { if (nearlim) return (N) (std::numeric_limits<N>::max() - (N) t.range(0, 3)); return (N) t.range(1, 12); }
  static B zero() { return 0; }
  static B negate(const B& b) { return (N) -b; }      // magnitudes are <= max, so no overflow
};
typedef Int8_Box::interval_type I8I;
typedef Int32_Box::interval_type I32I;
template <> struct Tr<I8I> : TrNative<int8_t> { static const char* name() { return "I8"; } };
template <> struct Tr<I32I> : TrNative<int32_t> { static const char* name() { return "I32"; } };
template <typename F> struct TrFloat {
  typedef F B; static const Kind kind = KF; static const bool has_open = true;
  static bool finite(const B& b) { return std::isfinite(b); }
  static Q toQ(const B& b) { return Q((double) b); }     // float -> double and double -> mpq are exact
  static bool repr(const Q& q) {
    if (q == 0) return true;
    // q = m * 2^e with odd m: representable iff m fits the significand and the exponent range allows it
    mpz_class num = abs(q.get_num()), den = q.get_den();
    if (mpz_popcount(den.get_mpz_t()) != 1) return false;
    long e = -(long) mpz_scan1(den.get_mpz_t(), 0); unsigned long tz = mpz_scan1(num.get_mpz_t(), 0); num >>= tz; e += (long) tz;
    long bits = (long) mpz_sizeinbase(num.get_mpz_t(), 2); const long P = std::numeric_limits<F>::digits;
    if (bits > P) return false;
    long emin = std::numeric_limits<F>::min_exponent - P;          // exponent of the least subnormal bit (-149 / -1074)
    if (e < emin) return false;
    if (e + bits > std::numeric_limits<F>::max_exponent) return false;
    return true;
  }
  static B mag(Tape& t, bool nearlim) {
    const int P = std::numeric_limits<F>::digits;
    if (nearlim) {
      switch (t.range(0, 5)) {
      case 0: return std::numeric_limits<F>::max();
      case 1: return std::numeric_limits<F>::denorm_min();
      case 2: return std::numeric_limits<F>::min();
      case 3: return std::ldexp((F) 1, std::numeric_limits<F>::max_exponent - 2);
      case 4: return std::ldexp((F) (t.range(1, 1000)), std::numeric_limits<F>::min_exponent - P);      // subnormal
      default: return std::ldexp((F) (t.range(1, 1000)), std::numeric_limits<F>::max_exponent - 11);   // huge
      }
    }
    switch (t.weighted({4, 3, 3})) {
    case 0: return (F) t.range(1, 12);                                  // small integer
    case 1: return std::ldexp((F) t.range(1, 64), (int) -t.range(0, 6));   // dyadic
    default: {                                                         // full significand: 1 + k ulp, or a tape-chosen significand
      long hi = t.range(1, (1L << 20)); F m = (F) hi; if (P > 24) m = m * (F) 4294967296.0 + (F) t.range(0, 4294967295L);   // exact: < 2^53
      else m = m * (F) 16 + (F) t.range(0, 15);
      return std::ldexp(m, (int) t.range(-P - 8, 8) ); }
    }
  }
  static B zero() { return 0; } static B negate(const B& b) { return -b; }
};
typedef Float_Box::interval_type FI;
typedef Double_Box::interval_type DI;
template <> struct Tr<FI> : TrFloat<float> { static const char* name() { return "F"; } };
template <> struct Tr<DI> : TrFloat<double> { static const char* name() { return "D"; } };

// ------------------------------------------------------------------ library <-> model
template <typename ITV> static RI from_ppl(Ctx& c, const ITV& i, const char* where) {
  typedef Tr<ITV> T; RI r; r.empty = i.is_empty(); if (r.empty) return r;
  r.lo = i.lower_is_boundary_infinity() ? minf() : End(); r.hi = i.upper_is_boundary_infinity() ? pinf() : End();
  if (!r.lo.inf) { if (!T::finite(i.lower())) throw Fail(std::string(T::name()) + ".bound.finite", std::string(where) + ": lower bound is not finite and not a boundary infinity");
    r.lo = fin(T::toQ(i.lower()), i.lower_is_open()); }
  if (!r.hi.inf) { if (!T::finite(i.upper())) throw Fail(std::string(T::name()) + ".bound.finite", std::string(where) + ": upper bound is not finite and not a boundary infinity");
    r.hi = fin(T::toQ(i.upper()), i.upper_is_open()); }
  return r;
}
template <typename ITV> struct Op { ITV i; RI m; };     // library object + its denotation (as read back after construction)

// Operand shapes by construction.
template <typename ITV> static Op<ITV> gen(Ctx& c, const char* nm, int forced_shape = -1) {
  typedef Tr<ITV> T; typedef typename T::B B; Tape& t = c.t;
  int shape = forced_shape >= 0 ? forced_shape : t.weighted({10, 8, 14, 10, 10, 7, 7, 7, 7, 4, 4, 8, 4});
  bool nearlim = (shape == 11);
  B m1 = T::mag(t, nearlim && t.chance(70)), m2 = T::mag(t, nearlim && t.chance(70));
  if (T::toQ(m2) < T::toQ(m1)) std::swap(m1, m2);                 // 0 < m1 <= m2
  bool lo_inf = false, hi_inf = false, empty = false; B lo = T::zero(), hi = T::zero();
  static const char* names[] = { "general", "singleton", "straddle", "positive", "negative", "touch0.lo", "touch0.hi", "lower-unbounded", "upper-unbounded", "universe", "empty", "near-limits", "zero" };
  switch (shape) {
  case 0: if (t.chance(50)) { lo = T::negate(m1); hi = m2; } else if (t.chance(50)) { lo = m1; hi = m2; } else { lo = T::negate(m2); hi = T::negate(m1); } break;
  case 1: lo = hi = t.chance(50) ? m1 : T::negate(m1); break;
  case 2: lo = T::negate(m1); hi = m2; if (t.chance(50)) { lo = T::negate(m2); hi = m1; } break;
  case 3: lo = m1; hi = m2; break;
  case 4: lo = T::negate(m2); hi = T::negate(m1); break;
  case 5: lo = T::zero(); hi = m2; break;
  case 6: lo = T::negate(m2); hi = T::zero(); break;
  case 7: lo_inf = true; hi = t.chance(50) ? m1 : t.chance(50) ? T::negate(m1) : T::zero(); break;
  case 8: hi_inf = true; lo = t.chance(50) ? T::negate(m1) : t.chance(50) ? m1 : T::zero(); break;
  case 9: lo_inf = hi_inf = true; break;
  case 10: empty = true; break;
  case 11: { int k = (int) t.range(0, 3); if (k == 0) { lo = T::negate(m2); hi = m2; } else if (k == 1) { lo = m1; hi = m2; } else if (k == 2) { lo = T::negate(m2); hi = T::negate(m1); } else { lo = hi = m2; } } break;
  default: lo = hi = T::zero(); break;
  }
  bool lo_open = T::has_open ? t.chance(35) : false, hi_open = T::has_open ? t.chance(35) : false;
  bool strict_lo = T::has_open ? lo_open : t.chance(15), strict_hi = T::has_open ? hi_open : t.chance(15);   // integer types: a strict constraint keeps the bound (superset)
  if (!lo_inf && !hi_inf && T::toQ(lo) == T::toQ(hi) && shape != 10) { if (!(t.chance(10))) { lo_open = hi_open = strict_lo = strict_hi = false; } }
  Op<ITV> o; ITV& i = o.i; RI want;
  if (empty) {
    if (t.chance(60)) i.assign(EMPTY);
    else { B a = m2, b = m1; if (T::toQ(a) == T::toQ(b)) b = T::negate(b); i.build(i_constraint(GREATER_OR_EQUAL, a), i_constraint(LESS_OR_EQUAL, b)); }   // x >= a, x <= b < a
    want = r_empty();
  } else if (lo_inf && hi_inf) { if (t.chance(50)) i.assign(UNIVERSE); else i.build(); want = r_univ(); }
  else if (lo_inf) { i.build(i_constraint(strict_hi ? LESS_THAN : LESS_OR_EQUAL, hi)); want = mk(minf(), fin(T::toQ(hi), hi_open)); }
  else if (hi_inf) { i.build(i_constraint(strict_lo ? GREATER_THAN : GREATER_OR_EQUAL, lo)); want = mk(fin(T::toQ(lo), lo_open), pinf()); }
  else if (T::toQ(lo) == T::toQ(hi) && !strict_lo && !strict_hi && t.chance(40)) { i.build(i_constraint(EQUAL, lo)); want = r_point(T::toQ(lo)); }
  else { i.build(i_constraint(strict_lo ? GREATER_THAN : GREATER_OR_EQUAL, lo), i_constraint(strict_hi ? LESS_THAN : LESS_OR_EQUAL, hi)); want = mk(fin(T::toQ(lo), lo_open), fin(T::toQ(hi), hi_open)); }
  c.check(std::string(T::name()) + ".build.ok", i.OK(), [&] { return std::string(nm) + ": OK() fails after build of " + show(want); });
  o.m = from_ppl(c, i, nm);
  c.check(std::string(T::name()) + ".build.denotation", same(o.m, want), [&] { return std::string(nm) + ": built " + show(want) + ", reads back as " + show(o.m); });
  c.tag(std::string("shape ") + names[shape]);
  c.log << nm << " = " << show(o.m) << "   (" << names[shape] << ")\n";
  return o;
}

// constructively chosen members of a model interval (ends when closed, points next to open ends, interior points)
static std::vector<Q> members(Tape& t, const RI& r, bool integers_only) {
  std::vector<Q> out; if (r.empty) return out;
  std::vector<Q> cand;
  if (r.lo.inf && r.hi.inf) { cand = { Q(0), Q(1), Q(-1), Q(1000), Q(-1000), Q(1, 3), Q(-7, 2) }; }
  else if (r.lo.inf) { for (Q d : { Q(0), Q(1, 1024), Q(1), Q(7, 3), Q(100000) }) cand.push_back(r.hi.v - d); cand.push_back(r.hi.v - two_pow(-80)); cand.push_back(Q(0)); }
  else if (r.hi.inf) { for (Q d : { Q(0), Q(1, 1024), Q(1), Q(7, 3), Q(100000) }) cand.push_back(r.lo.v + d); cand.push_back(r.lo.v + two_pow(-80)); cand.push_back(Q(0)); }
  else {
    Q w = r.hi.v - r.lo.v; cand = { r.lo.v, r.hi.v, r.lo.v + w / 2, r.lo.v + w / 1024, r.hi.v - w / 1024, r.lo.v + w * two_pow(-80), r.hi.v - w * two_pow(-80), Q(0) };
    long k = t.range(1, 6); cand.push_back(r.lo.v + w * Q(k, 7));
  }
  for (Q q : cand) {
    if (integers_only) { for (Q z : { floor_q(q), ceil_q(q) }) if (member(z, r)) out.push_back(z); }
    else if (member(q, r)) out.push_back(q);
  }
  return out;
}

static const Relation_Symbol RELS[] = { EQUAL, LESS_THAN, LESS_OR_EQUAL, GREATER_THAN, GREATER_OR_EQUAL, NOT_EQUAL };
static const char* rel_name(Relation_Symbol r) { switch (r) { case EQUAL: return "=="; case LESS_THAN: return "<"; case LESS_OR_EQUAL: return "<="; case GREATER_THAN: return ">"; case GREATER_OR_EQUAL: return ">="; default: return "!="; } }

// Variant binary c12_interval@SKIPKNOWN leaves out the classes of the candidate findings already understood, so that
// a survey can see what else there is (candidates, not known-finding ids: see the report of this harness).
//   mul-straddle   mul_assign with both operands strictly straddling zero (boundary info of the selected product is dropped)
//   difference2    the two-argument difference_assign
//   extend-lge     upper_extend(c) with an unconstrained c
//   refuniv-inf    refine_universal(<,<=,>,>=) against an interval whose relevant end is infinite
//   refuniv-ne     refine_universal(!=) exactness
//   intdiv-neg     native-integer division by a negative divisor (enclosure of non-integer quotients)
//   wrap-fullwidth, wrap-narrow   see wrap()
// Classes of recorded known findings (excluded when the id is active) and of defects repaired in /repo (never excluded).
static bool skip_known(Ctx& c, const char* cls) {
  const char* id = 0;
  if (!std::strcmp(cls, "refuniv-inf")) id = "KF-C12-1";
  else if (!std::strcmp(cls, "wrap-narrow")) id = "KF-C12-2";
  else if (!std::strcmp(cls, "refuniv-ne")) return true;      // exactness of refine_universal(!=) is not claimed (sound over-approximation)
  if (id && vf::kf(id)) { c.excluded(id); return true; }
  return false;
}
struct Skipped {};

template <typename ITV> struct Runner {
  typedef Tr<ITV> T; typedef typename T::B B;
  Ctx& c; Tape& t; std::string tn;
  Runner(Ctx& c_) : c(c_), t(c_.t), tn(T::name()) {}
  static bool ints_only() { return T::kind == KZ || T::kind == KI; }

  bool ends_repr(const RI& e) { if (e.empty) return true; return (e.lo.inf || T::repr(e.lo.v)) && (e.hi.inf || T::repr(e.hi.v)); }
  // what the type can say at best about the exact result e (closed ends when the type has no open ends)
  RI best(const RI& e) { return T::has_open ? e : closure(e); }

  // common verdicts for an operation with exact result e and library result z
  void verdict(const std::string& op, const RI& e, const ITV& z, const std::string& what, bool exact_expected = true) {
    c.check(tn + "." + op + ".ok", z.OK(), [&] { return what + ": result fails OK()"; });
    RI r = from_ppl(c, z, op.c_str());
    c.log << "  " << what << " = " << show(r) << "   exact " << show(e) << "\n";
    std::string k = ints_only() && !ends_repr(e) ? ".encl.real" : ".encl";
    c.check(tn + "." + op + k, subset(e, r), [&] { return what + ": exact result " + show(e) + " is not included in the library's " + show(r); });
    if (!ends_repr(e)) { c.nt(); c.tag("end not representable"); }
    // closed-only types cannot express an open end (nor the emptiness that follows from one): no exactness verdict there
    if (!T::has_open && !same(e, closure(e))) { c.tag("exactness n/a: open end on a closed-only type"); exact_expected = false; }
    if (exact_expected && ends_repr(e))
      c.check(tn + "." + op + ".exact", same(best(e), r), [&] { return what + ": library result " + show(r) + " differs from the exact result " + show(best(e)); });
    // observers on the result
    c.check(tn + ".is_singleton", z.is_singleton() == is_point(r), [&] { return what + ": is_singleton() = " + std::to_string(z.is_singleton()) + " on " + show(r); });
    if (!r.empty) {
      c.check(tn + ".is_bounded", z.is_bounded() == (!r.lo.inf && !r.hi.inf), [&] { return what + ": is_bounded() wrong on " + show(r); });
      c.check(tn + ".is_universe", z.is_universe() == (r.lo.inf && r.hi.inf), [&] { return what + ": is_universe() wrong on " + show(r); });
    }
  }
  void mixed_nt(const RI& a, const RI& b) {
    if (a.empty || b.empty) return;
    bool anyopen = (!a.lo.inf && a.lo.open) || (!a.hi.inf && a.hi.open) || (!b.lo.inf && b.lo.open) || (!b.hi.inf && b.hi.open);
    bool anyclosed = (!a.lo.inf && !a.lo.open) || (!a.hi.inf && !a.hi.open) || (!b.lo.inf && !b.lo.open) || (!b.hi.inf && !b.hi.open);
    if (anyopen && anyclosed) { c.nt(); c.tag("mixed open/closed"); }
  }
  static bool straddles(const RI& a) { return !a.empty && (a.lo.inf || a.lo.v < 0) && (a.hi.inf || a.hi.v > 0); }

  void arith() {
    int op = t.weighted({3, 3, 5, 5, 1});     // add sub mul div neg
    static const char* on[] = { "add", "sub", "mul", "div", "neg" }; std::string ops = on[op];
    Op<ITV> x = gen<ITV>(c, "x"), y = op == 4 ? x : gen<ITV>(c, "y");
    ITV z; int alias = (int) t.weighted({5, 2, 2});      // 0: fresh target, 1: target is x, 2: target is y
    bool scalar = op != 4 && is_point(y.m) && t.chance(40);   // singleton operand passed as a scalar of the bound type
    if (alias == 0) { if (t.chance(50)) z = gen<ITV>(c, "old z").i; }
    RI e; bool singular = false;
    switch (op) { case 0: e = r_add(x.m, y.m); break; case 1: e = r_sub(x.m, y.m); break; case 2: e = r_mul(x.m, y.m); break;
      case 3: e = r_div(x.m, y.m, &singular); break; default: e = r_neg(x.m); }
    std::ostringstream w; w << ops << "(x, y)" << (alias == 1 ? " [target aliases x]" : alias == 2 ? " [target aliases y]" : "") << (scalar ? " [y scalar]" : "");
    if (op == 4) { if (alias == 0) z.neg_assign(x.i); else { z = x.i; z.neg_assign(z); } }
    else if (scalar) {
      B yv = y.i.lower(); ITV xx = x.i; ITV& tgt = alias == 1 ? xx : z;
      switch (op) { case 0: tgt.add_assign(xx, yv); break; case 1: tgt.sub_assign(xx, yv); break; case 2: tgt.mul_assign(xx, yv); break; default: tgt.div_assign(xx, yv); }
      if (alias == 1) z = xx;
    } else {
      ITV xx = x.i, yy = y.i; ITV& tgt = alias == 1 ? xx : alias == 2 ? yy : z;
      switch (op) { case 0: tgt.add_assign(xx, yy); break; case 1: tgt.sub_assign(xx, yy); break; case 2: tgt.mul_assign(xx, yy); break; default: tgt.div_assign(xx, yy); }
      if (alias == 1) z = xx; else if (alias == 2) z = yy;
    }
    c.tag(tn + " " + ops);
    if (op == 2 && straddles(x.m) && straddles(y.m) && skip_known(c, "mul-straddle")) return;
    if (op == 3 && T::kind == KI && !y.m.empty && (y.m.lo.inf || y.m.lo.v < 0) && skip_known(c, "intdiv-neg")) return;
    if ((op == 2 || op == 3) && (straddles(x.m) || straddles(y.m))) { c.nt(); c.tag("mul/div straddling zero"); }
    mixed_nt(x.m, y.m);
    // members
    std::vector<Q> ma = members(t, x.m, ints_only()), mb = members(t, y.m, ints_only());
    RI r = from_ppl(c, z, ops.c_str());
    if (op == 4) mb.assign(1, Q(0));
    for (const Q& a : ma) for (const Q& b : mb) {
      Q v; switch (op) { case 0: v = a + b; break; case 1: v = a - b; break; case 2: v = a * b; break; case 3: if (b == 0) continue; v = a / b; break; default: v = -a; }
      c.check("oracle." + ops, member(v, e), [&] { std::ostringstream s; s << "harness oracle: " << a << " " << ops << " " << b << " = " << v << " not in " << show(e); return s.str(); });
      if (ints_only() && !is_int(v)) continue;
      c.check(tn + "." + ops + ".encl.pt", member(v, r), [&] { std::ostringstream s; s << w.str() << ": " << a << " in x, " << b << " in y, but " << v << " is not in the result " << show(r); return s.str(); });
    }
    verdict(ops, e, z, w.str(), !singular);
  }

  void setop() {
    int op = (int) t.range(0, 5);
    static const char* on[] = { "join", "intersect", "difference", "join2", "intersect2", "difference2" }; std::string ops = on[op];
    Op<ITV> x = gen<ITV>(c, "x"), y = gen<ITV>(c, "y"); ITV z;
    bool scalar = is_point(y.m) && t.chance(30);
    RI e = op % 3 == 0 ? r_join(x.m, y.m) : op % 3 == 1 ? r_meet(x.m, y.m) : r_diff(x.m, y.m);
    if (op < 3) {
      z = x.i;
      if (scalar) { B yv = y.i.lower(); if (op == 0) z.join_assign(yv); else if (op == 1) z.intersect_assign(yv); else z.difference_assign(yv); }
      else { if (op == 0) z.join_assign(y.i); else if (op == 1) z.intersect_assign(y.i); else z.difference_assign(y.i); }
    } else {
      if (t.chance(50)) z = gen<ITV>(c, "old z").i;
      if (op == 3) z.join_assign(x.i, y.i); else if (op == 4) z.intersect_assign(x.i, y.i); else z.difference_assign(x.i, y.i);
    }
    c.tag(tn + " " + ops);
    if (op == 5 && skip_known(c, "difference2")) return;
    if (!e.empty && !same(e, x.m) && !same(e, y.m)) { c.nt(); c.tag("set op cuts/extends"); }
    mixed_nt(x.m, y.m);
    verdict(ops, e, z, ops + "(x, y)" + (scalar ? " [y scalar]" : ""));
    // predicates
    bool cont = x.i.contains(y.i), scont = x.i.strictly_contains(y.i), disj = x.i.is_disjoint_from(y.i), eq = (x.i == y.i);
    c.check(tn + ".contains", cont == subset(y.m, x.m), [&] { return "x.contains(y) = " + std::to_string(cont); });
    c.check(tn + ".strictly_contains", scont == (subset(y.m, x.m) && !same(x.m, y.m)), [&] { return "x.strictly_contains(y) = " + std::to_string(scont); });
    c.check(tn + ".is_disjoint_from", disj == r_meet(x.m, y.m).empty, [&] { return "x.is_disjoint_from(y) = " + std::to_string(disj); });
    c.check(tn + ".equal", eq == same(x.m, y.m), [&] { return "x == y gives " + std::to_string(eq); });
  }

  void refine() {
    bool univ = t.chance(50); Relation_Symbol rel = RELS[t.range(0, 5)];
    Op<ITV> x = gen<ITV>(c, "x"), y = gen<ITV>(c, "y"); ITV z = x.i;
    bool scalar = is_point(y.m) && t.chance(30);
    RI e = univ ? r_ref_un(x.m, rel, y.m) : r_ref_ex(x.m, rel, y.m);
    std::string ops = univ ? "refine_universal" : "refine_existential";
    if (scalar) { B yv = y.i.lower(); if (univ) z.refine_universal(rel, yv); else z.refine_existential(rel, yv); }
    else { if (univ) z.refine_universal(rel, y.i); else z.refine_existential(rel, y.i); }
    c.tag(tn + " " + ops + " " + rel_name(rel));
    if (univ && !y.m.empty && ((y.m.lo.inf && (rel == LESS_THAN || rel == LESS_OR_EQUAL)) || (y.m.hi.inf && (rel == GREATER_THAN || rel == GREATER_OR_EQUAL))) && skip_known(c, "refuniv-inf")) return;
    bool exact_expected = true;
    if (univ && rel == NOT_EQUAL && skip_known(c, "refuniv-ne")) exact_expected = false;
    // closed-only types cannot express what a strict relation leaves
    if (!T::has_open && (rel == LESS_THAN || rel == GREATER_THAN || rel == NOT_EQUAL)) { exact_expected = false; c.tag("exactness n/a: strict relation on a closed-only type"); }
    if (!e.empty && !same(e, x.m)) { c.nt(); c.tag("refinement cuts"); }
    mixed_nt(x.m, y.m);
    // members of x satisfying the relation must survive
    RI r = from_ppl(c, z, ops.c_str());
    std::vector<Q> ma = members(t, x.m, ints_only());
    for (const Q& a : ma) {
      bool keep;
      if (y.m.empty) keep = univ;
      else {
        // decide  exists/forall b in y . a rel b  from the definition, by cases on the position of a
        const RI& Y = y.m; bool below_all = !Y.lo.inf && (a < Y.lo.v || (a == Y.lo.v && Y.lo.open)), above_all = !Y.hi.inf && (a > Y.hi.v || (a == Y.hi.v && Y.hi.open));
        bool is_min = !Y.lo.inf && !Y.lo.open && a == Y.lo.v, is_max = !Y.hi.inf && !Y.hi.open && a == Y.hi.v, inside = member(a, Y), pt = is_point(Y);
        switch (rel) {
        case LESS_THAN: keep = univ ? below_all : !(above_all || is_max); break;
        case LESS_OR_EQUAL: keep = univ ? (below_all || is_min) : !above_all; break;
        case GREATER_THAN: keep = univ ? above_all : !(below_all || is_min); break;
        case GREATER_OR_EQUAL: keep = univ ? (above_all || is_max) : !below_all; break;
        case EQUAL: keep = univ ? (pt && inside) : inside; break;
        default: keep = univ ? !inside : !(pt && inside); break;
        }
      }
      if (keep) {
        c.check("oracle." + ops, member(a, e), [&] { std::ostringstream s; s << "harness oracle: " << a << " satisfies " << rel_name(rel) << " but is not in " << show(e); return s.str(); });
        c.check(tn + "." + ops + ".encl.pt", member(a, r), [&] { std::ostringstream s; s << ops << "(" << rel_name(rel) << ", y): " << a << " in x satisfies the relation but is not in the result " << show(r); return s.str(); });
      }
    }
    verdict(ops, e, z, ops + "(" + rel_name(rel) + ", y)" + (scalar ? " [y scalar]" : ""), exact_expected);
    c.check(tn + "." + ops + ".within", subset(r, closure(x.m)), [&] { return ops + ": result " + show(r) + " exceeds x " + show(x.m); });
  }

  void extend() {
    int op = (int) t.range(0, 3);
    Op<ITV> x = gen<ITV>(c, "x"); ITV z = x.i; RI e = x.m; std::string ops;
    if (x.m.empty) { c.tag("extend of empty (skipped)"); return; }
    if (op == 0) { z.lower_extend(); e.lo = minf(); ops = "lower_extend"; }
    else if (op == 1) { z.upper_extend(); e.hi = pinf(); ops = "upper_extend"; }
    else {
      int k = (int) t.range(0, 3); B v = T::mag(t, false); if (t.chance(50)) v = T::negate(v);
      bool open = (k == 1) && T::has_open; std::ostringstream s;
      if (op == 2) {
        ops = "lower_extend_c";
        if (k == 0) { z.lower_extend(I_Constraint<B>()); e.lo = minf(); s << "unbounded"; }
        else { z.lower_extend(i_constraint(k == 1 ? GREATER_THAN : k == 2 ? GREATER_OR_EQUAL : EQUAL, v)); End ne = fin(T::toQ(v), open); if (lo_le(ne, e.lo)) e.lo = ne; s << (k == 1 ? "> " : k == 2 ? ">= " : "== ") << T::toQ(v); }
      } else {
        ops = "upper_extend_c";
        if (k == 0) { if (skip_known(c, "extend-lge")) return; z.upper_extend(I_Constraint<B>()); e.hi = pinf(); s << "unbounded"; }
        else { z.upper_extend(i_constraint(k == 1 ? LESS_THAN : k == 2 ? LESS_OR_EQUAL : EQUAL, v)); End ne = fin(T::toQ(v), open); if (hi_ge(ne, e.hi)) e.hi = ne; s << (k == 1 ? "< " : k == 2 ? "<= " : "== ") << T::toQ(v); }
      }
      c.log << "  constraint: " << s.str() << "\n";
      if (!same(e, x.m)) c.nt();
    }
    c.tag(tn + " " + ops);
    verdict(ops, e, z, ops + "(x)");
  }

  // assign across bound types: the target must contain the source, and be exact when the ends are representable
  template <typename FROM> void assign_from() {
    Op<FROM> x = gen<FROM>(c, (std::string("x:") + Tr<FROM>::name()).c_str()); ITV z; if (t.chance(50)) z = gen<ITV>(c, "old z").i;
    z.assign(x.i);
    c.tag(tn + " assign from " + Tr<FROM>::name());
    verdict(std::string("assign_from_") + Tr<FROM>::name(), x.m, z, "assign(x)");
  }

  void wrap() {
    // operands in a range where 8/16-bit wrapping does something
    int wbits = T::kind == KI && sizeof(B) == 1 ? 8 : (t.chance(70) ? 8 : 16); Bounded_Integer_Type_Width w = wbits == 8 ? BITS_8 : BITS_16;
    Bounded_Integer_Type_Representation rep = t.chance(50) ? UNSIGNED : SIGNED_2_COMPLEMENT;
    Q M = two_pow(wbits), mn = rep == UNSIGNED ? Q(0) : -M / 2, mx = mn + M - 1;
    ITV x; RI xm; long span = wbits == 8 ? 700 : 140000;
    if (T::kind == KI && sizeof(B) == 1) { Op<ITV> g = gen<ITV>(c, "x"); x = g.i; xm = g.m; }
    else if (t.chance(25)) { Op<ITV> g = gen<ITV>(c, "x"); x = g.i; xm = g.m; }
    else {
      long a = t.range(-span, span), len = t.weighted({3, 3, 1}) == 0 ? t.range(0, 40) : t.range(0, span); long b = a + len;
      bool lo_open = T::has_open && t.chance(25), hi_open = T::has_open && t.chance(25); if (a == b) lo_open = hi_open = false;
      B lo = (B) a, hi = (B) b; x.build(i_constraint(lo_open ? GREATER_THAN : GREATER_OR_EQUAL, lo), i_constraint(hi_open ? LESS_THAN : LESS_OR_EQUAL, hi));
      xm = from_ppl(c, x, "x"); c.log << "x = " << show(xm) << "\n";
    }
    // refinement: the range of the type, a sub-range, or an arbitrary operand
    ITV ref; RI refm; int rk = (int) t.weighted({5, 3, 2});
    if (rk == 2 || !T::repr(mx) || !T::repr(mn)) { Op<ITV> g = gen<ITV>(c, "refinement"); ref = g.i; refm = g.m; }
    else {
      Q lo = mn, hi = mx; if (rk == 1) { lo += t.range(0, 100); hi -= t.range(0, 100); }
      B l = (B) lo.get_d(), h = (B) hi.get_d();     // small integers: exact
      ref.build(i_constraint(GREATER_OR_EQUAL, l), i_constraint(LESS_OR_EQUAL, h)); refm = from_ppl(c, ref, "refinement"); c.log << "refinement = " << show(refm) << "\n";
    }
    ITV z = x; z.wrap_assign(w, rep, ref);
    c.tag(tn + " wrap");
    //   wrap-fullwidth   operand of width exactly 2^w;  wrap-narrow  2^w values do not fit the native bound type
    if (!xm.empty && !xm.lo.inf && !xm.hi.inf && xm.hi.v - xm.lo.v == M && skip_known(c, "wrap-fullwidth")) return;
    if ((!T::repr(mx) || !T::repr(mn)) && skip_known(c, "wrap-narrow")) return;
    c.check(tn + ".wrap.ok", z.OK(), "wrap_assign: result fails OK()");
    RI r = from_ppl(c, z, "wrap");
    c.log << "  wrap_assign(" << wbits << (rep == UNSIGNED ? ", unsigned" : ", signed") << ") = " << show(r) << "\n";
    if (xm.empty) { c.check(tn + ".wrap.empty", r.empty, [&] { return "wrap_assign of an empty interval gives " + show(r); }); return; }
    // integer members
    std::vector<Q> ms;
    if (!xm.lo.inf && !xm.hi.inf && xm.hi.v - xm.lo.v <= 64) { for (Q q = ceil_q(xm.lo.v); q <= xm.hi.v; q += 1) if (member(q, xm)) ms.push_back(q); }
    else ms = members(t, xm, true);
    bool wrapped = false;
    for (const Q& a : ms) {
      Q k = floor_q((a - mn) / M); Q wa = a - k * M; if (k != 0) wrapped = true;
      if (member(wa, refm))
        c.check(tn + ".wrap.encl.int", member(wa, r), [&] { std::ostringstream s; s << "wrap_assign(" << wbits << (rep == UNSIGNED ? ", unsigned" : ", signed") << ") of " << show(xm) << " with refinement " << show(refm) << ": member " << a << " wraps to " << wa
            << " which is in the refinement but not in the result " << show(r); return s.str(); });
    }
    if (wrapped) c.nt();
    if (!ints_only()) {
      std::vector<Q> rs = members(t, xm, false);
      for (const Q& a : rs) { Q k = floor_q((a - mn) / M); Q wa = a - k * M;
        if (member(wa, refm)) c.check(tn + ".wrap.encl.real", member(wa, r), [&] { std::ostringstream s; s << "wrap_assign of " << show(xm) << " with refinement " << show(refm) << ": real member " << a << " wraps to " << wa << " not in the result " << show(r); return s.str(); }); }
    }
    c.check(tn + ".wrap.within_refinement", subset(r, closure(refm)), [&] { return "wrap_assign: result " + show(r) + " is not within the refinement " + show(refm); });
  }

  void run() {
    c.tag(std::string("type ") + T::name());
    switch (t.weighted({40, 20, 20, 7, 6, 7})) {
    case 0: arith(); break;
    case 1: setop(); break;
    case 2: refine(); break;
    case 3: extend(); break;
    case 4: if (T::kind == KQ) { if (t.chance(50)) this->template assign_from<DI>(); else if (t.chance(50)) this->template assign_from<FI>(); else this->template assign_from<ZI>(); }
            else this->template assign_from<Rational_Interval>();
            break;
    default: wrap(); break;
    }
  }
};

void vf_case(Ctx& c) {
#ifdef VF_QONLY
  int ty = 0;
#else
  int ty = c.t.weighted({30, 12, 10, 8, 20, 20});
#endif
  switch (ty) {
  case 0: Runner<Rational_Interval>(c).run(); break;
  case 1: Runner<ZI>(c).run(); break;
  case 2: Runner<I8I>(c).run(); break;
  case 3: Runner<I32I>(c).run(); break;
  case 4: Runner<FI>(c).run(); break;
  default: Runner<DI>(c).run(); break;
  }
}
VF_MAIN
