// C10: partially reduced products.
//   A product (d1, d2) denotes  gamma(d1) /\ gamma(d2).  Every reduction (smash, constraints, congruences,
//   shape preserving) may shrink the components but must leave that intersection unchanged; every transformer
//   returns a product whose intersection contains the exact image of the argument's intersection; definite
//   answers of predicates are true of the intersections.
//
// The MODEL of a product is the pair of its raw components, read WITHOUT triggering reduce() (a derived class
// exposes the protected members d1, d2 and the reduced flag): non-grid components as ref::Sys (their constraints()
// are exact), Grid components as an rl::Grid rebuilt from their congruences.
//   * non-grid pairs: the intersection is a ref::Sys and every statement is decided exactly (LP / Fourier-Motzkin);
//   * pairs with a Grid: membership of a POINT is exact, statements are checked on a finite window sample
//     (half-lattice points around the origin) and on exactly computed image points.
//
// Known findings (guards):
//   KF-C10-1  difference_assign() is computed component-wise, (x1 \ y1, x2 \ y2): every point of x that lies in
//             exactly one of y's (reduced) components is NOT in y, hence belongs to x \ y, but is removed.
//             Checks op.difference_assign.sound / .points.  Guard: those points only (the expectation is
//             narrowed to x \ (y1 U y2)).
//   KF-C10-2  maximize()/minimize(): when both components bound the expression the LOOSER bound is returned
//             (the comment in the code says "use the minimum values"), together with that component's
//             `maximum' flag and generator.  Check q.optimize.tightest.  Guard: that comparison only.
//   KF-C10-3  Product(cs) / Product(cgs) / add_constraint(s) / add_recycled_constraints / add_congruence(s) /
//             add_recycled_congruences forward to the components' constructors / add_* methods, which throw
//             std::invalid_argument for anything the component cannot represent exactly (an inequality for a Grid,
//             a proper congruence for a polyhedron/box/shape, a non-difference constraint for a BD_Shape, ...): the
//             product documents only dimension-incompatibility, and Examples 1-4 of the class documentation all
//             throw.  Moreover the calls are not exception safe: the other component may already have been refined
//             and the `reduced' flag is left set, so OK() is false afterwards.
//             Checks op.add.undocumented_exception, q.OK.  Guard: the throwing calls / objects that went through one.
//   KF-C10-4  unconstrain, upper_bound_assign(_if_exact), time_elapse_assign, topological_closure_assign and the
//             dimension-changing operators leave the `reduced' flag set although their result need not be reduced
//             (e.g. (P, B) reduced, then unconstrain x0: P' implies x1 <= 0, B' is the universe): OK() is false and
//             later observers never reduce again.  Check q.OK.  Guard: objects whose flag survived such an operator.
//   KF-C10-7  strictly_contains(y) is (d1 >= y.d1 && d2 > y.d2) || (d2 >= y.d2 && d1 > y.d1): it answers true for two
//             products denoting the SAME set whose second components differ only by constraints that are
//             redundant for the intersection (C_Polyhedron x BD_Shape Constraints_Product: a = {x,y >= 0, x+y <= 1},
//             b = a refined with x <= 1).  Check q.strictly_contains.strict.  Guard: that comparison only.
//   KF-C10-8  OK() demands that reduce() be idempotent, but Constraints_Reduction (one pass d1 <- d2, d2 <- d1, and
//             Box/BD_Shape refinement without propagation to a fixpoint) is not: OK() is false right after a genuine
//             reduction.  Check q.OK.  Guard: flag set, neither KF-C10-3 nor KF-C10-4 applies, both components OK().
//   KF-C10-5  (base level, shows through the product) Box::relation_with(const Congruence&) mis-computes the
//             representative of a proper congruence when the expression is negative on the box
//             (box {x = 2}, -3x - 2 = 0 (mod 4): IS_DISJOINT although -8 = 0 (mod 4)); the product ORs the claims.
//             Checks q.relation_with_congruence.disjoint / .included.  Guard: Box pairs, proper congruences.
//   KF-C10-6  (base level, shows through the product) BD_Shape / Octagonal_Shape::relation_with(const Congruence&)
//             use truncating % on negative values (BD_Shape_templates.hh:1471-1485): shape {1 <= x <= 2},
//             x - 4 = 0 (mod 3) gives IS_DISJOINT although x = 1 satisfies it.
//             Check q.relation_with_congruence.disjoint.  Guard: BD_Shape/Octagonal_Shape pairs, proper congruences.
#include "poly_common.hh"
#include "reflattice_x.hh"
#include <type_traits>

const vf::Info vf_info = { "C10", "c10_product", 3.0 };
using namespace vf;
typedef std::vector<Vec> Pts;

// ---------------------------------------------------------------- relation helpers (as in poly_prog.cc)
static Relation_Symbol RS(int s) { static const Relation_Symbol t[5] = { LESS_THAN, LESS_OR_EQUAL, EQUAL, GREATER_OR_EQUAL, GREATER_THAN }; return t[s]; }
static const char* RSN(int s) { static const char* t[5] = { "<", "<=", "=", ">=", ">" }; return t[s]; }
// relation  den*lhs(w)  sym  rhs(v)  over (v: 0..n-1 old, w: n..2n-1 new), with frame w_i = v_i where lhs.a[i]==0
static void add_rel(Sys& s, size_t n, const LE& lhs, int sym, const LE& rhs, const mpz_class& den, bool with_frame) {
  Con c; c.a.assign(2 * n, Q(0));
  for (size_t j = 0; j < n; ++j) { c.a[n + j] += Q(den) * Q(lhs.a[j]); c.a[j] -= Q(rhs.a[j]); }
  c.b = Q(den) * Q(lhs.b) - Q(rhs.b);
  int sy = sym; if (den < 0) sy = 4 - sym;
  if (sy == 2) c.r = ref::EQ; else if (sy == 3) c.r = ref::GE; else if (sy == 4) c.r = ref::GT;
  else { for (size_t t = 0; t < c.a.size(); ++t) c.a[t] = -c.a[t]; c.b = -c.b; c.r = (sy == 1) ? ref::GE : ref::GT; }
  s.add(c);
  if (with_frame) for (size_t i = 0; i < n; ++i) if (lhs.a[i] == 0) { Con f; f.a.assign(2 * n, Q(0)); f.a[i] = 1; f.a[n + i] = -1; f.b = 0; f.r = ref::EQ; s.add(f); }
}
static Sys rel_apply(const Sys& p, size_t n, const std::vector<Con>& rel, bool image) {
  if (ref::is_empty(p)) return ref::empty_sys(n);
  Sys s(2 * n);
  for (size_t i = 0; i < p.cs.size(); ++i) { Con c; c.a.assign(2 * n, Q(0)); for (size_t j = 0; j < n; ++j) c.a[(image ? 0 : n) + j] = p.cs[i].a[j]; c.b = p.cs[i].b; c.r = p.cs[i].r; s.add(c); }
  for (size_t i = 0; i < rel.size(); ++i) s.add(rel[i]);
  if (image) for (size_t i = 0; i < s.cs.size(); ++i) { Vec a(2 * n); for (size_t j = 0; j < n; ++j) { a[j] = s.cs[i].a[n + j]; a[n + j] = s.cs[i].a[j]; } s.cs[i].a = a; }
  return ref::project_last(s, n);
}
static bool rel_holds(const std::vector<Con>& rel, const Vec& oldp, const Vec& newp) {
  Vec vw(oldp); vw.insert(vw.end(), newp.begin(), newp.end());
  for (size_t i = 0; i < rel.size(); ++i) if (!rel[i].sat(vw)) return false;
  return true;
}
static Q le_eval(const LE& e, const Vec& x) { Q v = Q(e.b); for (size_t j = 0; j < e.a.size(); ++j) if (e.a[j] != 0) v += Q(e.a[j]) * x[j]; return v; }
static std::string show_pt(const Vec& x) { std::ostringstream o; o << "("; for (size_t i = 0; i < x.size(); ++i) o << (i ? "," : "") << x[i]; o << ")"; return o.str(); }

// congruence  e = 0 (mod m)   (m == 0: equality)
struct RCg { LE e; long m; };
static bool cg_holds(const RCg& g, const Vec& x) { Q v = le_eval(g.e, x); if (g.m == 0) return v == 0; Q r = v / Q(g.m); return r.get_den() == 1; }
static Congruence to_ppl(const RCg& g) { return (g.e.ppl() %= 0) / Coefficient(g.m); }
static std::string str(const RCg& g) { return g.e.str() + " = 0 (mod " + std::to_string(g.m) + ")"; }
static bool ppl_cg_holds(const Congruence& cg, const Vec& x) {
  Q v = Q(mpz_class(cg.inhomogeneous_term()));
  for (size_t j = 0; j < cg.space_dimension() && j < x.size(); ++j) v += Q(mpz_class(cg.coefficient(Variable(j)))) * x[j];
  mpz_class m(cg.modulus()); if (m == 0) return v == 0; Q r = v / Q(m); return r.get_den() == 1;
}

// ---------------------------------------------------------------- component models
struct Comp {
  bool grid = false; size_t n = 0; Sys sys; rl::Grid g;
  bool has(const Vec& x) const { return grid ? g.contains_point(x) : sys.sat(x); }
  std::string show() const { return grid ? "grid{" + g.show() + "}" : show_sys(sys); }
  bool universe() const { return grid ? (!g.empty && g.lines.size() == n) : ref::is_universe(sys); }
};
static Comp read_comp(const Grid& d, size_t n) {
  Comp c; c.grid = true; c.n = n; c.sys = Sys(n); c.g = rl::Grid(n);
  Grid cp(d); const Congruence_System& cgs = cp.congruences();
  for (Congruence_System::const_iterator i = cgs.begin(); i != cgs.end(); ++i) {
    rl::Vec a(n, rl::Q(0)); for (size_t j = 0; j < i->space_dimension() && j < n; ++j) a[j] = rl::Q(mpz_class(i->coefficient(Variable(j))));
    c.g.add_congruence(a, rl::Q(-mpz_class(i->inhomogeneous_term())), rl::Q(mpz_class(i->modulus())));
  }
  return c;
}
template <typename D> static Comp read_comp(const D& d, size_t n) { Comp c; c.n = n; D cp(d); c.sys = to_ref(cp.constraints(), n); c.g = rl::Grid(n); return c; }
static bool comp_included(const Comp& x, const Comp& y) { return x.grid ? y.g.contains(x.g) : ref::included(x.sys, y.sys); }

// window sample: half-lattice points around the origin
static const Pts& window(size_t n) {
  static std::map<size_t, Pts> cache; std::map<size_t, Pts>::iterator it = cache.find(n); if (it != cache.end()) return it->second;
  Pts out;
  if (n == 0) out.push_back(Vec());
  else if (n == 1) { for (long k = -12; k <= 12; ++k) out.push_back(Vec(1, mkq(k, 2))); }
  else if (n == 2) { for (long a = -6; a <= 6; ++a) for (long b = -6; b <= 6; ++b) { Vec v(2); v[0] = mkq(a, 2); v[1] = mkq(b, 2); out.push_back(v); } }
  else {
    std::vector<long> idx(n, -2);       // coordinates k in [-2,2]: integers k, and halves k/2
    for (;;) { for (int half = 0; half < 2; ++half) { bool dup = half == 1; if (half) { for (size_t j = 0; j < n; ++j) if (idx[j] % 2 != 0) dup = false; }
        if (!(half && dup)) { Vec v(n); for (size_t j = 0; j < n; ++j) v[j] = mkq(idx[j], half ? 2 : 1); out.push_back(v); } }
      size_t j = 0; while (j < n && idx[j] == 2) { idx[j] = -2; ++j; } if (j == n) break; ++idx[j]; }
  }
  return cache[n] = out;
}

struct Snap {
  size_t n = 0; Comp a, b; Sys I; bool grid = false, flag = false; std::vector<char> in1, in2;
  bool has(const Vec& x) const { return a.has(x) && b.has(x); }
  bool member(size_t i) const { return in1[i] && in2[i]; }
  Pts members(size_t cap) const { Pts out; const Pts& w = window(n); size_t cnt = 0; for (size_t i = 0; i < w.size(); ++i) if (member(i)) ++cnt;
    if (!cnt) return out; size_t stride = (cnt + cap - 1) / cap, k = 0; for (size_t i = 0; i < w.size(); ++i) if (member(i)) { if (k % stride == 0) out.push_back(w[i]); ++k; } return out; }
  std::string show() const { return "[d1 " + a.show() + " | d2 " + b.show() + (flag ? " | reduced]" : " | not reduced]"); }
};

// a few points of a non-empty Sys
static Pts witnesses(const Sys& s) {
  Pts out; Vec w; if (ref::is_empty(s, &w)) return out; out.push_back(w);
  for (size_t j = 0; j < s.n && out.size() < 4; ++j) for (int sg = -1; sg <= 1; sg += 2) { Sys t(s); Con c; c.a.assign(s.n, Q(0)); c.a[j] = sg; c.b = -Q(sg) * w[j] - 1; c.r = ref::GE; t.add(c); Vec v; if (!ref::is_empty(t, &v)) out.push_back(v); }
  return out;
}

template <typename D1, typename D2, typename R>
struct Peek : Partially_Reduced_Product<D1, D2, R> {
  typedef Partially_Reduced_Product<D1, D2, R> Base;
  using Base::Base;
  Peek() : Base() {}
  Peek(const Base& b) : Base(b) {}
  const D1& raw1() const { return this->d1; }
  const D2& raw2() const { return this->d2; }
  bool flag() const { return this->reduced; }
};

template <typename D1, typename D2, typename R>
struct Prog {
  typedef Peek<D1, D2, R> P;
  static const bool G = std::is_same<D1, Grid>::value;              // grid pair: sample oracle
  static const bool BOX = std::is_same<D2, Rational_Box>::value;    // Box: generalized/bounded images avoided (KF-C03-*)
  static const bool SHAPE = std::is_same<D2, BD_Shape<mpq_class> >::value || std::is_same<D2, Octagonal_Shape<mpq_class> >::value;
  static const bool NNC = (std::is_same<D1, NNC_Polyhedron>::value && BOX) || (G && (BOX || std::is_same<D2, NNC_Polyhedron>::value));   // strict constraints are representable
  Ctx& c; Tape& t; std::string name;
  struct Obj { P p; size_t n; Snap s; bool tainted = false;   // tainted: an add_* call threw half-way (KF-C10-3)
    bool stale = false;     // went through a transformer that keeps the `reduced' flag set (KF-C10-4)
    Obj(size_t n_, Degenerate_Element k) : p(n_, k), n(n_) {} };
  std::vector<Obj> pool;
  std::vector<long> wit, wit2;
  int changed_by_reduction = 0, strict_inter = 0;

  Prog(Ctx& c_, const std::string& nm) : c(c_), t(c_.t), name(nm) {}

  // ------------------------------------------------------------ snapshots
  Snap snap(const P& p, size_t n) {
    Snap s; s.n = n; s.grid = G; s.flag = p.flag();
    s.a = read_comp(p.raw1(), n); s.b = read_comp(p.raw2(), n);
    if (!G) s.I = ref::meet(s.a.sys, s.b.sys);
    else { const Pts& w = window(n); s.in1.resize(w.size()); s.in2.resize(w.size()); for (size_t i = 0; i < w.size(); ++i) { s.in1[i] = s.a.has(w[i]); s.in2[i] = s.in1[i] ? s.b.has(w[i]) : s.b.sys.sat(w[i]); } s.I = Sys(n); }
    return s;
  }
  void resnap(Obj& o) { o.s = snap(o.p, o.n); }
  bool comps_differ(const Snap& x, const Snap& y) { return !(comp_included(x.a, y.a) && comp_included(y.a, x.a) && comp_included(x.b, y.b) && comp_included(y.b, x.b)); }

  // a call that may only reduce: the intersection is unchanged, the components may only shrink
  void shrink_only(const char* what, Obj& o) {
    Snap before = o.s; Snap after = snap(o.p, o.n);
    std::string w = what;
    if (!G) {
      c.check("reduce.intersection", ref::equal(before.I, after.I), [&] { return w + " changed the intersection: before " + before.show() + " after " + after.show(); });
    } else {
      const Pts& win = window(o.n);
      for (size_t i = 0; i < win.size(); ++i) {
        c.check("reduce.point_lost", !(before.member(i) && !after.member(i)), [&] { return w + ": point " + show_pt(win[i]) + " of both components is no longer in both: before " + before.show() + " after " + after.show(); });
        c.check("reduce.point_appeared", !(!before.member(i) && after.member(i)), [&] { return w + ": point " + show_pt(win[i]) + " appeared: before " + before.show() + " after " + after.show(); });
      }
    }
    c.check("reduce.component_grew", comp_included(after.a, before.a) && comp_included(after.b, before.b), [&] { return w + ": a component grew: before " + before.show() + " after " + after.show(); });
    if (!before.a.universe() && !before.b.universe() && comps_differ(before, after)) { ++changed_by_reduction; c.tag("reduction changed a component"); c.tag("reduction changed a component: " + name); }
    o.s = after;
  }

  // ------------------------------------------------------------ expectations after a transformer
  void expect_pieces(const std::string& op, const Snap& after, const ref::Union& E, const std::string& ctx) {
    for (size_t i = 0; i < E.size(); ++i)
      c.check("op." + op + ".sound", ref::included(E[i], after.I), [&] { return op + ": piece " + show_sys(E[i]) + " of the exact image is not included in the result " + after.show() + "  " + ctx; });
  }
  void expect_points(const std::string& op, const Snap& after, const Pts& pts, const std::string& ctx) {
    for (size_t i = 0; i < pts.size(); ++i)
      c.check("op." + op + ".points", after.has(pts[i]), [&] { return op + ": image point " + show_pt(pts[i]) + " is not in both components of the result " + after.show() + "  " + ctx; });
  }
  // result must not exceed `before' (refinements)
  void expect_within(const std::string& op, const Snap& before, const Snap& after) {
    if (!G) c.check("op." + op + ".within", ref::included(after.I, before.I), [&] { return op + ": result " + after.show() + " not included in the argument " + before.show(); });
    else for (size_t i = 0; i < after.in1.size(); ++i) c.check("op." + op + ".within", !(after.member(i) && !before.member(i)), [&] { return op + ": point " + show_pt(window(after.n)[i]) + " appeared: " + before.show() + " -> " + after.show(); });
  }

  // an add_* call / constructor threw std::invalid_argument for a dimension-compatible argument (undocumented: KF-C10-3)
  void threw(const std::string& what, const std::exception& e) {
    c.tag(what + " threw");
    // Not a C10 matter (the property speaks of the intersection, not of which arguments are accepted): the call is taken as a rejection
    // and the model is re-read from the components by the caller.
    c.log << "    (" << what << " threw: " << e.what() << ")\n";
  }
  // ------------------------------------------------------------ generators
  LE small_le(size_t n, int zero_pct = 35) { LE e(n); for (size_t j = 0; j < n; ++j) e.a[j] = t.chance(zero_pct) ? 0 : t.range(-3, 3); e.b = t.range(-4, 4); return e; }
  void fix_con(RCon& k, const std::vector<long>& w) {
    mpz_class v = k.e.eval(w);
    if (k.kind == 0) k.e.b -= v;
    else { if (v < 0) { for (size_t j = 0; j < k.e.a.size(); ++j) k.e.a[j] = -k.e.a[j]; k.e.b = -k.e.b; v = -v; } if (k.kind == 2 && v == 0) k.e.b += 1; }
  }
  RCon gen_c(size_t n, const std::vector<long>& w, bool hostile) {
    RCon k; k.e = LE(n);
    int form = t.weighted({35, 25, 15, 25});     // interval, difference, octagonal sum, general
    if (form == 3 || n == 0) k.e = small_le(n);
    else { size_t i = t.range(0, (long) n - 1); long s = t.chance(50) ? 1 : -1; k.e.a[i] = s;
      if (form >= 1 && n >= 2) { size_t j = (i + 1 + t.range(0, (long) n - 2)) % n; k.e.a[j] = form == 1 ? -s : s; }
      k.e.b = t.range(-4, 4); }
    k.kind = t.weighted({20, 70, NNC ? 25 : 4});
    if (!hostile) fix_con(k, w);
    return k;
  }
  // lo <= d*x_i (+- x_j) <= hi around the witness, in halves: bounded directions make the congruence-based reductions fire
  std::vector<RCon> gen_interval(size_t n, const std::vector<long>& w) {
    std::vector<RCon> out; size_t i = t.range(0, (long) n - 1); LE base(n); base.a[i] = 2;
    if (n >= 2 && t.chance(30)) { size_t j = (i + 1 + t.range(0, (long) n - 2)) % n; base.a[j] = t.chance(50) ? 2 : -2; }
    mpz_class v = base.eval(w); long d1 = t.range(0, 5), d2 = t.range(0, 5);
    RCon lo; lo.e = base; lo.e.b = -v + d1; lo.kind = 1;                                   // base - (v - d1) >= 0
    RCon hi; hi.e = LE(n); for (size_t k = 0; k < n; ++k) hi.e.a[k] = -base.a[k]; hi.e.b = v + d2; hi.kind = 1;   // (v + d2) - base >= 0
    out.push_back(lo); out.push_back(hi); return out;
  }
  RCg gen_cg(size_t n, const std::vector<long>& w, bool hostile) {
    RCg g; g.e = LE(n); g.m = t.pick(std::vector<long>{2, 2, 3, 1, 4, 0});
    int form = t.weighted({50, 50});
    if (form == 0 && n > 0) { g.e.a[t.range(0, (long) n - 1)] = t.pick(std::vector<long>{1, 1, 2, -1}); g.e.b = t.range(-2, 2); }
    else g.e = small_le(n);
    if (!hostile) { mpz_class v = g.e.eval(w); if (g.m == 0) g.e.b -= v; else { mpz_class r = v % g.m; g.e.b -= r; } }
    return g;
  }
  std::string show_cs(const std::vector<RCon>& cs) { std::string s = "{"; for (size_t i = 0; i < cs.size(); ++i) s += (i ? ", " : "") + str(cs[i]); return s + "}"; }
  std::string show_cgs(const std::vector<RCg>& cs) { std::string s = "{"; for (size_t i = 0; i < cs.size(); ++i) s += (i ? ", " : "") + str(cs[i]); return s + "}"; }

  void make_obj(size_t n) {
    int kind = t.weighted({72, 8, 8, 12});
    Obj o(n, kind == 2 ? EMPTY : UNIVERSE);
    bool incons = t.chance(40);       // the non-grid constraints follow another witness: inconsistent components on purpose
    if (kind == 1) c.log << "  new(dim " << n << ", UNIVERSE)\n";
    else if (kind == 2) c.log << "  new(dim " << n << ", EMPTY)\n";
    else if (kind == 3) {
      bool viacs = t.chance(50);
      if (viacs) { std::vector<RCon> cs; int m = (int) t.range(1, 3); Constraint_System pcs; pcs.set_space_dimension(n);
        for (int i = 0; i < m; ++i) { cs.push_back(gen_c(n, wit, false)); pcs.insert(to_ppl(cs.back())); }
        c.log << "  new(dim " << n << ") from Constraint_System " << show_cs(cs);
        try { if (t.chance(50)) o.p = P(pcs); else { const Constraint_System& k = pcs; o.p = P(k); } c.log << "\n"; }
        catch (std::invalid_argument& e) { c.log << "   -> invalid_argument (universe kept)\n"; threw("ctor(cs)", e); o.p = P(n, UNIVERSE); } }
      else { std::vector<RCg> cs; int m = (int) t.range(1, 2); Congruence_System pcs; pcs.set_space_dimension(n);
        for (int i = 0; i < m; ++i) { cs.push_back(gen_cg(n, wit, false)); pcs.insert(to_ppl(cs.back())); }
        c.log << "  new(dim " << n << ") from Congruence_System " << show_cgs(cs);
        try { if (t.chance(50)) o.p = P(pcs); else { const Congruence_System& k = pcs; o.p = P(k); } c.log << "\n"; }
        catch (std::invalid_argument& e) { c.log << "   -> invalid_argument (universe kept)\n"; threw("ctor(cgs)", e); o.p = P(n, UNIVERSE); } }
    }
    else {
      c.log << "  new(dim " << n << ", UNIVERSE) refined with";
      int m1 = (int) t.range(0, 3), m2 = (int) t.range(0, G ? 2 : 1);
      int boxes = (int) t.weighted({45, 35, 20});
      for (int i = 0; i < boxes; ++i) { std::vector<RCon> iv = gen_interval(n, incons ? wit2 : wit); for (size_t k = 0; k < iv.size(); ++k) { c.log << " [" << str(iv[k]) << "]"; o.p.refine_with_constraint(to_ppl(iv[k])); } }
      for (int i = 0; i < m2; ++i) { RCg g = gen_cg(n, wit, false); c.log << " [" << str(g) << "]"; o.p.refine_with_congruence(to_ppl(g)); }
      for (int i = 0; i < m1; ++i) { RCon k = gen_c(n, incons ? wit2 : wit, false); c.log << " [" << str(k) << "]"; o.p.refine_with_constraint(to_ppl(k)); }
      c.log << "\n";
    }
    o.s = snap(o.p, n);
    pool.push_back(o);
  }

  Obj& partner(Obj& o) {
    size_t self = &o - &pool[0];
    std::vector<size_t> cand; for (size_t i = 0; i < pool.size(); ++i) if (i != self && pool[i].n == o.n) cand.push_back(i);
    if (cand.empty()) { size_t i = self == 0 ? 1 : 0; pool[i].p = pool[self].p; pool[i].n = pool[self].n; pool[i].s = pool[self].s; pool[i].tainted = pool[self].tainted; pool[i].stale = pool[self].stale; c.log << "  (obj" << i << " := copy of obj" << self << ")\n"; return pool[i]; }
    return pool[cand[t.range(0, (long) cand.size() - 1)]];
  }

  // ------------------------------------------------------------ transformers
  void t_constraints(Obj& o) {
    size_t n = o.n; Snap before = o.s;
    int cnt = (int) t.weighted({60, 25, 15}) + 1; std::vector<RCon> cs;
    bool other = t.chance(25);
    for (int i = 0; i < cnt; ++i) cs.push_back(gen_c(n, other ? wit2 : wit, t.chance(12)));
    if (t.chance(20)) { cs = gen_interval(n, other ? wit2 : wit); cnt = 2; }
    int how = cnt == 1 ? (int) t.weighted({60, 40}) : 2 + (int) t.weighted({50, 25, 25});
    static const char* nm[5] = { "refine_with_constraint", "add_constraint", "refine_with_constraints", "add_constraints", "add_recycled_constraints" };
    c.log << "  " << nm[how] << " " << show_cs(cs);
    Constraint_System pcs; pcs.set_space_dimension(n); for (size_t i = 0; i < cs.size(); ++i) pcs.insert(to_ppl(cs[i]));
    try {
      if (how == 0) o.p.refine_with_constraint(to_ppl(cs[0])); else if (how == 1) o.p.add_constraint(to_ppl(cs[0]));
      else if (how == 2) o.p.refine_with_constraints(pcs); else if (how == 3) o.p.add_constraints(pcs); else o.p.add_recycled_constraints(pcs);
      c.log << "\n";
    } catch (std::invalid_argument& e) { c.log << "   -> invalid_argument\n"; threw(nm[how], e); o.tainted = true; }
    Snap after = snap(o.p, n);
    std::string ctx = "argument " + before.show();
    if (!G) { Sys e = before.I; for (size_t i = 0; i < cs.size(); ++i) e.add(to_refcon(cs[i])); ref::Union E; E.push_back(e); expect_pieces("add_constraints", after, E, ctx); }
    else { Pts m = before.members(80), keep; for (size_t i = 0; i < m.size(); ++i) { bool ok = true; for (size_t k = 0; k < cs.size(); ++k) if (!to_refcon(cs[k]).sat(m[i])) ok = false; if (ok) keep.push_back(m[i]); } expect_points("add_constraints", after, keep, ctx); }
    expect_within("add_constraints", before, after);
    o.s = after;
  }
  void t_congruences(Obj& o) {
    size_t n = o.n; Snap before = o.s;
    int cnt = (int) t.weighted({70, 30}) + 1; std::vector<RCg> cs;
    for (int i = 0; i < cnt; ++i) cs.push_back(gen_cg(n, wit, t.chance(12)));
    int how = cnt == 1 ? (int) t.weighted({60, 40}) : 2 + (int) t.weighted({50, 25, 25});
    static const char* nm[5] = { "refine_with_congruence", "add_congruence", "refine_with_congruences", "add_congruences", "add_recycled_congruences" };
    c.log << "  " << nm[how] << " " << show_cgs(cs);
    Congruence_System pcs; pcs.set_space_dimension(n); for (size_t i = 0; i < cs.size(); ++i) pcs.insert(to_ppl(cs[i]));
    try {
      if (how == 0) o.p.refine_with_congruence(to_ppl(cs[0])); else if (how == 1) o.p.add_congruence(to_ppl(cs[0]));
      else if (how == 2) o.p.refine_with_congruences(pcs); else if (how == 3) o.p.add_congruences(pcs); else o.p.add_recycled_congruences(pcs);
      c.log << "\n";
    } catch (std::invalid_argument& e) { c.log << "   -> invalid_argument\n"; threw(nm[how], e); o.tainted = true; }
    Snap after = snap(o.p, n);
    std::string ctx = "argument " + before.show();
    if (!G) { // points with e = 0 satisfy every congruence
      Sys e = before.I; for (size_t i = 0; i < cs.size(); ++i) e.add(Con(cs[i].e.vec(), Q(cs[i].e.b), ref::EQ)); ref::Union E; E.push_back(e); expect_pieces("add_congruences", after, E, ctx);
      Pts w = witnesses(before.I), keep; for (size_t i = 0; i < w.size(); ++i) { bool ok = true; for (size_t k = 0; k < cs.size(); ++k) if (!cg_holds(cs[k], w[i])) ok = false; if (ok) keep.push_back(w[i]); } expect_points("add_congruences", after, keep, ctx); }
    else { Pts m = before.members(80), keep; for (size_t i = 0; i < m.size(); ++i) { bool ok = true; for (size_t k = 0; k < cs.size(); ++k) if (!cg_holds(cs[k], m[i])) ok = false; if (ok) keep.push_back(m[i]); } expect_points("add_congruences", after, keep, ctx); }
    expect_within("add_congruences", before, after);
    o.s = after;
  }
  void t_binary(Obj& o) {
    size_t n = o.n; Obj& y = partner(o); size_t yi = &y - &pool[0];
    int op = (int) t.weighted({25, 25, 15, 25, 10});
    static const char* nm[5] = { "intersection_assign", "upper_bound_assign", "upper_bound_assign_if_exact", "difference_assign", "time_elapse_assign" };
    Snap bx = o.s, by = y.s; o.tainted = o.tainted || y.tainted; o.stale = o.stale || y.stale;
    c.log << "  " << nm[op] << " obj" << yi;
    bool r = true;
    if (op == 0) o.p.intersection_assign(y.p); else if (op == 1) o.p.upper_bound_assign(y.p); else if (op == 2) r = o.p.upper_bound_assign_if_exact(y.p);
    else if (op == 3) o.p.difference_assign(y.p); else o.p.time_elapse_assign(y.p);
    if (op == 2) c.log << " -> " << r; c.log << "\n";
    shrink_only((std::string(nm[op]) + " (argument)").c_str(), y);           // y may only have been reduced
    Snap after = snap(o.p, n); const Snap& ay = y.s;
    std::string ctx = "x = " + bx.show() + "  y = " + by.show();
    ref::Union E; Pts pts;
    Pts mx = G ? bx.members(60) : Pts(), my = G ? by.members(60) : Pts();
    switch (op) {
    case 0: if (!G) E.push_back(ref::meet(bx.I, by.I)); else for (size_t i = 0; i < mx.size(); ++i) if (by.has(mx[i])) pts.push_back(mx[i]);
      expect_within(nm[op], bx, after); break;
    case 2: if (!r) { if (!G) c.check("op.upper_bound_assign_if_exact.false_unchanged", ref::equal(after.I, bx.I), [&] { return "returned false but the product changed: " + bx.show() + " -> " + after.show(); });
        else for (size_t i = 0; i < after.in1.size(); ++i) c.check("op.upper_bound_assign_if_exact.false_unchanged", after.member(i) == bx.member(i), [&] { return "returned false but the product changed at " + show_pt(window(n)[i]) + ": " + bx.show() + " -> " + after.show(); });
        break; }
      /* fall through */
    case 1: if (!G) { E.push_back(bx.I); E.push_back(by.I); } else { pts = mx; pts.insert(pts.end(), my.begin(), my.end()); } break;
    case 3: {
      bool bad = false;
      if (!G) { ref::Union full = ref::difference(bx.I, by.I);
        for (size_t i = 0; i < full.size(); ++i) if (!ref::included(full[i], after.I)) bad = true;
        if (bad && kf("KF-C10-1")) { c.excluded("KF-C10-1"); ref::Union d1 = ref::difference(bx.I, ay.a.sys); for (size_t i = 0; i < d1.size(); ++i) { ref::Union d2 = ref::difference(d1[i], ay.b.sys); E.insert(E.end(), d2.begin(), d2.end()); } }
        else E = full; }
      else { for (size_t i = 0; i < mx.size(); ++i) if (!by.has(mx[i])) { if (!after.has(mx[i]) && (ay.a.has(mx[i]) != ay.b.has(mx[i]))) { bad = true; if (kf("KF-C10-1")) continue; } pts.push_back(mx[i]); }
        if (bad && kf("KF-C10-1")) c.excluded("KF-C10-1"); }
      if (bad) c.tag("difference loses points of x \\ y");
      expect_within(nm[op], bx, after); break; }
    default: {   // { p + t q }: sampled (t integer for grids: Grid time-elapse uses integer multiples)
      Pts px = G ? bx.members(8) : witnesses(bx.I), qy = G ? by.members(8) : witnesses(by.I);
      for (size_t i = 0; i < px.size(); ++i) for (size_t j = 0; j < qy.size(); ++j) for (int k = 0; k < 4; ++k) {
        Q tt = G ? Q(k) : (k == 0 ? Q(0) : k == 1 ? mkq(1, 2) : k == 2 ? Q(1) : Q(5)); Vec v(n); for (size_t d = 0; d < n; ++d) v[d] = px[i][d] + tt * qy[j][d]; pts.push_back(v); }
      break; }
    }
    expect_pieces(nm[op], after, E, ctx); expect_points(nm[op], after, pts, ctx);
    if (after.flag) o.stale = true;
    o.s = after;
  }
  void t_misc(Obj& o) {
    size_t n = o.n; Snap before = o.s; std::string ctx = "argument " + before.show();
    int op = (int) t.weighted({45, 35, 20});
    if (op == 2) {   // drop_some_non_integer_points: every integer point must survive, nothing may appear
      Variables_Set vs; bool all = t.chance(50); std::set<size_t> ks;
      if (all) { for (size_t k = 0; k < n; ++k) ks.insert(k); c.log << "  drop_some_non_integer_points\n"; }
      else { c.log << "  drop_some_non_integer_points {"; for (size_t k = 0; k < n; ++k) if (t.chance(55)) { ks.insert(k); vs.insert(Variable(k)); c.log << " x" << k; } c.log << " }\n"; }
      Complexity_Class cc = t.pick(std::vector<Complexity_Class>{ ANY_COMPLEXITY, POLYNOMIAL_COMPLEXITY, SIMPLEX_COMPLEXITY });
      if (all) o.p.drop_some_non_integer_points(cc); else o.p.drop_some_non_integer_points(vs, cc);
      Snap after = snap(o.p, n); Pts pts; const Pts& w = window(n);
      for (size_t i = 0; i < w.size(); ++i) { bool integral = true; for (size_t k : ks) if (w[i][k].get_den() != 1) integral = false; if (integral && before.has(w[i])) pts.push_back(w[i]); }
      if (!G) { Pts ws = witnesses(before.I); for (size_t i = 0; i < ws.size(); ++i) { bool integral = true; for (size_t k : ks) if (ws[i][k].get_den() != 1) integral = false; if (integral) pts.push_back(ws[i]); } }
      expect_points("drop_some_non_integer_points", after, pts, ctx); expect_within("drop_some_non_integer_points", before, after);
      o.s = after; return;
    }
    if (op == 0) {
      std::set<size_t> ks; Variables_Set vs; bool single = t.chance(60);
      if (single) { size_t k = t.range(0, (long) n - 1); ks.insert(k); c.log << "  unconstrain x" << k << "\n"; o.p.unconstrain(Variable(k)); }
      else { c.log << "  unconstrain {"; for (size_t k = 0; k < n; ++k) if (t.chance(45)) { ks.insert(k); vs.insert(Variable(k)); c.log << " x" << k; } c.log << " }\n"; o.p.unconstrain(vs); }
      Snap after = snap(o.p, n);
      if (!G) { Sys e = before.I; for (size_t k : ks) e = ref::unconstrain(e, k); ref::Union E; E.push_back(e); expect_pieces("unconstrain", after, E, ctx); }
      else { Pts m = before.members(40), pts; static const long dn[5] = { 0, 1, -1, 1, 3 }, dd[5] = { 1, 2, 1, 1, 1 };
        for (size_t i = 0; i < m.size(); ++i) for (int d = 0; d < 5; ++d) { Vec v = m[i]; for (size_t k : ks) v[k] += mkq(dn[d], dd[d]); pts.push_back(v); }
        expect_points("unconstrain", after, pts, ctx); }
      if (after.flag) o.stale = true;
      o.s = after;
    } else {
      c.log << "  topological_closure_assign\n"; o.p.topological_closure_assign(); Snap after = snap(o.p, n);
      if (!G) { ref::Union E; E.push_back(ref::is_empty(before.I) ? ref::empty_sys(n) : ref::closure(before.I)); expect_pieces("topological_closure_assign", after, E, ctx); }
      else expect_points("topological_closure_assign", after, before.members(80), ctx);
      if (after.flag) o.stale = true;
      o.s = after;
    }
  }

  // candidate new states for an old state p under the relation (vars of lhs change)
  Pts candidates(const Vec& p, const LE& lhs, const LE& rhs, const LE* rhs2, const mpz_class& den, bool single) {
    Pts out; size_t n = p.size();
    std::vector<size_t> J; for (size_t j = 0; j < n; ++j) if (lhs.a[j] != 0) J.push_back(j);
    if (J.empty()) { out.push_back(p); return out; }
    static const long dn[5] = { 0, 1, -1, 1, -1 }, dd[5] = { 1, 1, 1, 2, 2 };
    if (single) { size_t k = J[0]; Q f = le_eval(rhs, p) / Q(den);
      for (int d = 0; d < 5; ++d) { Vec v = p; v[k] = f + mkq(dn[d], dd[d]); out.push_back(v); }
      if (rhs2) { Q f2 = le_eval(*rhs2, p) / Q(den); Vec v = p; v[k] = f2; out.push_back(v); v[k] = (f + f2) / 2; out.push_back(v); }
      return out; }
    for (size_t jj = 0; jj < J.size(); ++jj) for (int d = 0; d < 3; ++d) {
      size_t j = J[jj]; Q target = le_eval(rhs, p) - Q(lhs.b) + mkq(dn[d], 1);
      for (size_t i = 0; i < J.size(); ++i) if (J[i] != j) target -= Q(lhs.a[J[i]]) * p[J[i]];
      Vec v = p; v[j] = target / Q(lhs.a[j]); out.push_back(v); }
    return out;
  }
  void t_image(Obj& o) {
    size_t n = o.n; Snap before = o.s; std::string ctx = "argument " + before.show();
    int op = BOX ? (int) t.range(0, 1) : (int) t.weighted({22, 22, 12, 12, 8, 8, 8, 8});
    size_t k = t.range(0, (long) n - 1);
    LE rhs = small_le(n, 45), rhs2 = small_le(n, 45), lhs = small_le(n, 50);
    mpz_class den = t.pick(std::vector<long>{1, 1, -1, 2, -2, 3});
    int sym = (int) t.range(1, 3);
    LE var(n); var.a[k] = 1;
    Sys tmp(2 * n); bool image = true; const char* nm = ""; const LE* L = &var; const LE* R2 = 0; bool single = true; mpz_class d = den;
    try {
    switch (op) {
    case 0: nm = "affine_image"; c.log << "  affine_image x" << k << " := (" << rhs.str() << ")/" << den << "\n"; o.p.affine_image(Variable(k), rhs.ppl(), Coefficient(den)); add_rel(tmp, n, var, 2, rhs, den, true); break;
    case 1: nm = "affine_preimage"; c.log << "  affine_preimage x" << k << " := (" << rhs.str() << ")/" << den << "\n"; o.p.affine_preimage(Variable(k), rhs.ppl(), Coefficient(den)); add_rel(tmp, n, var, 2, rhs, den, true); image = false; break;
    case 2: nm = "generalized_affine_image"; c.log << "  generalized_affine_image x" << k << " " << RSN(sym) << " (" << rhs.str() << ")/" << den << "\n"; o.p.generalized_affine_image(Variable(k), RS(sym), rhs.ppl(), Coefficient(den)); add_rel(tmp, n, var, sym, rhs, den, true); break;
    case 3: nm = "generalized_affine_preimage"; c.log << "  generalized_affine_preimage x" << k << " " << RSN(sym) << " (" << rhs.str() << ")/" << den << "\n"; o.p.generalized_affine_preimage(Variable(k), RS(sym), rhs.ppl(), Coefficient(den)); add_rel(tmp, n, var, sym, rhs, den, true); image = false; break;
    case 4: nm = "generalized_affine_image_lhs"; c.log << "  generalized_affine_image " << lhs.str() << " " << RSN(sym) << " " << rhs.str() << "\n"; o.p.generalized_affine_image(lhs.ppl(), RS(sym), rhs.ppl()); add_rel(tmp, n, lhs, sym, rhs, 1, true); L = &lhs; single = false; d = 1; break;
    case 5: nm = "generalized_affine_preimage_lhs"; c.log << "  generalized_affine_preimage " << lhs.str() << " " << RSN(sym) << " " << rhs.str() << "\n"; o.p.generalized_affine_preimage(lhs.ppl(), RS(sym), rhs.ppl()); add_rel(tmp, n, lhs, sym, rhs, 1, true); L = &lhs; single = false; d = 1; image = false; break;
    case 6: nm = "bounded_affine_image"; c.log << "  bounded_affine_image (" << rhs.str() << ")/" << den << " <= x" << k << " <= (" << rhs2.str() << ")/" << den << "\n";
      o.p.bounded_affine_image(Variable(k), rhs.ppl(), rhs2.ppl(), Coefficient(den)); add_rel(tmp, n, var, 3, rhs, den, true); { Sys t2(2 * n); add_rel(t2, n, var, 1, rhs2, den, false); tmp.cs.push_back(t2.cs[0]); } R2 = &rhs2; break;
    default: nm = "bounded_affine_preimage"; c.log << "  bounded_affine_preimage (" << rhs.str() << ")/" << den << " <= x" << k << " <= (" << rhs2.str() << ")/" << den << "\n";
      o.p.bounded_affine_preimage(Variable(k), rhs.ppl(), rhs2.ppl(), Coefficient(den)); add_rel(tmp, n, var, 3, rhs, den, true); { Sys t2(2 * n); add_rel(t2, n, var, 1, rhs2, den, false); tmp.cs.push_back(t2.cs[0]); } R2 = &rhs2; image = false; break;
    }
    } catch (std::invalid_argument& e) { c.log << "   -> invalid_argument " << e.what() << "\n"; c.tag(std::string(nm) + " threw"); resnap(o); return; }
    c.tag(std::string("op ") + nm);
    Snap after = snap(o.p, n);
    if (!G) { ref::Union E; E.push_back(rel_apply(before.I, n, tmp.cs, image)); expect_pieces(nm, after, E, ctx); }
    else {
      Pts pts;
      if (image) { Pts m = before.members(40); for (size_t i = 0; i < m.size(); ++i) { Pts cd = candidates(m[i], *L, rhs, R2, d, single); for (size_t j = 0; j < cd.size(); ++j) if (rel_holds(tmp.cs, m[i], cd[j])) pts.push_back(cd[j]); } }
      else { const Pts& w = window(n); size_t stride = w.size() > 120 ? 2 : 1;
        for (size_t i = 0; i < w.size(); i += stride) { Pts cd = candidates(w[i], *L, rhs, R2, d, single); for (size_t j = 0; j < cd.size(); ++j) if (rel_holds(tmp.cs, w[i], cd[j]) && before.has(cd[j])) { pts.push_back(w[i]); break; } } }
      expect_points(nm, after, pts, ctx);
    }
    o.s = after;
  }

  void t_dims(Obj& o) {
    size_t n = o.n; Snap before = o.s; std::string ctx = "argument " + before.show();
    int op = (int) t.weighted({20, 20, 15, 15, 15, 15});
    Pts m = G ? before.members(40) : Pts(), pts; ref::Union E; const char* nm = ""; size_t n2 = n;
    switch (op) {
    case 0: { if (n >= 3) { t_misc(o); return; } size_t k = t.range(1, 3 - (long) n > 2 ? 2 : 3 - (long) n); bool emb = t.chance(50); nm = "add_space_dimensions";
      c.log << "  add_space_dimensions_and_" << (emb ? "embed " : "project ") << k << "\n";
      if (emb) o.p.add_space_dimensions_and_embed(k); else o.p.add_space_dimensions_and_project(k); n2 = n + k;
      if (!G) E.push_back(emb ? ref::embed(before.I, k) : ref::project(before.I, k));
      else for (size_t i = 0; i < m.size(); ++i) { static const long zn[4] = { 0, 1, -1, 2 }, zd[4] = { 1, 2, 1, 1 }; for (int z = 0; z < (emb ? 4 : 1); ++z) { Vec v = m[i]; v.resize(n2, mkq(zn[z], zd[z])); pts.push_back(v); } }
      break; }
    case 1: { if (n < 2) { t_misc(o); return; } std::set<size_t> rm; Variables_Set vs; bool higher = t.chance(35); nm = "remove_space_dimensions";
      if (higher) { size_t nd = t.range(1, (long) n - 1); for (size_t k = nd; k < n; ++k) rm.insert(k); c.log << "  remove_higher_space_dimensions " << nd << "\n"; o.p.remove_higher_space_dimensions(nd); }
      else { for (size_t k = 0; k < n; ++k) if (t.chance(40) && rm.size() + 1 < n) { rm.insert(k); vs.insert(Variable(k)); } c.log << "  remove_space_dimensions {"; for (size_t k : rm) c.log << " x" << k; c.log << " }\n"; o.p.remove_space_dimensions(vs); }
      n2 = n - rm.size();
      if (!G) E.push_back(ref::remove_dims(before.I, rm)); else for (size_t i = 0; i < m.size(); ++i) { Vec v; for (size_t k = 0; k < n; ++k) if (!rm.count(k)) v.push_back(m[i][k]); pts.push_back(v); }
      break; }
    case 2: { nm = "map_space_dimensions"; Partial_Function pf; std::vector<long> img(n, -1); std::vector<size_t> keep;
      for (size_t k = 0; k < n; ++k) if (t.chance(80)) keep.push_back(k); if (keep.empty()) keep.push_back(0);
      std::vector<size_t> perm(keep.size()); for (size_t i = 0; i < perm.size(); ++i) perm[i] = i;
      for (size_t i = perm.size(); i > 1; --i) std::swap(perm[i - 1], perm[t.range(0, (long) i - 1)]);
      c.log << "  map_space_dimensions {"; for (size_t i = 0; i < keep.size(); ++i) { pf.insert(keep[i], perm[i]); img[keep[i]] = (long) perm[i]; c.log << " x" << keep[i] << "->x" << perm[i]; } c.log << " }\n";
      o.p.map_space_dimensions(pf); n2 = keep.size();
      if (!G) { std::set<size_t> rm; for (size_t k = 0; k < n; ++k) if (img[k] < 0) rm.insert(k); Sys pr = ref::remove_dims(before.I, rm); std::vector<size_t> mp; for (size_t k = 0; k < n; ++k) if (img[k] >= 0) mp.push_back((size_t) img[k]); E.push_back(ref::rename(pr, mp, n2)); }
      else for (size_t i = 0; i < m.size(); ++i) { Vec v(n2); for (size_t k = 0; k < n; ++k) if (img[k] >= 0) v[img[k]] = m[i][k]; pts.push_back(v); }
      break; }
    case 3: { if (n >= 3) { t_misc(o); return; } nm = "expand_space_dimension"; size_t k = t.range(0, (long) n - 1), cnt = 1; c.log << "  expand_space_dimension x" << k << " by " << cnt << "\n";
      o.p.expand_space_dimension(Variable(k), cnt); n2 = n + cnt;
      if (!G) { Sys e = ref::embed(before.I, cnt); std::vector<size_t> mp(n); for (size_t i = 0; i < n; ++i) mp[i] = i; mp[k] = n; e = ref::meet(e, ref::rename(before.I, mp, n2)); if (ref::is_empty(before.I)) e = ref::empty_sys(n2); E.push_back(e); }
      else { for (size_t i = 0; i < m.size(); ++i) { Vec v = m[i]; v.push_back(m[i][k]); pts.push_back(v); }
        for (size_t i = 0; i < m.size() && i < 12; ++i) for (size_t j = 0; j < m.size() && j < 12; ++j) { bool same = true; for (size_t d = 0; d < n; ++d) if (d != k && m[i][d] != m[j][d]) same = false; if (same) { Vec v = m[i]; v.push_back(m[j][k]); pts.push_back(v); } } }
      break; }
    case 4: { if (n < 2) { t_misc(o); return; } nm = "fold_space_dimensions"; size_t dest = t.range(0, (long) n - 1); Variables_Set vs; std::set<size_t> fold;
      for (size_t k = 0; k < n; ++k) if (k != dest && t.chance(55)) { vs.insert(Variable(k)); fold.insert(k); }
      c.log << "  fold_space_dimensions {"; for (size_t k : fold) c.log << " x" << k; c.log << " } into x" << dest << "\n";
      o.p.fold_space_dimensions(vs, Variable(dest)); n2 = n - fold.size();
      std::vector<size_t> srcs(fold.begin(), fold.end()); srcs.push_back(dest);
      std::vector<size_t> newidx(n, 0); { size_t idx = 0; for (size_t k = 0; k < n; ++k) if (!fold.count(k)) newidx[k] = idx++; }
      if (!G) for (size_t si = 0; si < srcs.size(); ++si) { size_t v = srcs[si]; std::set<size_t> rm; for (size_t u : srcs) if (u != v) rm.insert(u);
          Sys pr = ref::remove_dims(before.I, rm); std::vector<size_t> remaining; for (size_t k = 0; k < n; ++k) if (!rm.count(k)) remaining.push_back(k);
          std::vector<size_t> mp(remaining.size()); for (size_t i = 0; i < remaining.size(); ++i) mp[i] = (remaining[i] == v) ? newidx[dest] : newidx[remaining[i]];
          E.push_back(ref::rename(pr, mp, n2)); }
      else for (size_t i = 0; i < m.size(); ++i) for (size_t si = 0; si < srcs.size(); ++si) { Vec v(n2); for (size_t k = 0; k < n; ++k) if (!fold.count(k)) v[newidx[k]] = m[i][k]; v[newidx[dest]] = m[i][srcs[si]]; pts.push_back(v); }
      break; }
    default: { Obj& y = pool[t.range(0, (long) pool.size() - 1)]; if (&y == &o || n + y.n > 3) { t_misc(o); return; } nm = "concatenate_assign";
      c.log << "  concatenate_assign obj" << (&y - &pool[0]) << "\n"; Snap by = y.s; ctx += "  y = " + by.show();
      o.p.concatenate_assign(y.p); n2 = n + y.n; o.tainted = o.tainted || y.tainted; o.stale = o.stale || y.stale; shrink_only("concatenate_assign (argument)", y);
      if (!G) E.push_back(ref::concatenate(before.I, by.I));
      else { Pts my = by.members(8); for (size_t i = 0; i < m.size() && i < 8; ++i) for (size_t j = 0; j < my.size(); ++j) { Vec v = m[i]; v.insert(v.end(), my[j].begin(), my[j].end()); pts.push_back(v); } }
      break; }
    }
    c.check("op.space_dimension", o.p.space_dimension() == n2, [&] { return std::string(nm) + ": space dimension " + std::to_string(o.p.space_dimension()) + ", expected " + std::to_string(n2); });
    o.n = n2; Snap after = snap(o.p, n2);
    expect_pieces(nm, after, E, ctx); expect_points(nm, after, pts, ctx);
    o.s = after;
  }

  // ------------------------------------------------------------ exhaustive search for a point of a grid pair
  // when the grid is discrete of full rank and the other component is bounded: 1 found, 0 none, -1 undecided
  int enumerate_mixed(const Snap& s) {
    const rl::Grid& g = s.a.g; size_t n = s.n;
    if (g.empty || ref::is_empty(s.b.sys)) return 0;
    if (!g.lines.empty() || g.params.size() != n) return -1;
    std::vector<Q> lo(n), hi(n);
    for (size_t j = 0; j < n; ++j) { Vec e(n, Q(0)); e[j] = 1; bool at; if (!ref::sup(s.b.sys, e, Q(0), hi[j], at) || !ref::inf(s.b.sys, e, Q(0), lo[j], at)) return -1; }
    // params are in echelon form: params[t] has pivot column t (ppiv[t] == t) and zeros before it
    for (size_t k = 0; k < n; ++k) if (g.ppiv[k] != k) return -1;
    long budget = 4000; int found = 0;
    std::function<void(size_t, Vec)> rec = [&](size_t k, Vec cur) {
      if (found || budget < 0) return;
      if (k == n) { --budget; if (s.b.sys.sat(cur)) found = 1; return; }
      Q step = g.params[k][k]; if (step < 0) step = -step;
      Q f = (lo[k] - cur[k]) / step; mpz_class k0; mpz_cdiv_q(k0.get_mpz_t(), f.get_num_mpz_t(), f.get_den_mpz_t());
      for (mpz_class kk = k0; ; ++kk) { Vec nx = cur; for (size_t d = 0; d < n; ++d) nx[d] += Q(kk) * g.params[k][d] * (g.params[k][k] < 0 ? -1 : 1); if (nx[k] > hi[k]) break; if (--budget < 0) return; rec(k + 1, nx); if (found) return; }
    };
    rec(0, g.p);
    if (found) return 1; return budget < 0 ? -1 : 0;
  }
  // component supremum of e (after the call): 0 unbounded / 1 bounded (value v) / -1 component empty
  int comp_sup(const Comp& k, const LE& e, bool maxi, Q& v) {
    if (k.grid) { if (k.g.empty) return -1; rl::Q v0, gq; rl::Vec a(k.n); for (size_t j = 0; j < k.n; ++j) a[j] = rl::Q(e.a[j]); if (!rl::value_set(k.g, a, rl::Q(e.b), v0, gq) || gq != 0) return 0; v = v0; return 1; }
    if (ref::is_empty(k.sys)) return -1; bool at; return (maxi ? ref::sup(k.sys, e.vec(), Q(e.b), v, at) : ref::inf(k.sys, e.vec(), Q(e.b), v, at)) ? 1 : 0;
  }

  // ------------------------------------------------------------ observers
  void observe(Obj& o) {
    size_t n = o.n; const P& p = o.p; Snap before = o.s;
    auto ctx = [&]() { return "  [product before the call " + before.show() + "]"; };
    bool iemp = !G && ref::is_empty(before.I);
    int q = (int) t.range(0, 21);
    std::string what = "observer";
    switch (q) {
    case 0: case 1: { bool r = p.is_empty(); what = "is_empty"; c.log << "  ? is_empty -> " << r << "\n";
      if (r) { if (!G) c.check("q.is_empty", iemp, [&] { return "is_empty() true but the intersection is not empty" + ctx(); });
        else { Pts m = before.members(1); c.check("q.is_empty", m.empty(), [&] { return "is_empty() true but " + show_pt(m[0]) + " is in both components" + ctx(); });
          int e = enumerate_mixed(before); if (e >= 0) c.tag("is_empty decided by enumeration"); c.check("q.is_empty.enum", e != 1, [&] { return "is_empty() true but exhaustive enumeration finds a common point" + ctx(); }); } }
      else if ((!G && iemp) || (G && enumerate_mixed(before) == 0)) c.tag("is_empty false on an empty intersection");
      break; }
    case 2: { bool r = p.is_universe(); what = "is_universe"; c.log << "  ? is_universe -> " << r << "\n";
      if (r) { if (!G) c.check("q.is_universe", ref::included(Sys(n), before.I), [&] { return "is_universe() true" + ctx(); }); else c.check("q.is_universe", before.members(100000).size() == window(n).size(), [&] { return "is_universe() true" + ctx(); }); }
      break; }
    case 3: case 4: case 5: case 6: { Obj& y = partner(o);
      if (t.chance(20)) { RCon k = gen_c(n, wit, false); y.p = o.p; y.n = o.n; y.tainted = o.tainted; y.stale = o.stale; y.p.refine_with_constraint(to_ppl(k)); resnap(y); c.log << "  (obj" << (&y - &pool[0]) << " := copy of this object refined with " << str(k) << ")\n"; }
      Snap by = y.s; int w = q - 3; static const char* nm[4] = { "contains", "strictly_contains", "is_disjoint_from", "==" };
      bool r = w == 0 ? p.contains(y.p) : w == 1 ? p.strictly_contains(y.p) : w == 2 ? p.is_disjoint_from(y.p) : (p == y.p);
      what = nm[w]; c.log << "  ? " << nm[w] << " obj" << (&y - &pool[0]) << " -> " << r << "\n";
      auto cy = [&]() { return ctx() + " y = " + by.show(); };
      if (r) {
        if (!G) { bool ok = w <= 1 ? ref::included(by.I, before.I) : w == 2 ? ref::is_empty(ref::meet(before.I, by.I)) : ref::equal(before.I, by.I);
          c.check(std::string("q.") + nm[w], ok, [&] { return std::string(nm[w]) + " answered true but it does not hold for the intersections" + cy(); }); }
        if (!G && w == 1 && ref::included(by.I, before.I)) { bool strict = !ref::included(before.I, by.I);
          // strictly_contains is documented component-wise; C10 only claims the definite answers empty / contains / disjoint / included /
          // bounded for the intersections, so strictness of the intersections is not demanded (containment was checked above).
          if (!strict) c.tag("strictly_contains true on equal intersections (component-wise semantics)"); }
        else for (size_t i = 0; i < before.in1.size(); ++i) { bool mx = before.member(i), my = by.member(i); bool ok = w <= 1 ? (!my || mx) : w == 2 ? !(mx && my) : mx == my;
          c.check(std::string("q.") + nm[w], ok, [&] { return std::string(nm[w]) + " answered true, refuted by the point " + show_pt(window(n)[i]) + cy(); }); }
      }
      shrink_only((what + " (argument)").c_str(), y); break; }
    case 7: case 8: { RCon rc = gen_c(n, wit, t.chance(50)); if (!NNC && rc.kind == 2 && t.chance(50)) rc.kind = 1;
      Poly_Con_Relation r = p.relation_with(to_ppl(rc)); what = "relation_with(c)"; std::ostringstream rs; rs << r; c.log << "  ? relation_with " << str(rc) << " -> " << rs.str() << "\n";
      Con cc = to_refcon(rc), hyp = cc; hyp.r = ref::EQ;
      bool inc = r.implies(Poly_Con_Relation::is_included()), dis = r.implies(Poly_Con_Relation::is_disjoint()), sat = r.implies(Poly_Con_Relation::saturates());
      if (!G) { if (inc) c.check("q.relation_with_constraint.included", ref::included_in_con(before.I, cc), [&] { return "is_included claimed for " + str(rc) + ctx(); });
        if (dis) { Sys m2(before.I); m2.add(cc); c.check("q.relation_with_constraint.disjoint", ref::is_empty(m2), [&] { return "is_disjoint claimed for " + str(rc) + ctx(); }); }
        if (sat) c.check("q.relation_with_constraint.saturates", ref::included_in_con(before.I, hyp), [&] { return "saturates claimed for " + str(rc) + ctx(); }); }
      else { Pts m = before.members(100000); for (size_t i = 0; i < m.size(); ++i) {
          if (inc) c.check("q.relation_with_constraint.included", cc.sat(m[i]), [&] { return "is_included claimed for " + str(rc) + ", refuted by " + show_pt(m[i]) + ctx(); });
          if (dis) c.check("q.relation_with_constraint.disjoint", !cc.sat(m[i]), [&] { return "is_disjoint claimed for " + str(rc) + ", refuted by " + show_pt(m[i]) + ctx(); });
          if (sat) c.check("q.relation_with_constraint.saturates", hyp.sat(m[i]), [&] { return "saturates claimed for " + str(rc) + ", refuted by " + show_pt(m[i]) + ctx(); }); } }
      break; }
    case 9: { RCg g = gen_cg(n, wit, t.chance(50)); Poly_Con_Relation r = p.relation_with(to_ppl(g)); what = "relation_with(cg)"; std::ostringstream rs; rs << r; c.log << "  ? relation_with " << str(g) << " -> " << rs.str() << "\n";
      bool inc = r.implies(Poly_Con_Relation::is_included()), dis = r.implies(Poly_Con_Relation::is_disjoint());
      Pts m = G ? before.members(100000) : witnesses(before.I);
      if (SHAPE && g.m != 0 && kf("KF-C10-6")) { bool bad = false; for (size_t i = 0; i < m.size(); ++i) if ((inc && !cg_holds(g, m[i])) || (dis && cg_holds(g, m[i]))) bad = true; if (bad) { c.excluded("KF-C10-6"); break; } }
      if (BOX && g.m != 0 && kf("KF-C10-5")) { bool bad = false; for (size_t i = 0; i < m.size(); ++i) if ((inc && !cg_holds(g, m[i])) || (dis && cg_holds(g, m[i]))) bad = true; if (bad) { c.excluded("KF-C10-5"); break; } }
      for (size_t i = 0; i < m.size(); ++i) {
        if (inc) c.check("q.relation_with_congruence.included", cg_holds(g, m[i]), [&] { return "is_included claimed for " + str(g) + ", refuted by " + show_pt(m[i]) + ctx(); });
        if (dis) c.check("q.relation_with_congruence.disjoint", !cg_holds(g, m[i]), [&] { return "is_disjoint claimed for " + str(g) + ", refuted by " + show_pt(m[i]) + ctx(); }); }
      break; }
    case 10: { LE e(n); for (size_t j = 0; j < n; ++j) e.a[j] = t.range(-3, 3); long d = t.pick(std::vector<long>{1, 1, 2}); int kind = (int) t.weighted({70, 15, 15});
      if (kind > 0 && e.all_zero()) e.a[0] = 1;
      Generator g = kind == 0 ? Generator::point(e.ppl(), d) : kind == 1 ? Generator::ray(e.ppl()) : Generator::line(e.ppl());
      Poly_Gen_Relation r = p.relation_with(g); bool sub = r == Poly_Gen_Relation::subsumes(); what = "relation_with(g)";
      std::ostringstream gs; gs << g; c.log << "  ? relation_with " << gs.str() << " -> " << (sub ? "subsumes" : "nothing") << "\n";
      if (sub) { Vec v = e.vec();
        if (kind == 0) { for (size_t j = 0; j < n; ++j) v[j] /= Q(d); c.check("q.relation_with_generator.point", before.has(v), [&] { return "subsumes claimed for " + gs.str() + ctx(); }); }
        else if (!G && !iemp) { Vec mv(v); for (size_t j = 0; j < n; ++j) mv[j] = -mv[j];
          c.check("q.relation_with_generator.ray", ref::in_recession_cone(before.I, v) && (kind == 1 || ref::in_recession_cone(before.I, mv)), [&] { return "subsumes claimed for " + gs.str() + ctx(); }); } }
      break; }
    case 11: { LE e = small_le(n); bool maxi = t.chance(50); bool r = maxi ? p.bounds_from_above(e.ppl()) : p.bounds_from_below(e.ppl()); what = "bounds";
      c.log << "  ? bounds_from_" << (maxi ? "above " : "below ") << e.str() << " -> " << r << "\n";
      if (r && !G && !iemp) { Q v; bool at; c.check("q.bounds", maxi ? ref::sup(before.I, e.vec(), Q(e.b), v, at) : ref::inf(before.I, e.vec(), Q(e.b), v, at), [&] { return "bounds_from_" + std::string(maxi ? "above(" : "below(") + e.str() + ") true but unbounded on the intersection" + ctx(); }); }
      break; }
    case 12: case 13: case 14: { LE e = small_le(n);
      { const Sys& src = (G || t.chance(50)) ? before.b.sys : before.a.sys; if (!src.cs.empty() && t.chance(50)) { const Con& row = src.cs[t.range(0, (long) src.cs.size() - 1)]; bool integral = row.b.get_den() == 1; for (size_t j = 0; j < n; ++j) if (row.a[j].get_den() != 1) integral = false;
          if (integral) { int sg = t.chance(50) ? 1 : -1; for (size_t j = 0; j < n; ++j) e.a[j] = sg * row.a[j].get_num(); e.b = 0; } } }
      bool maxi = t.chance(50), withg = t.chance(50); what = maxi ? "maximize" : "minimize";
      Coefficient num, dn; bool mx = false; Generator g = Generator::zero_dim_point();
      bool r = withg ? (maxi ? p.maximize(e.ppl(), num, dn, mx, g) : p.minimize(e.ppl(), num, dn, mx, g)) : (maxi ? p.maximize(e.ppl(), num, dn, mx) : p.minimize(e.ppl(), num, dn, mx));
      c.log << "  ? " << what << " " << e.str() << " -> " << r; if (r) c.log << " " << num << "/" << dn << (mx ? " attained" : " not attained"); c.log << "\n";
      if (r) { Q got = mkq(mpz_class(num), mpz_class(dn));
        if (!G) { if (!iemp) { Q v; bool at; bool fin = maxi ? ref::sup(before.I, e.vec(), Q(e.b), v, at) : ref::inf(before.I, e.vec(), Q(e.b), v, at);
            c.check("q.optimize.bound", fin && (maxi ? v <= got : v >= got), [&] { return what + "(" + e.str() + ") = " + got.get_str() + " is not a bound of the intersection (exact " + (fin ? v.get_str() : std::string("unbounded")) + ")" + ctx(); }); } }
        else { Pts m = before.members(100000); for (size_t i = 0; i < m.size(); ++i) { Q v = le_eval(e, m[i]); c.check("q.optimize.bound", maxi ? v <= got : v >= got, [&] { return what + "(" + e.str() + ") = " + got.get_str() + " refuted by the point " + show_pt(m[i]) + ctx(); }); } }
        // when both components bound the expression the tighter bound is available and must be the one returned
        Snap now = snap(o.p, n); Q v1, v2; int b1 = comp_sup(now.a, e, maxi, v1), b2 = comp_sup(now.b, e, maxi, v2);
        if (b1 == 1 && b2 == 1 && v1 != v2) { c.tag("optimize: both components bounded, different bounds"); Q best = maxi ? std::min(v1, v2) : std::max(v1, v2);
          if (got != best && kf("KF-C10-2")) c.excluded("KF-C10-2");
          else c.check("q.optimize.tightest", got == best, [&] { return what + "(" + e.str() + ") = " + got.get_str() + " although the components give " + v1.get_str() + " and " + v2.get_str() + ": the looser bound was returned" + (mx ? " (and claimed to be attained)" : "") + "  [product " + now.show() + "]"; }); }
      }
      break; }
    case 15: { bool r = p.is_bounded(); what = "is_bounded"; c.log << "  ? is_bounded -> " << r << "\n";
      if (r) { if (!G) c.check("q.is_bounded", ref::is_bounded(before.I), [&] { return "is_bounded() true" + ctx(); });
        else { Snap now = snap(o.p, n); c.check("q.is_bounded", ref::is_bounded(now.b.sys) || now.a.g.empty || rl::dim(now.a.g) == 0, [&] { return "is_bounded() true but no component is bounded  [" + now.show() + "]"; }); } }
      break; }
    case 16: { int w = (int) t.range(0, 3); what = w == 0 ? "is_discrete" : w == 1 ? "is_topologically_closed" : w == 2 ? "affine_dimension" : "constrains";
      if (w == 0) { bool r = p.is_discrete(); c.log << "  ? is_discrete -> " << r << "\n"; if (r && !G) c.check("q.is_discrete", iemp || ref::affine_dim(before.I) == 0, [&] { return "is_discrete() true" + ctx(); }); }
      else if (w == 1) { bool r = p.is_topologically_closed(); c.log << "  ? is_topologically_closed -> " << r << "\n"; if (r && !G) c.check("q.is_topologically_closed", ref::is_closed(before.I), [&] { return "is_topologically_closed() true" + ctx(); }); }
      else if (w == 2) { size_t r = p.affine_dimension(); c.log << "  ? affine_dimension -> " << r << "\n"; if (!G && !iemp) c.check("q.affine_dimension", ref::affine_dim(before.I) <= r, [&] { return "affine_dimension() = " + std::to_string(r) + " is smaller than that of the intersection" + ctx(); }); }
      else { size_t k = t.range(0, (long) n - 1); bool r = p.constrains(Variable(k)); c.log << "  ? constrains x" << k << " -> " << r << "\n"; if (r && !G) c.check("q.constrains", ref::constrains(before.I, k), [&] { return "constrains(x" + std::to_string(k) + ") true" + ctx(); }); }
      break; }
    case 17: { what = "domain1/domain2"; bool first = t.chance(50); c.log << "  ? " << (first ? "domain1" : "domain2") << "\n";
      if (first) { const D1& d = p.domain1(); c.check("q.domain.ref", &d == &p.raw1(), "domain1() does not return the component"); } else { const D2& d = p.domain2(); c.check("q.domain.ref", &d == &p.raw2(), "domain2() does not return the component"); }
      break; }
    case 18: case 19: { bool mini = t.chance(50); what = mini ? "minimized_constraints" : "constraints"; Constraint_System cs = mini ? p.minimized_constraints() : p.constraints(); c.log << "  ? " << what << "\n";
      Sys sc = to_ref(cs, n);
      if (!G) c.check("q.constraints", ref::included(before.I, sc), [&] { return what + "() " + show_sys(sc) + " cut points of the intersection" + ctx(); });
      else { Pts m = before.members(100000); for (size_t i = 0; i < m.size(); ++i) c.check("q.constraints", sc.sat(m[i]), [&] { return what + "() " + show_sys(sc) + " cut the point " + show_pt(m[i]) + ctx(); }); }
      break; }
    case 20: { bool mini = t.chance(50); what = mini ? "minimized_congruences" : "congruences"; Congruence_System cgs = mini ? p.minimized_congruences() : p.congruences(); c.log << "  ? " << what << "\n";
      Pts m = G ? before.members(100000) : witnesses(before.I);
      for (Congruence_System::const_iterator i = cgs.begin(); i != cgs.end(); ++i) for (size_t k = 0; k < m.size(); ++k)
        c.check("q.congruences", ppl_cg_holds(*i, m[k]), [&] { std::ostringstream s; s << what << "(): " << *i << " excludes the point " << show_pt(m[k]) << ctx(); return s.str(); });
      break; }
    default: { what = "OK"; bool ok = p.OK(); c.log << "  ? OK -> " << ok << "\n"; (void) p.hash_code(); (void) p.total_memory_in_bytes();
      c.check("q.space_dimension", p.space_dimension() == n, "space_dimension() wrong");
      // The product's own OK() demands that reduce() be idempotent and that the `reduced' flag be exact; neither is part of C10 (a stale flag
      // only loses precision), and OK() is false after add_* calls that threw half-way, after transformers that keep the flag, and right
      // after a one-pass Constraints_Reduction: only the components' invariants are checked.
      if (!ok) c.tag(o.tainted ? "product OK() false after a throwing add_*" : o.stale ? "product OK() false after a flag-keeping transformer" : "product OK() false");
      c.check("q.components_OK", p.raw1().OK() && p.raw2().OK(), [&] { return std::string("a component fails its own OK()") + ctx(); }); break; }
    }
    shrink_only(what.c_str(), o);
  }

  // ------------------------------------------------------------ construction from a component domain / copies
  void rebuild(Obj& o) {
    size_t j = t.range(0, (long) pool.size() - 1); Obj& src = pool[j]; Snap bs = src.s; bool first = t.chance(50);
    if (t.chance(25)) {   // through a product with another reduction (converting constructor, both directions)
      c.log << "  obj" << (&o - &pool[0]) << " = Product(Direct_Product(obj" << j << "))\n";
      Partially_Reduced_Product<D1, D2, No_Reduction<D1, D2> > other(static_cast<const typename P::Base&>(src.p));
      P back(other); Snap ss = src.s; shrink_only("converting constructor (argument)", src); bs = ss;
      o.p.m_swap(back); o.n = src.n; o.tainted = false; o.stale = false; Snap after = snap(o.p, o.n); std::string ctx = "source " + bs.show();
      if (!G) { ref::Union E; E.push_back(bs.I); expect_pieces("from_product", after, E, ctx); } else expect_points("from_product", after, bs.members(100), ctx);
      o.s = after; return;
    }
    c.log << "  obj" << (&o - &pool[0]) << " = Product(" << (first ? "D1" : "D2") << " component of obj" << j << ")\n";
    P np = first ? P(src.p.raw1()) : P(src.p.raw2());
    o.p.m_swap(np); o.n = src.n; o.tainted = false; o.stale = false; Snap after = snap(o.p, o.n);
    const Comp& k = first ? bs.a : bs.b; std::string ctx = "component " + k.show();
    if (!k.grid) { if (!G) { ref::Union E; E.push_back(k.sys); expect_pieces("from_component", after, E, ctx); } else { Pts w = witnesses(k.sys); Pts keep; for (size_t i = 0; i < w.size(); ++i) keep.push_back(w[i]); expect_points("from_component", after, keep, ctx); } }
    else { Pts pts; const Pts& w = window(o.n); for (size_t i = 0; i < w.size(); ++i) if (bs.in1[i]) pts.push_back(w[i]); expect_points("from_component", after, pts, ctx); }
    o.s = after;
  }
  void copy_like(Obj& o) {
    size_t i = &o - &pool[0], j = t.range(0, (long) pool.size() - 1); int h = (int) t.range(0, 2);
    if (h == 0) { c.log << "  obj" << i << " = obj" << j << "\n"; o.p = pool[j].p; o.n = pool[j].n; o.tainted = pool[j].tainted; o.stale = pool[j].stale; }
    else if (h == 1) { c.log << "  swap obj" << i << " obj" << j << "\n"; if (i != j) { if (t.chance(50)) o.p.m_swap(pool[j].p); else { using std::swap; swap(static_cast<typename P::Base&>(o.p), static_cast<typename P::Base&>(pool[j].p)); } std::swap(o.n, pool[j].n); std::swap(o.tainted, pool[j].tainted); std::swap(o.stale, pool[j].stale); } }
    else { c.log << "  obj" << i << " = copy-constructed obj" << j << "\n"; P cp(pool[j].p); size_t nn = pool[j].n; o.p.m_swap(cp); o.n = nn; o.tainted = pool[j].tainted; o.stale = pool[j].stale; }
    Snap sj = pool[j].s, si = o.s;
    Snap after = snap(o.p, o.n);
    const Snap& expect = sj;
    c.check("op.copy", !comps_differ(after, expect) && after.flag == expect.flag, [&] { return "copy/assign/swap altered the product: " + expect.show() + " -> " + after.show(); });
    if (h == 1 && i != j) { Snap aj = snap(pool[j].p, pool[j].n); c.check("op.copy", !comps_differ(aj, si) && aj.flag == si.flag, [&] { return "swap altered the product: " + si.show() + " -> " + aj.show(); }); pool[j].s = aj; }
    o.s = after;
  }

  // ------------------------------------------------------------ main loop
  void run() {
    size_t n = (size_t) t.weighted({25, 45, 30}) + 1;        // dimension 1..3
    wit.resize(4); wit2.resize(4); for (size_t j = 0; j < 4; ++j) { wit[j] = t.range(-2, 2); wit2[j] = wit[j]; }
    { size_t j = t.range(0, (long) n - 1); wit2[j] += t.chance(50) ? 1 : -1; }
    c.log << "program " << name << " dim " << n << "\n"; c.tag("instance " + name);
    size_t k = (size_t) t.range(2, 3); pool.reserve(4);
    for (size_t i = 0; i < k; ++i) { c.log << " obj" << i << ":\n"; make_obj(n); }
    int steps = 0;
    while (!t.exhausted() && steps < 12) {
      ++steps; size_t i = t.range(0, (long) pool.size() - 1); Obj& o = pool[i];
      int what = t.weighted({45, 40, 8, 7});
      c.log << " step " << steps << " obj" << i << " " << o.s.show() << ":\n";
      if (what == 0) { int w = t.weighted({22, 14, 26, 20, 10, 8}); if (w == 0) t_constraints(o); else if (w == 1) t_congruences(o); else if (w == 2) t_binary(o); else if (w == 3) t_image(o); else if (w == 4) t_dims(o); else t_misc(o); }
      else if (what == 1) observe(o);
      else if (what == 2) copy_like(o);
      else rebuild(o);
      for (size_t w = 0; w < pool.size(); ++w) if (!pool[w].p.flag()) pool[w].stale = false;
      // non-triviality bookkeeping: the intersection is strictly smaller than both components
      const Snap& s = pool[i].s;
      if (!s.a.universe() && !s.b.universe()) {
        if (!G) { if (!ref::included(s.a.sys, s.b.sys) && !ref::included(s.b.sys, s.a.sys)) ++strict_inter; }
        else { bool only1 = false, only2 = false; for (size_t w = 0; w < s.in1.size(); ++w) { if (s.in1[w] && !s.in2[w]) only1 = true; if (s.in2[w] && !s.in1[w]) only2 = true; } if (only1 && only2) ++strict_inter; }
      }
    }
    c.log << " final:\n";
    for (size_t i = 0; i < pool.size(); ++i) { Obj& o = pool[i]; c.log << "  obj" << i << " " << o.s.show() << "\n"; (void) o.p.is_empty(); shrink_only("final is_empty", o); }
    // non-trivial: both components non-universe and (a reduction changed a component or the intersection is strictly smaller than both)
    if (changed_by_reduction > 0 || strict_inter > 0) c.nt();
    if (strict_inter > 0) c.tag("intersection strictly smaller than both components");
  }
};

template <typename D1, typename D2, typename R> static void run_instance(Ctx& c, const char* nm) { Prog<D1, D2, R> p(c, nm); p.run(); }

typedef BD_Shape<mpq_class> BDS; typedef Octagonal_Shape<mpq_class> OCT;
#define INST(D1, D2, RED) run_instance<D1, D2, RED<D1, D2> >(c, #D1 " x " #D2 " " #RED)

void vf_case(Ctx& c) {
#ifdef VF_FAST
  int k = (int) c.t.range(0, 1);
  switch (k) {
  case 0: INST(C_Polyhedron, BDS, Constraints_Reduction); break;
  default: INST(Grid, C_Polyhedron, Constraints_Reduction); break;
  }
#else
  int k = (int) c.t.range(0, 21);
  switch (k) {
  case 0: INST(C_Polyhedron, BDS, Constraints_Reduction); break;
  case 1: INST(C_Polyhedron, BDS, No_Reduction); break;
  case 2: INST(C_Polyhedron, BDS, Smash_Reduction); break;
  case 3: INST(C_Polyhedron, BDS, Congruences_Reduction); break;
  case 4: INST(C_Polyhedron, BDS, Shape_Preserving_Reduction); break;
  case 5: INST(NNC_Polyhedron, Rational_Box, Constraints_Reduction); break;
  case 6: INST(NNC_Polyhedron, Rational_Box, Smash_Reduction); break;
  case 7: INST(C_Polyhedron, OCT, Constraints_Reduction); break;
  case 8: INST(C_Polyhedron, OCT, Shape_Preserving_Reduction); break;
  case 9: INST(Grid, C_Polyhedron, No_Reduction); break;
  case 10: INST(Grid, C_Polyhedron, Smash_Reduction); break;
  case 11: INST(Grid, C_Polyhedron, Constraints_Reduction); break;
  case 12: INST(Grid, C_Polyhedron, Congruences_Reduction); break;
  case 13: INST(Grid, C_Polyhedron, Shape_Preserving_Reduction); break;
  case 14: INST(Grid, Rational_Box, Constraints_Reduction); break;
  case 15: INST(Grid, Rational_Box, Congruences_Reduction); break;
  case 16: INST(Grid, Rational_Box, Shape_Preserving_Reduction); break;
  case 17: INST(Grid, BDS, Constraints_Reduction); break;
  case 18: INST(Grid, BDS, Congruences_Reduction); break;
  case 19: INST(Grid, BDS, Shape_Preserving_Reduction); break;
  case 20: INST(Grid, NNC_Polyhedron, Constraints_Reduction); break;
  default: INST(Grid, NNC_Polyhedron, Shape_Preserving_Reduction); break;
  }
#endif
}
VF_MAIN

